/-
C07 — second batch of shorthand expanders of weasyprint/css/validation/expanders.py, modelled as the
generators they are (`Raw`: the items yielded in order, then how the iteration ends), on tokens abstracted to
the answers of the real single-token validators:

  expand_place_content / expand_place_items / expand_place_self   (always InvalidValues: "TODO" in the source)
  expand_line_clamp, expand_flex, expand_font,
  _expand_grid_column_row_area + expand_grid_column_row + expand_grid_area,
  _expand_grid_template + expand_grid_template, expand_grid,
  PendingExpander.validate (a shorthand containing var(): which value a longhand gets once substituted;
                            the whole shorthand is expanded before one longhand is picked)

Values are identified by token ids (`α`); a value made of several tokens is a list of ids.
No Mathlib, no Std: linked into the driver.
-/
import WpModel.Model.Wire
import WpModel.Model.Declarations

namespace Wp.Decl
open Wp

/-! ### place-content, place-items, place-self -/

/-- `raise InvalidValues` as the first statement. -/
def placeRaw {α : Type} : Raw α := { items := [], ends := some .invalid }

/-! ### `expand_line_clamp` -/

/-- What `expand_line_clamp` reads of a token. -/
structure ClampTok (α : Type) where
  isNone : Bool            -- get_keyword(token) == 'none'
  isNumber : Bool          -- token.type == 'number'
  intValue : Option Int    -- token.int_value (None for a non-integer number or another token)
  ellipsisOk : Bool        -- block_ellipsis([token]) is not None
  tok : α
  deriving Repr, BEq, DecidableEq

/-- `noneTok`, `autoTok`, `discardTok`: the synthesised ident tokens. -/
def lineClampRaw {α : Type} (noneTok autoTok discardTok : α) : List (ClampTok α) → Raw α
  | [t] =>
    if t.isNone then
      { items := [("max-lines", noneTok), ("continue", autoTok), ("block-ellipsis", noneTok)], ends := none }
    else if t.isNumber && t.intValue.isSome then
      { items := [("max-lines", t.tok), ("continue", discardTok), ("block-ellipsis", autoTok)], ends := none }
    else { items := [], ends := some .invalid }
  | [a, b] =>
    if a.isNumber then
      -- `if max_lines and ellipsis is not None`: a zero or non-integer line count is falsy
      let truthy := match a.intValue with | some n => n != 0 | none => false
      if truthy && b.ellipsisOk then
        { items := [("max-lines", a.tok), ("continue", discardTok), ("block-ellipsis", b.tok)], ends := none }
      else { items := [], ends := some .invalid }
    else { items := [], ends := some .invalid }
  | _ => { items := [], ends := some .invalid }

/-! ### `expand_flex` -/

/-- What `expand_flex` reads of a token. -/
structure FlexTok where
  isZeroNumber : Bool       -- token.type == 'number' and token.value == 0  (`0`, `0.0`, `-0`, `0e3`: any zero)
  basisOk : Bool            -- flex_basis([token]) is not None
  factor : Option Rat       -- flex_grow_shrink([token])
  id : String
  deriving Repr, BEq, DecidableEq

structure FlexState where
  grow : Rat := 1
  shrink : Rat := 1
  basis : Option String := none     -- id of the basis token
  growFound : Bool := false
  shrinkFound : Bool := false
  basisFound : Bool := false
  deriving Repr, BEq, DecidableEq

/-- The `for token in tokens:` loop; `none` = InvalidValues. -/
def flexLoop : List FlexTok → FlexState → Option FlexState
  | [], st => some st
  | t :: rest, st =>
    let forced := t.isZeroNumber && !(st.growFound && st.shrinkFound)
    if !st.basisFound && !forced && t.basisOk then
      flexLoop rest { st with basis := some t.id, basisFound := true }
    else if !st.growFound then
      match t.factor with
      | none => none
      | some g => flexLoop rest { st with grow := g, growFound := true }
    else if !st.shrinkFound then
      match t.factor with
      | none => none
      | some s => flexLoop rest { st with shrink := s, shrinkFound := true }
    else none

/-- `expand_flex(tokens, name)`. Value ids: `numId q` for the synthesised `NumberToken` of value `q`,
`zeroPx` for the default basis `0px`, `autoTok` for `auto`. -/
def flexRaw (singleKwNone : Bool) (numId : Rat → String) (zeroPx autoTok : String) (toks : List FlexTok) :
    Raw String :=
  if singleKwNone then
    { items := [("-grow", numId 0), ("-shrink", numId 0), ("-basis", autoTok)], ends := none }
  else
    match flexLoop toks {} with
    | none => { items := [], ends := some .invalid }
    | some st =>
      { items := [("-grow", numId st.grow), ("-shrink", numId st.shrink), ("-basis", st.basis.getD zeroPx)],
        ends := none }

/-! ### `expand_font` -/

/-- What `expand_font` reads of a token (each validator called on the one-token list). -/
structure FontTok (α : Type) where
  isNormal : Bool        -- get_keyword(token) == 'normal'
  isStyle : Bool         -- font_style([token]) is not None
  isCaps : Bool          -- font_variant_caps([token]) is not None
  isWeight : Bool        -- font_weight([token]) is not None
  isStretch : Bool       -- font_stretch([token]) is not None
  isSize : Bool          -- font_size([token]) is not None
  isSlash : Bool         -- literal '/'
  isLineHeight : Bool    -- line_height([token]) is not None
  tok : α
  deriving Repr, BEq, DecidableEq

/-- The `if / elif` chain of the first loop. -/
def fontClass {α : Type} (t : FontTok α) : Option String :=
  if t.isStyle then some "-style"
  else if t.isCaps then some "-variant-caps"
  else if t.isWeight then some "-weight"
  else if t.isStretch then some "-stretch"
  else none

/-- `for _ in range(4): … else: …` — `n` turns left. `.error acc`: InvalidValues after yielding `acc`;
`.ok (token, remaining, acc)`: the token that must be the font size. -/
def fontLoop {α : Type} : Nat → List (FontTok α) → List (String × List α) →
    Except (List (String × List α)) (FontTok α × List (FontTok α) × List (String × List α))
  | 0, toks, acc =>
    match toks with
    | [] => .error acc
    | t :: rest => .ok (t, rest, acc)
  | n + 1, toks, acc =>
    match toks with
    | [] => .error acc
    | t :: rest =>
      if t.isNormal then fontLoop n rest acc
      else match fontClass t with
        | some suffix =>
          let acc := acc ++ [(suffix, [t.tok])]
          if rest.isEmpty then .error acc else fontLoop n rest acc
        | none => .ok (t, rest, acc)

/-- `expand_font(tokens, name)`. `systemFont`: the single keyword is one of the system fonts;
`familyOk rest` = `font_family(rest) is not None` for the remaining tokens. -/
def fontRaw {α : Type} (systemFont : Bool) (familyOk : List (FontTok α) → Bool) (toks : List (FontTok α)) :
    Raw (List α) :=
  if systemFont then { items := [], ends := some .invalid }
  else
    match fontLoop 4 toks [] with
    | .error acc => { items := acc, ends := some .invalid }
    | .ok (size, rest, acc) =>
      if !size.isSize then { items := acc, ends := some .invalid }
      else
        let acc := acc ++ [("-size", [size.tok])]
        match rest with
        | [] => { items := acc, ends := some .invalid }
        | t :: rest' =>
          if t.isSlash then
            match rest' with
            | [] => { items := acc, ends := some .invalid }
            | lh :: fam =>
              if !lh.isLineHeight then { items := acc, ends := some .invalid }
              else
                let acc := acc ++ [("line-height", [lh.tok])]
                if !familyOk fam then { items := acc, ends := some .invalid }
                else { items := acc ++ [("-family", fam.map (·.tok))], ends := none }
          else
            if !familyOk rest then { items := acc, ends := some .invalid }
            else { items := acc ++ [("-family", rest.map (·.tok))], ends := none }

/-! ### grid-row, grid-column, grid-area -/

/-- Split a token list on '/' literals (`none` = the slash). -/
def splitSlash {α : Type} : List (Option α) → List (List α)
  | [] => [[]]
  | none :: rest => [] :: splitSlash rest
  | some a :: rest =>
    match splitSlash rest with
    | [] => [[a]]          -- unreachable
    | seg :: segs => (a :: seg) :: segs

/-- One '/'-separated part of the value with what `grid_line` says of it. -/
structure GridLine (α : Type) where
  ok : Bool          -- bool(grid_line(tokens))
  custom : Bool      -- set(validation[:2]) == {None}: a lone custom identifier
  toks : List α
  deriving Repr, BEq, DecidableEq

/-- The validation loop: yields the lines until one is refused. -/
def gridLinesLoop {α : Type} : List (GridLine α) → List (List α) → Except (List (List α)) (List (List α))
  | [], acc => .ok acc
  | l :: rest, acc => if l.ok then gridLinesLoop rest (acc ++ [l.toks]) else .error acc

/-- `_expand_grid_column_row_area(tokens, max_number)`: the values in the order they are yielded, then how the
generator ends. `autoTok`: the synthesised `(auto,)`. -/
def gridAreaValues {α : Type} (maxNumber : Nat) (autoTok : List α) (lines : List (GridLine α)) :
    List (List α) × Option Fail :=
  if !(1 ≤ lines.length && lines.length ≤ maxNumber) then ([], some .invalid)
  else
    match gridLinesLoop lines [] with
    | .error acc => (acc, some .invalid)
    | .ok acc =>
      let dflt (l : Option (GridLine α)) : List α :=
        match l with
        | some l => if l.custom then l.toks else autoTok
        | none => autoTok
      let n := lines.length
      let l0 := lines[0]?
      -- lines <= 1: grid_lines.append(last line = first line), validations.append(validations[0])
      let l1 := if n ≤ 1 then l0 else lines[1]?
      let acc := if n ≤ 1 then acc ++ [dflt l0] else acc
      let acc := if n ≤ 2 && 2 < maxNumber then acc ++ [dflt l0] else acc
      let acc := if n ≤ 3 && 3 < maxNumber then acc ++ [dflt l1] else acc
      (acc, none)

/-- `zip(tokens_list, sides)` of `expand_grid_column_row` / `expand_grid_area`. -/
def gridZip {α : Type} (sides : List String) (vals : List (List α) × Option Fail) : Raw (List α) :=
  { items := sides.zip vals.1,
    ends := if vals.1.length < sides.length then vals.2 else none }

def gridColumnRowRaw {α : Type} (autoTok : List α) (lines : List (GridLine α)) : Raw (List α) :=
  gridZip ["-start", "-end"] (gridAreaValues 2 autoTok lines)

def gridAreaRaw {α : Type} (autoTok : List α) (lines : List (GridLine α)) : Raw (List α) :=
  gridZip ["grid-row-start", "grid-column-start", "grid-row-end", "grid-column-end"]
    (gridAreaValues 4 autoTok lines)

/-! ### grid-template, grid -/

/-- A '/'-separated part with `bool(grid_template(part))`. -/
structure TrackPart (α : Type) where
  ok : Bool
  toks : List α
  deriving Repr, BEq, DecidableEq

/-- `_expand_grid_template(tokens, name)`. `singleNone`: one token, the keyword `none`. -/
def gridTemplateRaw {α : Type} (singleNone : Bool) (noneTok : List α) (parts : List (TrackPart α)) :
    Raw (List α) :=
  if singleNone then
    { items := [("-columns", noneTok), ("-rows", noneTok), ("-areas", noneTok)], ends := none }
  else
    match parts with
    | [rows, columns] =>
      if columns.ok && rows.ok then
        { items := [("-columns", columns.toks), ("-rows", rows.toks), ("-areas", noneTok)], ends := none }
      else { items := [], ends := some .invalid }     -- also the "TODO: handle last syntax" fall-through
    | _ => { items := [], ends := some .invalid }

/-- What `expand_grid` reads of a token of one side of the '/'. -/
structure GridTok (α : Type) where
  isDense : Bool        -- get_keyword(token) == 'dense'
  isAutoFlow : Bool     -- get_keyword(token) == 'auto-flow'
  isLast : Bool         -- token == tokens[-1]
  tok : α
  deriving Repr, BEq, DecidableEq

structure GridState (α : Type) where
  autoTrack : Option Bool := none     -- some true = 'row', some false = 'column'
  dense : Option α := none
  rowTpl : List α := []
  colTpl : List α := []

/-- The inner loop over one side (`isRow`: which track it describes). -/
def gridSideLoop {α : Type} (isRow : Bool) : List (GridTok α) → Bool → GridState α → Option (GridState α)
  | [], _, st => some st
  | t :: rest, autoFlowSeen, st =>
    let other := match st.autoTrack with | some tr => tr != isRow | none => false
    if t.isDense then
      if st.dense.isSome || other then none
      else gridSideLoop isRow rest autoFlowSeen { st with dense := some t.tok, autoTrack := some isRow }
    else if t.isAutoFlow then
      if autoFlowSeen || other then none
      else gridSideLoop isRow rest true { st with autoTrack := some isRow }
    else if t.isLast then
      gridSideLoop isRow rest autoFlowSeen
        (if isRow then { st with rowTpl := st.rowTpl ++ [t.tok] } else { st with colTpl := st.colTpl ++ [t.tok] })
    else none

/-- `expand_grid(tokens, name)`. `template`: the raw of `_expand_grid_template` on the same tokens. -/
def gridRaw {α : Type} (template : Raw (List α)) (autoTok noneTok rowTok columnTok : α)
    (sides : List (List (GridTok α))) : Raw (List α) :=
  match template.ends with
  | none =>
    -- `yield f'-template-{key.split("-")[-1]}', value` for each, then the three auto-* resets
    { items := template.items.map (fun (k, v) => ("-template" ++ k, v)) ++
        [("-auto-columns", [autoTok]), ("-auto-rows", [autoTok]), ("-auto-flow", [rowTok])],
      ends := none }
  | some .invalid =>
    match sides with
    | [rowSide, colSide] =>
      match gridSideLoop true rowSide false {} with
      | none => { items := [], ends := some .invalid }
      | some st =>
        match gridSideLoop false colSide false st with
        | none => { items := [], ends := some .invalid }
        | some st =>
          match st.autoTrack with
          | none => { items := [], ends := some .invalid }
          | some isRow =>
            let trackTok := if isRow then rowTok else columnTok
            let flow := match st.dense with | some d => [trackTok, d] | none => [trackTok]
            let (autoName, nonName) := if isRow then ("rows", "columns") else ("columns", "rows")
            let (autoTpl, nonTpl) := if isRow then (st.rowTpl, st.colTpl) else (st.colTpl, st.rowTpl)
            { items := [("-auto-flow", flow), ("-auto-" ++ autoName, autoTpl), ("-auto-" ++ nonName, [autoTok]),
                        ("-template-" ++ autoName, [noneTok]), ("-template-" ++ nonName, nonTpl),
                        ("-template-areas", [noneTok])],
              ends := none }
    | _ => { items := [], ends := some .invalid }
  | some f => { items := [], ends := some f }

/-! ### `PendingExpander.validate`: a shorthand with var(), once substituted -/

/-- `list(expander(tokens))`: what the funnel gets out of a *literal* shorthand declaration — all the items, or
the exception that ended the expansion. -/
def Raw.consumed {β : Type} (gen : Raw β) : R (List (String × β)) :=
  match gen.ends with
  | some f => .error f
  | none => .ok gen.items

/-- `PendingExpander.validate(tokens, wanted_key)`: `for key, value in tuple(self.validator(tokens))` — the
registered expander is run **to its end** on the substituted tokens first (`gen`: what it yields, then how it
ends): an exception raised anywhere in the expansion (`InvalidValues` for a later longhand included) leaves
`validate` before any item is looked at.  Then suffix keys are renamed and the first `wanted_key` is returned;
`KeyError` when the expansion does not name it. -/
def pendingExpanderValidate {β : Type} (name : String) (gen : Raw β) (wanted : String) : R β :=
  match gen.ends with
  | some f => throw f          -- raised inside `tuple(...)`
  | none => go gen.items
where
  go : List (String × β) → R β
    | [] => throw .keyError
    | (k, v) :: rest =>
      let key := if startsWith k "-" then name ++ k else k
      if key == wanted then pure v else go rest

end Wp.Decl

namespace Wp.Decl
open Wp

/-! ### `expand_border_image`, `expand_mask_border` -/

/-- What the two expanders ask about the token list (tokens are positions `0 … n-1`):
single-token tests at a position, and multi-token validators on a slice `[i, j)`. -/
structure ImageOracle where
  n : Nat
  sourceOk : Nat → Bool          -- bool(border_image_source(tokens[i:i+1], base_url))
  modeOk : Nat → Bool            -- bool(mask_border_mode(tokens[i:i+1]))
  repeatOk : Nat → Bool          -- bool(border_image_repeat(tokens[i:i+1]))
  isFill : Nat → Bool            -- get_keyword(tokens[i]) == 'fill'
  isSlash : Nat → Bool           -- literal '/'
  sliceOk : Nat → Nat → Bool     -- bool(border_image_slice(tokens[i:j]))
  widthOk : Nat → Nat → Bool     -- bool(border_image_width(tokens[i:j]))
  outsetOk : Nat → Nat → Bool    -- bool(border_image_outset(tokens[i:j]))

/-- `while tokens and ok(acc + tokens[:1]): acc.append(tokens.pop(0))` from `acc = tokens[i:j]`: the final `j`. -/
def extendWhile (n : Nat) (ok : Nat → Nat → Bool) (i : Nat) : Nat → Nat → Nat
  | 0, j => j
  | fuel + 1, j => if j < n && ok i (j + 1) then extendWhile n ok i fuel (j + 1) else j

/-- `while tokens and border_image_repeat(tokens[:1])`: each next token tested alone. -/
def extendRepeat (n : Nat) (ok : Nat → Bool) : Nat → Nat → Nat
  | 0, j => j
  | fuel + 1, j => if j < n && ok j then extendRepeat n ok fuel (j + 1) else j

def idRange (i j : Nat) : List String := (List.range (j - i)).map fun k => "t" ++ toString (i + k)

/-- The `while tokens:` loop from position `p`; `withMode`: the `mask-border` variant.
Yields `(suffix, token ids)`; `.error acc` = InvalidValues after yielding `acc`. -/
def imageLoop (o : ImageOracle) (withMode : Bool) : Nat → Nat → List (String × List String) →
    Except (List (String × List String)) (List (String × List String))
  | 0, _, acc => .ok acc
  | fuel + 1, p, acc =>
    if p ≥ o.n then .ok acc
    else if o.sourceOk p then imageLoop o withMode fuel (p + 1) (acc ++ [("-source", idRange p (p + 1))])
    else if withMode && o.modeOk p then imageLoop o withMode fuel (p + 1) (acc ++ [("-mode", idRange p (p + 1))])
    else if o.repeatOk p then
      let j := extendRepeat o.n o.repeatOk o.n (p + 1)
      imageLoop o withMode fuel j (acc ++ [("-repeat", idRange p j)])
    else if o.sliceOk p (p + 1) || o.isFill p then
      let j := extendWhile o.n o.sliceOk p o.n (p + 1)
      let acc := acc ++ [("-slice", idRange p j)]
      if !(j < o.n && o.isSlash j) then imageLoop o withMode fuel j acc            -- "slices other": continue
      else
        let q := j + 1                                                              -- "slices / *"
        if q ≥ o.n then .error acc                                                  -- "slices /"
        else
          -- widths
          let afterWidth : Option (Nat × List (String × List String) × Bool) :=
            if o.widthOk q (q + 1) then
              let k := extendWhile o.n o.widthOk q o.n (q + 1)
              let acc := acc ++ [("-width", idRange q k)]
              if k < o.n && o.isSlash k then some (k + 1, acc, true)                -- "slices / widths / *"
              else some (k, acc, false)                                             -- "slices / widths other": continue
            else if o.isSlash q then some (q + 1, acc, true)                        -- "slices / / *"
            else none                                                               -- "slices / other"
          match afterWidth with
          | none => .error acc
          | some (r, acc, false) => imageLoop o withMode fuel r acc
          | some (r, acc, true) =>
            if r ≥ o.n then .error acc                                              -- "slices / * /"
            else if o.outsetOk r (r + 1) then
              let k := extendWhile o.n o.outsetOk r o.n (r + 1)
              imageLoop o withMode fuel k (acc ++ [("-outset", idRange r k)])
            else .error acc
    else .error acc

/-- `expand_border_image` / `expand_mask_border` as generators. -/
def borderImageRaw (o : ImageOracle) (withMode : Bool) : Raw (List String) :=
  match imageLoop o withMode (o.n + 1) 0 [] with
  | .ok acc => { items := acc, ends := none }
  | .error acc => { items := acc, ends := some .invalid }

end Wp.Decl

namespace Wp.Decl
open Wp

/-! ### `expand_background` -/

/-- What `parse_layer` asks about the tokens of one layer (positions `0 … n-1`); each answer is the validated
value (an opaque atom) or `none` for Python `None`. -/
structure BgOracle where
  n : Nat
  repeatFirst : Nat → Option String     -- background_repeat.single_value(tokens[p:p+2])
  repeatOne : Nat → Option String       -- background_repeat.single_value(tokens[p:p+1])
  color : Nat → Option String           -- other_colors(tokens[p:p+1])
  image : Nat → Option String           -- background_image.single_value(tokens[p:p+1], base_url)
  attachment : Nat → Option String      -- background_attachment.single_value(tokens[p:p+1])
  position : Nat → Nat → Option String  -- background_position.single_value(tokens[p:p+len])
  size : Nat → Nat → Option String      -- background_size.single_value(tokens[p:p+len]) (empty slice when out of range)
  box : Nat → Option String             -- box.single_value(tokens[p:p+1])
  isSlash : Nat → Bool

abbrev BgResults := List (String × String)

/-- The local `add(name, value)`: `none` = raises InvalidValues (already set); `some (results, added)`. -/
def bgAdd (results : BgResults) (name : String) (value : Option String) : Option (BgResults × Bool) :=
  match value with
  | none => some (results, false)
  | some v =>
    if (results.lookup ("background-" ++ name)).isSome then none
    else some (results ++ [("background-" ++ name, v)], true)

/-- `for n in (4, 3, 2, 1)[-len(tokens):]`: the first length for which a position parses. -/
def bgFindPosition (o : BgOracle) (p : Nat) : List Nat → Option (Nat × String)
  | [] => none
  | len :: rest =>
    if len ≤ o.n - p then
      match o.position p len with
      | some v => some (len, v)
      | none => bgFindPosition o p rest
    else bgFindPosition o p rest

/-- `parse_layer`'s `while tokens:` loop from position `p`; `none` = InvalidValues. -/
def bgLoop (o : BgOracle) (finalLayer : Bool) : Nat → Nat → BgResults → Option BgResults
  | 0, _, res => some res
  | fuel + 1, p, res =>
    if p ≥ o.n then some res
    else
      match bgAdd res "repeat" (o.repeatFirst p) with
      | none => none
      | some (res, true) => bgLoop o finalLayer fuel (min (p + 2) o.n) res
      | some (res, false) =>
      match (if finalLayer then bgAdd res "color" (o.color p) else some (res, false)) with
      | none => none
      | some (res, true) => bgLoop o finalLayer fuel (p + 1) res
      | some (res, false) =>
      match bgAdd res "image" (o.image p) with
      | none => none
      | some (res, true) => bgLoop o finalLayer fuel (p + 1) res
      | some (res, false) =>
      match bgAdd res "repeat" (o.repeatOne p) with
      | none => none
      | some (res, true) => bgLoop o finalLayer fuel (p + 1) res
      | some (res, false) =>
      match bgAdd res "attachment" (o.attachment p) with
      | none => none
      | some (res, true) => bgLoop o finalLayer fuel (p + 1) res
      | some (res, false) =>
      match bgFindPosition o p [4, 3, 2, 1] with
      | some (len, v) =>
        match bgAdd res "position" (some v) with
        | none => none
        | some (res, _) =>
          let p := p + len
          if p < o.n && o.isSlash p then
            -- for n in (3, 2)[-len(tokens):]: size on tokens[-n:-1]
            let remaining := o.n - p
            let try3 : Option (BgResults × Nat) :=
              if remaining ≥ 2 then
                match bgAdd res "size" (o.size (p + 1) 2) with
                | none => none
                | some (res, true) => some (res, p + 3)
                | some (res, false) => some (res, p)
              else some (res, p)
            match try3 with
            | none => none
            | some (res, p') =>
              -- second turn (n = 2): one token after the current top of the stack
              let slice : Option String :=
                if o.n - p' ≥ 2 then o.size (p' + 1) 1 else if o.n - p' ≥ 1 then o.size o.n 0 else o.size o.n 0
              match bgAdd res "size" slice with
              | none => none
              | some (res, true) => bgLoop o finalLayer fuel (p' + 2) res
              | some (res, false) => bgLoop o finalLayer fuel p' res
          else bgLoop o finalLayer fuel p res
      | none =>
        match bgAdd res "origin" (o.box p) with
        | none => none
        | some (res, true) =>
          match bgAdd res "clip" (if p + 1 < o.n then o.box (p + 1) else none) with
          | none => none
          | some (res, true) => bgLoop o finalLayer fuel (p + 2) res
          | some (res, false) =>
            match bgAdd res "clip" (o.box p) with
            | none => none
            | some (res, _) => bgLoop o finalLayer fuel (p + 1) res
        | some (_, false) => none

def bgNames : List String :=
  ["background-color", "background-image", "background-repeat", "background-attachment", "background-position",
   "background-size", "background-clip", "background-origin"]

/-- `parse_layer(tokens, final_layer)`: `(color, results)` with the missing longhands filled with the first
initial value (`initial name`), in `expanded_names` order after the parsed ones; `none` = InvalidValues. -/
def bgLayer (o : BgOracle) (finalLayer : Bool) (initial : String → String) : Option (String × BgResults) :=
  match bgLoop o finalLayer (o.n + 1) 0 [] with
  | none => none
  | some res =>
    let color := (res.lookup "background-color").getD (initial "background-color")
    let res := res.filter fun (k, _) => k != "background-color"
    let missing := bgNames.filter fun n => n != "background-color" && (res.lookup n).isNone
    some (color, res ++ missing.map fun n => (n, initial n))

/-- `expand_background` on the comma-separated layers (in source order): names in the insertion order of the
*last* layer, each with its per-layer values in source order, then `background-color`. -/
def backgroundExpand (layers : List BgOracle) (initial : String → String) :
    Option (List (String × List String) × String) :=
  match layers.reverse with
  | [] => none
  | last :: others =>
    match bgLayer last true initial with
    | none => none
    | some (color, lastRes) =>
      let rec collect : List BgOracle → Option (List BgResults)
        | [] => some []
        | o :: rest =>
          match bgLayer o false initial, collect rest with
          | some (_, r), some rs => some (r :: rs)
          | _, _ => none
      match collect others with
      | none => none
      | some otherRes =>
        -- results[name] = [last] ++ [others in reverse source order]; yielded reversed
        some (lastRes.map (fun (name, v) =>
          (name, ((v :: otherRes.map fun r => (r.lookup name).getD "?").reverse))), color)

end Wp.Decl
