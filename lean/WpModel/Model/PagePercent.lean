/-
Percentages of page boxes and margin boxes: mirror of weasyprint/layout/percent.py
  `percentage`, `resolve_one_percentage` (with the `min_*: auto → 0` rule), `resolve_percentages`
  for a definite containing block (a `(width, height)` tuple such as `page.style['size']` and the margin /
  corner areas of `make_margin_boxes`, or a box with numeric `width` / `height`), and `adjust_box_sizing`.
The branch `cb_height == 'auto'` (containing block whose height depends on its content) never runs for a
page box or a margin box; it is modelled too (`resolvePercentagesAutoHeight`) so that the whole function is covered.
`isPage` is `isinstance(box, boxes.PageBox)`: the only thing that decides whether the vertical margins and
paddings refer to the containing block's height (`maybe_height = cb_height`, css-page-3) or, like for every
other box, to its width (CSS 2.1 §8.3 / §8.4).
`Model/PageBoxes.makePageBox` / `makeBox` inline the same resolution for the properties the page algorithms
read; `Props/C14Percent.lean` proves that they agree with this function.
No Mathlib, no Std: linked into the compiled driver.
-/
import WpModel.Model.PageBoxes

namespace Wp.PagePercent
open Wp Wp.PageBoxes

/-- A computed `max-width` / `max-height`: `none` is the initial `inf px`. -/
inductive MaxDim where
  | inf
  | px (v : Rat)
  | pct (v : Rat)
  deriving Repr, BEq, DecidableEq, Inhabited

/-- `percentage(value, refer_to)` on a max value; `none` = `inf`.  (`inf * v / 100` is not modelled: a
percentage of an infinite reference never occurs for a definite containing block.) -/
def MaxDim.resolve (d : MaxDim) (referTo : Rat) : Option Rat :=
  match d with
  | .inf => none
  | .px v => some v
  | .pct v => some (referTo * v / 100)

inductive BoxSizing where
  | contentBox | paddingBox | borderBox
  deriving Repr, BEq, DecidableEq, Inhabited

/-- The computed values read by `resolve_percentages`. -/
structure CStyle where
  ml : Dim
  mr : Dim
  mt : Dim
  mb : Dim
  pl : Dim
  pr : Dim
  pt : Dim
  pb : Dim
  width : Dim
  height : Dim
  minW : Dim
  minH : Dim
  maxW : MaxDim
  maxH : MaxDim
  bt : Rat
  br : Rat
  bb : Rat
  bl : Rat
  sizing : BoxSizing := .contentBox
  deriving Repr, BEq, Inhabited

/-- The used values set as attributes of the box (`'auto'` is `none`; `max_*`: `none` is `inf`). -/
structure Used where
  ml : Len
  mr : Len
  mt : Len
  mb : Len
  pl : Len
  pr : Len
  pt : Len
  pb : Len
  width : Len
  height : Len
  minW : Rat
  minH : Rat
  maxW : Option Rat
  maxH : Option Rat
  bt : Rat
  br : Rat
  bb : Rat
  bl : Rat
  deriving Repr, BEq, DecidableEq, Inhabited

/-- `resolve_one_percentage` for `min_width` / `min_height`: `'auto'` becomes 0. -/
def resolveMinDim (d : Dim) (referTo : Rat) : Rat :=
  match d.resolve referTo with
  | none => 0
  | some v => v

/-- `maybe_height`: `cb_height` for a `PageBox`, `cb_width` for any other box. -/
def maybeHeight (isPage : Bool) (cbW cbH : Rat) : Rat := if isPage then cbH else cbW

/-- `max(0, x - delta)`. -/
def shrink (x delta : Rat) : Rat := max 0 (x - delta)

/-- The `delta` of `adjust_box_sizing(box, axis)` from the two paddings and the two border widths of the
axis.  A padding still `'auto'` here would be a `TypeError` in Python; computed paddings are never `'auto'`
(validation), such a value reads 0. -/
def sizingDelta (sz : BoxSizing) (pa pb : Len) (ba bb : Rat) : Rat :=
  match sz with
  | .borderBox => numOr0 pa + numOr0 pb + ba + bb
  | .paddingBox => numOr0 pa + numOr0 pb
  | .contentBox => 0

/-- `adjust_box_sizing` on one axis: `(size, min, max)`. -/
def adjustAxis (delta : Rat) (size : Len) (mn : Rat) (mx : Option Rat) : Len × Rat × Option Rat :=
  if delta > 0 then
    (size.map (fun v => shrink v delta), shrink mn delta, mx.map (fun v => shrink v delta))
  else (size, mn, mx)

/-- `resolve_percentages(box, (cb_width, cb_height))`. -/
def resolvePercentages (isPage : Bool) (s : CStyle) (cbW cbH : Rat) : Used :=
  let mh := maybeHeight isPage cbW cbH
  let pl := s.pl.resolve cbW
  let pr := s.pr.resolve cbW
  let pt := s.pt.resolve mh
  let pb := s.pb.resolve mh
  let (w, minW, maxW) := adjustAxis (sizingDelta s.sizing pl pr s.bl s.br)
    (s.width.resolve cbW) (resolveMinDim s.minW cbW) (s.maxW.resolve cbW)
  let (h, minH, maxH) := adjustAxis (sizingDelta s.sizing pt pb s.bt s.bb)
    (s.height.resolve cbH) (resolveMinDim s.minH cbH) (s.maxH.resolve cbH)
  { ml := s.ml.resolve cbW, mr := s.mr.resolve cbW, mt := s.mt.resolve mh, mb := s.mb.resolve mh
    pl := pl, pr := pr, pt := pt, pb := pb
    width := w, height := h, minW := minW, minH := minH, maxW := maxW, maxH := maxH
    bt := s.bt, br := s.br, bb := s.bb, bl := s.bl }

/-! ## `cb_height == 'auto'` -/

/-- A used `max-height` when the containing block's height is indefinite: `percentage(value, inf)` is
`inf * v / 100`, which is `inf` for `v > 0` and the float `nan` for `0%`. -/
inductive MaxUsed where
  | inf
  | num (v : Rat)
  | nan
  deriving Repr, BEq, DecidableEq, Inhabited

/-- `resolve_one_percentage(box, 'max_height', inf)`. -/
def MaxDim.resolveInf : MaxDim → MaxUsed
  | .inf => .inf
  | .px v => .num v
  | .pct v => if v = 0 then .nan else .inf     -- (negative percentages are rejected by the validator)

/-- `max(0, max_height - delta)` of `adjust_box_sizing` (Python `max(0, nan)` is `0`: the comparison is false). -/
def MaxUsed.shrink (m : MaxUsed) (delta : Rat) : MaxUsed :=
  match m with
  | .inf => .inf
  | .num v => .num (PagePercent.shrink v delta)
  | .nan => .num 0

/-- The used values with an indefinite containing-block height. -/
structure UsedAuto where
  base : Used            -- `maxH` of `base` is not meaningful here (kept `none`)
  maxH : MaxUsed
  deriving Repr, BEq, DecidableEq, Inhabited

/-- `resolve_percentages(box, (cb_width, 'auto'))`: `height` is `'auto'` unless it is a length, `min_height`
percentages resolve against 0, `max_height` percentages against `inf`. -/
def resolvePercentagesAutoHeight (isPage : Bool) (s : CStyle) (cbW : Rat) : UsedAuto :=
  -- `maybe_height` is `cb_height = 'auto'` for a page box: `percentage('auto' * v / 100)` would be a `TypeError`;
  -- a page box never has an indefinite containing block, the model reads the width there like for other boxes
  let mh := cbW
  let _ := isPage
  let pl := s.pl.resolve cbW
  let pr := s.pr.resolve cbW
  let pt := s.pt.resolve mh
  let pb := s.pb.resolve mh
  let (w, minW, maxW) := adjustAxis (sizingDelta s.sizing pl pr s.bl s.br)
    (s.width.resolve cbW) (resolveMinDim s.minW cbW) (s.maxW.resolve cbW)
  let height : Len := match s.height with | .px v => some v | _ => none
  let deltaH := sizingDelta s.sizing pt pb s.bt s.bb
  let minH0 := resolveMinDim s.minH 0
  let maxH0 := s.maxH.resolveInf
  let (h, minH, maxH) : Len × Rat × MaxUsed :=
    if deltaH > 0 then (height.map (fun v => shrink v deltaH), shrink minH0 deltaH, maxH0.shrink deltaH)
    else (height, minH0, maxH0)
  { base := { ml := s.ml.resolve cbW, mr := s.mr.resolve cbW, mt := s.mt.resolve mh, mb := s.mb.resolve mh
              pl := pl, pr := pr, pt := pt, pb := pb
              width := w, height := h, minW := minW, minH := minH, maxW := maxW, maxH := none
              bt := s.bt, br := s.br, bb := s.bb, bl := s.bl }
    maxH := maxH }

/-! ## The page algorithms on resolved values -/

/-- `page_width(page, context, cb_width)` then `page_height(page, context, cb_height)` on the used values
left by `resolve_percentages` (what `make_page` does next). -/
def pageFromUsed (u : Used) (cbW cbH : Rat) : PageBox :=
  let pl := numOr0 u.pl
  let pr := numOr0 u.pr
  let pt := numOr0 u.pt
  let pb := numOr0 u.pb
  let h := pageDimMinMax ⟨u.width, u.ml, u.mr, pl + pr + u.bl + u.br⟩ cbW u.minW u.maxW
  let v := pageDimMinMax ⟨u.height, u.mt, u.mb, pt + pb + u.bt + u.bb⟩ cbH u.minH u.maxH
  { width := h.inner, height := v.inner, mt := v.ma, mr := h.mb, mb := v.mb, ml := h.ma
    pt := pt, pr := pr, pb := pb, pl := pl, bt := u.bt, br := u.br, bb := u.bb, bl := u.bl }

/-- The `MBox` that `make_box` hands to the margin-box algorithms, from the used values. -/
def mboxFromUsed (kw : String) (u : Used) (minC maxC : Rat) : MBox :=
  { kw := kw, generated := true, width := u.width, height := u.height
    mt := u.mt, mr := u.mr, mb := u.mb, ml := u.ml
    pt := numOr0 u.pt, pr := numOr0 u.pr, pb := numOr0 u.pb, pl := numOr0 u.pl
    bt := u.bt, br := u.br, bb := u.bb, bl := u.bl, minC := minC, maxC := maxC }

/-- `Option Dim` max of `PStyle` (where `some .auto` reads `inf`) as a `MaxDim`. -/
def maxOf : Option Dim → MaxDim
  | none => .inf
  | some .auto => .inf
  | some (.px v) => .px v
  | some (.pct v) => .pct v

/-- The computed style of a page box (`content-box`, as in every generated document). -/
def ofPStyle (s : PStyle) : CStyle :=
  { ml := s.ml, mr := s.mr, mt := s.mt, mb := s.mb, pl := s.pl, pr := s.pr, pt := s.pt, pb := s.pb
    width := s.width, height := s.height, minW := s.minW, minH := s.minH
    maxW := maxOf s.maxW, maxH := maxOf s.maxH, bt := s.bt, br := s.br, bb := s.bb, bl := s.bl }

/-- The computed style of a margin box (initial `min-*: 0`, `max-*: none`, `content-box`). -/
def ofMStyle (s : MStyle) : CStyle :=
  { ml := s.ml, mr := s.mr, mt := s.mt, mb := s.mb, pl := s.pl, pr := s.pr, pt := s.pt, pb := s.pb
    width := s.width, height := s.height, minW := .px 0, minH := .px 0
    maxW := .inf, maxH := .inf, bt := s.bt, br := s.br, bb := s.bb, bl := s.bl }

end Wp.PagePercent
