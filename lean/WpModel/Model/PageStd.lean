/-
`_standardize_page_based_counters(style, pseudo_type)` (weasyprint/layout/page.py): "Drop 'pages' counter from
style in @page and @margin context.  Ensure `counter-increment: page` for @page context if not otherwise
manipulated by the style."  It rewrites `counter_set`, `counter_reset`, `counter_increment` of the (shared,
mutable) style object in place, every time a page or a margin box is made — so it is applied to its own output
when a page is made again.
A property value is `'auto'` (`none`) or a tuple of `(name, integer)` pairs.
No Mathlib, no Std: linked into the compiled driver.
-/
import WpModel.Model.Wire

namespace Wp.PageStd

abbrev Pairs := List (String × Int)

/-- The three counter properties of a style. -/
structure CProps where
  set : Option Pairs
  reset : Option Pairs
  incr : Option Pairs
  deriving Repr, DecidableEq

/-- One turn of `for propname in (…)`: the justified value and whether `page` was met. -/
def justify : Option Pairs → Pairs × Bool
  | none => ([], false)                                           -- `'auto'` becomes `()`
  | some l => (l.filter (fun p => p.1 ≠ "pages"), l.any (fun p => p.1 = "page"))

/-- `_standardize_page_based_counters(style, pseudo_type)`; `isPage` is `pseudo_type is None`. -/
def standardize (p : CProps) (isPage : Bool) : CProps :=
  let s := justify p.set
  let r := justify p.reset
  let i := justify p.incr
  let touched := s.2 || r.2 || i.2
  { set := some s.1, reset := some r.1, incr := some (if isPage && !touched then ("page", 1) :: i.1 else i.1) }

end Wp.PageStd
