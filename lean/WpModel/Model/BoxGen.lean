/-
From elements to boxes: mirror of `computed_values.display` / `compute_float`
(weasyprint/css/computed_values.py), `make_box` and the structural part of `element_to_box` /
`build_formatting_structure` (weasyprint/formatting_structure/build.py) for elements without
footnotes and replaced elements, with `::before` / `::after` / `::marker` and the part of
`content_to_boxes` / `compute_content_list` / `marker_to_box` that needs no layout context: strings
(`attr()` is a string once computed), `open-quote` / `close-quote` / `no-open-quote` /
`no-close-quote` with the shared quote depth, list markers whose text is given.
No Mathlib.
-/
import WpModel.Model.AnonBoxes
import WpModel.Gen.ContentTables

namespace Wp.Bx

/-- `computed_values.display(style, name, value)`; `position = "running"` stands for
`('running()', name)`. -/
def blockify (value : List String) (float position : String) (root : Bool) : List String :=
  if position == "absolute" || position == "fixed" || float != "none" || root then
    if value == ["inline-table"] then ["block", "table"]
    else if value.length == 1 && (match value with | v :: _ => v.startsWith "table-" | [] => false) then
      ["block", "flow"]
    else if value.head? == some "inline" then
      if value.contains "list-item" then ["block", "flow", "list-item"] else ["block", "flow"]
    else value
  else value

/-- `computed_values.compute_float(style, name, value)` -/
def computeFloat (float position : String) : String :=
  if position == "absolute" || position == "fixed" || position == "running" then "none" else float

/-- `BOX_TYPE_FROM_DISPLAY[style['display'][:2]]` (`none`: KeyError). -/
def boxTypeFromDisplay (d : List String) : Option BoxKind :=
  (Gen.displayTableAst.find? (fun e => e.1 == d.take 2)).map (·.2)

/-- `style['quotes']`. -/
inductive Quotes where
  | none | auto | pairs (opens closes : List Text)
  deriving Repr, Inhabited

/-- The computed style of an element or pseudo-element as `element_to_box` reads it (`display`,
`float`, `position` are the specified values: their computation is `blockify` / `computeFloat`). -/
structure EStyle where
  display : List String
  float : String := "none"
  position : String := "static"
  ws : WS := .normal
  tt : TT := .none
  hyph : Bool := false
  capBottom : Bool := false
  listOutside : Bool := true        -- list_style_position == 'outside'
  quotes : Quotes := .auto
  deriving Repr, Inhabited

/-- One item of a computed `content` list. -/
inductive CItem where
  | str (t : Text)
  | quote (isOpen insert : Bool)      -- open-/close-quote (`insert`), no-open-/no-close-quote
  deriving Repr, Inhabited

/-- Computed `content`: `inhibit` (from `normal` / `none` on a pseudo-element) or a list. -/
inductive Content where
  | inhibit | items (l : List CItem)
  deriving Repr, Inhabited

/-- `::marker`: its style, its `content` (`inhibit`, computed from `normal`: the marker comes from
`list-style-type`) and `counter_style.render_marker(list_style_type, value)` (`none`: type `none` or
empty text). -/
structure MarkerSpec where
  st : EStyle
  content : Content
  typeText : Option Text
  deriving Repr, Inhabited

structure Pseudo where
  st : EStyle
  content : Content
  deriving Repr, Inhabited

/-- An element; `tail` is the text following it in its parent. -/
inductive Dom where
  | el (st : EStyle) (attrs : El) (marker : Option MarkerSpec) (before after : Option Pseudo)
       (text : Text) (kids : List Dom) (tail : Text)
  deriving Repr, Inhabited

def Dom.tail : Dom → Text | .el _ _ _ _ _ _ _ t => t

/-- `TextBox.anonymous_from(box, text)` -/
def textBoxFrom (parent : KBox) (text : Text) : KBox :=
  .mk .TextBox (anonStyle parent.st) parent.el {} text [] []

/-- `children.extend(child_boxes); text = child_element.tail; …` with `children` reversed. -/
def addChild (parent : KBox) (acc : List KBox) (childBoxes : List KBox) (tail : Text) : List KBox :=
  let acc := childBoxes.reverse ++ acc
  if tail.isEmpty then acc
  else
    match acc with
    | last :: rest =>
      if last.isA .TextBox then
        (KBox.mk last.kind last.st last.el last.inst (last.text ++ tail) last.kids last.cols) :: rest
      else textBoxFrom parent tail :: acc
    | [] => [textBoxFrom parent tail]

/-- The part of a `Style` that comes from the computed style of an (pseudo-)element. -/
def mkStyle (s : EStyle) (disp : List String) : Style :=
  let fl := computeFloat s.float s.position
  { flt := fl == "left" || fl == "right", foot := fl == "footnote",
    abs := s.position == "absolute" || s.position == "fixed", run := s.position == "running",
    ws := s.ws, tt := s.tt, hyph := s.hyph, capBottom := s.capBottom,
    disp := if disp == ["table-header-group"] then .header
            else if disp == ["table-footer-group"] then .footer else .other }

/-- `quotes[min(quote_depth[0], len(quotes) - 1)]` (`IndexError` on an empty tuple). -/
def quoteAt (qs : List Text) (depth : Nat) : Except BErr Text :=
  match qs[min depth (qs.length - 1)]? with
  | some q => .ok q
  | none => .error .indexError

/-- The text a quote keyword adds at depth `depth1` (the depth after the decrement of a closing
keyword): nothing for `no-*-quote` and under `quotes: none`. -/
def quoteText (q : Quotes) (isOpen insert : Bool) (depth1 : Nat) : Except BErr Text :=
  match q with
  | .none => .ok []
  | .auto => if insert then quoteAt (if isOpen then Gen.autoQuotes.1 else Gen.autoQuotes.2) depth1 else .ok []
  | .pairs opens closes => if insert then quoteAt (if isOpen then opens else closes) depth1 else .ok []

/-- The loop of `compute_content_list` over strings and quotes: the text added so far, the quote
depth. -/
def contentText (q : Quotes) : List CItem → Text → Nat → Except BErr (Text × Nat)
  | [], acc, depth => .ok (acc, depth)
  | .str t :: rest, acc, depth => contentText q rest (acc ++ t) depth
  | .quote isOpen insert :: rest, acc, depth =>
    let depth1 := if !isOpen then depth - 1 else depth          -- max(0, depth - 1)
    match quoteText q isOpen insert depth1 with
    | .error e => .error e
    | .ok t => contentText q rest (acc ++ t) (if isOpen then depth1 + 1 else depth1)

/-- `content_to_boxes(style, parent_box, quote_depth, …)`: adjacent texts are merged into one
text box; nothing for an empty text. -/
def contentToBoxes (q : Quotes) (c : Content) (parent : KBox) (depth : Nat) : Except BErr (List KBox × Nat) :=
  match c with
  | .inhibit => .ok ([], depth)
  | .items l =>
    match contentText q l [] depth with
    | .error e => .error e
    | .ok (t, d) => .ok (if t.isEmpty then [] else [textBoxFrom parent t], d)

/-- `marker_to_box(element, state, parent_style, …)` → zero or one box. -/
def markerToBox (m : MarkerSpec) (attrs : El) (parentOutside : Bool) (depth : Nat) :
    Except BErr (List KBox × Nat) :=
  let disp := blockify m.st.display m.st.float m.st.position false
  -- `if style['display'] == ('none',): return` comes before `make_box`
  if disp == ["none"] then .ok ([], depth)
  else
    match boxTypeFromDisplay disp with
    | none => .error .keyError
    | some k =>
      let box := KBox.mk k (mkStyle m.st disp) attrs (initInst k attrs) [] [] []
      -- (children, quote depth, the box the source variable `box` is bound to afterwards: the text box
      -- made from `list-style-type` rebinds it, so the anonymous marker box inherits from that text box)
      let children : Except BErr (List KBox × Nat × KBox) :=
        match m.content with
        | .items l =>
          match contentToBoxes m.st.quotes (.items l) box depth with
          | .error e => .error e
          | .ok (cs, d) => .ok (cs, d, box)
        | .inhibit =>
          match m.typeText with
          | some t =>
            let tb0 := textBoxFrom box t
            let tb := tb0.withStyle { tb0.st with ws := .preWrap }
            .ok ([tb], depth, tb)
          | none => .ok ([], depth, box)
      match children with
      | .error e => .error e
      | .ok (cs, d, from_) =>
        if cs.isEmpty then .ok ([], d)
        else if parentOutside then
          let mb := anonFrom .BlockBox from_ cs
          .ok ([mb.withStyle { mb.st with abs := true }], d)
        else .ok ([anonFrom .InlineBox from_ cs], d)

/-- `before_after_to_box(element, pseudo_type, state, …)` → zero or one box. -/
def beforeAfterToBox (p : Option Pseudo) (marker : Option MarkerSpec) (attrs : El) (depth : Nat) :
    Except BErr (List KBox × Nat) :=
  match p with
  | none => .ok ([], depth)
  | some p =>
    let disp := blockify p.st.display p.st.float p.st.position false
    if disp == ["none"] then .ok ([], depth)
    else
      match p.content with
      | .inhibit => .ok ([], depth)
      | .items l =>
        match boxTypeFromDisplay disp with
        | none => .error .keyError
        | some k =>
          let box := KBox.mk k (mkStyle p.st disp) attrs (initInst k attrs) [] [] []
          let markers : Except BErr (List KBox × Nat) :=
            if disp.contains "list-item" then
              match marker with
              | some m => markerToBox m attrs p.st.listOutside depth
              | none => .error .keyError
            else .ok ([], depth)
          match markers with
          | .error e => .error e
          | .ok (ms, d1) =>
            match contentToBoxes p.st.quotes (.items l) box d1 with
            | .error e => .error e
            | .ok (cs, d2) => .ok ([box.withKids (ms ++ cs)], d2)

mutual
/-- `element_to_box(element, …)` → list of boxes (empty for `display: none`) and the quote depth. -/
def elementToBox (root : Bool) : Dom → Nat → Except BErr (List KBox × Nat)
  | .el es attrs marker before after text kids _, depth =>
    let disp := blockify es.display es.float es.position root
    if disp == ["none"] then .ok ([], depth)
    else
      match boxTypeFromDisplay disp with
      | none => .error .keyError
      | some k =>
        let box := KBox.mk k (mkStyle es disp) attrs (initInst k attrs) [] [] []
        let markers : Except BErr (List KBox × Nat) :=
          if disp.contains "list-item" then
            match marker with
            | some m => markerToBox m attrs es.listOutside depth
            | none => .error .keyError
          else .ok ([], depth)
        match markers with
        | .error e => .error e
        | .ok (ms, d1) =>
          match beforeAfterToBox before marker attrs d1 with
          | .error e => .error e
          | .ok (bs, d2) =>
            let acc0 := bs.reverse ++ ms.reverse
            let acc := if text.isEmpty then acc0 else textBoxFrom box text :: acc0
            match elementKids box kids acc d2 with
            | .error e => .error e
            | .ok (accRev, d3) =>
              match beforeAfterToBox after marker attrs d3 with
              | .error e => .error e
              | .ok (as, d4) =>
                let box := box.withKids (accRev.reverse ++ as)
                let box := (pw box false).1
                let box := ptt box
                -- a list item holding only its outside marker gets a zero-width space
                let box := if !ms.isEmpty && box.kids.length == 1 && es.listOutside then
                    box.withKids (box.kids ++ [textBoxFrom box Gen.markerFiller])
                  else box
                .ok ([box], d4)
def elementKids (parent : KBox) : List Dom → List KBox → Nat → Except BErr (List KBox × Nat)
  | [], acc, depth => .ok (acc, depth)
  | d :: ds, acc, depth =>
    match elementToBox false d depth with
    | .error e => .error e
    | .ok (boxes, depth') => elementKids parent ds (addChild parent acc boxes d.tail) depth'
end

/-- `build_formatting_structure` for a tree whose root generates a box. -/
def buildFormattingStructure (d : Dom) : Except BErr KBox :=
  match elementToBox true d 0 with
  | .error e => .error e
  | .ok ([box], _) => createAnonymousBoxes box
  | .ok _ => .error .keyError   -- no root box: the real code rebuilds with a block root (not modelled)

end Wp.Bx
