/-
From elements to boxes: mirror of `computed_values.display` / `compute_float`
(weasyprint/css/computed_values.py), `make_box` and the structural part of `element_to_box` /
`build_formatting_structure` (weasyprint/formatting_structure/build.py) for elements without
generated content (no `::before` / `::after` / `::marker`, no footnotes, ordinary tags).
No Mathlib.
-/
import WpModel.Model.AnonBoxes

namespace Wp.Bx

/-- `computed_values.display(style, name, value)`; `position = "running"` stands for
`('running()', name)`. -/
def blockify (value : List String) (float position : String) (root : Bool) : List String :=
  if position == "absolute" || position == "fixed" || float != "none" || root then
    if value == ["inline-table"] then ["block", "table"]
    else if value.length == 1 && (match value with | v :: _ => v.startsWith "table-" | [] => false) then
      ["block", "flow"]
    else if value.head? == some "inline" then
      if value.contains "list-item" then ["block", "flow", "list-item"] else ["block", "flow"]
    else value
  else value

/-- `computed_values.compute_float(style, name, value)` -/
def computeFloat (float position : String) : String :=
  if position == "absolute" || position == "fixed" || position == "running" then "none" else float

/-- `BOX_TYPE_FROM_DISPLAY[style['display'][:2]]` (`none`: KeyError). -/
def boxTypeFromDisplay (d : List String) : Option BoxKind :=
  (Gen.displayTableAst.find? (fun e => e.1 == d.take 2)).map (·.2)

/-- An element with the computed values of the inherited properties and the specified values of
`display`, `float`, `position`; `tail` is the text following the element in its parent. -/
inductive Dom where
  | el (display : List String) (float position : String) (ws : WS) (cap capBottom : Bool)
       (attrs : El) (text : Text) (kids : List Dom) (tail : Text)
  deriving Repr, Inhabited

def Dom.tail : Dom → Text | .el _ _ _ _ _ _ _ _ _ t => t

/-- `TextBox.anonymous_from(box, text)` -/
def textBoxFrom (parent : KBox) (text : Text) : KBox :=
  .mk .TextBox (anonStyle parent.st) parent.el {} text [] []

/-- `children.extend(child_boxes); text = child_element.tail; …` with `children` reversed. -/
def addChild (parent : KBox) (acc : List KBox) (childBoxes : List KBox) (tail : Text) : List KBox :=
  let acc := childBoxes.reverse ++ acc
  if tail.isEmpty then acc
  else
    match acc with
    | last :: rest =>
      if last.isA .TextBox then
        (KBox.mk last.kind last.st last.el last.inst (last.text ++ tail) last.kids last.cols) :: rest
      else textBoxFrom parent tail :: acc
    | [] => [textBoxFrom parent tail]

mutual
/-- `element_to_box(element, …)` → list of boxes (empty for `display: none`). -/
def elementToBox (root : Bool) : Dom → Except BErr (List KBox)
  | .el display float position ws cap capBottom attrs text kids _ =>
    let disp := blockify display float position root
    if disp == ["none"] then .ok []
    else
      match boxTypeFromDisplay disp with
      | none => .error .keyError
      | some k =>
        let fl := computeFloat float position
        let st : Style :=
          { flt := fl == "left" || fl == "right", foot := fl == "footnote",
            abs := position == "absolute" || position == "fixed", run := position == "running",
            ws := ws, cap := cap, capBottom := capBottom,
            disp := if disp == ["table-header-group"] then .header
                    else if disp == ["table-footer-group"] then .footer else .other }
        let box := KBox.mk k st attrs (initInst k attrs) [] [] []
        let acc := if text.isEmpty then [] else [textBoxFrom box text]
        match elementKids box kids acc with
        | .error e => .error e
        | .ok accRev =>
          let box := box.withKids accRev.reverse
          let box := (pw box false).1
          .ok [ptt box]
def elementKids (parent : KBox) : List Dom → List KBox → Except BErr (List KBox)
  | [], acc => .ok acc
  | d :: ds, acc =>
    match elementToBox false d with
    | .error e => .error e
    | .ok boxes => elementKids parent ds (addChild parent acc boxes d.tail)
end

/-- `build_formatting_structure` for a tree whose root generates a box. -/
def buildFormattingStructure (d : Dom) : Except BErr KBox :=
  match elementToBox true d with
  | .error e => .error e
  | .ok [box] => createAnonymousBoxes box
  | .ok _ => .error .keyError   -- no root box: the real code rebuilds with a block root (not modelled)

end Wp.Bx
