/-
Float placement: mirror of `weasyprint/layout/float.py`
  `avoid_collisions`, `find_float_position`, `get_clearance`, and the placement part of `float_layout`.

Shapes are the margin boxes of the floats already laid out in the current block formatting context
(`context.excluded_shapes`, in document order).  Lengths are `Rat`.  The `while True` loop of
`avoid_collisions` is written with explicit fuel; `Props/C11.lean` proves that
`shapes.length + 1` is always enough (`avoid_terminates`), so the fuel is never observable.

No Mathlib: linked into the driver.
-/
import WpModel.Model.Wire
import WpModel.Gen.FloatTests

namespace Wp.Floats
open Wp

/-- `style['float']` of an excluded shape. -/
inductive Side where
  | left | right
  deriving Repr, DecidableEq, Inhabited

/-- `style['float']` of the box being placed. -/
inductive FloatV where
  | none | left | right
  deriving Repr, DecidableEq, Inhabited

/-- `style['clear']`. -/
inductive Clear where
  | none | left | right | both
  deriving Repr, DecidableEq, Inhabited

/-- What the final assertion of `avoid_collisions` asks of the box class. -/
inductive Kind where
  | line            -- `isinstance(box, boxes.LineBox)`
  | tableWrapper    -- `box.is_table_wrapper`
  | replaced        -- `isinstance(box, boxes.BlockReplacedBox)`
  | bfc             -- `box.establishes_formatting_context()`
  | other           -- none of these: the assertion fails unless the box floats
  deriving Repr, DecidableEq, Inhabited

/-- An excluded shape: `position_x`, `position_y`, `margin_width()`, `margin_height()`, side. -/
structure Shape where
  x : Rat
  y : Rat
  mw : Rat
  mh : Rat
  side : Side
  deriving Repr, DecidableEq, Inhabited

def Shape.bottom (s : Shape) : Rat := s.y + s.mh
def Shape.rightEdge (s : Shape) : Rat := s.x + s.mw

/-- The attributes of the box that the three functions read. -/
structure ABox where
  px : Rat          -- position_x
  py : Rat          -- position_y
  mt : Rat
  mb : Rat
  ml : Rat
  mr : Rat
  bw : Rat          -- border_width()
  bh : Rat          -- border_height()
  float : FloatV
  clear : Clear
  kind : Kind
  deriving Repr, DecidableEq, Inhabited

def ABox.marginWidth (b : ABox) : Rat := b.bw + b.ml + b.mr
def ABox.marginHeight (b : ABox) : Rat := b.bh + b.mt + b.mb
def ABox.isFloated (b : ABox) : Bool := b.float != .none

/-- The containing block: `content_box_x()`, `width`, `style['direction'] == 'rtl'`. -/
structure CB where
  cx : Rat
  w : Rat
  rtl : Bool
  deriving Repr, DecidableEq, Inhabited

/-- The three-way disjunction of `avoid_collisions` (for a box at `y` of height `h`): the test itself
is `Gen.collideTest`, translated from the source on every run (py/extract/float_tests.py). -/
def collides (s : Shape) (y h : Rat) : Bool := Gen.collideTest s.y s.mh y h

def colliding (shapes : List Shape) (y h : Rat) : List Shape :=
  shapes.filter (fun s => collides s y h)

/-- `max(xs)` for a non-empty list given as head and tail. -/
def maxList (x : Rat) (xs : List Rat) : Rat := xs.foldl max x
def minList (x : Rat) (xs : List Rat) : Rat := xs.foldl min x

def leftBounds (col : List Shape) : List Rat :=
  (col.filter (fun s => s.side = .left)).map Shape.rightEdge
def rightBounds (col : List Shape) : List Rat :=
  (col.filter (fun s => s.side = .right)).map (fun s => s.x)

/-- Bounds computed by one iteration of the loop body from the colliding shapes and the default
bounds `(l0, r0)`; `constrained` = `left_bounds or right_bounds`. -/
structure Bounds where
  l : Rat
  r : Rat
  constrained : Bool
  deriving Repr, DecidableEq

def bounds (col : List Shape) (l0 r0 : Rat) : Bounds :=
  let l := match leftBounds col with
    | [] => l0
    | b :: bs => max (maxList b bs) l0
  let r := match rightBounds col with
    | [] => r0
    | b :: bs => min (minList b bs) r0
  ⟨l, r, !(leftBounds col).isEmpty || !(rightBounds col).isEmpty⟩

/-- `[bottom for shape in colliding if bottom > position_y]` (the filter is `Gen.lowerTest`). -/
def lowerPositions (col : List Shape) (y : Rat) : List Rat :=
  (col.filter (fun s => Gen.lowerTest s.y s.mh y)).map Shape.bottom

/-- Result of the loop: final `position_y`, `max_left_bound`, `max_right_bound`. -/
structure LoopRes where
  y : Rat
  l : Rat
  r : Rat
  deriving Repr, DecidableEq

/-- The `while True` loop.  `none` = fuel exhausted (never with `shapes.length + 1`). -/
def avoidLoop : Nat → List Shape → Rat → Rat → Rat → Rat → Rat → Option LoopRes
  | 0, _, _, _, _, _, _ => none
  | fuel + 1, shapes, w, h, l0, r0, y =>
    let col := colliding shapes y h
    let b := bounds col l0 r0
    if b.constrained && Gen.blockedTest w b.r b.l then
      match lowerPositions col y with
      | [] => some ⟨y, b.l, b.r⟩                       -- no solution, put the box here
      | p :: ps => avoidLoop fuel shapes w h l0 r0 (minList p ps)  -- continue
    else some ⟨y, b.l, b.r⟩

/-- `(position_x, position_y, available_width)` -/
structure Placement where
  x : Rat
  y : Rat
  avail : Rat
  deriving Repr, DecidableEq

/-- `avoid_collisions(context, box, containing_block, outer)`. -/
def avoidCollisions (shapes : List Shape) (b : ABox) (cb : CB) (outer : Bool) :
    Except PyErr Placement :=
  let y0 := if outer then b.py else b.py + b.mt
  let w := if outer then b.marginWidth else b.bw
  let h := if outer then b.marginHeight else b.bh
  let l0 := if outer then cb.cx else cb.cx + b.ml
  let r0 := if outer then cb.cx + cb.w else cb.cx + cb.w - b.mr
  match avoidLoop (shapes.length + 1) shapes w h l0 r0 y0 with
  | none => .error (.recursion "avoid_collisions:loop")
  | some res =>
    if !(b.isFloated || b.kind != .other) then .error (.assertFailed "avoid_collisions:kind") else
    let x :=
      if b.float = .none && cb.rtl then
        (match b.kind with
         | .line => res.r
         | _ => res.r - w)
      else res.l
    let avail := res.r - res.l
    if outer then .ok ⟨x, res.y, avail⟩
    else .ok ⟨x - b.ml, res.y - b.mt, avail⟩

/-- `find_float_position`: the new `(position_x, position_y)` of the float. -/
def findFloatPosition (shapes : List Shape) (b : ABox) (cb : CB) : Except PyErr (Rat × Rat) :=
  let py := match shapes.getLast? with
    | some s => if b.py < s.y then s.y else b.py
    | none => b.py
  let b' := { b with py := py }
  match avoidCollisions shapes b' cb true with
  | .error e => .error e
  | .ok p =>
    let x := if b.float = .right then p.x + (p.avail - b.marginWidth) else p.x
    .ok (x, p.y)

def clearApplies (c : Clear) (s : Side) : Bool :=
  match c, s with
  | .both, _ => true
  | .left, .left => true
  | .right, .right => true
  | _, _ => false

/-- `get_clearance(context, box, collapsed_margin)`; `none` = `None`. -/
def getClearance (shapes : List Shape) (clear : Clear) (py collapsed : Rat) : Option Rat :=
  let hyp := py + collapsed
  shapes.foldl (fun acc s =>
    if clearApplies clear s.side && decide (hyp < s.y + s.mh) then
      some (max (acc.getD 0) (s.y + s.mh - hyp))
    else acc) none

/-- `clearance = get_clearance(context, box); if clearance is not None: box.position_y += clearance` -/
def afterClearance (shapes : List Shape) (b : ABox) : ABox :=
  match getClearance shapes b.clear b.py 0 with
  | some c => { b with py := b.py + c }
  | none => b

/-- The margin box of a placed float as an excluded shape. -/
def ABox.toShape (b : ABox) : Shape :=
  ⟨b.px, b.py, b.marginWidth, b.marginHeight, if b.float = .right then Side.right else Side.left⟩

/-- The placement part of `float_layout` (the box dimensions are already resolved): clearance,
`find_float_position`, `excluded_shapes.append`.  Returns the placed box and the new shape list. -/
def floatPlace (shapes : List Shape) (b : ABox) (cb : CB) : Except PyErr (ABox × List Shape) :=
  let b1 := afterClearance shapes b
  match findFloatPosition shapes b1 cb with
  | .error e => .error e
  | .ok (x, y) =>
    let b2 := { b1 with px := x, py := y }
    .ok (b2, shapes ++ [b2.toShape])

end Wp.Floats
