/-
Model of `weasyprint/pdf/stream.py::Stream` (on top of `pydyf.Stream`) and `weasyprint/draw/stack.py::stacked`.

* `Op`      : one item of `stream.stream` (what pydyf appends), structured enough for a checker and an interpreter.
* `SState`  : the Python attributes of one `Stream` that decide what is emitted
              (`stream`, `_ctm_stack`, `_current_color(_stroke)`, `_current_alpha(_stroke)`, `_current_font`,
               `_old_font`, `_mark`, `marked`, the resource dictionary it writes to, `id`).
* `stepS`   : one API call on one stream, branch for branch, with the peepholes as written:
              `pop_state` deletes a trailing `q`, `begin_text` deletes a trailing `ET` and restores `_old_font`,
              setters return early on a cache hit, `pop_state` clears all caches (but not `_old_font`).
* `stepNaive` : the same API without caches and peepholes (reference emission for `cache_sound`).
* `World`   : all streams and resource dictionaries of a document; `add_group / add_pattern / add_shading /
              add_image / set_alpha_state / clone` create streams and register names.
* `cfg`     : the bracket checker on an operator list;  `G`, `paints` : reference graphics-state interpreter.

The operator list is kept *reversed* (`rops`, newest first): Python's `self.stream[-1]` is `rops.head?`.
Resource keys are structured (`GKey.a α` for `f'a{alpha}'` …) and rendered to the Python strings only on the wire:
string equality of the rendered keys coincides with structural equality because `str` is injective on ints and on
floats and never maps an int and a float to the same text.
Python failure points: `pop_state` (`_ctm_stack.pop()` on an empty list, `assert self._ctm_stack`), `ctm` on an empty
stack.  No Mathlib.
-/
import WpModel.Model.PdfNum
import WpModel.Gen.PdfTags

namespace Wp.Pdf
open Wp

/-! ## Keys, colours, operators -/

inductive GKey where
  | s (n : Nat)          -- `f's{len(ExtGState)}'`
  | a (α : Num)          -- `f'a{alpha}'`
  | A (α : Num)          -- `f'A{alpha}'`
  deriving DecidableEq, Repr

def GKey.render : GKey → String
  | .s n => "s" ++ toString n
  | .a α => "a" ++ α.pyStr
  | .A α => "A" ++ α.pyStr

inductive XKey where
  | x (n : Nat)                          -- `f'x{len(XObject)}'`
  | img (id : String) (interp : Bool)    -- `f'i{image.id}{int(interpolate)}'`
  deriving DecidableEq, Repr

def XKey.render : XKey → String
  | .x n => "x" ++ toString n
  | .img id i => "i" ++ id ++ (if i then "1" else "0")

/-- What an ExtGState dictionary does to the part of the graphics state the caches mirror. -/
structure ExtG where
  ca : Option Num := none
  CA : Option Num := none
  kind : String := "alpha"
  deriving DecidableEq, Repr

/-- A `tinycss2.color4.Color` as `set_color` sees it: `space`, the three coordinates, `alpha`, and the
coordinates after `color.to(target)` (tinycss2's conversion, an input of the model). -/
structure Colour where
  space : String
  c1 : Num
  c2 : Num
  c3 : Num
  alpha : Num
  k1 : Num
  k2 : Num
  k3 : Num
  deriving DecidableEq, Repr

/-- `(color.space, *channels)`: Python compares the numbers by value (`None` only equals `None`). -/
abbrev ColKey := String × Option Rat × Option Rat × Option Rat
def Colour.key (c : Colour) : ColKey := (c.space, c.c1.key, c.c2.key, c.c3.key)

inductive SpaceClass where
  | rgb | labD65 | labD50 | other
  deriving DecidableEq, Repr

/-- The three membership tests of `set_color` (tuples regenerated from the source). -/
def spaceClass (s : String) : SpaceClass :=
  if Gen.rgbSpaces.contains s then .rgb
  else if Gen.labD65Spaces.contains s then .labD65
  else if Gen.labD50Spaces.contains s then .labD50
  else .other

/-- `Stream.get_marked_content_tag` (graph regenerated from the source; default branch for unknown tags). -/
def markedTag (elementTag : String) : String :=
  match Gen.tagGraph.lookup elementTag with
  | some t => t
  | none => Gen.tagDefault

/-- pydyf methods that only append one item. -/
inductive Raw where
  | rectangle | clip | end_ | fill | stroke | fillStroke | moveTo | lineTo | close
  | lineWidth | lineCap | lineJoin | miterLimit
  | textMatrix | textRise | moveText | showText
  deriving DecidableEq, Repr

inductive RawClass where
  | path        -- path construction and clipping: re m l h W W*
  | paint       -- path painting: f f* S B B* n
  | gparam      -- general graphics state: w J j M
  | textPos     -- Tm Td
  | textState   -- Ts
  | textShow    -- TJ
  deriving DecidableEq, Repr

def Raw.cls : Raw → RawClass
  | .rectangle | .clip | .moveTo | .lineTo | .close => .path
  | .end_ | .fill | .stroke | .fillStroke => .paint
  | .lineWidth | .lineCap | .lineJoin | .miterLimit => .gparam
  | .textMatrix | .moveText => .textPos
  | .textRise => .textState
  | .showText => .textShow

inductive Op where
  | q | Q | BT | ET
  | tag (t : String)                 -- the `/Tag` item appended before BMC / BDC
  | props (mcid : Nat)               -- the property list `<</MCID n>>`
  | BMC | BDC | EMC
  | cm (a b c d e f : Num)
  | gs (k : GKey) (d : ExtG)          -- `/key gs`; `d` is the dictionary registered under the key (not rendered)
  | rgb (r g b : Num) (stroke : Bool)
  | cs (space : String) (stroke : Bool)
  | scn (operands : List Num) (pat : Option Nat) (stroke : Bool)
  | Tf (font : String) (size : Num)
  | Do (k : XKey)
  | sh (n : Nat)
  | raw (c : RawClass) (text : String)
  deriving DecidableEq, Repr

def joinNums (xs : List Num) : String := "_".intercalate (xs.map Num.toBytes)

/-- The item as the harness canonicalises it: bytes decoded, spaces replaced by `_`. -/
def Op.render : Op → String
  | .q => "q" | .Q => "Q" | .BT => "BT" | .ET => "ET"
  | .tag t => "/" ++ t
  | .props n => "<</MCID_" ++ toString n ++ ">>"
  | .BMC => "BMC" | .BDC => "BDC" | .EMC => "EMC"
  | .cm a b c d e f => joinNums [a, b, c, d, e, f] ++ "_cm"
  | .gs k _ => "/" ++ k.render ++ "_gs"
  | .rgb r g b st => joinNums [r, g, b] ++ (if st then "_RG" else "_rg")
  | .cs sp st => "/" ++ sp ++ (if st then "_CS" else "_cs")
  | .scn ops pat st =>
    let names := match pat with | some n => ["/p" ++ toString n] | none => []
    "_".intercalate (ops.map Num.toBytes ++ names) ++ (if st then "_SCN" else "_scn")
  | .Tf f sz => "/" ++ f ++ "_" ++ sz.toBytes ++ "_Tf"
  | .Do k => "/" ++ k.render ++ "_Do"
  | .sh n => "/s" ++ toString n ++ "_sh"
  | .raw _ t => t

/-! ## Matrices (`weasyprint/matrix.py`) -/

structure Mat where
  a : Rat
  b : Rat
  c : Rat
  d : Rat
  e : Rat
  f : Rat
  deriving DecidableEq, Repr

def Mat.id : Mat := ⟨1, 0, 0, 1, 0, 0⟩

/-- `m1 @ m2` for `[[a,b,0],[c,d,0],[e,f,1]]`. -/
def Mat.mul (m n : Mat) : Mat :=
  ⟨m.a * n.a + m.b * n.c, m.a * n.b + m.b * n.d,
   m.c * n.a + m.d * n.c, m.c * n.b + m.d * n.d,
   m.e * n.a + m.f * n.c + n.e, m.e * n.b + m.f * n.d + n.f⟩

/-! ## Resource dictionaries -/

/-- One `Resources` dictionary as `Stream` uses it (insertion ordered, nothing is ever removed). -/
structure Res where
  extG : List (GKey × ExtG) := []
  xobj : List (XKey × Option Nat) := []     -- group stream handle, `none` for an image (set by `write_pdf`)
  pattern : List Nat := []                   -- `p{i}` ↦ pattern stream handle
  shading : Nat := 0                         -- `s0 … s{n-1}`
  deriving Repr, DecidableEq

def Res.hasG (r : Res) (k : GKey) : Bool := r.extG.any (·.1 == k)
def Res.hasX (r : Res) (k : XKey) : Bool := r.xobj.any (·.1 == k)

/-- `d[key] = v` for an absent key (append). -/
def Res.addG (r : Res) (k : GKey) (d : ExtG) : Res := { r with extG := r.extG ++ [(k, d)] }

/-- `if key not in d: d[key] = v`. -/
def Res.ensureG (r : Res) (k : GKey) (d : ExtG) : Res := if r.hasG k then r else r.addG k d

/-! ## One stream -/

structure SState where
  rops : List Op := []                       -- `self.stream`, newest first
  ctm : List Mat := [Mat.id]                 -- `_ctm_stack`, top first
  colF : Option ColKey := none               -- `_current_color`
  colS : Option ColKey := none               -- `_current_color_stroke`
  alphaF : Option GKey := none               -- `_current_alpha`
  alphaS : Option GKey := none               -- `_current_alpha_stroke`
  font : Option (String × Rat) := none       -- `_current_font`
  oldFont : Option (String × Rat) := none    -- `_old_font`
  mark : Bool := false                       -- `_mark`
  marked : List String := []                 -- tags of `self.marked`, newest first
  res : Nat := 0                             -- which resource dictionary `_resources` is
  id : Option String := none                 -- `.id` given by add_group / add_pattern
  deriving Repr

def SState.emit (s : SState) (o : Op) : SState := { s with rops := o :: s.rops }

inductive Call where
  | push | pop
  | transform (a b c d e f : Num)
  | beginText | endText
  | setColor (c : Colour) (stroke : Bool)
  | setFont (font : String) (size : Num)
  | setAlpha (α : Num) (stroke : Bool) (fill : Option Bool)
  | setState (d : ExtG)
  | softMaskState                       -- the part of `set_alpha_state` on the calling stream, after `add_group`
  | setBlendMode (mode : String)
  | beginMarked (elementTag : String) (mcid : Bool) (tag : Option String)
  | endMarked
  | drawX (k : XKey)
  | paintShading (n : Nat)
  | setColorSpace (space : String) (stroke : Bool)
  | setColorSpecial (pat : Option Nat) (stroke : Bool) (operands : List Num)
  | raw (k : Raw) (args : List Num) (flag : Bool) (text : String)
  | rawTok (c : RawClass) (token : String)      -- any other pydyf method that appends one item (token given)
  deriving Repr

/-- The single item a pass-through pydyf method appends. -/
def rawText (k : Raw) (args : List Num) (flag : Bool) (text : String) : String :=
  let withArgs (op : String) := if args.isEmpty then op else joinNums args ++ "_" ++ op
  match k with
  | .rectangle => withArgs "re"
  | .clip => if flag then "W*" else "W"
  | .end_ => "n"
  | .fill => if flag then "f*" else "f"
  | .stroke => "S"
  | .fillStroke => if flag then "B*" else "B"
  | .moveTo => withArgs "m"
  | .lineTo => withArgs "l"
  | .close => "h"
  | .lineWidth => withArgs "w"
  | .lineCap => withArgs "J"
  | .lineJoin => withArgs "j"
  | .miterLimit => withArgs "M"
  | .textMatrix => withArgs "Tm"
  | .textRise => withArgs "Ts"
  | .moveText => withArgs "Td"
  | .showText => "[" ++ text ++ "]_TJ"

/-- The `if stroke:` block of `Stream.set_alpha` (key `f'A{alpha}'`, dictionary `{'CA': alpha}`). -/
def setAlphaStroke (r : Res) (s : SState) (α : Num) : SState × Res :=
  if s.alphaS != some (GKey.A α) then
    ({ s with alphaS := some (GKey.A α) }.emit (.gs (GKey.A α) { CA := some α }),
     r.ensureG (GKey.A α) { CA := some α })
  else (s, r)

/-- The `if fill:` block of `Stream.set_alpha` (key `f'a{alpha}'`, dictionary `{'ca': alpha}`). -/
def setAlphaFill (r : Res) (s : SState) (α : Num) : SState × Res :=
  if s.alphaF != some (GKey.a α) then
    ({ s with alphaF := some (GKey.a α) }.emit (.gs (GKey.a α) { ca := some α }),
     r.ensureG (GKey.a α) { ca := some α })
  else (s, r)

/-- `if fill is None: fill = not stroke`. -/
def fillFlag (stroke : Bool) : Option Bool → Bool
  | some f => f
  | none => !stroke

def alphaStrokePart (r : Res) (s : SState) (α : Num) (stroke : Bool) : SState × Res :=
  if stroke then setAlphaStroke r s α else (s, r)

/-- `Stream.set_alpha`. -/
def setAlpha (r : Res) (s : SState) (α : Num) (stroke : Bool) (fill : Option Bool) : SState × Res :=
  if fillFlag stroke fill then
    setAlphaFill (alphaStrokePart r s α stroke).2 (alphaStrokePart r s α stroke).1 α
  else alphaStrokePart r s α stroke

/-- Python's `channel or 0`: a falsy channel (`None` — a CSS Color 4 `none` component —, `0`, `0.0`) becomes the
int `0`, anything else is kept. -/
def Num.orZero (n : Num) : Num :=
  match n with
  | .none => .int 0
  | .int i => if i = 0 then .int 0 else .int i
  | .flt q => if q = 0 then .int 0 else .flt q

/-- The colour operators of `set_color` after the cache test.  Last branch (unsupported colour space, as repaired):
`self.set_color_rgb(*(channel or 0 for channel in channels), stroke)`. -/
def colourOps (c : Colour) (stroke : Bool) : List Op :=
  match spaceClass c.space with
  | .rgb => [.rgb c.k1 c.k2 c.k3 stroke]
  | .labD65 => [.cs "lab-d65" stroke, .scn [c.k1, c.k2, c.k3] none stroke]
  | .labD50 => [.cs "lab-d50" stroke, .scn [c.k1, c.k2, c.k3] none stroke]
  | .other => [.rgb c.c1.orZero c.c2.orZero c.c3.orZero stroke]

def SState.emitAll (s : SState) (os : List Op) : SState := os.foldl SState.emit s

/-- The part of `Stream.set_color` after `self.set_alpha(alpha, stroke)`. -/
def setColorOnly (s : SState) (c : Colour) (stroke : Bool) : SState :=
  if stroke then
    if s.colS == some c.key then s
    else { s with colS := some c.key }.emitAll (colourOps c stroke)
  else
    if s.colF == some c.key then s
    else { s with colF := some c.key }.emitAll (colourOps c stroke)

/-- `Stream.set_color`. -/
def setColor (r : Res) (s : SState) (c : Colour) (stroke : Bool) : SState × Res :=
  (setColorOnly (setAlpha r s c.alpha stroke none).1 c stroke, (setAlpha r s c.alpha stroke none).2)

/-- `Stream.set_state(dict)`: registered under a fresh `s{len}` key, always emitted, caches untouched. -/
def setState (r : Res) (s : SState) (d : ExtG) : SState × Res :=
  (s.emit (.gs (GKey.s r.extG.length) d), r.addG (GKey.s r.extG.length) d)

/-- The ExtGState dictionary `set_alpha_state` builds: `{SMask: {G: alpha_stream}, ca: 1, AIS: false}`. -/
def softMaskDict : ExtG := { ca := some (.int 1), kind := "smask" }

/-- The end of `Stream.set_alpha_state` (as repaired): `self.set_state(alpha_state)` and, because that state sets
`ca` to 1, `self._current_alpha = None`. -/
def softMaskState (r : Res) (s : SState) : SState × Res :=
  ({ (setState r s softMaskDict).1 with alphaF := none }, (setState r s softMaskDict).2)

/-- The peephole of `pop_state`: `if self.stream and self.stream[-1] == b'q': self.stream.pop()` else append `Q`. -/
def popOps (s : SState) : SState :=
  match s.rops with
  | .q :: rest => { s with rops := rest }
  | _ => s.emit .Q

/-- `_current_color = _current_color_stroke = None`, same for alpha, `_current_font = None` (`_old_font` is kept). -/
def clearCaches (s : SState) : SState :=
  { s with colF := none, colS := none, alphaF := none, alphaS := none, font := none }

/-- `Stream.pop_state`. -/
def popState (s : SState) : Except PyErr SState :=
  match (clearCaches (popOps s)).ctm with
  | [] => .error (.indexError "pop_state:_ctm_stack.pop")
  | [_] => .error (.assertFailed "pop_state:_ctm_stack")
  | _ :: rest => .ok { clearCaches (popOps s) with ctm := rest }

/-- `tag` argument or `get_marked_content_tag(box.element_tag)`. -/
def resolveTag (elementTag : String) : Option String → String
  | some t => t
  | none => markedTag elementTag

/-- `Stream.begin_marked_content`. -/
def beginMarked (s : SState) (elementTag : String) (mcid : Bool) (tag : Option String) : SState :=
  if !s.mark then s
  else if mcid then
    { s with marked := resolveTag elementTag tag :: s.marked }.emitAll
      [.tag (resolveTag elementTag tag), .props s.marked.length, .BDC]
  else s.emitAll [.tag (resolveTag elementTag tag), .BMC]

/-- `Stream.begin_text`. -/
def beginText (s : SState) : SState :=
  match s.rops with
  | .ET :: rest => { s with rops := rest, font := s.oldFont }
  | _ => s.emit .BT

/-- One API call on one stream whose resource dictionary is `r`. -/
def stepS (r : Res) (s : SState) : Call → Except PyErr (SState × Res)
  | .push =>
    match s.ctm with
    | [] => .error (.indexError "ctm")
    | top :: rest => .ok ({ s with ctm := top :: top :: rest }.emit .q, r)
  | .pop => (popState s).map (·, r)
  | .transform a b c d e f =>
    match s.ctm with
    | [] => .error (.indexError "ctm")
    | top :: rest =>
      let m : Mat := ⟨a.val, b.val, c.val, d.val, e.val, f.val⟩
      .ok ({ s with ctm := m.mul top :: rest }.emit (.cm a b c d e f), r)
  | .beginText => .ok (beginText s, r)
  | .endText => .ok ({ s with oldFont := s.font, font := none }.emit .ET, r)
  | .setColor c stroke => .ok (setColor r s c stroke)
  | .setFont f sz =>
    if s.font == some (f, sz.val) then .ok (s, r)
    else .ok ({ s with font := some (f, sz.val) }.emit (.Tf f sz), r)
  | .setAlpha α stroke fill => .ok (setAlpha r s α stroke fill)
  | .setState d => .ok (setState r s d)
  | .softMaskState => .ok (softMaskState r s)
  | .setBlendMode mode => .ok (setState r s { kind := "blend:" ++ mode })
  | .beginMarked elementTag mcid tag => .ok (beginMarked s elementTag mcid tag, r)
  | .endMarked => if !s.mark then .ok (s, r) else .ok (s.emit .EMC, r)
  | .drawX k => .ok (s.emit (.Do k), r)
  | .paintShading n => .ok (s.emit (.sh n), r)
  | .setColorSpace sp stroke => .ok (s.emit (.cs sp stroke), r)
  | .setColorSpecial pat stroke operands => .ok (s.emit (.scn operands pat stroke), r)
  | .raw k args flag text => .ok (s.emit (.raw k.cls (rawText k args flag text)), r)
  | .rawTok c token => .ok (s.emit (.raw c token), r)

def runS (r : Res) (s : SState) : List Call → Except PyErr (SState × Res)
  | [] => .ok (s, r)
  | c :: cs => match stepS r s c with
    | .ok (s', r') => runS r' s' cs
    | .error e => .error e

/-! ## The same API without caches and peepholes -/

def setAlphaNaive (r : Res) (s : SState) (α : Num) (stroke : Bool) (fill : Option Bool) : SState × Res :=
  let p : SState × Res :=
    if stroke then (s.emit (.gs (.A α) { CA := some α }), r.ensureG (.A α) { CA := some α }) else (s, r)
  if fillFlag stroke fill then (p.1.emit (.gs (.a α) { ca := some α }), p.2.ensureG (.a α) { ca := some α }) else p

def stepNaive (r : Res) (s : SState) : Call → Except PyErr (SState × Res)
  | .pop =>
    match s.ctm with
    | [] => .error (.indexError "pop_state:_ctm_stack.pop")
    | [_] => .error (.assertFailed "pop_state:_ctm_stack")
    | _ :: rest => .ok ({ s with ctm := rest }.emit .Q, r)
  | .beginText => .ok (s.emit .BT, r)
  | .endText => .ok (s.emit .ET, r)
  | .setColor c stroke =>
    let (s, r) := setAlphaNaive r s c.alpha stroke none
    .ok (s.emitAll (colourOps c stroke), r)
  | .setFont f sz => .ok (s.emit (.Tf f sz), r)
  | .setAlpha α stroke fill => .ok (setAlphaNaive r s α stroke fill)
  | c => stepS r s c

def runNaive (r : Res) (s : SState) : List Call → Except PyErr (SState × Res)
  | [] => .ok (s, r)
  | c :: cs => match stepNaive r s c with
    | .ok (s', r') => runNaive r' s' cs
    | .error e => .error e

/-! ## Bracket checker on operator lists -/

inductive Fr where
  | q | T | M
  deriving DecidableEq, Repr

def inText (st : List Fr) : Bool := st.contains .T

/-- Operator classes with respect to bracket structure and text objects (PDF 32000-1 §8.2 figure 9, §9.4.1). -/
inductive TC where
  | q | Q | BT | ET
  | bmark        -- BMC BDC
  | emark        -- EMC
  | graphics     -- not allowed inside a text object: cm, path construction, painting, clipping, Do, sh, inline image
  | textOnly     -- only inside a text object: Td TD Tm T* Tj TJ ' "
  | free         -- allowed everywhere: graphics-state parameters, colour, text state, MP DP BX EX, d0 d1
  deriving DecidableEq, Repr

/-- Effect of one operator class on the stack of open brackets; `none` = ill-formed here. -/
def tokStep (t : TC) (st : List Fr) : Option (List Fr) :=
  match t with
  | .q => if inText st then none else some (.q :: st)
  | .Q => match st with | .q :: rest => some rest | _ => none
  | .BT => if inText st then none else some (.T :: st)
  | .ET => match st with | .T :: rest => some rest | _ => none
  | .bmark => some (.M :: st)
  | .emark => match st with | .M :: rest => some rest | _ => none
  | .graphics => if inText st then none else some st
  | .textOnly => if inText st then some st else none
  | .free => some st

def RawClass.tc : RawClass → TC
  | .path | .paint => .graphics
  | .textPos | .textShow => .textOnly
  | .gparam | .textState => .free

def Op.tc : Op → TC
  | .q => .q | .Q => .Q | .BT => .BT | .ET => .ET
  | .BMC | .BDC => .bmark | .EMC => .emark
  | .cm .. | .Do _ | .sh _ => .graphics
  | .raw c _ => c.tc
  | _ => .free

def opStep (o : Op) (st : List Fr) : Option (List Fr) := tokStep o.tc st

/-- Stack of open brackets after the operators (`rops` newest first); `some []` = balanced. -/
def cfg : List Op → Option (List Fr)
  | [] => some []
  | o :: r => (cfg r).bind (opStep o)

/-! ## API-level bracket discipline (what the call sites guarantee syntactically) -/

def Call.graphicsOnly : Call → Bool
  | .transform .. | .drawX _ | .paintShading _ => true
  | .raw k _ _ _ => k.cls == .path || k.cls == .paint
  | .rawTok c _ => c == .path || c == .paint
  | _ => false

def Call.textOnly : Call → Bool
  | .raw k _ _ _ => k.cls == .textPos || k.cls == .textShow
  | .rawTok c _ => c == .textPos || c == .textShow
  | _ => false

/-- `with stacked(stream)` = push … pop; `begin_text … end_text`; `begin_marked_content … end_marked_content`;
no save/restore, transform, path or XObject call inside a text object; glyph calls only inside one. -/
def apiStep (st : List Fr) (c : Call) : Option (List Fr) :=
  match c with
  | .push => if inText st then none else some (.q :: st)
  | .pop => match st with | .q :: rest => some rest | _ => none
  | .beginText => if inText st then none else some (.T :: st)
  | .endText => match st with | .T :: rest => some rest | _ => none
  | .beginMarked .. => some (.M :: st)
  | .endMarked => match st with | .M :: rest => some rest | _ => none
  | c =>
    if c.graphicsOnly then (if inText st then none else some st)
    else if c.textOnly then (if inText st then some st else none)
    else some st

def apiRun (st : List Fr) : List Call → Option (List Fr)
  | [] => some st
  | c :: cs => (apiStep st c).bind (fun st' => apiRun st' cs)

/-- Well bracketed at the API level. -/
def WB (calls : List Call) : Prop := apiRun [] calls = some []

/-- What of the API stack is visible in the operators: marked-content calls are no-ops without `_mark`. -/
def vis (mark : Bool) (st : List Fr) : List Fr := if mark then st else st.filter (· != .M)

/-! ## Cache discipline (what the call sites guarantee about the raw setters) -/

/-- Calls after which the caches of `Stream` still mirror the graphics state: everything except the raw pydyf-level
setters that change colour / alpha without telling the caches (`set_color_space`, `set_color_special`, and a bare
`set_state` with a dictionary that sets `ca` / `CA`).  `set_alpha_state` — the only caller of `set_state` with such a
dictionary in WeasyPrint — is safe since the repair: it forgets `_current_alpha` (`Call.softMaskState`). -/
def Call.cacheSafe : Call → Bool
  | .setState d => d.ca.isNone && d.CA.isNone
  | .setColorSpace .. => false
  | .setColorSpecial .. => false
  | _ => true

/-- The calls that read (and write) the colour / alpha caches. -/
def Call.reader : Call → Bool
  | .setColor .. | .setAlpha .. => true
  | _ => false

/-- The calls that change colour or alpha without telling the caches. -/
def Call.dirtying (c : Call) : Bool := !c.cacheSafe

/-- The discipline: `dirty` = a raw setter was called since the last `pop_state`.  While dirty, no cache reader. -/
def scopedOK : Bool → List Call → Bool
  | _, [] => true
  | dirty, c :: cs =>
    if c.dirtying then scopedOK true cs
    else if dirty then
      (match c with
       | .pop => scopedOK false cs
       | _ => !c.reader && scopedOK true cs)
    else scopedOK false cs

/-! ## Reference graphics-state interpreter -/

/-- The part of the PDF graphics state the caches of `Stream` mirror.  Colours are recorded as the operators that
set them (colour space + operands); alpha as the number in `ca` / `CA`; the font as `(name, size)`. -/
structure GS where
  fill : List Op := []
  stroke : List Op := []
  ca : Option Num := none
  CA : Option Num := none
  font : Option (String × Rat) := none
  deriving DecidableEq, Repr

/-- Current state and the `q` stack. -/
abbrev GStk := GS × List GS

def applyG (d : ExtG) (g : GS) : GS :=
  let g := match d.ca with | some α => { g with ca := some α } | none => g
  match d.CA with | some α => { g with CA := some α } | none => g

def applyOp (o : Op) (st : GStk) : GStk :=
  match o with
  | .q => (st.1, st.1 :: st.2)
  | .Q => match st.2 with | g :: rest => (g, rest) | [] => st
  | .gs _ d => (applyG d st.1, st.2)
  | .rgb r g b false => ({ st.1 with fill := [.rgb r g b false] }, st.2)
  | .rgb r g b true => ({ st.1 with stroke := [.rgb r g b true] }, st.2)
  | .cs sp false => ({ st.1 with fill := [.cs sp false] }, st.2)
  | .cs sp true => ({ st.1 with stroke := [.cs sp true] }, st.2)
  | .scn os p false => ({ st.1 with fill := .scn os p false :: st.1.fill.take 1 }, st.2)
  | .scn os p true => ({ st.1 with stroke := .scn os p true :: st.1.stroke.take 1 }, st.2)
  | .Tf f sz => ({ st.1 with font := some (f, sz.val) }, st.2)
  | _ => st

/-- Graphics state after the operators (`rops` newest first). -/
def G : List Op → GStk
  | [] => ({}, [])
  | o :: r => applyOp o (G r)

def Op.isPaint : Op → Bool
  | .raw .paint _ | .raw .textShow _ | .Do _ | .sh _ => true
  | _ => false

/-- Every painting operator with the graphics state it is executed under (newest first). -/
def paints : List Op → List (Op × GS)
  | [] => []
  | o :: r => if o.isPaint then (o, (G r).1) :: paints r else paints r

/-! ## The document: all streams and resource dictionaries -/

structure World where
  streams : List SState := []
  res : List Res := []
  images : List (String × List Rat) := []    -- `_images`: name ↦ dpi ratios (a set, kept in insertion order)
  mark : Bool := false                       -- `mark` of generate_pdf (given to every page stream)
  deriving Repr

inductive WCall where
  | on (h : Nat) (c : Call)
  | addGroup (h : Nat)
  | addPattern (h : Nat)
  | addShading (h : Nat)
  | addImage (h : Nat) (id : String) (interp : Bool) (ratio : Num)
  | setAlphaState (h : Nat)
  | clone (h : Nat)
  | newPage                      -- `Stream(document.fonts, page_rectangle, resources, images, mark, …)` in generate_pdf
  | assignSh (h : Nat) (n : Nat)  -- `alpha_stream.stream = [f'/{alpha_shading.id} sh']` (images.py, svg/defs.py)
  deriving Repr

def badHandle : PyErr := .indexError "model:handle"

def setAt {α} (l : List α) (i : Nat) (x : α) : List α := l.set i x

/-- A fresh stream as `Stream.clone(resources=…)` builds it: same `_mark`, empty caches, `_ctm_stack = [I]`. -/
def freshStream (parent : SState) (res : Nat) (id : Option String) : SState :=
  { mark := parent.mark, res := res, id := id }

/-- A call on stream `h`, threaded through the resource dictionary that stream writes to. -/
def World.onCall (w : World) (h : Nat) (c : Call) : Except PyErr World :=
  match w.streams[h]? with
  | none => .error badHandle
  | some s =>
    match w.res[s.res]? with
    | none => .error badHandle
    | some r =>
      match stepS r s c with
      | .error e => .error e
      | .ok (s', r') => .ok { w with streams := w.streams.set h s', res := w.res.set s.res r' }

/-- The same with the cache-free reference emission (used by the harness to judge a disagreement). -/
def World.onCallNaive (w : World) (h : Nat) (c : Call) : Except PyErr World :=
  match w.streams[h]? with
  | none => .error badHandle
  | some s =>
    match w.res[s.res]? with
    | none => .error badHandle
    | some r =>
      match stepNaive r s c with
      | .error e => .error e
      | .ok (s', r') => .ok { w with streams := w.streams.set h s', res := w.res.set s.res r' }

/-- `Stream.add_group`: new resource dictionary, new stream, registered as `x{len(XObject)}` in the caller's. -/
def World.addGroup (w : World) (h : Nat) : Except PyErr World :=
  match w.streams[h]? with
  | none => .error badHandle
  | some s =>
    match w.res[s.res]? with
    | none => .error badHandle
    | some r =>
      let key := XKey.x r.xobj.length
      let g := freshStream s w.res.length (some key.render)
      let r' := { r with xobj := r.xobj ++ [(key, some w.streams.length)] }
      .ok { w with streams := w.streams ++ [g], res := (w.res.set s.res r') ++ [{}] }

def World.step (w : World) : WCall → Except PyErr World
  | .on h c => w.onCall h c
  | .addGroup h => w.addGroup h
  | .addPattern h =>
    match w.streams[h]? with
    | none => .error badHandle
    | some s =>
      match w.res[s.res]? with
      | none => .error badHandle
      | some r =>
        let p := freshStream s w.res.length (some ("p" ++ toString r.pattern.length))
        let r' := { r with pattern := r.pattern ++ [w.streams.length] }
        .ok { w with streams := w.streams ++ [p], res := (w.res.set s.res r') ++ [{}] }
  | .addShading h =>
    match w.streams[h]? with
    | none => .error badHandle
    | some s =>
      match w.res[s.res]? with
      | none => .error badHandle
      | some r => .ok { w with res := w.res.set s.res { r with shading := r.shading + 1 } }
  | .addImage h id interp ratio =>
    match w.streams[h]? with
    | none => .error badHandle
    | some s =>
      match w.res[s.res]? with
      | none => .error badHandle
      | some r =>
        let key := XKey.img id interp
        let r' := if r.hasX key then r else { r with xobj := r.xobj ++ [(key, none)] }
        let name := key.render
        let images :=
          if w.images.any (·.1 == name) then
            w.images.map (fun e => if e.1 == name then
              (e.1, if e.2.contains ratio.val then e.2 else e.2 ++ [ratio.val]) else e)
          else w.images ++ [(name, [ratio.val])]
        .ok { w with res := w.res.set s.res r', images := images }
  | .setAlphaState h =>
    -- alpha_stream = self.add_group(…); self.set_state({SMask: {G: alpha_stream}, ca: 1, AIS: false});
    -- self._current_alpha = None
    match w.addGroup h with
    | .error e => .error e
    | .ok w' => w'.onCall h .softMaskState
  | .clone h =>
    match w.streams[h]? with
    | none => .error badHandle
    | some s => .ok { w with streams := w.streams ++ [freshStream s s.res none] }
  | .newPage => .ok { w with streams := w.streams ++ [{ mark := w.mark }] }
  | .assignSh h n =>
    match w.streams[h]? with
    | none => .error badHandle
    | some s => .ok { w with streams := w.streams.set h { s with rops := [.sh n] } }

/-- Reference run: API calls through `stepNaive`, everything else as `World.step`. -/
def World.runNaive (w : World) : List WCall → Except PyErr World
  | [] => .ok w
  | .on h c :: cs => match w.onCallNaive h c with
    | .ok w' => w'.runNaive cs
    | .error e => .error e
  | c :: cs => match w.step c with
    | .ok w' => w'.runNaive cs
    | .error e => .error e

def World.run (w : World) : List WCall → Except PyErr World
  | [] => .ok w
  | c :: cs => match w.step c with
    | .ok w' => w'.run cs
    | .error e => .error e

/-- `generate_pdf` before painting: one shared resource dictionary, one stream per page. -/
def World.init (mark : Bool) (pages : Nat) : World :=
  { streams := List.replicate pages { mark := mark }, res := [{}], mark := mark }

end Wp.Pdf
