/-
C20 — weasyprint/__init__.py `_select_source` (all branches) with urls.py `ensure_url`: how `HTML(…)`, `CSS(…)` and
`Attachment(…)` turn their arguments into one source and the **base URL** against which every relative reference of
that source is resolved before it is handed to the fetcher.

What `path2url` makes of a file name (cwd, `os.path.isdir`) and whether `open(filename)` succeeds are parameters of the
model, obtained by the harness from the real functions.  No Mathlib.
-/
import WpModel.Model.Resources

namespace Wp.Res.Source
open Wp Wp.Res

/-- A file name given as `str` or `pathlib.Path`, with what the file system says about it. -/
structure FileName where
  name : String
  asUrl : String        -- `path2url(filename)`
  openErr : Option String   -- the `OSError` subclass `open(filename, 'rb')` raises (`none`: it opens)
  deriving Repr, BEq, DecidableEq, Inhabited

/-- The `guess` argument. -/
inductive Guess where
  | readable (name : Option FileName)   -- `hasattr(guess, 'read')`; its `.name` attribute
  | path (f : FileName)                 -- `isinstance(guess, Path)`
  | text (s : String) (asFile : FileName)   -- a `str`: a URL when `url_is_absolute`, else a file name
  deriving Repr, BEq, DecidableEq, Inhabited

structure Args where
  guess : Option Guess := none
  filename : Option FileName := none
  url : Option String := none
  fileObj : Option (Option FileName) := none    -- a file object and its `.name` (`none`: no name)
  string : Bool := false                        -- `string is not None`
  baseUrl : Option FileName := none             -- `base_url` (`name`: the value; `asUrl`: `path2url` of it)
  checkMime : Bool := false
  deriving Repr, BEq, DecidableEq, Inhabited

/-- Which bytes the caller reads. -/
inductive Origin where
  | localFile (name : String)      -- the file opened by `_select_source`
  | fetched (content : Nat)        -- `result['string']` / `result['file_obj']` of the fetcher
  | emptyString                    -- "Unsupported stylesheet type": `''`
  | givenFileObj
  | givenString
  deriving Repr, BEq, DecidableEq, Inhabited

structure Selected where
  kind : String                    -- `'file_obj'` or `'string'`
  origin : Origin
  baseUrl : Option String
  deriving Repr, BEq, DecidableEq, Inhabited

/-- `ensure_url(string)`. -/
def ensureUrl (f : FileName) : String := if urlIsAbsolute f.name then f.name else f.asUrl

/-- The body of `with fetch(url_fetcher, url) as result:` in the `url` branch. -/
def urlBody (base : Option String) (checkMime : Bool) (r : Resp) : Except Exc Selected :=
  if checkMime && r.mime != some "text/css" then .ok ⟨"string", .emptyString, base⟩
  else
    let base' := match base with
      | some b => some b
      | Option.none => r.redirected       -- `result.get('redirected_url', url)`: set by `fetch`
    if r.hasString then .ok ⟨"string", .fetched r.content.id, base'⟩
    else match r.fileObj with
      | some _ => .ok ⟨"file_obj", .fetched r.content.id, base'⟩
      | Option.none => .error ⟨"KeyError", "'file_obj'"⟩

/-- The base URL of a file object given by the caller: "filesystem file-like objects have a 'name' attribute". -/
def fileObjBase (base : Option String) (name : Option FileName) : Option String :=
  match base with
  | some b => some b
  | Option.none => match name with
    -- `if name and not name.startswith('<')`
    | some n => if n.name != "" && n.name.toList.head? != some '<' then some (ensureUrl n) else Option.none
    | Option.none => Option.none

/-- The branches after the "exactly one source" test, for an explicit kind of source. -/
def selectOne (fetcher : Fetcher) (base : Option String) (checkMime : Bool) :
    (filename : Option FileName) → (url : Option String) → (fileObj : Option (Option FileName)) →
    List Ev × Except Exc Selected
  | some f, _, _ =>
    match f.openErr with
    | Option.none => ([], .ok ⟨"file_obj", .localFile f.name, some (base.getD f.asUrl)⟩)
    | some cls => ([], .error ⟨cls, f.name⟩)
  | Option.none, some u, _ => fetch (fetcher u) u (urlBody base checkMime)
  | Option.none, Option.none, some name => ([], .ok ⟨"file_obj", .givenFileObj, fileObjBase base name⟩)
  | Option.none, Option.none, Option.none => ([], .ok ⟨"string", .givenString, base⟩)

/-- `len(selected_params)`: the source arguments that are not `None`. -/
def Args.count (a : Args) : Nat :=
  (if a.guess.isSome then 1 else 0) + (if a.filename.isSome then 1 else 0) + (if a.url.isSome then 1 else 0) +
    (if a.fileObj.isSome then 1 else 0) + (if a.string then 1 else 0)

/-- The `elif` chain once exactly one source is given (`guess` is looked at first and calls the function again with the
kind it found). -/
def dispatch (fetcher : Fetcher) (a : Args) : List Ev × Except Exc Selected :=
  let base := a.baseUrl.map ensureUrl
  match a.guess with
  | some (.readable name) => selectOne fetcher base a.checkMime Option.none Option.none (some name)
  | some (.path f) => selectOne fetcher base a.checkMime (some f) Option.none Option.none
  | some (.text s asFile) =>
    if urlIsAbsolute s then selectOne fetcher base a.checkMime Option.none (some s) Option.none
    else selectOne fetcher base a.checkMime (some asFile) Option.none Option.none
  | Option.none => selectOne fetcher base a.checkMime a.filename a.url a.fileObj

/-- `_select_source(guess, filename, url, file_obj, string, base_url, url_fetcher, check_css_mime_type)` entered. -/
def selectSource (fetcher : Fetcher) (a : Args) : List Ev × Except Exc Selected :=
  if a.count != 1 then ([], .error ⟨"TypeError", "Expected exactly one source"⟩)
  else dispatch fetcher a

end Wp.Res.Source
