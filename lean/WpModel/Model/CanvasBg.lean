/-
Model of the style plumbing of `weasyprint/layout/background.py`:
* `layout_box_backgrounds(page, box, get_image_from_uri, layout_children, style=None)` for a box with at most
  one background layer: *every* value — the image, its `image-resolution`, size, clip, repeat, origin, position,
  attachment, visibility, colour — is read from `style`, which is `box.style` unless the caller passes one;
* `layout_backgrounds(page, …)`: the canvas background.  The page box and all its descendants are laid out
  with their own styles; the background of the root element — or, when the root is `<html>` and has none, of
  its first `<body>` child — is then laid out again **on the page box with the style of that element**
  (`style=chosen_box.style`), its painting area replaced by the page's border box, stored as
  `page.canvas_background`; the page keeps its own background and the chosen element loses its.
A raster image of `pw × ph` pixels has the intrinsic size `pw / res × ph / res` (`RasterImage.get_intrinsic_size`).
No Mathlib: linked into `driver_c13`.
-/
import WpModel.Model.ReplacedBg

namespace Wp.Replaced
open Wp

/-- What `layout_box_backgrounds` reads of a style (one layer). -/
structure BgStyle where
  image : Option (Rat × Rat)     -- `background-image`: a raster image of `pw × ph` pixels
  colored : Bool                 -- `get_color(style, 'background_color').alpha != 0`
  hidden : Bool                  -- `style['visibility'] != 'visible'` (hidden or collapse: repair af29a5d)
  res : Rat                      -- `style['image_resolution']`
  size : BgSize
  clip : BoxArea
  rx : Repeat
  ry : Repeat
  origin : BoxArea
  pos : Position
  fixed : Bool
  deriving Repr, BEq

/-- `box.background` after `layout_box_backgrounds`. -/
inductive BoxBg where
  | none                                   -- `box.background = None`
  | layers (ls : List LayerResult)         -- `Background(color, layers, image_rendering)`
  deriving Repr, BEq

/-- `layout_box_backgrounds(page, box, …, style)`; `isPage`: `box == page`. -/
def layoutBoxBackgrounds (g : Geom) (kind : BoxKind) (pageG : Geom) (isPage : Bool) (style : BgStyle) :
    Except Err BoxBg := do
  let image := if style.hidden then none else style.image
  let colored := if style.hidden then false else style.colored
  if !colored && image.isNone && !isPage then pure .none
  else
    match image with
    | none => do
      -- `background-image: none` is one entry `('none', None)` of the list: one layer without image
      let l ← layoutBackgroundLayer g kind pageG none style.size style.clip style.rx style.ry style.origin
        style.pos style.fixed
      pure (.layers [l])
    | some (pw, ph) => do
      let ratio ← pyDiv "RasterImage.ratio" pw ph
      let i ← rasterIntrinsic pw ph style.res ratio
      let l ← layoutBackgroundLayer g kind pageG (some i) style.size style.clip style.rx style.ry style.origin
        style.pos style.fixed
      pure (.layers [l])

/-- Which element's background goes to the canvas. -/
inductive Chosen where
  | root | body | nobody
  deriving Repr, DecidableEq

/-- `chosen_box` of `layout_backgrounds`: the root, or — when the root is `<html>` and its background is
`None` — its first `<body>` child; `nobody` when the chosen box has no background. -/
def chooseCanvas (rootIsHtml : Bool) (rootStyle : BgStyle) (rootBg : BoxBg) (body : Option (Geom × BgStyle))
    (bodyBg : Option BoxBg) : Chosen × Option BgStyle :=
  if rootIsHtml && rootBg == .none then
    match body, bodyBg with
    | some (_, s), some bg => if bg == .none then (.nobody, none) else (.body, some s)
    | _, _ => (.nobody, none)
  else if rootBg == .none then (.nobody, none) else (.root, some rootStyle)

/-- `layout_box_backgrounds(page, page, …, layout_children=False, style=chosen_box.style)` and the replacement
of the painting area by the page's border box: the canvas layers depend on the page *geometry* and on the
chosen element's *style* only. -/
def canvasFor (pageG : Geom) (bt br bb bl : Rat) (s : BgStyle) : Except Err (List LayerResult) := do
  let border ← boxRectangle pageG .borderBox
  match ← layoutBoxBackgrounds pageG (.page bt br bb bl) pageG true s with
  | .layers ls => pure (ls.map (fun l => { l with paintingArea := border }))
  | .none => pure []

/-- `layout_backgrounds(page, …)`: `(chosen element, page.canvas_background layers)`; `nobody` = `None`.
`root`: geometry, style, `element_tag.lower() == 'html'`; `body`: the first child of the root whose tag is
`body`, if any. -/
def layoutBackgrounds (pageG : Geom) (bt br bb bl : Rat) (pageStyle : BgStyle) (rootG : Geom) (rootStyle : BgStyle)
    (rootIsHtml : Bool) (body : Option (Geom × BgStyle)) : Except Err (Chosen × List LayerResult) := do
  -- layout_box_backgrounds(page, page, …): the page and all descendants, each with its own style
  let _ ← layoutBoxBackgrounds pageG (.page bt br bb bl) pageG true pageStyle
  let rootBg ← layoutBoxBackgrounds rootG .plain pageG false rootStyle
  let bodyBg ← match body with
    | some (g, s) => (layoutBoxBackgrounds g .plain pageG false s).map some
    | none => pure none
  match chooseCanvas rootIsHtml rootStyle rootBg body bodyBg with
  | (c, some s) => do
    let ls ← canvasFor pageG bt br bb bl s
    pure (c, ls)
  | (_, none) => pure (.nobody, [])

end Wp.Replaced
