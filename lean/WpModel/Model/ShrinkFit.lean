/-
Model of the shrink-to-fit widths (C05 clauses (b)(c) for floats and inline-blocks):

  weasyprint/layout/preferred.py  shrink_to_fit
  weasyprint/layout/float.py      float_width (decorated) and the width part of float_layout
  weasyprint/layout/inline.py     inline_block_width (decorated) and the width part of inline_block_box_layout

`min_content_width` / `max_content_width` of the box are inputs (`minC`, `maxC`): they come from text shaping,
which the model does not contain.  No Mathlib: linked into the driver.
-/
import WpModel.Model.BoxModel

namespace Wp.ShrinkFit
open Wp Wp.BoxModel

/-- `preferred.shrink_to_fit`: `min(max(min_content, available_content_width), max_content)`. -/
def shrinkToFit (minC maxC available : Rat) : Rat := min (max minC available) maxC

/-- `if box.margin_left == 'auto': box.margin_left = 0` (and right), as both layouts do first. -/
def zeroAutoMargins (box : ABox) : ABox :=
  { box with ml := some (orZero box.ml), mr := some (orZero box.mr) }

/-- `inline.py` `inline_block_width.without_min_max`: the available width is the containing block width
minus the box's own margins, borders and paddings. -/
def inlineBlockWidthCore (cbWidth minC maxC : Rat) (box : ABox) : Except BErr ABox :=
  match box.ml, box.mr with
  | some ml, some mr =>
    let available := cbWidth - (ml + mr + box.bl + box.br + box.pl + box.pr)
    match box.w with
    | none => .ok { box with w := some (shrinkToFit minC maxC available) }
    | some _ => .ok box
  | _, _ => .error (.typeError "inline_block_width:auto-margin")

/-- `float.py` `float_width.without_min_max`: only when the width is `auto`, the available width is the
containing block width minus the box's own margins, paddings and borders (read inside the `if`: a float
with a specified width never reads its margins here), then `shrink_to_fit`. -/
def floatWidthCore (cbWidth minC maxC : Rat) (box : ABox) : Except BErr ABox :=
  match box.w with
  | none =>
    match box.ml, box.mr with
    | some ml, some mr =>
      let available := cbWidth - (ml + mr + box.pl + box.pr + box.bl + box.br)
      .ok { box with w := some (shrinkToFit minC maxC available) }
    | _, _ => .error (.typeError "float_width:auto-margin")
  | some _ => .ok box

/-- Width part of `inline_block_box_layout`: auto margins are 0, then the decorated `inline_block_width`. -/
def inlineBlockLayoutWidth (cbWidth minC maxC : Rat) (box : ABox) : Except BErr ABox :=
  handleMinMaxWidth (inlineBlockWidthCore cbWidth minC maxC) (zeroAutoMargins box)

/-- Width part of `float_layout` for a non-replaced float: auto margins are 0, then
`else: float_width(box, context, containing_block)` — the decorated function, whatever the width is, so
`min-width` and `max-width` apply to a float with a specified width too. -/
def floatLayoutWidth (cbWidth minC maxC : Rat) (box : ABox) : Except BErr ABox :=
  handleMinMaxWidth (floatWidthCore cbWidth minC maxC) (zeroAutoMargins box)

end Wp.ShrinkFit
