/-
Line-protocol handlers for C19 (PdfZoom, CopyPages, ImageCache, WriteSinks, RenderState).  Commands are documented at
each handler; results are canonical strings the Python harness reproduces from the real objects.
-/
import WpModel.Model.Wire
import WpModel.Model.CopyPages
import WpModel.Model.PdfZoom
import WpModel.Model.ImageCache
import WpModel.Model.WriteSinks
import WpModel.Model.RenderState
import WpModel.Model.DiskCache
import WpModel.Model.WriteState
import WpModel.Model.TextDecoration
import WpModel.Model.AttachDates
import WpModel.Model.SvgDraw
import WpModel.Model.CounterDict

namespace Wp.Drive.C19
open Wp

/-- Exceptions are compared by class only; `KeyError` travels as `.indexError "KeyError:…"`. -/
def errClass (e : PyErr) : String :=
  match e with
  | .indexError s => if s.startsWith "KeyError" then "err:KeyError" else "err:IndexError"
  | .assertFailed _ => "err:AssertionError"
  | .zeroDivision _ => "err:ZeroDivisionError"
  | .noneAttribute _ => "err:AttributeError"
  | .recursion _ => "err:RecursionError"
  | .valueError _ => "err:ValueError"

/-! ### pages -/
section pages
open Wp.CopyPages Wp.PdfZoom

def link? : Sx → Option Link
  | .list [k, t, x1, y1, x2, y2] => do
    let k ← k.atom?.bind LinkKind.ofString?
    let t ← t.atom?
    pure ⟨k, t, ⟨← x1.rat?, ← y1.rat?, ← x2.rat?, ← y2.rat?⟩⟩
  | _ => none

def anchor? : Sx → Option Anchor
  | .list [n, x, y] => do pure ⟨← n.atom?, ← x.rat?, ← y.rat?⟩
  | _ => none

def bookmark? : Sx → Option Bookmark
  | .list [lv, lb, x, y, c] => do pure ⟨← lv.nat?, ← lb.atom?, ← x.rat?, ← y.rat?, ← c.bool?⟩
  | _ => none

/-- `(w h (bt br bb bl) (link…) (anchor…) (bookmark…))` -/
def page? : Sx → Option Page
  | .list [w, h, .list [bt, br, bb, bl], .list ls, .list as, .list bs] => do
    pure ⟨← w.rat?, ← h.rat?, ⟨← bt.rat?, ← br.rat?, ← bb.rat?, ← bl.rat?⟩,
          ← allSome link? ls, ← allSome anchor? as, ← allSome bookmark? bs⟩
  | _ => none

def pages? (x : Sx) : Option (List Page) := x.list?.bind (allSome page?)

/-- `all` or a list of indices into the page list. -/
def sel? (pages : List Page) : Sx → Option Sel
  | .atom "all" => some .all
  | .list is => do
    let idx ← allSome Sx.nat? is
    let ps ← allSome (fun i => pages[i]?) idx
    pure (.pages ps)
  | _ => none

def box4 (num : Rat → String) (tag : String) (b : Box4) : Sx :=
  .list [.atom tag, .atom (num b.x1), .atom (num b.y1), .atom (num b.x2), .atom (num b.y2)]

def sxLink (l : Link) : Sx :=
  .list [.atom l.kind.toString, .atom l.target, sxRat l.rect.x1, sxRat l.rect.y1, sxRat l.rect.x2, sxRat l.rect.y2]

def sxAnchor (a : Anchor) : Sx := .list [.atom a.name, sxRat a.x, sxRat a.y]

def sxPagePdf (num : Rat → String) (exact : Bool) (p : PagePdf) : Sx :=
  .list ([box4 num "media" p.media, box4 num "trim" p.trim, box4 num "bleed" p.bleed] ++
    (if exact then [box4 num "rect" p.rectangle]
     else [.list [.atom "cm", .atom (num p.flipF), .atom (num p.paintScale)]]) ++
    [.list (.atom "annots" :: p.annots.map (fun a =>
       .list [.atom a.kind.toString, .atom a.target, .atom (num a.rect.x1), .atom (num a.rect.y1),
              .atom (num a.rect.x2), .atom (num a.rect.y2)]))])

/-- In the written PDF `closed` is only visible as a negative `/Count`, i.e. on an item that has children (the next
item in document order is deeper). -/
def visibleState (exact : Bool) : List PdfZoom.Outline → List String
  | [] => []
  | b :: rest =>
    let hasChild := match rest with
      | [] => false
      | n :: _ => decide (n.depth > b.depth)
    (if b.closed && (exact || hasChild) then "closed" else "open") :: visibleState exact rest

def sxPdfOut (num : Rat → String) (exact : Bool) (o : PdfOut) : Sx :=
  .list [.list (.atom "pages" :: o.pages.map (sxPagePdf num exact)),
         .list (.atom "names" :: o.names.map (fun d =>
           .list [.atom d.name, sxNat d.page, .atom (num d.x), .atom (num d.y)])),
         .list (.atom "outlines" :: (o.outlines.zip (visibleState exact o.outlines)).map (fun (b, st) =>
           .list [sxNat b.depth, .atom b.label, sxNat b.page, .atom (num b.x), .atom (num b.y), .atom st]))]

def mkDoc (pages : List Page) (hasHtml : Bool) : Document := ⟨pages, 1, 2, 3, hasHtml⟩

/-- Commands
  `pdfdoc  <zoom> <needsHtml> <hasHtml> <sel|none> (page…)`  numbers as pydyf writes them
  `pdfdocx <zoom> <needsHtml> <hasHtml> <sel|none> (page…)`  exact rationals, with `page_rectangle`
  `resolve (page…)`                                         `resolve_links`
  `copy <sel> <hasHtml> <npages>`                           what `Document.copy` passes on
  `outline <scale> (page…)`                                 `make_bookmark_tree(scale, transform_pages=True)`
  `tp a b c d e f x y`                                      `Matrix.transform_point`
  `pdfnum q`                                                pydyf `_to_bytes(float)` -/
def handlePages (cmd : String) (args : List Sx) : Option String :=
  match cmd, args with
  | "pdfdoc", [z, ua, hh, sel, ps] => pdfdoc false z ua hh sel ps
  | "pdfdocx", [z, ua, hh, sel, ps] => pdfdoc true z ua hh sel ps
  | "resolve", [ps] => do
    let pages ← pages? ps
    let out := resolveLinks pages
    pure (Sx.render (.list (out.map (fun la => .list [.list (la.1.map sxLink), .list (la.2.map sxAnchor)]))))
  | "copy", [sel, hh, n] => do
    let n ← n.nat?
    -- pages are identified by their index, carried in `width`
    let pages := (List.range n).map (fun (i : Nat) => (⟨(i : Rat), 0, ⟨0, 0, 0, 0⟩, [], [], []⟩ : Page))
    let s ← sel? pages sel
    let d := copy (mkDoc pages (← hh.bool?)) s
    pure (Sx.render (.list [.list (.atom "pages" :: d.pages.map (fun p => sxRat p.width)),
      .list [.atom "metadata", sxNat d.metadata], .list [.atom "fetcher", sxNat d.urlFetcher],
      .list [.atom "font", sxNat d.fontConfig], .list [.atom "html", sxBool d.hasHtml]]))
  | "outline", [s, ps] => do
    let s ← s.rat?
    let pages ← pages? ps
    match docOutlines s 0 ⟨[], 0⟩ pages with
    | .error e => pure (errClass e)
    | .ok out => pure (Sx.render (.list (out.map (fun b =>
        .list [sxNat b.depth, .atom b.label, sxNat b.page, sxRat b.x, sxRat b.y,
               .atom (if b.closed then "closed" else "open")]))))
  | "tp", [a, b, c, d, e, f, x, y] => do
    let m : Matrix := ⟨← a.rat?, ← b.rat?, ← c.rat?, ← d.rat?, ← e.rat?, ← f.rat?⟩
    let q := m.transformPoint (← x.rat?) (← y.rat?)
    pure (showRat q.1 ++ " " ++ showRat q.2)
  | "pdfnum", [q] => do pure (pdfNum (← q.rat?))
  | _, _ => none
where
  pdfdoc (exact : Bool) (z ua hh sel ps : Sx) : Option String := do
    let z ← z.rat?
    let pages ← pages? ps
    let d0 := mkDoc pages (← hh.bool?)
    let d ← match sel with
      | .atom "none" => some d0
      | s => (sel? pages s).map (copy d0)
    match generatePdf z (← ua.bool?) d with
    | .error e => pure (errClass e)
    | .ok out => pure (Sx.render (sxPdfOut (if exact then showRat else pdfNum) exact out))

end pages

/-! ### image cache -/
section images
open Wp.ImageCache

def orientation? : Sx → Option Orientation
  | .atom "from-image" => some .fromImage
  | .atom "none" => some .none
  | .list [q, f] => do
    let a ← q.nat?
    let quarter ← match a with
      | 0 => some Quarter.q0 | 90 => some Quarter.q90 | 180 => some Quarter.q180 | 270 => some Quarter.q270
      | _ => Option.none
    pure (.angle quarter (← f.bool?))
  | _ => Option.none

def fmt? : String → Option Fmt
  | "JPEG" => some .jpeg | "MPO" => some .mpo | "PNG" => some .png | "OTHER" => some .other | _ => none

def optStr? : Sx → Option (Option String)
  | .atom "none" => some none
  | .atom s => some (some s)
  | _ => none

def optNat? : Sx → Option (Option Nat)
  | .atom "none" => some none
  | x => x.nat?.map some

/-- `(url raises)` | `(url malformed)` |
`(url ok <mime|none> <file|none> <blob> <svgOk> <fmt|none> <exifRotates> <encodable>)` -/
def resource? : Sx → Option (String × Fetched)
  | .list [u, .atom "raises"] => do pure (← u.atom?, .raises)
  | .list [u, .atom "malformed"] => do pure (← u.atom?, .malformed)
  | .list [u, .atom "ok", mime, file, blob, svg, fmt, exif, enc] => do
    let exif ← exif.bool?
    let enc ← enc.bool?
    let raster : Option Raster ← match fmt with
      | .atom "none" => some none
      | .atom s => (fmt? s).map (fun f => some (Raster.mk f exif enc))
      | _ => none
    pure (← u.atom?, .ok (← optStr? mime) (← optStr? file) ⟨← blob.nat?, ← svg.bool?, raster⟩)
  | _ => none

/-- A memory fetcher: unknown URLs raise. -/
def fetcherOf (table : List (String × Fetched)) : Fetcher := fun url =>
  match table.find? (fun e => e.1 = url) with
  | some e => e.2
  | none => .raises

/-- `(optimize quality|none dpi|none)` -/
def opts? : Sx → Option Opts
  | .list [opt, q, dpi] => do pure ⟨← opt.bool?, ← optNat? q, ← optNat? dpi⟩
  | _ => none

/-- `(url forced|- orientation (optimize quality dpi))` -/
def call? : Sx → Option Call
  | .list [u, f, o, opts] => do
    let f ← f.atom?
    pure ⟨← u.atom?, if f = "-" then "" else f, ← orientation? o, ← opts? opts⟩
  | _ => none

def showOutFmt : OutFmt → String
  | .jpeg => "JPEG" | .png => "PNG"

def showDpi : Option Nat → String
  | none => "none" | some n => toString n

def showImg : Option Img → String
  | none => "none"
  | some (.svg url blob) => "svg:" ++ url ++ ":" ++ toString blob
  | some (.raster id fmt dpi src) =>
    "raster:" ++ id ++ ":" ++ showOutFmt fmt ++ ":" ++ showDpi dpi ++ ":" ++
      (match src with | .file n => "file=" ++ n | .cached k => "cached=" ++ k)

/-- Reduced payload descriptor (see the harness): original bytes, or re-encoded with/without a transposition. -/
def showPayload : Payload → String
  | .orig b => "orig:" ++ toString b
  | .reenc b o fmt _ _ =>
    "reenc:" ++ toString b ++ ":" ++ (match o with | .none => "same" | .fromImage => "exif" | .angle _ _ => "rot") ++
      ":" ++ showOutFmt fmt

def showEntry : Entry → String
  | .image i => showImg i
  | .bytes p => "bytes=" ++ showPayload p

/-- `imgcache (resource…) (call…) insertion|sorted` (every call carries its image options) →
`<value> … | keys <key>=<entry> … | fetched <url> …` (atoms separated by `;`). -/
def handleImages (cmd : String) (args : List Sx) : Option String :=
  match cmd, args with
  | "imgcache", [.list rs, .list cs, order] => do
    let order ← order.atom?
    let table ← allSome resource? rs
    let calls ← allSome call? cs
    let results := runCalls (fetcherOf table) [] calls
    let values := results.map (fun r => match r.value with
      | .ok e => showEntry e
      | .error e => errClass e)
    let final := match results.getLast? with
      | some r => r.cache
      | none => []
    let fetched := results.flatMap (·.fetched)
    let entries := final.map (fun e => e.1 ++ "=" ++ showEntry e.2)
    let entries := if order = "sorted" then entries.mergeSort (fun a b => decide (a ≤ b)) else entries
    pure (";".intercalate values ++ " | keys " ++ ";".intercalate entries
      ++ " | fetched " ++ ";".intercalate fetched)
  | "imgdocs", [.list rs, .list ds] => do
    -- `imgdocs (resource…) ((call…) …)` → per document (separated by ` | `) the URLs it fetched (`;`), then `=>` and
    -- what each request returned (`;`)
    let table ← allSome resource? rs
    let docs ← allSome (fun d => d.list?.bind (allSome call?)) ds
    let results := runDocs (fetcherOf table) [] docs
    let one (rs : List Result) : String :=
      ";".intercalate (rs.flatMap (·.fetched)) ++ " => " ++ ";".intercalate (rs.map (fun r => match r.value with
        | .ok (.image none) => "none"
        | .ok (.image (some (.svg _ _))) => "svg"
        | .ok (.image (some (.raster _ fmt _ _))) => showOutFmt fmt
        | .ok (.bytes _) => "bytes"
        | .error e => errClass e))
    pure (" | ".intercalate (results.map one))
  | "imgkey", [u, o, opts] => do pure (keyStr (← u.atom?) (← orientation? o) (← opts? opts))
  | "diskops", ops => do
    -- `(set k b n)` bytes number n, `(set k o n)` an object, `(set k none)`, `(get k)`, `(has k)`
    let op? : Sx → Option Wp.DiskCache.Op := fun x => match x with
      | .list [.atom "set", k, .atom "b", n] => do pure (.set (← k.atom?) (.bytes (.orig (← n.nat?))))
      | .list [.atom "set", k, .atom "o", n] => do pure (.set (← k.atom?) (.image (some (.svg "o" (← n.nat?)))))
      | .list [.atom "set", k, .atom "none"] => do pure (.set (← k.atom?) (.image none))
      | .list [.atom "get", k] => do pure (.get (← k.atom?))
      | .list [.atom "has", k] => do pure (.has (← k.atom?))
      | _ => none
    let ops ← allSome op? ops
    pure (" ".intercalate (Wp.DiskCache.runDisk Wp.DiskCache.empty ops))
  | _, _ => none

end images

/-! ### write_pdf sinks, render state -/
section control
open Wp.WriteSinks Wp.RenderState

def ident? : Sx → Option Ident
  | .atom "none" => some .none
  | .atom "true" => some (.bool true)
  | .atom "false" => some (.bool false)
  | .atom "empty" => some (.bytes "")
  | .list [.atom "b", .atom s] => some (.bytes s)
  | _ => Option.none

def optStrE? : Sx → Option (Option String)
  | .atom "none" => some none
  | .atom "empty" => some (some "")
  | .atom s => some (some s)
  | _ => none

def target? : Sx → Option Target
  | .atom "none" => some .none | .atom "fileobj" => some .fileObj | .atom "path" => some .path | _ => Option.none

def showIdent : Ident → String
  | .none => "none" | .bool b => toString b | .bytes s => if s = "" then "empty" else "b:" ++ s

def showOptStr : Option String → String
  | none => "none" | some s => if s = "" then "empty" else s

def showEvent : Event → String
  | .generatePdf v => "generate(" ++ showOptStr v ++ ")"
  | .finisher => "finisher"
  | .openPath => "open"
  | .write sink a =>
    "write(" ++ (match sink with | .bytesIO => "bytesio" | .target => "target" | .openedFile => "file") ++ "," ++
      showOptStr a.version ++ "," ++ showIdent a.identifier ++ "," ++ toString a.compress ++ ")"
  | .closePath => "close"
  | .returnBytes => "return-bytes"
  | .returnNone => "return-none"

def cacheOpt? : Sx → Option CacheOpt
  | .atom "none" => some .none
  | .atom "folder" => some .folder
  | .list [.atom "dict", n] => n.nat?.map .dict
  | .list [.atom "disk", n] => n.nat?.map .diskCache
  | _ => Option.none

def sheet? : Sx → Option Sheet
  | .atom "raw" => some .raw
  | .list [.atom "css", n] => n.nat?.map .css
  | _ => none

def renderIn? : Sx → Option RenderIn
  | .list [f, c, k, s, ff] => do
    let sheets ← match s with
      | .atom "none" => some none
      | .list xs => (allSome sheet? xs).map some
      | _ => none
    pure ⟨← optNat f, ← optNat c, ← cacheOpt? k, sheets, ← ff.bool?⟩
  | _ => none
where
  optNat : Sx → Option (Option Nat)
    | .atom "none" => some none
    | x => x.nat?.map some

/-- An identity as the harness can see it: one of the caller's objects (`c<id>`), an object created by render number
`j` of the history (`n<j>`), never anything else. -/
def label (callers : List Nat) (created : List (List Nat)) (id : Nat) : String :=
  if id ∈ callers then "c" ++ toString id
  else match created.findIdx? (fun l => id ∈ l) with
    | some j => "n" ++ toString j
    | none => "?"

def showEv : Ev → String
  | .alloc k _ => "new:" ++ k.name
  | .readGlobal .defaultOptions => "read:DEFAULT_OPTIONS"
  | .readGlobal .uaCounterStyle => "read:HTML5_UA_COUNTER_STYLE"
  | .readGlobal .uaStylesheet => "read:HTML5_UA_STYLESHEET"
  | .writeObj _ => "write:counter_style"
  | .writeFont _ => "write:font_config"

/-- `sinks (variant version identifier uncompressed) <finisher> <target>` → event trace
`renders (<font> <counter> <cache> <sheets>) …` → per render: events, then who owns what the context holds. -/
def handleControl (cmd : String) (args : List Sx) : Option String :=
  match cmd, args with
  | "sinks", [.list [v, ver, idt, unc], fin, t] => do
    let o : WriteSinks.Opts := ⟨← optStrE? v, ← optStrE? ver, ← ident? idt, ← unc.bool?⟩
    match writePdf o (← fin.bool?) (← target? t) with
    | .error e => pure (errClass e)
    | .ok evs => pure (" ".intercalate (evs.map showEvent))
  | "renders", ins => do
    let ins ← allSome renderIn? ins
    -- caller identities are < 1000 (the harness numbers them from 1); created ones start at 1000
    let outs := renderAll 1000 ins
    let callers := ins.flatMap callerObjects
    let created := outs.map (fun o => allocated o.events)
    let one (o : RenderOut) : String :=
      " ".intercalate (o.events.map showEv) ++ " => font=" ++ label callers created o.fontConfig ++
        " counter=" ++ label callers created o.counterStyle ++ " cache=" ++ label callers created o.cache ++
        " collector=" ++ label callers created o.targetCollector ++ " stylefor=" ++ label callers created o.styleFor ++
        " context=" ++ label callers created o.context ++
        " sheets=" ++ ",".intercalate (o.userSheets.map (label callers created)) ++
        " document=" ++ label callers created o.document ++
        -- containers of this render's `LayoutContext` that an earlier render's context holds too: the context and
        -- everything its constructor creates are allocated by the render (`C19.context_state_fresh`)
        " shared=" ++ ",".intercalate ((outs.takeWhile (· != o)).filterMap (fun e =>
          if e.context = o.context then some "context" else none))
    pure (" || ".intercalate (outs.map one))
  | "echo", .atom s :: _ => some s
  | _, _ => none

end control

/-! ### state left behind by a write -/
section writestate
open Wp.WriteState Wp.CopyPages

def boxLink? : Sx → Option BoxLink
  | .list [b, k, t] => do pure ⟨← b.nat?, ← k.atom?.bind LinkKind.ofString?, ← t.atom?⟩
  | _ => none

/-- `writes ((name…) (link…)) …`: successive `write_pdf` calls (numbered from 1) over boxes that persist; per write the
tagged boxes `box:pdf`.
`xobjects W H (w h)|none …`: successive `get_x_object` calls on one `RasterImage`: `W,H,generation,dataW,dataH`. -/
def handleWriteState (cmd : String) (args : List Sx) : Option String :=
  match cmd, args with
  | "writes", ws => do
    let parsed ← allSome (fun w => match w with
      | Sx.list [.list names, .list links] => do
        pure ((← allSome Sx.atom? names), (← allSome boxLink? links))
      | _ => none) ws
    let out := (runWrites 1 [] parsed).map (fun tags =>
      ",".intercalate (tags.map (fun t => toString t.1 ++ ":" ++ toString t.2)))
    pure (" | ".intercalate out)
  | "xobjects", w :: h :: targets => do
    let target? : Sx → Option (Option (Nat × Nat)) := fun t => match t with
      | .atom "none" => some none
      | .list [a, b] => do pure (some (← a.nat?, ← b.nat?))
      | _ => none
    let ts ← allSome target? targets
    let xs := getXObjects (fresh (← w.nat?) (← h.nat?)) ts
    pure (" ".intercalate (xs.map (fun x => s!"{x.width},{x.height},{x.data.generation},{x.data.width},{x.data.height}")))
  | _, _ => none

end writestate

/-! ### text-decoration propagation -/
section textdeco
open Wp.TextDecoration

/-- `none` | `(line…)` (a set) | `v<n>` (any other value) -/
def decoVal? : Sx → Option Val
  | .atom "none" => some .none
  | .list ls => do
    let names ← allSome Sx.atom? ls
    let lines ← allSome Line.ofString? names
    pure (.lines (fun l => lines.contains l))
  | .atom s => if s.startsWith "v" then (s.drop 1).toNat?.map .other else Option.none

/-- `textdeco <key> <value> <parent> <cascaded>` → the canonical printing of the result. -/
def handleTextDeco (cmd : String) (args : List Sx) : Option String :=
  match cmd, args with
  | "textdeco", [k, v, p, c] => do
    let key ← k.atom?.bind Key.ofString?
    pure (textDecoration key (← decoVal? v) (← decoVal? p) (← c.bool?)).render
  | _, _ => none

end textdeco

/-- `attachdates <created|none> <modified|none> <(ctime mtime)|none> <now> <epoch|none>` → `created modified` -/
def handleAttach (cmd : String) (args : List Sx) : Option String :=
  match cmd, args with
  | "attachdates", [c, m, ft, now, ep] => do
    let fileTimes : Option (String × String) ← match ft with
      | .atom "none" => some none
      | .list [a, b] => do pure (some (← a.atom?, ← b.atom?))
      | _ => none
    let r := Wp.AttachDates.dates ⟨← optStr? c, ← optStr? m, fileTimes, ← now.atom?, ← optStr? ep⟩
    pure (r.1 ++ " " ++ r.2)
  | _, _ => none

/-- `svgdraw <root> ((ref…) …) (fails…)` — image `k` draws the images of the `k`-th list, fails if the `k`-th flag is
set → the images whose drawing was entered, in order, `|`, the images still flagged as being drawn afterwards. -/
def handleSvgDraw (cmd : String) (args : List Sx) : Option String :=
  match cmd, args with
  | "svgdraw", [root, .list refs, .list fails] => do
    let table ← allSome (fun r => r.list?.bind (allSome Sx.nat?)) refs
    let failing ← allSome Sx.bool? fails
    let r := Wp.SvgDraw.draw (fun i => table.getD i []) (fun i => failing.getD i false) (table.length + 2) []
      (← root.nat?)
    let entered := r.1.filterMap (fun e => match e with | .enter i => some (toString i) | _ => none)
    pure (" ".intercalate entered ++ " | " ++ " ".intercalate (r.2.map toString))
  | _, _ => none

/-- `counterdict (uaName…) (((name tag)…) …) (probe…)` — renders sharing one dictionary → after every render, for every
probe name, `name=tag` (`-` when absent), joined by `;`, renders by ` | `. -/
def handleCounterDict (cmd : String) (args : List Sx) : Option String :=
  match cmd, args with
  | "counterdict", [.list ua, .list docs, .list probes] => do
    let ua ← allSome Sx.atom? ua
    let rule? : Sx → Option (String × String) := fun r => match r with
      | .list [n, t] => do pure (← n.atom?, ← t.atom?)
      | _ => none
    let docs ← allSome (fun d => d.list?.bind (allSome rule?)) docs
    let probes ← allSome Sx.atom? probes
    let dicts := Wp.CounterDict.runRenders (ua.map (fun n => (n, "ua"))) [] docs
    pure (" | ".intercalate (dicts.map (fun d =>
      ";".intercalate (probes.map (fun n => n ++ "=" ++ (Wp.CounterDict.dget d n).getD "-")))))
  | _, _ => none

def handle (cmd : String) (args : List Sx) : Option String :=
  (handlePages cmd args).orElse fun _ => (handleImages cmd args).orElse fun _ =>
    (handleControl cmd args).orElse fun _ => (handleWriteState cmd args).orElse fun _ =>
    (handleTextDeco cmd args).orElse fun _ => (handleAttach cmd args).orElse fun _ =>
    (handleSvgDraw cmd args).orElse fun _ => handleCounterDict cmd args

end Wp.Drive.C19
