/-
Line protocol of `Model/TableGroupOrder.lean`.

  grouporder (header|footer|body …)   → <header index|none> (body index…) <footer index|none>
-/
import WpModel.Model.Wire
import WpModel.Model.TableGroupOrder

namespace Wp.Drive.TableGroupOrder
open Wp Wp.TableGroups

def kind? : Sx → Option GKind
  | .atom "header" => some .header
  | .atom "footer" => some .footer
  | .atom "body" => some .body
  | _ => none

def showOpt : Option Nat → String
  | none => "none"
  | some n => toString n

def handle (cmd : String) (args : List Sx) : Option String :=
  match cmd, args with
  | "grouporder", [.list ks] => do
    let s := split (← allSome kind? ks)
    pure (showOpt s.header ++ " (" ++ " ".intercalate (s.bodies.map toString) ++ ") " ++ showOpt s.footer)
  | _, _ => none

end Wp.Drive.TableGroupOrder
