/-
Line protocol for `Model/CounterDescriptors.lean`.
  tok   ::= (i x<value>) | (s x<value>) | (n <int>) | num | url | comma | other
  dv <descriptor> (tok …)                 → <desc with that field only> | none | err:IndexError
  rule ((<descriptor> (tok …)) …)         → <desc> | ignored | err:IndexError      (declarations in source order
                                            through `preprocessDescriptors`, then `buildRule`)
  csname (tok …) <bool:decimal known> <bool:disc known> → x<name> | none
-/
import WpModel.Model.Wire
import WpModel.Model.CounterDescriptors
import WpModel.Drive.Counters

namespace Wp.Drive.CounterDescriptors
open Wp Wp.Counters Wp.CounterDescriptors Wp.Drive.Counters

def tok? : Sx → Option Tok
  | .list [.atom "i", v] => (str? v).map .ident
  | .list [.atom "s", v] => (str? v).map .str
  | .list [.atom "n", v] => v.int?.map .int
  | .atom "num" => some .num
  | .atom "url" => some .url
  | .atom "comma" => some .comma
  | .atom "other" => some .other
  | _ => none

def handle (cmd : String) (args : List Sx) : Option String :=
  match cmd, args with
  | "dv", [.atom name, toks] => do
    let toks ← listOf tok? toks
    match validate name toks with
    | none => pure "unknown"
    | some (.error _) => pure "err:IndexError"
    | some (.ok none) => pure "none"
    | some (.ok (some d)) => pure (sxDesc (applyDecl {} d)).render
  | "rule", [decls] => do
    let decls ← listOf (fun
      | .list [.atom n, toks] => do pure (n, ← listOf tok? toks)
      | _ => none) decls
    match preprocessDescriptors decls [] with
    | .error _ => pure "err:IndexError"
    | .ok ds => match buildRule ds with
      | none => pure "ignored"
      | some d => pure (sxDesc d).render
  | "csname", [toks, dk, ck] => do
    let toks ← listOf tok? toks
    let dk ← dk.bool?
    let ck ← ck.bool?
    match styleName toks (fun n => if n = "decimal" then dk else if n = "disc" then ck else false) with
    | none => pure "none"
    | some v => pure (encodeStr v)
  | _, _ => none

end Wp.Drive.CounterDescriptors
