/-
Line protocol of the rounded-box part of C17 (driver_c17).

  geo ::= (positionX positionY marginLeft marginTop bt br bb bl pt pr pb pl width height
           (tlx tly) (trx try) (brx bry) (blx bly))
  rbox <geo> bt br bb bl | rpadding <geo> | rborder <geo> | rcontent <geo> | rratio <geo> ratio
      → `x y w h (tlx tly) (trx try) (brx bry) (blx bly)`
  radii <geo> (top right bottom left) ((rxv rxpct ryv rypct) ×4)
      → the four resolved radii `(tlx tly) (trx try) (brx bry) (blx bly)`
-/
import WpModel.Model.Wire
import WpModel.Model.RoundedBox

namespace Wp.Drive.Rounded
open Wp Wp.Rounded

def pair? : Sx → Option (Rat × Rat)
  | .list [a, b] => do pure ((← a.rat?), (← b.rat?))
  | _ => none

def geo? : Sx → Option Geo
  | .list [px, py, ml, mt, bt, br, bb, bl, pt, pr, pb, pl, w, h, tl, tr, brr, blr] => do
    pure { positionX := (← px.rat?), positionY := (← py.rat?), marginLeft := (← ml.rat?),
           marginTop := (← mt.rat?), borderTop := (← bt.rat?), borderRight := (← br.rat?),
           borderBottom := (← bb.rat?), borderLeft := (← bl.rat?), padTop := (← pt.rat?),
           padRight := (← pr.rat?), padBottom := (← pb.rat?), padLeft := (← pl.rat?),
           width := (← w.rat?), height := (← h.rat?), tl := (← pair? tl), tr := (← pair? tr),
           br := (← pair? brr), bl := (← pair? blr) }
  | _ => none

def showPair (p : Rat × Rat) : String := "(" ++ showRat p.1 ++ " " ++ showRat p.2 ++ ")"

def showRBox (r : RBox) : String :=
  " ".intercalate [showRat r.x, showRat r.y, showRat r.w, showRat r.h, showPair r.tl, showPair r.tr,
    showPair r.br, showPair r.bl]

def corner? : Sx → Option (Dim × Dim)
  | .list [xv, xp, yv, yp] => do
    pure ({ value := (← xv.rat?), percent := (← xp.bool?) }, { value := (← yv.rat?), percent := (← yp.bool?) })
  | _ => none

def handle (cmd : String) (args : List Sx) : Option String :=
  match cmd, args with
  | "rbox", [g, bt, br, bb, bl] => do
    pure (showRBox (roundedBox (← geo? g) (← bt.rat?) (← br.rat?) (← bb.rat?) (← bl.rat?)))
  | "rpadding", [g] => (geo? g).map (fun g => showRBox (roundedPaddingBox g))
  | "rborder", [g] => (geo? g).map (fun g => showRBox (roundedBorderBox g))
  | "rcontent", [g] => (geo? g).map (fun g => showRBox (roundedContentBox g))
  | "rratio", [g, r] => do pure (showRBox (roundedBoxRatio (← geo? g) (← r.rat?)))
  | "radii", [g, .list [t, r, b, l], .list [c1, c2, c3, c4]] => do
    let g ← geo? g
    let out := resolveRadii g ((← t.bool?), (← r.bool?), (← b.bool?), (← l.bool?))
      (← corner? c1) (← corner? c2) (← corner? c3) (← corner? c4)
    pure (" ".intercalate [showPair out.tl, showPair out.tr, showPair out.br, showPair out.bl])
  | _, _ => none

end Wp.Drive.Rounded
