/-
Line-protocol front end of `Model/ResourcesSvg.lean` (C20): nested SVG images.
-/
import WpModel.Drive.Resources
import WpModel.Model.ResourcesSvg

namespace Wp.Drive.ResourcesSvg
open Wp Wp.Res Wp.Res.Svg Wp.Drive.Resources

def handle (cmd : String) (args : List Sx) : Option String :=
  match cmd, args with
  -- `svgdeep <fetcher> <opts> <root url> <orient> ((content-id (item …)) …)`: `<img src=root>` rendered (the root image
  -- is loaded into the cache), then painted: `SVGImage.draw` of the root with everything it includes, at any depth
  | "svgdeep", [f, o, u, orient, .list svgs] => do
    let fetcher ← fetcher? f
    let opts ← opts? o
    let root ← str? u
    let info ← allSome svgEntry? svgs
    let req : Req := ⟨root, ← orient? orient, none⟩
    let (cache, evs, out) := getImage [] fetcher opts req
    match out with
    | .error e => pure ("render=" ++ showLog evs ++ " " ++ showExc e)
    | .ok (some (.svg c)) =>
      let (_, pevs, exhausted) := drawObject fetcher opts info ((nestedKeys opts info).length + 2) [] cache (req.key opts) c
      pure ("render=" ++ showLog evs ++ " paint=" ++ showLog pevs ++ (if exhausted then " depth-bound-hit" else " done"))
    | .ok _ => pure ("render=" ++ showLog evs ++ " paint=[] done")
  | _, _ => none

end Wp.Drive.ResourcesSvg
