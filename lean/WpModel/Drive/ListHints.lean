/-
Line protocol for `Model/ListHints.lean` (strings and styles as in `Drive/Counters`, items as in
`Drive/CounterScope`).
  htok  ::= (i x<value>) | (n <int>) | other
  attr  ::= none | (htok …)                 none: attribute absent or empty string
  lnode ::= (ol attr (lnode …)) | (ul (lnode …)) | (li attr none|style none|(item …) none|(item …) (lnode …))      marker content, ::after content | (div (lnode …))
  lists <base> <table> (lnode …)     → ok (marker|after x…) … | err:<Class>
  hint ol|li attr                    → <ops> of the element: (none|li|other pairs pairs auto|pairs)
  cprop <default:int> (htok …)       → none | pairs                   `counter(tokens, default_integer)`
-/
import WpModel.Model.Wire
import WpModel.Model.ListHints
import WpModel.Drive.CounterScope

namespace Wp.Drive.ListHints
open Wp Wp.Counters Wp.ListHints Wp.Drive.Counters Wp.Drive.CounterScope

def htok? : Sx → Option HTok
  | .list [.atom "i", v] => (str? v).map .ident
  | .list [.atom "n", v] => v.int?.map .int
  | .atom "other" => some .other
  | _ => none

def attr? : Sx → Option (Option (List HTok)) := optOf (listOf htok?)

partial def lnode? : Sx → Option LNode
  | .list [.atom "ol", a, .list kids] => do pure (.ol (← attr? a) (← allSome lnode? kids))
  | .list [.atom "ul", .list kids] => do pure (.ul (← allSome lnode? kids))
  | .list [.atom "li", a, st, mk, af, .list kids] => do
    pure (.li (← attr? a) (← optOf cname? st) (← optOf (listOf item?) mk) (← optOf (listOf item?) af)
      (← allSome lnode? kids))
  | .list [.atom "div", .list kids] => do pure (.div (← allSome lnode? kids))
  | _ => none

def sxPairs (l : List (String × Int)) : Sx := .list (l.map fun p => .list [.atom (encodeStr p.1), sxInt p.2])

def sxOps (o : Ops) : Sx :=
  .list [.atom (match o.disp with | .none => "none" | .listItem => "li" | .other => "other"),
    sxPairs o.reset, sxPairs o.set, match o.incr with | none => .atom "auto" | some l => sxPairs l]

def handle (cmd : String) (args : List Sx) : Option String :=
  match cmd, args with
  | "lists", [base, table, .list body] => do
    let cs ← styles? base table
    let body ← allSome lnode? body
    match listTexts cs body with
    | .error err => pure err.render
    | .ok obs =>
      pure (" ".intercalate ("ok" :: obs.map fun o => "(" ++ o.kind ++ " " ++ encodeStr o.text ++ ")"))
  | "hint", [.atom tag, a] => do
    let a ← attr? a
    if tag = "ol" then pure (sxOps (applyHint Gen.olHint Gen.uaOl a)).render
    else if tag = "li" then pure (sxOps (applyHint Gen.liHint Gen.uaLi a)).render
    else none
  | "cprop", [d, toks] => do
    let d ← d.int?
    let toks ← listOf htok? toks
    match counterProp d toks with
    | none => pure "none"
    | some l => pure (sxPairs l).render
  | _, _ => none

end Wp.Drive.ListHints
