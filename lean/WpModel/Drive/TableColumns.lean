/-
Line protocol of `Model/TableColumns.lean`.

  columnboxes (pos…) (cw…) y0 endY sp hasChildren ((gridX…)…)
     → ok (((x y w h)…) (x y w h))…     one entry per column group: its columns' boxes, then its own box
     | err:IndexError
-/
import WpModel.Model.Wire
import WpModel.Model.TableColumns
import WpModel.Drive.Table

namespace Wp.Drive.TableColumns
open Wp Wp.Table Wp.TableColumns Wp.Drive.Table

def showBox (b : Box4) : String :=
  "(" ++ showRat b.x ++ " " ++ showRat b.y ++ " " ++ showRat b.w ++ " " ++ showRat b.h ++ ")"

def handle (cmd : String) (args : List Sx) : Option String :=
  match cmd, args with
  | "columnboxes", [pos, cw, y0, endY, sp, has, .list groups] => do
    let pos ← rats? pos
    let cw ← rats? cw
    let y0 ← y0.rat?
    let h := columnsHeight (← endY.rat?) y0 (← sp.rat?) (← has.bool?)
    let gs ← allSome (fun (g : Sx) => g.list?.bind (allSome Sx.nat?)) groups
    match Wp.TableColumns.allOk (gs.map (layoutGroup pos cw y0 h)) with
    | .error e => pure (errStr e)
    | .ok rs =>
      pure ("ok " ++ " ".intercalate (rs.map (fun (r : List Box4 × Box4) =>
        "((" ++ " ".intercalate (r.1.map showBox) ++ ") " ++ showBox r.2 ++ ")")))
  | _, _ => none

end Wp.Drive.TableColumns
