/-
Line-protocol front end of `Model/ResourcesSource.lean` (C20): `_select_source`.
-/
import WpModel.Drive.Resources
import WpModel.Model.ResourcesSource

namespace Wp.Drive.ResourcesSource
open Wp Wp.Res Wp.Res.Source Wp.Drive.Resources

/-- `(name path2url <true | 'ExceptionClass>)` or `none`. -/
def fileName? : Sx → Option (Option FileName)
  | .atom "none" => some none
  | .list [n, u, .atom "true"] => do pure (some ⟨← str? n, ← str? u, none⟩)
  | .list [n, u, e] => do pure (some ⟨← str? n, ← str? u, some (← str? e)⟩)
  | _ => none

def guess? : Sx → Option (Option Guess)
  | .atom "none" => some none
  | .list [.atom "readable", n] => do pure (some (.readable (← fileName? n)))
  | .list [.atom "path", f] => do pure (some (.path (← (← fileName? f))))
  | .list [.atom "text", s, f] => do pure (some (.text (← str? s) (← (← fileName? f))))
  | _ => none

def fileObj? : Sx → Option (Option (Option FileName))
  | .atom "absent" => some none
  | x => (fileName? x).map some

def showOrigin : Origin → String
  | .localFile n => "local:" ++ enc n
  | .fetched c => "fetched:" ++ toString c
  | .emptyString => "empty"
  | .givenFileObj => "given-file-obj"
  | .givenString => "given-string"

def handle (cmd : String) (args : List Sx) : Option String :=
  match cmd, args with
  -- `source <fetcher> <guess> <filename> <url> <file_obj> <string?> <base_url> <check mime>`
  | "source", [f, g, fn, u, fo, s, b, c] => do
    let a : Args := { guess := ← guess? g, filename := ← fileName? fn, url := ← ostr? u, fileObj := ← fileObj? fo,
                      string := ← s.bool?, baseUrl := ← fileName? b, checkMime := ← c.bool? }
    let (evs, out) := selectSource (← fetcher? f) a
    pure (showLog evs ++ " " ++ match out with
      | .error e => showExc e
      | .ok sel => sel.kind ++ " " ++ showOrigin sel.origin ++ " base=" ++ encO sel.baseUrl)
  | _, _ => none

end Wp.Drive.ResourcesSource
