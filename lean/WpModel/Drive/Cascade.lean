/-
Line-protocol handlers for the C06 models (cascade, computed values, styles, documents).
See `py/props/c06.py` for the producer of each command.
-/
import WpModel.Model.Wire
import WpModel.Model.StyleDoc
import WpModel.Model.StyleMemo
import WpModel.Model.C06Branches
import WpModel.Model.RatioCache
import WpModel.Model.CssSpec
import WpModel.Model.PresHints
import WpModel.Model.CssWide

namespace Wp.Drive.Cascade
open Wp Wp.Cascade Wp.Computed Wp.Style Wp.StyleDoc

/-! ### small parsers -/

def optOf {β} (f : Sx → Option β) : Sx → Option (Option β)
  | .atom "none" => some none
  | x => (f x).map some

def natList? (x : Sx) : Option (List Nat) := x.list?.bind (allSome Sx.nat?)
def strList? (x : Sx) : Option (List String) := x.list?.bind (allSome Sx.atom?)

/-- Origins are written with `_` for the space of `'user agent'`. -/
def origin? (x : Sx) : Option String := x.atom?.map (fun s => s.replace "_" " ")

def casc? : Sx → Option Casc
  | .list [.atom "val", v] => (Val.ofSx? v).map .val
  | .list [.atom "pending", .atom "none"] => some (.pending none)
  | .list [.atom "pending", v] => (Val.ofSx? v).map (fun v => .pending (some v))
  | _ => none

def decl? : Sx → Option (Decl Casc)
  | .list [.atom name, v, imp] => do
    let v ← casc? v
    let imp ← imp.bool?
    pure { name := name, value := v, important := imp }
  | _ => none

def decls? (x : Sx) : Option (List (Decl Casc)) := x.list?.bind (allSome decl?)

def attrBlock? : Sx → Option (AttrBlock Casc)
  | .list [spec, ds] => do
    pure { spec := ← natList? spec, decls := ← decls? ds }
  | _ => none

def matched? : Sx → Option (Matched Casc)
  | .list [spec, order, pseudo, ds] => do
    pure { spec := ← natList? spec, order := ← order.nat?, pseudo := ← optOf Sx.atom? pseudo,
           decls := ← decls? ds }
  | _ => none

def sheetMatches? : Sx → Option (SheetMatches Casc)
  | .list [origin, sheetSpec, ms] => do
    pure { origin := ← origin? origin, sheetSpec := ← optOf natList? sheetSpec,
           matched := ← ms.list?.bind (allSome matched?) }
  | _ => none

/-! ### printers -/

def showCasc : Casc → String
  | .val v => v.render
  | .pending none => "pending:invalid"
  | .pending (some v) => "pending:" ++ v.render

def showSpec (l : List Nat) : String := "(" ++ ",".intercalate (l.map toString) ++ ")"

def showCStyle (st : CStyle Casc) : String :=
  ";".intercalate (st.map (fun (name, v, w) =>
    name ++ "=" ++ showCasc v ++ "@" ++ toString w.prec ++ ":" ++ showSpec w.spec))

def showValE : Except CErr Val → String := renderExcept Val.render

/-! ### media / preprocess -/

def mtok? : Sx → Option MTok
  | .list [.atom "i", .atom s] => some (.ident s)
  | .atom "c" => some .comma
  | .atom "o" => some .other
  | _ => none

partial def srule? : Sx → Option SRule
  | .list [.atom "s", id, n] => do pure (.style (← id.nat?) (← n.nat?))
  | .atom "e" => some .emptyStyle
  | .atom "x" => some .invalidStyle
  | .atom "o" => some .otherAt
  | .atom "g" => some .ignored
  | .list [.atom "i", media, sheet] => do
    let media ← optOf strList? media
    let sheet ← match sheet with
      | .atom "none" => some none
      | .list rs => (allSome srule? rs).map some
      | _ => none
    pure (.importRule media sheet)
  | .list [.atom "m", media, .list body] => do
    pure (.mediaRule (← optOf strList? media) (← allSome srule? body))
  | _ => none

def showAdded (l : List Added) : String :=
  " ".intercalate (l.map (fun (id, sel) => toString id ++ "." ++ toString sel))

/-! ### page selectors -/

/-- Page names are written with a leading `=` so that the empty name is an atom. -/
def pname? (x : Sx) : Option String := x.atom?.map (fun s => String.ofList (s.toList.drop 1))

def index? : Sx → Option (Int × Int × Option String)
  | .list [a, b, name] => do pure (← a.int?, ← b.int?, ← optOf pname? name)
  | _ => none

def pageSelector? : Sx → Option PageSelector
  | .list [side, blank, first, index, name] => do
    pure { side := ← optOf Sx.atom? side, blank := ← optOf Sx.bool? blank,
           first := ← optOf Sx.bool? first, index := ← optOf index? index,
           name := ← optOf pname? name }
  | _ => none

def group? : Sx → Option (String × Int)
  | .list [g, i] => do pure (← pname? g, ← i.int?)
  | _ => none

def pageType? : Sx → Option PageType
  | .list [.atom side, blank, index, name, .list groups] => do
    pure { side := side, blank := ← blank.bool?, index := ← index.int?, name := ← pname? name,
           groups := ← allSome group? groups }
  | _ => none

def pageRule? : Sx → Option (PageRule Casc)
  | .list [spec, pseudo, sel, ds] => do
    pure { spec := ← natList? spec, pseudo := ← optOf Sx.atom? pseudo, sel := ← pageSelector? sel,
           decls := ← decls? ds }
  | _ => none

def pageSheet? : Sx → Option (String × Option (List Nat) × List (PageRule Casc))
  | .list [origin, sheetSpec, .list rules] => do
    pure (← origin? origin, ← optOf natList? sheetSpec, ← allSome pageRule? rules)
  | _ => none

def pageSheetsDecls (page : PageType) (pseudo : Option String) :
    List (String × Option (List Nat) × List (PageRule Casc)) → Except CErr (List (WDecl Casc))
  | [] => .ok []
  | (origin, sheetSpec, rules) :: rest => do
    let h ← pageDecls page pseudo origin sheetSpec rules
    let t ← pageSheetsDecls page pseudo rest
    pure (h ++ t)

/-! ### computed values -/

/-- `rat`, `none` (absent: parent_style is None), or `(err Class)`. -/
def thunkRat? : Sx → Option (Unit → Except CErr Rat)
  | .list [.atom "err", .atom _] => some (fun _ => .error (.keyError "style[key]"))
  | x => x.rat?.map (fun q => fun _ => .ok q)

def thunkVal? : Sx → Option (Unit → Except CErr Val)
  | .list [.atom "err", .atom _] => some (fun _ => .error (.keyError "style[key]"))
  | x => (Val.ofSx? x).map (fun v => fun _ => .ok v)

def kv? : Sx → Option (String × Val)
  | .list [.atom k, v] => (Val.ofSx? v).map (fun v => (k, v))
  | _ => none

def getFrom (what : String) (l : List (String × Val)) (k : String) : Except CErr Val :=
  match lookup k l with
  | some v => .ok v
  | none => .error (.keyError (what ++ "[" ++ k ++ "]"))

/-- `(fs root parentFs parentFw ex ch (style kv…) (specified kv…) isRoot pseudo)` -/
def env? : Sx → Option Env
  | .list [fs, root, pfs, pfw, ex, ch, .list gets, .list specs, isRoot, pseudo] => do
    let gets ← allSome kv? gets
    let specs ← allSome kv? specs
    pure { fontSize := ← thunkRat? fs, rootFontSize := ← thunkRat? root,
           parentFontSize := ← optOf thunkRat? pfs, parentFontWeight := ← optOf thunkVal? pfw,
           exRatio := ← ex.rat?, chRatio := ← ch.rat?,
           get := getFrom "style" gets, specified := getFrom "specified" specs,
           isRoot := ← isRoot.bool?, pseudo := ← pseudo.bool? }
  | .list [fs, root, pfs, pfw, ex, ch, .list gets, .list specs, isRoot, pseudo, .list attrs] => do
    let gets ← allSome kv? gets
    let specs ← allSome kv? specs
    let attrs ← allSome kv? attrs
    pure { fontSize := ← thunkRat? fs, rootFontSize := ← thunkRat? root,
           parentFontSize := ← optOf thunkRat? pfs, parentFontWeight := ← optOf thunkVal? pfw,
           exRatio := ← ex.rat?, chRatio := ← ch.rat?,
           get := getFrom "style" gets, specified := getFrom "specified" specs,
           isRoot := ← isRoot.bool?, pseudo := ← pseudo.bool?, attr := fun k => lookup k attrs }
  | _ => none

/-! ### styles -/

def cascKv? : Sx → Option (String × Casc)
  | .list [.atom k, v] => (casc? v).map (fun v => (k, v))
  | _ => none

/-- `(% ex ch)`: the style's own character ratios. -/
def ratios? : Sx → Option (Rat × Rat)
  | .list [.atom "%", ex, ch] => do pure (← ex.rat?, ← ch.rat?)
  | _ => none

/-- `(pseudo|none [(@ attr…)] [(% ex ch)] (key casc)…)` -/
def elem? : Sx → Option Elem
  | .list (pseudo :: .list (.atom "@" :: attrs) :: .list [.atom "%", ex, ch] :: kvs) => do
    pure { pseudo := ← optOf Sx.atom? pseudo, cascaded := ← allSome cascKv? kvs, attrs := ← allSome kv? attrs,
           ratios := some (← ex.rat?, ← ch.rat?) }
  | .list (pseudo :: .list (.atom "@" :: attrs) :: kvs) => do
    pure { pseudo := ← optOf Sx.atom? pseudo, cascaded := ← allSome cascKv? kvs, attrs := ← allSome kv? attrs }
  | .list (pseudo :: kvs) => do
    pure { pseudo := ← optOf Sx.atom? pseudo, cascaded := ← allSome cascKv? kvs }
  | _ => none

/-! ### documents -/

def sheetKind? : Sx → Option SheetKind
  | .atom "ua" => some .ua | .atom "ph" => some .ph
  | .atom "author" => some .author | .atom "user" => some .user
  | _ => none

/-- The `media` attribute: `none` (no attribute test), `(attr <code point>…)` = the raw attribute
text, from which the model derives the list (`attrMedia`), or an already split list. -/
def mediaAttr? : Sx → Option (Option (List String))
  | .atom "none" => some none
  | .list (.atom "attr" :: codes) => do
    let codes ← allSome Sx.nat? codes
    pure (some (attrMedia (String.ofList (codes.map Char.ofNat))))
  | x => (strList? x).map some

def docSheet? : Sx → Option DocSheet
  | .list [kind, media, .list rules] => do
    pure { kind := ← sheetKind? kind, media := ← mediaAttr? media, rules := ← allSome srule? rules }
  | .list [kind, media, .list rules, .list [.atom mime, isLink, hasHref, rels, fetchOk]] => do
    pure { kind := ← sheetKind? kind, media := ← mediaAttr? media, rules := ← allSome srule? rules,
           elem := { mime := mime, isLink := ← isLink.bool?, hasHref := ← hasHref.bool?, rels := ← strList? rels,
                     fetchOk := ← fetchOk.bool? } }
  | _ => none

def ruleDecls? : Sx → Option (Nat × List (Decl Casc))
  | .list [id, ds] => do pure (← id.nat?, ← decls? ds)
  | _ => none

def doc? : Sx → Option Doc
  | .list [.atom device, ph, .list sheets, .list rules] => do
    pure { device := device, presentationalHints := ← ph.bool?, sheets := ← allSome docSheet? sheets,
           ruleDecls := ← allSome ruleDecls? rules }
  | _ => none

def matchRef? : Sx → Option MatchRef
  | .list [sheet, rule, sel, spec, pseudo] => do
    pure { sheet := ← sheet.nat?, rule := ← rule.nat?, sel := ← sel.nat?, spec := ← natList? spec,
           pseudo := ← optOf Sx.atom? pseudo }
  | _ => none

def docElem? : Sx → Option DocElem
  | .list [.list attrs, .list ms] => do
    pure { attrs := ← allSome attrBlock? attrs, hits := ← allSome matchRef? ms }
  | .list [.list attrs, .list ms, .list elemAttrs] => do
    pure { attrs := ← allSome attrBlock? attrs, hits := ← allSome matchRef? ms,
           elemAttrs := ← allSome kv? elemAttrs }
  | .list [.list attrs, .list ms, .list elemAttrs, r] => do
    pure { attrs := ← allSome attrBlock? attrs, hits := ← allSome matchRef? ms,
           elemAttrs := ← allSome kv? elemAttrs, ratios := some (← ratios? r) }
  | _ => none

def showKeys (f : String → Except CErr Val) (keys : List String) : String :=
  " ".intercalate (keys.map (fun k => k ++ "=" ++ showValE (f k)))

/-! ### character_ratio cache -/

def measureRow? : Sx → Option (Nat × Rat × Rat)
  | .list [sid, ex, ch] => do pure (← sid.nat?, ← ex.rat?, ← ch.rat?)
  | _ => none

def ratioReq? : Sx → Option RatioCache.Req
  | .list [sid, .atom key, .atom ch] => do pure { style := ← sid.nat?, key := key, character := ch }
  | _ => none

def measureOf (table : List (Nat × Rat × Rat)) : RatioCache.Measure := fun s isEx =>
  match table.find? (fun row => row.1 == s) with
  | some (_, ex, ch) => if isEx then ex else ch
  | none => 0

/-! ### presentational hints -/

/-- Text as code points: `(s <code point>…)`. -/
def text? : Sx → Option String
  | .list (.atom "s" :: codes) => do
    let codes ← allSome Sx.nat? codes
    pure (String.ofList (codes.map Char.ofNat))
  | _ => none

def attr? : Sx → Option (String × String)
  | .list [.atom name, v] => do pure (name, ← text? v)
  | _ => none

/-! ### dispatcher -/

def handle (cmd : String) (args : List Sx) : Option String :=
  match cmd, args with
  | "prec", [origin, imp] => do
    let o ← origin? origin
    let i ← imp.bool?
    pure (renderExcept toString (declarationPrecedence o i))
  | "wle", [.list [p1, s1], .list [p2, s2]] => do
    let a : Weight := ⟨← p1.nat?, ← natList? s1⟩
    let b : Weight := ⟨← p2.nat?, ← natList? s2⟩
    pure (toString (a.le b))
  | "cascade", [pseudo, .list attrs, .list sheets] => do
    let pseudo ← optOf Sx.atom? pseudo
    let attrs ← allSome attrBlock? attrs
    let sheets ← allSome sheetMatches? sheets
    pure (renderExcept showCStyle (elementCascade attrs sheets pseudo))
  | "sortmatched", [.list ms] => do
    let ms ← allSome matched? ms
    pure (" ".intercalate ((sortMatched ms).map (fun m => toString m.order)))
  | "media", [q, .atom dev] => do
    let q ← strList? q
    pure (toString (evaluateMediaQuery q dev))
  | "parsemedia", [.list toks] => do
    let toks ← allSome mtok? toks
    pure (match parseMediaQuery toks with
      | none => "none"
      | some l => "(" ++ " ".intercalate l ++ ")")
  | "preprocess", [.atom dev, .list rules] => do
    let rules ← allSome srule? rules
    pure ("[" ++ showAdded (preprocess dev false rules) ++ "]")
  | "pagematch", [sel, page] => do
    let sel ← pageSelector? sel
    let page ← pageType? page
    pure (toString (pageTypeMatch sel page))
  | "nth", [a, offset] => do
    pure (toString (nthTest (← a.int?) (← offset.int?)))
  | "pagedecls", [page, pseudo, .list sheets] => do
    let page ← pageType? page
    let pseudo ← optOf Sx.atom? pseudo
    let sheets ← allSome pageSheet? sheets
    pure (renderExcept (fun ds => showCStyle (applyAll ds)) (pageSheetsDecls page pseudo sheets))
  | "length", [env, v, fs, pixelsOnly] => do
    let env ← env? env
    let v ← Val.ofSx? v
    let fs ← optOf Sx.rat? fs
    let po ← pixelsOnly.bool?
    pure (showValE (length env v fs po))
  | "compute", [.atom key, env, v] => do
    let env ← env? env
    let v ← Val.ofSx? v
    pure (showValE (compute env key v))
  | "computerof", [.atom key] =>
    pure ((lookup key Gen.Units.computerFunctions).getD "none")
  | "style", [ex, ch, .list chain, .list keys] => do
    let ex ← ex.rat?
    let ch ← ch.rat?
    let chain ← allSome elem? chain
    let keys ← allSome Sx.atom? keys
    pure (showKeys (styleAt ex ch chain) keys)
  | "specbranch", [ex, ch, .list chain, .atom key] => do
    let ex ← ex.rat?
    let ch ← ch.rat?
    let chain ← allSome elem? chain
    match chain with
    | [] => none
    | [e] => pure (C06Branches.specifiedBranch e none key)
    | e :: p :: rest =>
      if e.cascaded.isEmpty then pure "anonymous-style"
      else pure (C06Branches.specifiedBranch e
        (some (styleAtWith (rootFontSizeOf ex ch (e :: p :: rest)) ex ch (p :: rest))) key)
  | "lengthbranch", [v, fs, pixelsOnly] => do
    pure (C06Branches.lengthBranch (← Val.ofSx? v) (← optOf Sx.rat? fs) (← pixelsOnly.bool?))
  | "fsbranch", [parent, v] => do
    pure (C06Branches.fontSizeBranch (← optOf Sx.rat? parent) (← Val.ofSx? v))
  | "pmbranch", [sel, page] => do
    pure (C06Branches.pageMatchBranch (← pageSelector? sel) (← pageType? page))
  | "universe", [.atom name] =>
    match name with
    | "length" => pure (" ".intercalate C06Branches.lengthUniverse)
    | "pagematch" => pure (" ".intercalate C06Branches.pageMatchUniverse)
    | "fontsize" => pure (" ".intercalate C06Branches.fontSizeUniverse)
    | "specinitial" => pure (" ".intercalate (CssSpec.cssInitial.map (·.1)))
    | _ => none
  | "readseq", [ex, ch, .list chain, .list keys] => do
    let ex ← ex.rat?
    let ch ← ch.rat?
    let chain ← allSome elem? chain
    let keys ← allSome Sx.atom? keys
    let c ← StyleMemo.ctxOf ex ch chain
    pure (" ".intercalate ((keys.zip (StyleMemo.readSeq c [] keys)).map
      (fun p => p.1 ++ "=" ++ showValE p.2)))
  | "csswide", [names, text] => do
    let names ← strList? names
    let text ← text? text
    pure (match CssWide.expansion names text with
      | none => "not-css-wide"
      | some l => ";".intercalate (l.map (fun p => p.1 ++ "=" ++ p.2)))
  | "hints", [.atom tag, .list attrs] => do
    let attrs ← allSome attr? attrs
    pure ("[" ++ " | ".intercalate (PresHints.hints tag attrs) ++ "]")
  | "cellpadding", [.list attrs] => do
    let attrs ← allSome attr? attrs
    pure ((PresHints.cellPaddingHint attrs).getD "none")
  | "specinherits", [.atom key] =>
    pure (if CssSpec.specInherits key then "inherits" else "initial")
  | "specinitial", [.atom key] =>
    pure (match lookup key CssSpec.cssInitial with
      | some v => v.render
      | none => "not-pinned")
  | "ratioseq", [.list table, .list reqs] => do
    let table ← allSome measureRow? table
    let reqs ← allSome ratioReq? reqs
    pure (" ".intercalate ((RatioCache.runSeq (measureOf table) {} reqs).map (renderExcept showRat)))
  | "docstyle", [doc, ex, ch, .list path, pseudo, .list keys] => do
    let doc ← doc? doc
    let ex ← ex.rat?
    let ch ← ch.rat?
    let path ← allSome docElem? path
    let pseudo ← optOf Sx.atom? pseudo
    let keys ← allSome Sx.atom? keys
    pure (showKeys (styleFor doc ex ch path pseudo) keys)
  | _, _ => none

end Wp.Drive.Cascade
