/-
Line protocol of the vertical line model (C09).
  vline <style> (<nodes>…) <position_y>  → (y height baseline (boxes…))
     style ::= (fs lh va bt pt pb bb textHeight textBaseline ex), lh ::= normal | (px q) | (num q),
     va ::= baseline | middle | text-top | text-bottom | top | bottom | (len q)
     node ::= (t style) | (b style (nodes…));  box ::= (t y h mt mb base) | (b y h mt mb base (boxes…))
-/
import WpModel.Model.Wire
import WpModel.Model.LineVertical

namespace Wp.Drive.LineVertical
open Wp Wp.LV

def va? : Sx → Option VAlign
  | .atom "baseline" => some .baseline
  | .atom "middle" => some .middle
  | .atom "text-top" => some .textTop
  | .atom "text-bottom" => some .textBottom
  | .atom "top" => some .top
  | .atom "bottom" => some .bottom
  | .list [.atom "len", q] => q.rat?.map .len
  | _ => none

def lh? : Sx → Option LineHeight
  | .atom "normal" => some .normal
  | .list [.atom "px", q] => q.rat?.map .px
  | .list [.atom "num", q] => q.rat?.map .num
  | _ => none

def style? : Sx → Option VStyle
  | .list [fs, lh, va, bt, pt, pb, bb, th, tb, ex] => do
    pure { fs := ← fs.rat?, lh := ← lh? lh, va := ← va? va, bt := ← bt.rat?, pt := ← pt.rat?, pb := ← pb.rat?,
           bb := ← bb.rat?, textHeight := ← th.rat?, textBaseline := ← tb.rat?, ex := ← ex.rat? }
  | _ => none

partial def node? : Sx → Option VNode
  | .list [.atom "t", st] => (style? st).map .text
  | .list [.atom "b", st, .list kids] => do
    pure (.box (← style? st) (← allSome node? kids))
  | _ => none

/-- the harness' `snap`: nearest multiple of 2⁻²⁰ (ties to even, as Python's `round`); the ex ratio of
`character_ratio` is not dyadic, so `vertical-align: middle` positions are compared on that grid -/
def snapRat (q : Rat) : Rat :=
  let s : Rat := q * 1048576
  let f := s.floor
  let r := s - f
  let n : Int := if r < 1 / 2 then f else if r > 1 / 2 then f + 1 else (if f % 2 = 0 then f else f + 1)
  (n : Rat) / 1048576

def sxSnap (q : Rat) : Sx := sxRat (snapRat q)

partial def boxSx : VBox → Sx
  | .text y h mt mb b _ => .list [.atom "t", sxSnap y, sxSnap h, sxSnap mt, sxSnap mb, sxSnap b]
  | .box y h mt mb b _ kids =>
    .list [.atom "b", sxSnap y, sxSnap h, sxSnap mt, sxSnap mb, sxSnap b, .list (kids.map boxSx)]

def handle (cmd : String) (args : List Sx) : Option String :=
  match cmd, args with
  | "vline", [st, .list nodes, y] => do
    let r := layoutLine (← style? st) (← allSome node? nodes) (← y.rat?)
    pure (match r with
      | .ok l => (Sx.list [sxSnap l.y, sxSnap l.height, sxSnap l.baseline, .list (l.kids.map boxSx)]).render
      | .error e => (e.render.splitOn "@").headD "")
  | _, _ => none

end Wp.Drive.LineVertical
