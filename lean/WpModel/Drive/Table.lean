/-
Line protocol of the table width / geometry model (`Model/TableWidths.lean`).

  dim   ::= auto | (px q) | (pct q)
  fcell ::= (colspan dim padL padR borL borR content|padding|border)
  acol  ::= (min max pct constrained truthy)

  fixed <W|auto> <collapse> <spacing> (dim…) (fcell…)          → ok W' (cw…) | err:AssertionError
  fixedclamped …same arguments…                               → true|false (a first-row cell took `max(width, 0)`)
  finalcols <ltr> (cw…) [fragment index]                       → what a laid-out fragment shows in `column_widths`
  excess (acol…) <excess> (cw…) <start> <stop|none>            → ok (cw…) | err:ZeroDivisionError
  auto <W|auto> tmin tmax spacing ml mr pl pr bl br cb (acol…) → ok W' (cw…) | err:ZeroDivisionError
  autobranch …same arguments…                                  → branch tag (evidence only)
  wrapper <layoutFixed> dim cb pl pr bl br sizing Wout           → fixed|auto <used width> <wrapper width>
  tablewidth <usedFixed> <collapse> s (cw…) nOrig               → table width going with these columns
  wordfits fs (glyphs…) w                                       → ok | bad:narrower-than-a-word
  geom <ltr> x W s (cw…) ((gridX colspan)…)
       → (positions…) (widths…) rowsLeftX rowsWidth (cell…)    cell ::= (x borderWidth colspan) | dropped
-/
import WpModel.Model.Wire
import WpModel.Model.TableWidths

namespace Wp.Drive.Table
open Wp Wp.Table

/-- `err:<PythonClass>` (the site is dropped: the harness prints the class only). -/
def errStr (e : PyErr) : String :=
  match e.render.splitOn "@" with
  | s :: _ => s
  | [] => "err"

def dim? : Sx → Option Dim
  | .atom "auto" => some .auto
  | .list [.atom "px", q] => q.rat?.map .px
  | .list [.atom "pct", q] => q.rat?.map .pct
  | _ => none

def sizing? : Sx → Option BoxSizing
  | .atom "content" => some .content
  | .atom "padding" => some .padding
  | .atom "border" => some .border
  | _ => none

def fcell? : Sx → Option FCell
  | .list [k, d, pl, pr, bl, br, sz] => do
    pure ⟨← k.nat?, ← dim? d, ← pl.rat?, ← pr.rat?, ← bl.rat?, ← br.rat?, ← sizing? sz⟩
  | _ => none

def acol? : Sx → Option ACol
  | .list [mn, mx, p, c, t] => do
    pure ⟨← mn.rat?, ← mx.rat?, ← p.rat?, ← c.bool?, ← t.bool?⟩
  | _ => none

def rats? (x : Sx) : Option (List Rat) := x.list?.bind (allSome Sx.rat?)

def showRats (l : List Rat) : String := "(" ++ " ".intercalate (l.map showRat) ++ ")"

def stop? : Sx → Option (Option Nat)
  | .atom "none" => some none
  | x => x.nat?.map some

def autoIn? (args : List Sx) : Option AutoIn :=
  match args with
  | [w, tmin, tmax, sp, ml, mr, pl, pr, bl, br, cb, cols] => do
    let cols ← cols.list?.bind (allSome acol?)
    pure ⟨← w.len?, ← tmin.rat?, ← tmax.rat?, ← sp.rat?, ← ml.len?, ← mr.len?,
          ← pl.rat?, ← pr.rat?, ← bl.rat?, ← br.rat?, ← cb.rat?, cols⟩
  | _ => none

def pair? : Sx → Option (Nat × Nat)
  | .list [a, b] => do pure (← a.nat?, ← b.nat?)
  | _ => none

def showCell : Except PyErr (Option CellGeom) → String
  | .error e => errStr e
  | .ok none => "dropped"
  | .ok (some g) => "(" ++ showRat g.x ++ " " ++ showRat g.borderWidth ++ " " ++ toString g.colspan ++ ")"

def handle (cmd : String) (args : List Sx) : Option String :=
  match cmd, args with
  | "fixed", [w, collapse, sp, cols, cells] => do
    let w ← w.len?
    let collapse ← collapse.bool?
    let sp ← sp.rat?
    let cols ← cols.list?.bind (allSome dim?)
    let cells ← cells.list?.bind (allSome fcell?)
    match fixedLayout w (effSpacing collapse sp) cols cells with
    | .error e => pure (errStr e)
    | .ok o => pure ("ok " ++ showRat o.width ++ " " ++ showRats o.cols)
  | "fixedclamped", [w, collapse, sp, cols, cells] => do
    let w ← w.len?
    let collapse ← collapse.bool?
    let sp ← sp.rat?
    let cols ← cols.list?.bind (allSome dim?)
    let cells ← cells.list?.bind (allSome fcell?)
    match w with
    | none => pure "false"
    | some W => pure (toString (fixedClamped W (effSpacing collapse sp) cols cells))
  | "finalcols", [ltr, cw] => do
    pure (showRats (finalColumns (← ltr.bool?) (← rats? cw)))
  | "finalcols", [ltr, cw, _fragment] => do
    pure (showRats (finalColumns (← ltr.bool?) (← rats? cw)))
  | "excess", [cols, ex, cw, start, stop] => do
    let cols ← cols.list?.bind (allSome acol?)
    let ex ← ex.rat?
    let cw ← rats? cw
    let start ← start.nat?
    let stop ← stop? stop
    if cw.length ≠ cols.length then none
    else match distributeExcess cols ex cw start stop with
      | .error e => pure (errStr e)
      | .ok r => pure ("ok " ++ showRats r)
  | "excessgroup", [cols, start, stop] => do
    let cols ← cols.list?.bind (allSome acol?)
    pure ("group" ++ toString (excessGroup cols (← start.nat?) (← stop? stop)))
  | "auto", args => do
    let inp ← autoIn? args
    match autoLayout inp with
    | .error e => pure (errStr e)
    | .ok o => pure ("ok " ++ showRat o.width ++ " " ++ showRats o.cols)
  | "autobranch", args => do
    let inp ← autoIn? args
    match autoLayout inp with
    | .error e => pure (errStr e)
    | .ok o => pure o.branch
  | "wrapper", [fixed, d, cb, pl, pr, bl, br, sz, wout] => do
    let pl ← pl.rat?
    let pr ← pr.rat?
    let bl ← bl.rat?
    let br ← br.rat?
    let used := tableUsedWidth (← dim? d) (← cb.rat?) pl pr bl br (← sizing? sz)
    pure ((if usesFixed (← fixed.bool?) used then "fixed " else "auto ") ++ showLen used ++ " " ++
          showRat (wrapperWidth (← wout.rat?) pl pr bl br))
  | "tablewidth", [fixed, collapse, s, cw, norig] => do
    pure (showRat (docTableWidth (← fixed.bool?) (← collapse.bool?) (← s.rat?) (← rats? cw) (← norig.nat?)))
  | "wordfits", [fs, .list lens, w] => do
    pure (if wordFits (← fs.rat?) (← allSome Sx.nat? lens) (← w.rat?) then "ok" else "bad:narrower-than-a-word")
  | "geom", [ltr, x, w, s, cw, cells] => do
    let ltr ← ltr.bool?
    let x ← x.rat?
    let w ← w.rat?
    let s ← s.rat?
    let cw ← rats? cw
    let cells ← cells.list?.bind (allSome pair?)
    let g := colPositions ltr x w s cw
    let cs := cells.map (fun (gx, k) => showCell (cellGeom ltr g.positions cw s gx k))
    pure (showRats (finalColumns ltr g.positions) ++ " " ++ showRats (finalColumns ltr cw) ++ " " ++
          showRat g.rowsLeftX ++ " " ++ showRat g.rowsWidth ++ " (" ++ " ".intercalate cs ++ ")")
  | _, _ => none

end Wp.Drive.Table
