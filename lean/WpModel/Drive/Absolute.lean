import WpModel.Model.Wire
import WpModel.Model.Absolute
import WpModel.Model.FloatTrace
import WpModel.Drive.Floats

namespace Wp.Drive.Absolute
open Wp Wp.Absolute
open Wp.Drive.Floats (showErr dim?)

/-- `inf` → `none`, else a rational. -/
def ext? : Sx → Option (Option Rat)
  | .atom "inf" => some none
  | x => x.rat?.map some

/-- `(left right width ml mr pl pr bl br minW maxW minC maxC posX)` -/
def hbox? : Sx → Option HBox
  | .list [l, r, w, ml, mr, pl, pr, bl, br, mn, mx, mc, xc, px] => do
    pure ⟨← l.len?, ← r.len?, ← w.len?, ← ml.len?, ← mr.len?, ← pl.rat?, ← pr.rat?, ← bl.rat?, ← br.rat?,
          ← mn.rat?, ← ext? mx, ← mc.rat?, ← xc.rat?, ← px.rat?⟩
  | _ => none

/-- `(top bottom height mt mb pt pb bt bb posY)` -/
def vbox? : Sx → Option VBox
  | .list [t, b, h, mt, mb, pt, pb, bt, bb, py] => do
    pure ⟨← t.len?, ← b.len?, ← h.len?, ← mt.len?, ← mb.len?, ← pt.rat?, ← pb.rat?, ← bt.rat?, ← bb.rat?,
          ← py.rat?⟩
  | _ => none

/-- `(left right top bottom ml mr mt mb width height pl pr bl br pt pb bt bb posX posY)` -/
def rbox? : Sx → Option RBox
  | .list [l, r, t, b, ml, mr, mt, mb, w, h, pl, pr, bl, br, pt, pb, bt, bb, px, py] => do
    pure ⟨← l.len?, ← r.len?, ← t.len?, ← b.len?, ← ml.len?, ← mr.len?, ← mt.len?, ← mb.len?,
          ← w.rat?, ← h.rat?, ← pl.rat?, ← pr.rat?, ← bl.rat?, ← br.rat?, ← pt.rat?, ← pb.rat?,
          ← bt.rat?, ← bb.rat?, ← px.rat?, ← py.rat?⟩
  | _ => none

/-- `(left right top bottom width height ml mr mt mb pl pr pt pb bl br bt bb minW maxW minH maxH)` -/
def absStyle? : Sx → Option AbsStyle
  | .list [l, r, t, b, w, h, ml, mr, mt, mb, pl, pr, pt, pb, bl, br, bt, bb, mnw, mxw, mnh, mxh] => do
    pure ⟨← dim? l, ← dim? r, ← dim? t, ← dim? b, ← dim? w, ← dim? h, ← dim? ml, ← dim? mr, ← dim? mt,
          ← dim? mb, ← dim? pl, ← dim? pr, ← dim? pt, ← dim? pb, ← bl.rat?, ← br.rat?, ← bt.rat?, ← bb.rat?,
          ← dim? mnw, ← dim? mxw, ← dim? mnh, ← dim? mxh⟩
  | _ => none

/-- `(isPage posX posY ml mt bl bt pl pt pr pb width height)` -/
def cbBox? : Sx → Option CBBox
  | .list [pg, px, py, ml, mt, bl, bt, pl, pt, pr, pb, w, h] => do
    pure ⟨← pg.bool?, ← px.rat?, ← py.rat?, ← ml.rat?, ← mt.rat?, ← bl.rat?, ← bt.rat?, ← pl.rat?,
          ← pt.rat?, ← pr.rat?, ← pb.rat?, ← w.rat?, ← h.rat?⟩
  | _ => none

/-- `none` (the page, or a box whose height is taken as observed) | `(relative content minH maxH)`: the heights of
the containing block; the model then uses the height the box has when its absolute children are laid out. -/
def cbHeights? : Sx → Option (Option (Bool × CBHeights))
  | .atom "none" => some none
  | .list [rel, c, mn, mx] => do pure (some (← rel.bool?, ⟨← c.rat?, ← mn.rat?, ← ext? mx⟩))
  | _ => none

def withHeights (cb : CBBox) : Option (Bool × CBHeights) → CBBox
  | none => cb
  | some (rel, c) => { cb with height := cbHeightAtLayout rel c }

/-- `(rel rtl inl left right top bottom x y (kids…))` -/
partial def relBox? : Sx → Option RelBox
  | .list [rel, rtl, inl, l, r, t, b, x, y, .list kids] => do
    pure (.mk (← rel.bool?) (← rtl.bool?) (← inl.bool?) (← dim? l) (← dim? r) (← dim? t) (← dim? b)
      (← x.rat?) (← y.rat?) (← allSome relBox? kids))
  | _ => none

partial def showRel : RelBox → String
  | .mk _ _ _ _ _ _ _ x y kids =>
    "(" ++ showRat x ++ " " ++ showRat y ++ " (" ++ " ".intercalate (kids.map showRel) ++ "))"

def b2s (b : Bool) : String := if b then "true" else "false"
def sp (xs : List String) : String := " ".intercalate xs

/-- Commands:
  `abswidth <hbox> <ltr> <cbx> <cbw>`           → `width ml mr translate_box_width translate_x finalX`
  `absheight <vbox> <cby> <cbh> <usedH>`        → `height mt mb translate_box_height translate_y finalY`
  `absrepl <rbox> <ltr> <cbx> <cby> <cbw> <cbh>` → `left right top bottom ml mr mt mb posX posY`
  `absblock <style> <cbbox> <ltr> <sx> <sy> <minC> <maxC> <hWide> <hNarrow>` → `x y mw mh width height ml mr mt mb`
  `cbrect <cbbox>`                               → `x y w h`
  `relpos <cbw> <cbh> <tree>`                    → tree of positions -/
def handle (cmd : String) (args : List Sx) : Option String :=
  match cmd, args with
  | "abswidth", [b, ltr, cbx, cbw] => do
    let b ← hbox? b
    let ltr ← ltr.bool?
    let cbx ← cbx.rat?
    let cbw ← cbw.rat?
    pure (showErr (fun r => sp [showLen r.1.width, showLen r.1.ml, showLen r.1.mr, b2s r.2.1, showRat r.2.2,
        showErr showRat (finalX r)])
      (absoluteWidth b ltr cbx cbw))
  | "abswidthinfo", [b, ltr, cbx, cbw] => do
    pure (absoluteWidthBranch (← hbox? b) (← ltr.bool?) (← cbx.rat?) (← cbw.rat?))
  | "absheight", [b, cby, cbh, usedH] => do
    let b ← vbox? b
    let cby ← cby.rat?
    let cbh ← cbh.rat?
    let usedH ← usedH.rat?
    let r := absoluteHeight b cby cbh
    let h := match r.1.height with
      | some h => h
      | none => usedH
    pure (sp [showLen r.1.height, showLen r.1.mt, showLen r.1.mb, b2s r.2.1, showRat r.2.2,
      showRat (finalY r h)])
  | "absrepl", [b, ltr, cbx, cby, cbw, cbh] => do
    let b ← rbox? b
    let ltr ← ltr.bool?
    let cbx ← cbx.rat?
    let cby ← cby.rat?
    let cbw ← cbw.rat?
    let cbh ← cbh.rat?
    pure (showErr (fun r => sp [showLen r.left, showLen r.right, showLen r.top, showLen r.bottom,
        showLen r.ml, showLen r.mr, showLen r.mt, showLen r.mb, showRat r.posX, showRat r.posY])
      (absoluteReplaced b ltr cbx cby cbw cbh))
  | "absblock", [st, cb, ltr, sx, sy, mc, xc, ch, cn] => do
    let st ← absStyle? st
    let cb ← cbBox? cb
    let ltr ← ltr.bool?
    let sx ← sx.rat?
    let sy ← sy.rat?
    let mc ← mc.rat?
    let xc ← xc.rat?
    let ch ← ch.rat?
    let cn ← cn.rat?
    pure (showErr (fun r => sp ([r.x, r.y, r.mw, r.mh, r.width, r.height, r.ml, r.mr, r.mt, r.mb].map showRat))
      (absoluteBlock st (containingRect cb) ltr sx sy mc xc ch cn))
  | "absblock", [st, cb, ltr, sx, sy, mc, xc, ch, cn, hs] => do
    let cb := withHeights (← cbBox? cb) (← cbHeights? hs)
    pure (showErr (fun r => sp ([r.x, r.y, r.mw, r.mh, r.width, r.height, r.ml, r.mr, r.mt, r.mb].map showRat))
      (absoluteBlock (← absStyle? st) (containingRect cb) (← ltr.bool?) (← sx.rat?) (← sy.rat?) (← mc.rat?)
        (← xc.rat?) (← ch.rat?) (← cn.rat?)))
  | "absrepldoc", [st, cb, ltr, sx, sy, hs] => do
    let cb := withHeights (← cbBox? cb) (← cbHeights? hs)
    pure (showErr (fun r => sp ([r.x, r.y, r.mw, r.mh, r.width, r.height, r.ml, r.mr, r.mt, r.mb].map showRat))
      (absoluteReplacedDoc (← absStyle? st) (containingRect cb) (← ltr.bool?) (← sx.rat?) (← sy.rat?)))
  | "cbused", [c, mn, mx] => do
    pure (showRat (CBHeights.used ⟨← c.rat?, ← mn.rat?, ← ext? mx⟩))
  | "absrepldoc", [st, cb, ltr, sx, sy] => do
    let st ← absStyle? st
    let cb ← cbBox? cb
    let ltr ← ltr.bool?
    let sx ← sx.rat?
    let sy ← sy.rat?
    pure (showErr (fun r => sp ([r.x, r.y, r.mw, r.mh, r.width, r.height, r.ml, r.mr, r.mt, r.mb].map showRat))
      (absoluteReplacedDoc st (containingRect cb) ltr sx sy))
  | "cbrect", [cb] => do
    let cb ← cbBox? cb
    let r := containingRect cb
    pure (sp ([r.x, r.y, r.w, r.h].map showRat))
  | "relpos", [cbw, cbh, t] => do
    let cbw ← cbw.rat?
    let cbh ← cbh.rat?
    let t ← relBox? t
    pure (showRel (relativePositioning cbw cbh t))
  | _, _ => none

end Wp.Drive.Absolute
