/-
Line protocol for the grid model.
  place    ::= auto | (span|none <int>|none <ident>|none)
  lines    ::= ((name …) …)
  breadth  ::= (px q) | (pct q) | (fr q) | auto | min-content | max-content
  track    ::= breadth | (minmax breadth breadth)
  telem    ::= (names name …) | (size track) | (repeat n|auto (relem …))   relem ::= (names …) | (size track)

  intersect p1 s1 p2 s2                                   → true | false
  getline place lines side                                → (span number ident coord)
  placement place place lines                             → none | (coord size)
  span place                                              → n
  second (coord size) place place lines (area …) row|column dense   → (coord size)
  template none|(telem …)                                 → ((n name …) (s track) …)
  sizing track                                            → (min max)
  tracks (track-fn …) box (contrib …) implicitStart x|y gap stretch → ((base limit) …)
      track-fn ::= (breadth breadth)   contrib ::= (coord size min max height)
  grid <container> (<item> …)                             → ok h=… pos=(…) cols=(…) rows=(…) (id x y w h) …
Errors: `err:<PythonExceptionClass>`.
-/
import WpModel.Model.Wire
import WpModel.Model.Grid

namespace Wp.Drive.Grid
open Wp Wp.Grid

def optInt? : Sx → Option (Option Int)
  | .atom "none" => some none
  | x => x.int?.map some

def optStr? : Sx → Option (Option String)
  | .atom "none" => some none
  | .atom s => some (some s)
  | _ => none

def place? : Sx → Option Place
  | .atom "auto" => some .auto
  | .list [sp, n, id] => do
    let sp ← match sp with | .atom "span" => some true | .atom "none" => some false | _ => none
    pure (.mk sp (← optInt? n) (← optStr? id))
  | _ => none

def lines? (x : Sx) : Option (List (List String)) :=
  x.list?.bind (allSome fun l => l.list?.bind (allSome Sx.atom?))

def breadth? : Sx → Option Breadth
  | .atom "auto" => some .auto
  | .atom "min-content" => some .minContent
  | .atom "max-content" => some .maxContent
  | .list [.atom "px", q] => q.rat?.map .px
  | .list [.atom "pct", q] => q.rat?.map .pct
  | .list [.atom "fr", q] => q.rat?.map .fr
  | _ => none

def track? : Sx → Option TrackSize
  | .list [.atom "minmax", a, b] => do pure (.minmax (← breadth? a) (← breadth? b))
  | x => (breadth? x).map .one

def relem? : Sx → Option RElem
  | .list (.atom "names" :: ns) => (allSome Sx.atom? ns).map .names
  | .list [.atom "size", t] => (track? t).map .size
  | _ => none

def telem? : Sx → Option TElem
  | .list (.atom "names" :: ns) => (allSome Sx.atom? ns).map .names
  | .list [.atom "size", t] => (track? t).map .size
  | .list [.atom "repeat", n, .list inner] => do
    let n ← match n with | .atom "auto" => some none | x => x.nat?.map some
    pure (.rep n (← allSome relem? inner))
  | _ => none

def template? : Sx → Option (Option (List TElem))
  | .atom "none" => some none
  | .list xs => (allSome telem? xs).map some
  | _ => none

def showBreadth : Breadth → String
  | .px q => "(px " ++ showRat q ++ ")"
  | .pct q => "(pct " ++ showRat q ++ ")"
  | .fr q => "(fr " ++ showRat q ++ ")"
  | .auto => "auto" | .minContent => "min-content" | .maxContent => "max-content"

def showTrack : TrackSize → String
  | .one b => showBreadth b
  | .minmax a b => "(minmax " ++ showBreadth a ++ " " ++ showBreadth b ++ ")"

def showEntry : TEntry → String
  | .names ns => "(" ++ " ".intercalate ("n" :: ns) ++ ")"
  | .size t => "(s " ++ showTrack t ++ ")"

def showOptInt : Option Int → String
  | none => "none" | some n => toString n

def showPair (p : Int × Int) : String := "(" ++ toString p.1 ++ " " ++ toString p.2 ++ ")"

def area? : Sx → Option Area
  | .list [x, y, w, h] => do pure (← x.int?, ← y.int?, ← w.int?, ← h.int?)
  | _ => none

def contentAlign? : String → Option ContentAlign
  | "center" => some .center
  | "right" | "end" | "flex-end" => some .endLike
  | "space-around" => some .spaceAround | "space-between" => some .spaceBetween
  | "space-evenly" => some .spaceEvenly | "normal" => some .normal | "stretch" => some .stretch
  | "start" | "flex-start" | "left" => some .other
  | _ => none

def selfAlign? : String → Option SelfAlign
  | "auto" => some .auto | "normal" => some .normal | "stretch" => some .stretch
  | "center" => some .center
  | "end" | "flex-end" | "self-end" => some .endLike
  | "right" => some .right
  | "start" | "flex-start" | "self-start" | "left" => some .other
  | _ => none

def areas? : Sx → Option (Option (List (List (Option String))))
  | .atom "none" => some none
  | .list rows => (allSome (fun r => r.list?.bind (allSome optStr?)) rows).map some
  | _ => none

def item? : Sx → Option GItem
  | .list [id, order, rs, re, cs, ce, w, h, ml, mr, mt, mb, pl, pr, pt, pb, bl, br, bt, bb, js, as] => do
    pure {
      id := ← id.nat?, order := ← order.int?, rowStart := ← place? rs, rowEnd := ← place? re,
      colStart := ← place? cs, colEnd := ← place? ce, sWidth := ← w.len?, sHeight := ← h.len?,
      ml := ← ml.len?, mr := ← mr.len?, mt := ← mt.len?, mb := ← mb.len?,
      pl := ← pl.rat?, pr := ← pr.rat?, pt := ← pt.rat?, pb := ← pb.rat?,
      bl := ← bl.rat?, br := ← br.rat?, bt := ← bt.rat?, bb := ← bb.rat?,
      justifySelf := ← js.atom?.bind selfAlign?, alignSelf := ← as.atom?.bind selfAlign? }
  | _ => none

def container? : Sx → Option GContainer
  | .list [tr, tc, ar, ac, flow, dense, areas, cg, rg, w, h, jc, acn, ji, ai] => do
    pure {
      templateRows := ← template? tr, templateCols := ← template? tc,
      autoRows := ← ar.list?.bind (allSome track?), autoCols := ← ac.list?.bind (allSome track?),
      flowColumn := ← (match flow with | .atom "column" => some true | .atom "row" => some false | _ => none),
      dense := ← dense.bool?, areas := ← areas? areas, colGap := ← cg.rat?, rowGap := ← rg.rat?,
      width := ← w.rat?, height := ← h.len?,
      justifyContent := ← jc.atom?.bind contentAlign?, alignContent := ← acn.atom?.bind contentAlign?,
      justifyItems := ← ji.atom?.bind selfAlign?, alignItems := ← ai.atom?.bind selfAlign? }
  | _ => none

def showArea (p : Nat × Area) : String :=
  "(" ++ toString p.1 ++ " " ++ toString p.2.1 ++ " " ++ toString p.2.2.1 ++ " " ++
    toString p.2.2.2.1 ++ " " ++ toString p.2.2.2.2 ++ ")"

def showRect (r : Rect) : String :=
  "(" ++ toString r.id ++ " " ++ showRat r.x ++ " " ++ showRat r.y ++ " " ++ showRat r.w ++ " " ++
    showRat r.h ++ ")"

def showRats (l : List Rat) : String := "(" ++ " ".intercalate (l.map showRat) ++ ")"

def showResult : Except GErr Result → String
  | .error e => e.render
  | .ok r => " ".intercalate
      (["ok", "h=" ++ showRat r.height,
        "pos=(" ++ " ".intercalate (r.positions.map showArea) ++ ")",
        "cols=" ++ showRats r.colSizes, "rows=" ++ showRats r.rowSizes] ++ r.rects.map showRect)

def fn? : Sx → Option (Breadth × Breadth)
  | .list [a, b] => do pure (← breadth? a, ← breadth? b)
  | _ => none

def contrib? : Sx → Option Contribution
  | .list [c, sz, mn, mx, h] => do
    pure { coord := ← c.int?, size := ← sz.int?, minContent := ← mn.rat?, maxContent := ← mx.rat?, height := ← h.rat? }
  | _ => none

def showE {α} (f : α → String) : Except GErr α → String
  | .error e => e.render
  | .ok x => f x

def handle (cmd : String) (args : List Sx) : Option String :=
  match cmd, args with
  | "intersect", [a, b, c, d] => do
    pure (toString (intersect (← a.int?) (← b.int?) (← c.int?) (← d.int?)))
  | "getline", [p, ls, side] => do
    match ← place? p with
    | .auto => none
    | .mk sp n id =>
      let ls ← lines? ls
      let side ← side.atom?
      pure (showE (fun r => "(" ++ (if r.span then "span" else "none") ++ " " ++ showOptInt r.number ++ " " ++
        (r.ident.getD "none") ++ " " ++ showOptInt r.coord ++ ")") (getLine sp n id ls side))
  | "placement", [s, e, ls] => do
    let s ← place? s
    let e ← place? e
    let ls ← lines? ls
    pure (showE (fun r => match r with | none => "none" | some p => showPair p) (getPlacement s e ls))
  | "span", [p] => do
    pure (toString (getSpan (← place? p)))
  | "second", [.list [fc, fs], s, e, ls, .list areas, flow, dense] => do
    let s ← place? s
    let e ← place? e
    let ls ← lines? ls
    let areas ← allSome area? areas
    let row ← match flow with | .atom "row" => some true | .atom "column" => some false | _ => none
    pure (showE showPair (getSecondPlacement (← fc.int?, ← fs.int?) s e ls areas row (← dense.bool?)))
  | "template", [t] => do
    let t ← template? t
    pure ("(" ++ " ".intercalate ((getTemplateTracks t).map showEntry) ++ ")")
  | "sizing", [t] => do
    let (a, b) := getSizingFunctions (← track? t)
    pure ("(" ++ showBreadth a ++ " " ++ showBreadth b ++ ")")
  | "tracks", [.list fns, box, .list cs, start, dir, gap, stretch] => do
    let fns ← allSome fn? fns
    let box ← box.len?
    let cs ← allSome contrib? cs
    let dirX ← match dir with | .atom "x" => some true | .atom "y" => some false | _ => none
    pure (showE (fun ts => "(" ++ " ".intercalate (ts.map fun t =>
        "(" ++ showRat t.base ++ " " ++ (match t.limit with | none => "inf" | some l => showRat l) ++ ")") ++ ")")
      (resolveTracks fns box cs (← start.int?) dirX (← gap.rat?) (← stretch.bool?)))
  | "grid", [c, .list items] => do
    let c ← container? c
    let items ← allSome item? items
    pure (showResult (layout c items))
  | _, _ => none

end Wp.Drive.Grid
