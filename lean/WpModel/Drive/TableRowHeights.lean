/-
Line protocol of `Model/TableRowHeights.lean`.

  hcell ::= (rowspan borderTop padTop height padBottom borderBottom top|middle|bottom|baseline baseline)
  hrow  ::= (<height|auto> (hcell…))
  rowheights y sp (hrow…) → ((y height baseline ((padTop padBottom)…))…) | err:IndexError
     (the paddings are those of the cells *ending* in the row, earlier rows' cells first)
-/
import WpModel.Model.Wire
import WpModel.Model.TableRowHeights
import WpModel.Drive.Table

namespace Wp.Drive.RowHeights
open Wp Wp.RowHeights Wp.Drive.Table

def valign? : Sx → Option VAlign
  | .atom "top" => some .top
  | .atom "middle" => some .middle
  | .atom "bottom" => some .bottom
  | .atom "baseline" => some .baseline
  | _ => none

def hcell? : Sx → Option HCell
  | .list [rs, bt, pt, h, pb, bb, va, bl] => do
    pure ⟨← rs.nat?, ← bt.rat?, ← pt.rat?, ← h.rat?, ← pb.rat?, ← bb.rat?, ← valign? va, ← bl.rat?⟩
  | _ => none

def hrow? : Sx → Option HRow
  | .list [h, .list cells] => do pure ⟨← h.len?, ← allSome hcell? cells⟩
  | _ => none

def showRow (r : RowOut) : String :=
  "(" ++ showRat r.y ++ " " ++ showRat r.height ++ " " ++ showLen r.baseline ++ " (" ++
  " ".intercalate (r.ending.map (fun p => "(" ++ showRat p.padTop ++ " " ++ showRat p.padBottom ++ ")")) ++ "))"

def handle (cmd : String) (args : List Sx) : Option String :=
  match cmd, args with
  | "rowheights", [y, sp, .list rows] => do
    match rowsFrom (← sp.rat?) (← y.rat?) (← allSome hrow? rows) [] with
    | .error e => pure (errStr e)
    | .ok outs => pure ("(" ++ " ".intercalate (outs.map showRow) ++ ")")
  | _, _ => none

end Wp.Drive.RowHeights
