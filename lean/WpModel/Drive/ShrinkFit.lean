/-
Line protocol of `Model/ShrinkFit.lean`:
  `stf minC maxC available`            → `shrink_to_fit`
  `ibw cbw minC maxC <abox>`           → width part of `inline_block_box_layout`
  `flw cbw minC maxC <abox>`           → width part of `float_layout`
-/
import WpModel.Model.ShrinkFit
import WpModel.Drive.BoxModel

namespace Wp.Drive.ShrinkFit
open Wp Wp.BoxModel Wp.ShrinkFit Wp.Drive.BoxModel

def handle (cmd : String) (args : List Sx) : Option String :=
  match cmd, args with
  | "stf", [a, b, c] => do pure (showRat (shrinkToFit (← a.rat?) (← b.rat?) (← c.rat?)))
  | "ibw", [cbw, a, b, box] => do
    pure (out showABox (inlineBlockLayoutWidth (← cbw.rat?) (← a.rat?) (← b.rat?) (← abox? box)))
  | "flw", [cbw, a, b, box] => do
    pure (out showABox (floatLayoutWidth (← cbw.rat?) (← a.rat?) (← b.rat?) (← abox? box)))
  | _, _ => none

end Wp.Drive.ShrinkFit
