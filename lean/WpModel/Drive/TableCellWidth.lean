/-
Line protocol of `Model/TableCellWidth.lean`.

  child ::= (min max normal|floated|running|absolute)
  cellwidths <outer> (child…) dim minWidth maxWidth|inf marginL marginR padL padR borL borR
      → min max                     (`table_cell_min_max_content_width`)
  contentfits (need…) w              → ok | bad:narrower-than-its-content
-/
import WpModel.Model.Wire
import WpModel.Model.TableCellWidth
import WpModel.Drive.Table

namespace Wp.Drive.TableCellWidth
open Wp Wp.Table Wp.TableCellWidth Wp.Drive.Table

def pos? : Sx → Option Pos
  | .atom "normal" => some .normal
  | .atom "floated" => some .floated
  | .atom "running" => some .running
  | .atom "absolute" => some .absolute
  | _ => none

def child? : Sx → Option Child
  | .list [mn, mx, p] => do pure ⟨← mn.rat?, ← mx.rat?, ← pos? p⟩
  | _ => none

def optRat? : Sx → Option (Option Rat)
  | .atom "inf" => some none
  | x => x.rat?.map some

def handle (cmd : String) (args : List Sx) : Option String :=
  match cmd, args with
  | "cellwidths", [outer, .list cs, w, mn, mx, ml, mr, pl, pr, bl, br] => do
    let b : CellBox := ⟨← allSome child? cs, ← dim? w, ← mn.rat?, ← optRat? mx, ← dim? ml, ← dim? mr,
                        ← dim? pl, ← dim? pr, ← bl.rat?, ← br.rat?⟩
    let r := cellMinMax b (← outer.bool?)
    pure (showRat r.1 ++ " " ++ showRat r.2)
  | "contentfits", [needs, w] => do
    let needs ← rats? needs
    let w ← w.rat?
    pure (if needs.all (fun k => decide (k ≤ w * (1 + eps) + eps)) then "ok" else "bad:narrower-than-its-content")
  | _, _ => none

end Wp.Drive.TableCellWidth
