/-
Line protocol for `Model/PageSheet.lean`.  Tokens: `(dim q s:unit)` `(num q)` `(pct q)` `(id s:lower)` `ot`.
  sizev (toks…)                    → `none` | `((q unit) (q unit))`     (unit: `s:mm` | `none`)
  sizec fs rootFs (toks…)          → `none` | `(w h)` in px (`needs-font` / `type-error` per component)
  marksv (toks…)                   → `none` | `(s:crop s:cross)`
  bleedv (toks…)                   → `none` | `auto` | `(q unit)`
  bleedc fs rootFs (marks…) (toks…) → `none` | px
  sheet fs rootFs uaBleed size marks bleed   (each `none` | `(toks…)`; uaBleed `none` | q) → `(w h bleed (marks…))`
  sheetbox fs rootFs size (mt mr mb ml pt pr pb pl)   (size `none` | `(toks…)`; each dim `auto` | q | `(pct q)`)
      → the page box of `make_page` on the computed `size`: `(Page.width Page.height) (width height) (mt mr mb ml) (pt pr pb pl)`
-/
import WpModel.Drive.C14
import WpModel.Model.PageSheet
import WpModel.Model.PagePercent

namespace Wp.Drive.C14Sheet
open Wp Wp.PageSheet Wp.PageBoxes Wp.PagePercent Wp.Drive.C14

def stok? : Sx → Option STok
  | .atom "ot" => some .other
  | .list [.atom "dim", v, u] => do pure (.dim (← v.rat?) (← str? u))
  | .list [.atom "num", v] => v.rat?.map .num
  | .list [.atom "pct", v] => v.rat?.map .pct
  | .list [.atom "id", l] => (str? l).map .ident
  | _ => none

def toks? (x : Sx) : Option (List STok) := x.list?.bind (allSome stok?)

def optToks? : Sx → Option (Option (List STok))
  | .atom "none" => some none
  | x => (toks? x).map some

def showSDim (d : SDim) : String :=
  "(" ++ showRat d.value ++ " " ++ (match d.unit with | none => "none" | some u => showStr u) ++ ")"

def showPx : Px → String
  | .px v => showRat v
  | .needsFont => "needs-font"
  | .typeError => "type-error"

def handle (cmd : String) (args : List Sx) : Option String :=
  match cmd, args with
  | "sizev", [ts] => do
    match sizeValidate (← toks? ts) with
    | none => pure "none"
    | some (w, h) => pure s!"({showSDim w} {showSDim h})"
  | "sizec", [fs, rfs, ts] => do
    match sizeValidate (← toks? ts) with
    | none => pure "none"
    | some sz =>
      let (w, h) := sizeComputed (← fs.rat?) (← rfs.rat?) sz
      pure s!"({showPx w} {showPx h})"
  | "marksv", [ts] => do
    match marksValidate (← toks? ts) with
    | none => pure "none"
    | some l => pure ("(" ++ " ".intercalate (l.map showStr) ++ ")")
  | "bleedv", [ts] => do
    match bleedValidate (← toks? ts) with
    | none => pure "none"
    | some .auto => pure "auto"
    | some (.len d) => pure (showSDim d)
  | "bleedc", [fs, rfs, .list marks, ts] => do
    match bleedValidate (← toks? ts) with
    | none => pure "none"
    | some b => pure (showPx (bleedComputed (← allSome str? marks) (← fs.rat?) (← rfs.rat?) b))
  | "sheet", [fs, rfs, ua, size, marks, bleed] => do
    let ua ← (match ua with | .atom "none" => some none | x => x.rat?.map some)
    let s := sheetOf (← fs.rat?) (← rfs.rat?) ua (← optToks? size) (← optToks? marks) (← optToks? bleed)
    pure ("(" ++ showPx s.width ++ " " ++ showPx s.height ++ " " ++ showPx s.bleed ++ " (" ++
          " ".intercalate (s.marks.map showStr) ++ "))")
  | "sheetbox", [fs, rfs, size, .list dims] => do
    let s := sheetOf (← fs.rat?) (← rfs.rat?) (some 0) (← optToks? size) none none
    match s.width, s.height, ← allSome dim? dims with
    | .px w, .px h, [mt, mr, mb, ml, pt, pr, pb, pl] =>
      let p := makePageBox { sizeW := w, sizeH := h, width := .auto, height := .auto, minW := .auto, maxW := none
                             minH := .auto, maxH := none, mt := mt, mr := mr, mb := mb, ml := ml
                             pt := pt, pr := pr, pb := pb, pl := pl, bt := 0, br := 0, bb := 0, bl := 0 }
      pure (s!"({showRat p.marginWidth} {showRat p.marginHeight}) ({showRat p.width} {showRat p.height}) " ++
            s!"({showRat p.mt} {showRat p.mr} {showRat p.mb} {showRat p.ml}) ({showRat p.pt} {showRat p.pr} {showRat p.pb} {showRat p.pl})")
    | _, _, _ => pure "unsupported"
  | _, _ => none

end Wp.Drive.C14Sheet
