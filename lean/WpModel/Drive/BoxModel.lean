/-
Line protocol of the C05 models (`Margins`, `BoxModel`, `BlockTree`).  See `handle` for the commands.
-/
import WpModel.Model.Wire
import WpModel.Model.Margins
import WpModel.Model.BoxModel
import WpModel.Model.BlockTree

namespace Wp.Drive.BoxModel
open Wp Wp.BoxModel Wp.BlockTree

def ext? : Sx → Option Ext
  | .atom "inf" => some .inf
  | .atom "-inf" => some .ninf
  | .atom "nan" => some .nan
  | x => x.rat?.map .fin

def dim? : Sx → Option Dim
  | .atom "none" => some .none
  | .atom "auto" => some .auto
  | .list [.atom "px", v] => (ext? v).map .px
  | .list [.atom "pct", v] => v.rat?.map .pct
  | .list [.atom "unit", .atom u] => some (.unit u)
  | _ => none

def dimQ? : Sx → Option DimQ
  | .atom "auto" => some .auto
  | .list [.atom "px", v] => v.rat?.map .px
  | .list [.atom "pct", v] => v.rat?.map .pct
  | .list [.atom "unit", .atom _] => some .unit
  | _ => none

def dimX? : Sx → Option DimX
  | .list [.atom "px", v] => (ext? v).map .px
  | .list [.atom "pct", v] => v.rat?.map .pct
  | .list [.atom "unit", .atom _] => some .unit
  | _ => none

def boxSizing? : Sx → Option BoxSizing
  | .atom "border-box" => some .borderBox
  | .atom "padding-box" => some .paddingBox
  | .atom "content-box" => some .contentBox
  | .atom _ => some .other
  | _ => none

def dir? : Sx → Option Dir
  | .atom "ltr" => some .ltr
  | .atom "rtl" => some .rtl
  | _ => none

def cb? : Sx → Option CB
  | .list [.atom "box", w, d] => do pure (.box (← w.rat?) (← dir? d))
  | .list [.atom "tuple", w] => do pure (.tuple (← w.rat?))
  | _ => none

def style? : Sx → Option Style
  | .list [ml, mr, mt, mb, pl, pr, pt, pb, w, h, minW, minH, maxW, maxH, bl, br, bt, bb, bs] => do
    pure { marginLeft := ← dimQ? ml, marginRight := ← dimQ? mr, marginTop := ← dimQ? mt,
           marginBottom := ← dimQ? mb, paddingLeft := ← dimQ? pl, paddingRight := ← dimQ? pr,
           paddingTop := ← dimQ? pt, paddingBottom := ← dimQ? pb, width := ← dimQ? w, height := ← dimQ? h,
           minWidth := ← dimQ? minW, minHeight := ← dimQ? minH, maxWidth := ← dimX? maxW,
           maxHeight := ← dimX? maxH, borderLeft := ← bl.rat?, borderRight := ← br.rat?,
           borderTop := ← bt.rat?, borderBottom := ← bb.rat?, boxSizing := ← boxSizing? bs }
  | _ => none

def abox? : Sx → Option ABox
  | .list [ml, mr, pl, pr, bl, br, w, minW, maxW, posX, col] => do
    pure { ml := ← ml.len?, mr := ← mr.len?, pl := ← pl.rat?, pr := ← pr.rat?, bl := ← bl.rat?,
           br := ← br.rat?, w := ← w.len?, minW := ← minW.rat?, maxW := ← ext? maxW, posX := ← posX.rat?,
           isColumn := ← col.bool? }
  | _ => none

def sdim? : Sx → Option SDim
  | .atom "auto" => some .auto
  | .atom "none" => some .none
  | .list [.atom "px", v] => v.rat?.map .px
  | .list [.atom "pct", v] => v.rat?.map .pct
  | .list [.atom "em", v] => v.rat?.map .em
  | _ => none

def nstyle? : Sx → Option NStyle
  | .list [ml, mr, mt, mb, pl, pr, pt, pb, bl, br, bt, bb, w, h, minW, minH, maxW, maxH, bs, d, fs] => do
    let dir ← (match d with
      | .atom "inherit" => some none
      | d => (dir? d).map some : Option (Option Dir))
    let fontSize ← (match fs with
      | .atom "inherit" => some none
      | f => f.rat?.map some : Option (Option Rat))
    pure { ml := ← sdim? ml, mr := ← sdim? mr, mt := ← sdim? mt, mb := ← sdim? mb,
           pl := ← sdim? pl, pr := ← sdim? pr, pt := ← sdim? pt, pb := ← sdim? pb,
           bl := ← sdim? bl, br := ← sdim? br, bt := ← sdim? bt, bb := ← sdim? bb,
           width := ← sdim? w, height := ← sdim? h, minW := ← sdim? minW, minH := ← sdim? minH,
           maxW := ← sdim? maxW, maxH := ← sdim? maxH, boxSizing := ← boxSizing? bs, dir, fontSize }
  | _ => none

partial def node? : Sx → Option Node
  | .list [s, .list kids] => do
    let s ← nstyle? s
    let ks ← allSome node? kids
    pure (.mk s ks)
  | _ => none

def showUVal : UVal → String
  | .none => "none"
  | .auto => "auto"
  | .val x => x.render

def showABox (b : ABox) : String :=
  s!"ml={showLen b.ml} mr={showLen b.mr} w={showLen b.w} x={showRat b.posX}"

def showUsed (u : Used) : String :=
  " ".intercalate [
    showLen u.marginLeft, showLen u.marginRight, showLen u.marginTop, showLen u.marginBottom,
    showRat u.paddingLeft, showRat u.paddingRight, showRat u.paddingTop, showRat u.paddingBottom,
    showLen u.width, showLen u.height, showRat u.minWidth, showRat u.minHeight,
    u.maxWidth.render, u.maxHeight.render,
    showRat u.borderLeft, showRat u.borderRight, showRat u.borderTop, showRat u.borderBottom]

def showGeo (g : Geo) : String :=
  let h := match g.h with | none => "auto" | some x => x.render
  "(" ++ " ".intercalate [showRat g.x, showRat g.ml, showRat g.mr, showRat g.w, showRat g.pl,
    showRat g.pr, showRat g.bl, showRat g.br, showRat g.mt, showRat g.mb, showRat g.pt, showRat g.pb,
    showRat g.bt, showRat g.bb, h] ++ ")"

def out {α} (f : α → String) : Except BErr α → String
  | .ok a => f a
  | .error e => e.render

/-- Commands:
  `collapse (m …)`                              → `collapse_margin`
  `pct <dim> <ext>`                             → `percentage`
  `abs <box-sizing> pa pb ba bb size min max`   → `adjust_box_sizing` on one axis: `size min max`
  `rp <isPage> <style> cbW cbH`                 → `resolve_percentages`: the 18 used values
  `rpc <isPage> <collapse> pt pr pb pl <style> cbW cbH` → `resolve_percentages` with pre-set collapsed borders
  `rpos l r t b cbW cbH` / `radius rx ry removed bw bh` → `resolve_position_percentages`, one corner of `resolve_radii_percentages`
  `blw <cb> <abox>` / `blwmm <cb> <abox>`       → `block_level_width` without / with min-max
  `pwh cb <abox>` / `pw cb <abox>` / `ph cb <abox>` → `page_width_or_height`, `page_width`, `page_height`
  `idw <abox>` / `idh <abox>`                   → the two decorators around a function that does nothing
  `shw d <abox>`                                → `handle_min_max_width` around `box.position_x += d`
  `idwn <abox>`                                 → `handle_min_max_width` around nothing, on a box without `position_x`
  `clamp h min max`                             → `max(min(h, max), min)`
  `doc W H <page nstyle> <node>`                → geometry of the page box and every block, preorder -/
def handle (cmd : String) (args : List Sx) : Option String :=
  match cmd, args with
  | "collapse", [ms] => do
    let ms ← ms.list?.bind (allSome Sx.rat?)
    pure (match Margins.collapseMargin ms with
      | .ok r => showRat r
      | .error e => e.render)
  | "pct", [d, r] => do
    let d ← dim? d
    let r ← ext? r
    pure (out showUVal (percentage d r))
  | "abs", [bs, pa, pb, ba, bb, size, mn, mx] => do
    let r := adjustBoxSizing (← boxSizing? bs) (← pa.rat?) (← pb.rat?) (← ba.rat?) (← bb.rat?)
      (← size.len?) (← mn.len?) (← ext? mx)
    pure (out (fun (s, m, x) => s!"{showLen s} {showLen m} {x.render}") r)
  | "rp", [pg, st, cbW, cbH] => do
    pure (out showUsed (resolvePercentages (← pg.bool?) (← style? st) (← cbW.rat?) (← cbH.len?)))
  | "rpc", [pg, col, pt, pr, pb, pl, st, cbW, cbH] => do
    let opt : Sx → Option (Option Rat) := fun x => match x with
      | .atom "none" => some none
      | x => x.rat?.map some
    pure (out showUsed (resolvePercentagesCollapse (← pg.bool?) (← col.bool?) (← opt pt) (← opt pr) (← opt pb)
      (← opt pl) (← style? st) (← cbW.rat?) (← cbH.len?)))
  | "rpos", [l, r, t, b, cbW, cbH] => do
    pure (out (fun (l, r, t, b) => s!"{showLen l} {showLen r} {showLen t} {showLen b}")
      (resolvePosition (← dimQ? l) (← dimQ? r) (← dimQ? t) (← dimQ? b) (← cbW.rat?) (← cbH.rat?)))
  | "radius", [rx, ry, rem, bw, bh] => do
    pure (out (fun (x, y) => s!"{showRat x} {showRat y}")
      (resolveRadius (← dimQ? rx) (← dimQ? ry) (← rem.bool?) (← bw.rat?) (← bh.rat?)))
  | "blw", [cb, b] => do
    pure (showABox (blockLevelWidth (← cb? cb) (← abox? b)))
  | "blwmm", [cb, b] => do
    pure (out showABox (blockLevelWidthMinMax (← cb? cb) (← abox? b)))
  | "pwh", [cb, b] => do
    pure (showABox (pageWidthOrHeight (← cb.rat?) (← abox? b)))
  | "pw", [cb, b] => do
    pure (out showABox (pageWidth (← cb.rat?) (← abox? b)))
  | "ph", [cb, b] => do
    pure (out showABox (pageHeight (← cb.rat?) (← abox? b)))
  | "clamp", [h, mn, mx] => do
    pure (clampHeight (← h.rat?) (← mn.rat?) (← ext? mx)).render
  | "idw", [b] => do
    pure (out showABox (handleMinMaxWidth (fun b => .ok b) (← abox? b)))
  | "idh", [b] => do
    pure (out showABox (handleMinMaxHeight (fun b => .ok b) (← abox? b)))
  | "shw", [d, b] => do
    let d ← d.rat?
    pure (out showABox (handleMinMaxWidth (fun b => .ok { b with posX := b.posX + d }) (← abox? b)))
  | "idwn", [b] => do
    pure (out (fun b => s!"ml={showLen b.ml} mr={showLen b.mr} w={showLen b.w} x=absent")
      (handleMinMaxWidthNoX (fun b => .ok b) (← abox? b)))
  | "doc", [w, h, pg, root] => do
    let r := layoutDoc (← w.rat?) (← h.rat?) (← nstyle? pg) (← node? root)
    pure (out (fun gs => " ".intercalate (gs.map showGeo)) r)
  | _, _ => none

end Wp.Drive.BoxModel
