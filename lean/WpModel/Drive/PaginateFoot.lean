import WpModel.Model.Wire
import WpModel.Model.PaginateFoot
import WpModel.Model.PaginateFootOps
import WpModel.Drive.Paginate

/-! Line protocol of the footnote pagination model:
`pmfoot <pageH> <ltr> (<area mt mb pt pb bt bb maxH>) [((<page name> (<area>)) …)] <box>` (the optional list holds
the `@footnote` rules of named page types) where a paragraph is
`(para id n lineH <style> ((line fid m h policy) …))`.  Output: one `(page …)` per page as `pm`, each
extended with the footnote area `(fa y h mb pb bb ((fid y h) …))` / `(fa none)`, then `(left fid …)`. -/
namespace Wp.Drive.PaginateFoot
open Wp Wp.PM Wp.PMF Wp.Drive.Paginate

def policy? : Sx → Option Policy
  | .atom "auto" => some .auto
  | .atom "line" => some .line
  | .atom "block" => some .block
  | _ => none

def call? : Sx → Option Call
  | .list [line, fid, m, h, pol] => do
    pure { line := ← line.nat?, fid := ← fid.nat?, m := ← m.nat?, h := ← h.rat?, policy := ← policy? pol }
  | _ => none

partial def box? : Sx → Option FootBox
  | .list [.atom "para", id, n, lh, st, .list calls] => do
    pure (.para (← id.nat?) (← n.nat?) (← lh.rat?) (← style? st) (← allSome call? calls))
  | .list [.atom "block", id, st, .list kids] => do
    pure (.block (← id.nat?) (← style? st) (← allSome box? kids))
  | _ => none

def area? : Sx → Option AreaStyle
  | .list [mt, mb, pt, pb, bt, bb, maxH] => do
    let maxH ← (match maxH with | .atom "inf" => some none | x => x.rat?.map some)
    pure { mt := ← mt.rat?, mb := ← mb.rat?, pt := ← pt.rat?, pb := ← pb.rat?, bt := ← bt.rat?, bb := ← bb.rat?,
           maxH := maxH }
  | _ => none

def named? : Sx → Option (String × AreaStyle)
  | .list [.atom name, a] => do pure (name, ← area? a)
  | _ => none

def areaSx : Option AreaOut → Sx
  | none => .list [.atom "fa", .atom "none"]
  | some a => .list [.atom "fa", sxRat a.y, sxRat a.h, sxRat a.mb, sxRat a.pb, sxRat a.bb,
      .list (a.kids.map fun (i, y, h) => .list [sxNat i, sxRat y, sxRat h])]

def pageSxF (p : FPage) : Sx :=
  match pageSx p.page with
  | .list xs => .list (xs ++ [areaSx p.area])
  | x => x

def leftSx (ps : List FPage) : Sx :=
  match ps.getLast? with
  | none => .list [.atom "left"]
  | some p => .list (.atom "left" :: p.pending.map fun f => sxNat f.fid)

/-- Pages allowed: stage-1's bound plus two per footnote. -/
def fuelOf (root : FootBox) : Nat := 2 * countBox root.erase + 8 + 2 * (boxFns root).length

def run (h ltr a : Sx) (named : List Sx) (b : Sx) : Option String := do
  let h ← h.rat?
  let ltr ← ltr.bool?
  let area ← area? a
  let named ← allSome named? named
  let root ← box? b
  let d : FDoc := { pageH := h, rootLtr := ltr, root := root, area := area, named := named }
  match paginateFoot d (fuelOf root) with
  | some pages => pure (" ".intercalate ((pages.map fun p => (pageSxF p).render) ++ [(leftSx pages).render]))
  | none => pure "err:pagination"

/-! `footops <pageH> (<area>) ((fid m h) …) ((lay|report|unlay fid) …)`: the calls made from the state in which a page
starts; per call performed `(s page_bottom areaHeight|auto overflow (cur …) (reported …) (waiting …))`, then `(stop)`
if a call's precondition failed. -/

def fnOf? : Sx → Option Fn
  | .list [fid, m, h] => do pure { fid := ← fid.nat?, m := ← m.nat?, h := ← h.rat?, policy := .auto, page := "" }
  | _ => none

def opOf? (fns : List Fn) : Sx → Option FOp
  | .list [.atom name, fid] => do
    let fid ← fid.nat?
    let f ← fns.find? (fun f => f.fid == fid)
    match name with
    | "lay" => some (.lay f)
    | "report" => some (.report f)
    | "unlay" => some (.unlay f)
    | _ => none
  | _ => none

def stepSx (r : FState × Bool) : Sx :=
  .list [.atom "s", sxRat r.1.pageBottom, (match r.1.areaH with | none => .atom "auto" | some h => sxRat h),
    .atom (if r.2 then "true" else "false"), .list (r.1.cur.map fun f => sxNat f.fid),
    .list (r.1.reported.map fun f => sxNat f.fid), .list (r.1.pending.map fun f => sxNat f.fid)]

def runOps (h a : Sx) (fns ops : List Sx) : Option String := do
  let h ← h.rat?
  let area ← area? a
  let fns ← allSome fnOf? fns
  let ops ← allSome (opOf? fns) ops
  let c : FCtx := { area := area, pageH := h, currentPage := 1, forcedBreak := false, tbl := [] }
  let trace := applyOps c (pageStartState c fns) ops
  let steps := trace.map fun r => (stepSx r).render
  let steps := if trace.length < ops.length then steps ++ ["(stop)"] else steps
  pure (if steps.isEmpty then "(none)" else " ".intercalate steps)

def handle (cmd : String) (args : List Sx) : Option String :=
  match cmd, args with
  | "footops", [h, a, .list fns, .list ops] => runOps h a fns ops
  | "pmfoot", [h, ltr, a, b] => run h ltr a [] b
  | "pmfoot", [h, ltr, a, .list named, b] => run h ltr a named b
  | _, _ => none

end Wp.Drive.PaginateFoot
