/-
Line protocol of `Model/TableRows.lean`.

  rows <y> <sp> (((h…) lastRowSplit)…) ((group row rowspan)…) <showEnd> → ((groupY groupH (rowY…))…) end ((cellY cellH)…)
  frags n declH declF labelsOnce ((hasH hasF (row…) y0 headerH footerH firstH limit endY pageBottom)…) → ok | bad:<which clause>
-/
import WpModel.Model.Wire
import WpModel.Model.TableRows
import WpModel.Drive.Table

namespace Wp.Drive.TableRows
open Wp Wp.TableRows Wp.Drive.Table

def triple? : Sx → Option (Nat × Nat × Nat)
  | .list [a, b, c] => do pure (← a.nat?, ← b.nat?, ← c.nat?)
  | _ => none

def frag? : Sx → Option Frag
  | .list [hh, hf, .list rows, y0, a, b, c, l, e, pb] => do
    pure ⟨← hh.bool?, ← hf.bool?, ← allSome Sx.nat? rows, ← y0.rat?, ← a.rat?, ← b.rat?, ← c.rat?, ← l.rat?,
          ← e.rat?, ← pb.rat?⟩
  | _ => none

def handle (cmd : String) (args : List Sx) : Option String :=
  match cmd, args with
  | "rows", [y, sp, .list groups, .list cells, showEnd] => do
    let showEnd ← showEnd.bool?
    let y ← y.rat?
    let sp ← sp.rat?
    let groups ← allSome (fun g => match g with
      | .list [hs, split] => do pure ((← rats? hs), (← split.bool?))
      | _ => none) groups
    let cells ← allSome triple? cells
    let geom := groupsGeom sp y groups
    let gs := geom.map (fun g => "(" ++ showRat g.y ++ " " ++ showRat g.height ++ " " ++ showRats g.rowYs ++ ")")
    let cs := cells.map (fun (g, r, k) =>
      match cellV (groups.map (·.1)) geom g r k with
      | .error e => errStr e
      | .ok (cy, ch) => "(" ++ showRat cy ++ " " ++ showRat ch ++ ")")
    pure ("(" ++ " ".intercalate gs ++ ") " ++ (if showEnd then showRat (groupsEnd sp y groups) else "-") ++ " (" ++ " ".intercalate cs ++ ")")
  | "frags", [n, dh, df, lo, .list frags] => do
    pure (explain (← n.nat?) (← dh.bool?) (← df.bool?) (← lo.bool?) (← allSome frag? frags))
  | _, _ => none

end Wp.Drive.TableRows
