/-
Line protocol for the counter scoping model (`Model/CounterScope.lean`).  Strings as in `Drive/Counters`.

  pairs   ::= ((x<name> <int>) …)
  ops     ::= (none|li|other pairs pairs auto|pairs)              display, reset, set, increment
  item    ::= (str x…) | (c x<name> style) | (cs x<name> x<sep> style)
            | (tc x<anchor> x<name> style) | (tcs x<anchor> x<name> x<sep> style)
  pseudo  ::= none | (ops (item …))
  elem    ::= (ops none|style none|(item …) none|x<anchor> pseudo pseudo (elem …))

  dom <base> <table> <elem>     → ok (marker|before|after x…) …  | err:<Class>
  spec <base> <table> <elem>    → the same under the reference semantics `Spec.counters`
  upd <values> <scopes> <ops>   → ok <values> <scopes> | err:<Class>      update_counters on one state
       values ::= ((x<name> (<int> …)) …)  stacks outermost first, scopes ::= ((x<name> …) …) outermost first;
       printed sorted by name
-/
import WpModel.Model.Wire
import WpModel.Model.CounterScope
import WpModel.Drive.Counters

namespace Wp.Drive.CounterScope
open Wp Wp.Counters Wp.Drive.Counters

def pair? : Sx → Option (String × Int)
  | .list [n, v] => do pure (← str? n, ← v.int?)
  | _ => none

def disp? : Sx → Option Disp
  | .atom "none" => some .none
  | .atom "li" => some .listItem
  | .atom "other" => some .other
  | _ => none

def ops? : Sx → Option Ops
  | .list [d, r, s, i] => do
    let incr ← match i with
      | .atom "auto" => some none
      | x => (listOf pair? x).map some
    pure ⟨← disp? d, ← listOf pair? r, ← listOf pair? s, incr⟩
  | _ => none

def item? : Sx → Option Item
  | .list [.atom "str", s] => (str? s).map .str
  | .list [.atom "c", n, st] => do pure (.counter (← str? n) (← cname? st))
  | .list [.atom "cs", n, sep, st] => do pure (.counters (← str? n) (← str? sep) (← cname? st))
  | .list [.atom "tc", a, n, st] => do pure (.targetCounter (← str? a) (← str? n) (← cname? st))
  | .list [.atom "tcs", a, n, sep, st] => do
    pure (.targetCounters (← str? a) (← str? n) (← str? sep) (← cname? st))
  | _ => none

def pseudo? : Sx → Option (Option Pseudo)
  | .atom "none" => some none
  | .list [o, items] => do pure (some ⟨← ops? o, ← listOf item? items⟩)
  | _ => none

partial def elem? : Sx → Option Elem
  | .list [o, ls, mc, a, b, af, .list kids] => do
    let o ← ops? o
    let ls ← optOf cname? ls
    let mc ← optOf (listOf item?) mc
    let a ← optOf str? a
    let b ← pseudo? b
    let af ← pseudo? af
    let kids ← allSome elem? kids
    pure (.mk o ls mc a b af kids)
  | _ => none

def values? : Sx → Option Values :=
  listOf fun
    | .list [n, .list st] => do pure (← str? n, (← allSome Sx.int? st).reverse)
    | _ => none

def scopes? (x : Sx) : Option Scopes := (listOf (listOf str?) x).map List.reverse

def showValues (vs : Values) : String :=
  (Sx.list ((vs.toArray.qsort (fun a b => a.1 < b.1)).toList.map fun p => .list [.atom (encodeStr p.1), .list (p.2.reverse.map sxInt)])).render

def showScopes (sc : Scopes) : String :=
  (Sx.list (sc.reverse.map fun s => .list ((s.toArray.qsort (· < ·)).toList.map fun n => .atom (encodeStr n)))).render

def handle (cmd : String) (args : List Sx) : Option String :=
  match cmd, args with
  | "dom", [base, table, e] => do
    let cs ← styles? base table
    let e ← elem? e
    match buildTexts cs e with
    | .error err => pure err.render
    | .ok obs =>
      pure (" ".intercalate ("ok" :: obs.map fun o => "(" ++ o.kind ++ " " ++ encodeStr o.text ++ ")"))
  | "spec", [base, table, e] => do
    let cs ← styles? base table
    let e ← elem? e
    match Spec.counters cs e with
    | .error err => pure err.render
    | .ok obs =>
      pure (" ".intercalate ("ok" :: obs.map fun o => "(" ++ o.kind ++ " " ++ encodeStr o.text ++ ")"))
  | "upd", [vs, sc, o] => do
    let vs ← values? vs
    let sc ← scopes? sc
    let o ← ops? o
    match updateCounters ⟨vs, sc⟩ o with
    | .error err => pure err.render
    | .ok st => pure ("ok " ++ showValues st.values ++ " " ++ showScopes st.scopes)
  | _, _ => none

end Wp.Drive.CounterScope
