/-
Line protocol for `Model/PagePercent.lean`:
  respct <isPage> <sizing: content|padding|border> <cbW> <cbH | auto>
         (ml mr mt mb pl pr pt pb width height minW minH)   -- each `auto` | q | (pct q)
         (maxW maxH)                                         -- each `inf` | q | (pct q)
         (bt br bb bl)
  → `(ml mr mt mb) (pl pr pt pb) (width height) (minW minH maxW maxH) (bt br bb bl)`
  pagepct <cbW> <cbH> (12 dims) (2 max) (4 borders)  → the page box of `make_page` (content-box)
-/
import WpModel.Drive.C14
import WpModel.Model.PagePercent

namespace Wp.Drive.C14Percent
open Wp Wp.PageBoxes Wp.PagePercent Wp.Drive.C14

def maxDim? : Sx → Option MaxDim
  | .atom "inf" => some .inf
  | .list [.atom "pct", v] => v.rat?.map .pct
  | x => x.rat?.map .px

def sizing? : Sx → Option BoxSizing
  | .atom "content" => some .contentBox
  | .atom "padding" => some .paddingBox
  | .atom "border" => some .borderBox
  | _ => none

def cstyle? (sz : BoxSizing) (dims maxs borders : List Sx) : Option CStyle := do
  match ← allSome dim? dims, ← allSome maxDim? maxs, ← allSome Sx.rat? borders with
  | [ml, mr, mt, mb, pl, pr, pt, pb, w, h, mnw, mnh], [mxw, mxh], [bt, br, bb, bl] =>
    pure { ml := ml, mr := mr, mt := mt, mb := mb, pl := pl, pr := pr, pt := pt, pb := pb, width := w, height := h
           minW := mnw, minH := mnh, maxW := mxw, maxH := mxh, bt := bt, br := br, bb := bb, bl := bl, sizing := sz }
  | _, _, _ => none

def showMax : Option Rat → String
  | none => "inf"
  | some v => showRat v

def showUsed (u : Used) : String :=
  s!"({showLen u.ml} {showLen u.mr} {showLen u.mt} {showLen u.mb}) " ++
  s!"({showLen u.pl} {showLen u.pr} {showLen u.pt} {showLen u.pb}) ({showLen u.width} {showLen u.height}) " ++
  s!"({showRat u.minW} {showRat u.minH} {showMax u.maxW} {showMax u.maxH}) " ++
  s!"({showRat u.bt} {showRat u.br} {showRat u.bb} {showRat u.bl})"

def handle (cmd : String) (args : List Sx) : Option String :=
  match cmd, args with
  | "respct", [isPage, sz, cbW, .atom "auto", .list dims, .list maxs, .list borders] => do
    let s ← cstyle? (← sizing? sz) dims maxs borders
    let u := resolvePercentagesAutoHeight (← isPage.bool?) s (← cbW.rat?)
    let mx := match u.maxH with | .inf => "inf" | .num v => showRat v | .nan => "nan"
    let b := u.base
    pure (s!"({showLen b.ml} {showLen b.mr} {showLen b.mt} {showLen b.mb}) " ++
      s!"({showLen b.pl} {showLen b.pr} {showLen b.pt} {showLen b.pb}) ({showLen b.width} {showLen b.height}) " ++
      s!"({showRat b.minW} {showRat b.minH} {showMax b.maxW} {mx}) " ++
      s!"({showRat b.bt} {showRat b.br} {showRat b.bb} {showRat b.bl})")
  | "respct", [isPage, sz, cbW, cbH, .list dims, .list maxs, .list borders] => do
    let s ← cstyle? (← sizing? sz) dims maxs borders
    pure (showUsed (resolvePercentages (← isPage.bool?) s (← cbW.rat?) (← cbH.rat?)))
  | "pagepct", [sz, cbW, cbH, .list dims, .list maxs, .list borders] => do
    let s ← cstyle? (← sizing? sz) dims maxs borders
    let cbW ← cbW.rat?
    let cbH ← cbH.rat?
    let p := pageFromUsed (resolvePercentages true s cbW cbH) cbW cbH
    pure (s!"({showRat p.marginWidth} {showRat p.marginHeight}) ({showRat p.width} {showRat p.height}) " ++
          s!"({showRat p.mt} {showRat p.mr} {showRat p.mb} {showRat p.ml}) ({showRat p.pt} {showRat p.pr} {showRat p.pb} {showRat p.pl})")
  | _, _ => none

end Wp.Drive.C14Percent
