/-
Line protocol of the collapsed-border model (`Model/TableBorders.lean`).

  border   ::= (style width color)
  sides    ::= (border border border border)            top right bottom left
  cell     ::= (gridX colspan rowspan sides)
  row      ::= (sides (cell…))
  group    ::= (sides (row…))
  col      ::= (gridX sides)
  colgroup ::= (gridX span sides (col…))

  collapse <ltr> gw gh sides (group…) (colgroup…)
     → ok (vrow…) (hrow…) (used…) used|none     | err:IndexError | err:ValueError
       vrow/hrow ::= (edge…), edge ::= (hidden width rank style width color), used ::= (top right bottom left)
  winner (edge) (border…)   → edge       (the fold of `set_one_border` over a list of offers)
-/
import WpModel.Model.Wire
import WpModel.Model.TableBorders
import WpModel.Drive.Table

namespace Wp.Drive.Borders
open Wp Wp.Borders

def border? : Sx → Option Border
  | .list [s, w, c] => do pure ⟨← s.atom?.bind BStyle.ofCss?, ← w.rat?, ← c.nat?⟩
  | _ => none

def sides? : Sx → Option Sides
  | .list [t, r, b, l] => do pure ⟨← border? t, ← border? r, ← border? b, ← border? l⟩
  | _ => none

def cell? : Sx → Option BCell
  | .list [x, cs, rs, s] => do pure ⟨← x.nat?, ← cs.nat?, ← rs.nat?, ← sides? s⟩
  | _ => none

def row? : Sx → Option BRow
  | .list [s, .list cells] => do pure ⟨← sides? s, ← allSome cell? cells⟩
  | _ => none

def group? : Sx → Option BGroup
  | .list [s, .list rows] => do pure ⟨← sides? s, ← allSome row? rows⟩
  | _ => none

def col? : Sx → Option BCol
  | .list [x, s] => do pure ⟨← x.nat?, ← sides? s⟩
  | _ => none

def colGroup? : Sx → Option BColGroup
  | .list [x, span, s, .list cols] => do pure ⟨← x.nat?, ← span.nat?, ← sides? s, ← allSome col? cols⟩
  | _ => none

def showEdge (e : Edge) : String :=
  "(" ++ toString e.score.hidden ++ " " ++ showRat e.score.width ++ " " ++ toString e.score.rank ++ " " ++
  e.border.style.toCss ++ " " ++ showRat e.border.width ++ " " ++ toString e.border.color ++ ")"

def showGrid (g : Grid) : String :=
  "(" ++ " ".intercalate (g.map (fun row => "(" ++ " ".intercalate (row.map showEdge) ++ ")")) ++ ")"

def showUsed (u : Used) : String :=
  "(" ++ showRat u.top ++ " " ++ showRat u.right ++ " " ++ showRat u.bottom ++ " " ++ showRat u.left ++ ")"

def edge? : Sx → Option Edge
  | .list [h, w, r, s, bw, c] => do
    pure ⟨⟨← h.nat?, ← w.rat?, ← r.nat?⟩, ⟨← s.atom?.bind BStyle.ofCss?, ← bw.rat?, ← c.nat?⟩⟩
  | _ => none

def handle (cmd : String) (args : List Sx) : Option String :=
  match cmd, args with
  | "collapse", [ltr, gw, gh, s, .list groups, .list cgs] => do
    let t : BTable := ⟨← ltr.bool?, ← sides? s, ← allSome group? groups, ← allSome colGroup? cgs⟩
    match collapse t (← gw.nat?) (← gh.nat?) with
    | .error e => pure (Wp.Drive.Table.errStr e)
    | .ok o =>
      pure ("ok " ++ showGrid o.vertical ++ " " ++ showGrid o.horizontal ++ " (" ++
        " ".intercalate (o.cells.map showUsed) ++ ") " ++
        (match o.table with | none => "none" | some u => showUsed u))
  | "winner", [e, .list offers] => do
    let e ← edge? e
    let offers ← allSome border? offers
    pure (showEdge (offers.foldl offerEdge e))
  | _, _ => none

end Wp.Drive.Borders
