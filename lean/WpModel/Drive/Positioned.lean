import WpModel.Model.Wire
import WpModel.Model.Positioned

namespace Wp.Drive.Positioned
open Wp Wp.Positioned

def position? : Sx → Option Position
  | .atom "static" => some .static
  | .atom "relative" => some .relative
  | .atom "absolute" => some .absolute
  | .atom "fixed" => some .fixed
  | _ => none

/-- `(id left top late)` -/
def fixedBox? : Sx → Option FixedBox
  | .list [i, l, t, late] => do pure ⟨← i.nat?, ← l.rat?, ← t.rat?, ← late.bool?⟩
  | _ => none

def page? (x : Sx) : Option (List FixedBox) := x.list?.bind (allSome fixedBox?)

/-- Commands:
  `cbowner <target> (<ancestor>…)`        → `page` | index of the ancestor that lays the box out
  `late (<ancestor>…)`                     → `true` | `false`
  `fixedpages <cx> <cy> ((<fixed>…)…)`     → per page `((id x y)…)` -/
def handle (cmd : String) (args : List Sx) : Option String :=
  match cmd, args with
  | "cbowner", [t, .list anc] => do
    let t ← position? t
    let anc ← allSome position? anc
    pure (match owner t anc with
      | none => "page"
      | some i => toString i)
  | "late", [.list anc] => do
    let anc ← allSome position? anc
    pure (if collectedLate anc then "true" else "false")
  | "fixedpages", [cx, cy, .list pages] => do
    let cx ← cx.rat?
    let cy ← cy.rat?
    let pages ← allSome page? pages
    pure (" ".intercalate ((layoutFixed cx cy pages).map fun pg =>
      "(" ++ " ".intercalate (pg.map fun (i, x, y) =>
        "(" ++ toString i ++ " " ++ showRat x ++ " " ++ showRat y ++ ")") ++ ")"))
  | _, _ => none

end Wp.Drive.Positioned
