import WpModel.Model.Wire
import WpModel.Model.Positioned
import WpModel.Model.FixedPages
import WpModel.Drive.Floats
import WpModel.Drive.Absolute

namespace Wp.Drive.Positioned
open Wp Wp.Positioned
open Wp.Drive.Floats (dim? errStr)

def position? : Sx → Option Position
  | .atom "static" => some .static
  | .atom "relative" => some .relative
  | .atom "absolute" => some .absolute
  | .atom "fixed" => some .fixed
  | _ => none

/-- `(id left top late)` -/
def fixedBox? : Sx → Option FixedBox
  | .list [i, l, t, late] => do pure ⟨← i.nat?, ← l.rat?, ← t.rat?, ← late.bool?⟩
  | _ => none

def page? (x : Sx) : Option (List FixedBox) := x.list?.bind (allSome fixedBox?)

/-- `(left right top bottom w h ml mr mt mb)` -/
def fixedStyle? : Sx → Option FixedStyle
  | .list [l, r, t, b, w, h, ml, mr, mt, mb] => do
    pure ⟨← dim? l, ← dim? r, ← dim? t, ← dim? b, ← w.rat?, ← h.rat?, ← ml.rat?, ← mr.rat?, ← mt.rat?, ← mb.rat?⟩
  | _ => none

/-- `(id <style> late (<kid>…))` -/
partial def fixedTree? : Sx → Option FixedTree
  | .list [i, st, late, .list kids] => do
    pure (.mk (← i.nat?) (← fixedStyle? st) (← late.bool?) (← allSome fixedTree? kids))
  | _ => none

/-- `(x y w h)` -/
def rect? : Sx → Option Absolute.Rect
  | .list [x, y, w, h] => do pure ⟨← x.rat?, ← y.rat?, ← w.rat?, ← h.rat?⟩
  | _ => none

/-- Commands:
  `fixedtrees (<area>…) ((<tree>…)…)`      → per page `((id x y)…)`, nested fixed boxes included
  `cbowner <target> (<ancestor>…)`        → `page` | index of the ancestor that lays the box out
  `late (<ancestor>…)`                     → `true` | `false`
  `fixedpages <cx> <cy> ((<fixed>…)…)`     → per page `((id x y)…)` -/
def handle (cmd : String) (args : List Sx) : Option String :=
  match cmd, args with
  | "cbowner", [t, .list anc] => do
    let t ← position? t
    let anc ← allSome position? anc
    pure (match owner t anc with
      | none => "page"
      | some i => toString i)
  | "late", [.list anc] => do
    let anc ← allSome position? anc
    pure (if collectedLate anc then "true" else "false")
  | "fixedpages", [cx, cy, .list pages] => do
    let cx ← cx.rat?
    let cy ← cy.rat?
    let pages ← allSome page? pages
    pure (" ".intercalate ((layoutFixed cx cy pages).map fun pg =>
      "(" ++ " ".intercalate (pg.map fun (i, x, y) =>
        "(" ++ toString i ++ " " ++ showRat x ++ " " ++ showRat y ++ ")") ++ ")"))
  | "fixedtrees", [.list areas, .list pages] => do
    let areas ← allSome rect? areas
    let pages ← allSome (fun p => p.list?.bind (allSome fixedTree?)) pages
    pure (" ".intercalate ((layoutFixedDoc areas pages).map fun pg =>
      match pg with
      | .ok l => "(" ++ " ".intercalate (l.map fun (i, x, y) =>
          "(" ++ toString i ++ " " ++ showRat x ++ " " ++ showRat y ++ ")") ++ ")"
      | .error e => errStr e))
  | "fixedkept", [own, pb, vb, cby, cbh, .list hs] => do
    -- `fixedkept <own page?> <page_bottom> <vbox> <cb_y> <cb_h> (<child heights>)` → children in the fragment
    let own ← own.bool?
    pure (toString (fixedKept (if own then some 0 else none) (← pb.rat?) (← Wp.Drive.Absolute.vbox? vb)
      (← cby.rat?) (← cbh.rat?) (← allSome Sx.rat? hs)))
  | _, _ => none

end Wp.Drive.Positioned
