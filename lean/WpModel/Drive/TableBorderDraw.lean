/-
Line protocol of `Model/TableBorderDraw.lean`.

  edge ::= (hidden width rank style width color)         as in `collapse`; color 0 = alpha 0
  drawborders (rowHeight…) (rowY…) (colWidth…) (colX…) headerRows footerRows skippedRows
              skipTop skipBottom ((edge…)…) ((edge…)…)
     → ok ((style width color left|top x1 y1 x2 y2)…)   | err:IndexError | err:AssertionError
  rownumber gridHeight originalHeight headerRows footerRows skippedRows y horizontal → the grid row / line
-/
import WpModel.Model.Wire
import WpModel.Model.TableBorderDraw
import WpModel.Drive.Table
import WpModel.Drive.Borders

namespace Wp.Drive.BorderDraw
open Wp Wp.Borders Wp.BorderDraw Wp.Drive.Table Wp.Drive.Borders

def grid? : Sx → Option Grid
  | .list rows => allSome (fun (r : Sx) => r.list?.bind (allSome edge?)) rows
  | _ => none

def showSeg (s : Segment) : String :=
  "(" ++ s.style.toCss ++ " " ++ showRat s.width ++ " " ++ toString s.color ++ " " ++
  (match s.side with | .left => "left" | .top => "top") ++ " " ++
  showRat s.x ++ " " ++ showRat s.y ++ " " ++ showRat (s.x + s.w) ++ " " ++ showRat (s.y + s.h) ++ ")"

def handle (cmd : String) (args : List Sx) : Option String :=
  match cmd, args with
  | "drawborders", [rh, ry, cw, cx, hd, ft, sk, st, sb, v, h] => do
    let d : DrawIn := ⟨← rats? rh, ← rats? ry, ← rats? cw, ← rats? cx, ← hd.nat?, ← ft.nat?, ← sk.nat?,
                       ← st.bool?, ← sb.bool?, ← grid? v, ← grid? h⟩
    match segments d with
    | .error e => pure (errStr e)
    | .ok segs => pure ("ok (" ++ " ".intercalate (segs.map showSeg) ++ ")")
  | "rownumber", [gh, oh, hd, ft, sk, y, hz] => do
    let gh ← gh.nat?
    let d : DrawIn := ⟨List.replicate gh 0, [], [], [], ← hd.nat?, ← ft.nat?, ← sk.nat?, false, false,
                       List.replicate (← oh.nat?) [], []⟩
    pure (toString (rowNumber d (← y.int?) (← hz.bool?)))
  | _, _ => none

end Wp.Drive.BorderDraw
