import WpModel.Model.Wire
import WpModel.Model.Floats
import WpModel.Model.FloatFlow
import WpModel.Model.FloatCheck
import WpModel.Model.FloatTrace

namespace Wp.Drive.Floats
open Wp Wp.Floats

def side? : Sx → Option Side
  | .atom "left" => some .left
  | .atom "right" => some .right
  | _ => none

def floatV? : Sx → Option FloatV
  | .atom "none" => some .none
  | .atom "left" => some .left
  | .atom "right" => some .right
  | _ => none

def clear? : Sx → Option Clear
  | .atom "none" => some .none
  | .atom "left" => some .left
  | .atom "right" => some .right
  | .atom "both" => some .both
  | _ => none

def kind? : Sx → Option Kind
  | .atom "line" => some .line
  | .atom "table" => some .tableWrapper
  | .atom "replaced" => some .replaced
  | .atom "bfc" => some .bfc
  | .atom "other" => some .other
  | _ => none

/-- `(x y mw mh side)` -/
def shape? : Sx → Option Shape
  | .list [x, y, mw, mh, s] => do
    pure ⟨← x.rat?, ← y.rat?, ← mw.rat?, ← mh.rat?, ← side? s⟩
  | _ => none

def shapes? (x : Sx) : Option (List Shape) := x.list?.bind (allSome shape?)

/-- `(px py mt mb ml mr bw bh float clear kind)` -/
def abox? : Sx → Option ABox
  | .list [px, py, mt, mb, ml, mr, bw, bh, f, c, k] => do
    pure ⟨← px.rat?, ← py.rat?, ← mt.rat?, ← mb.rat?, ← ml.rat?, ← mr.rat?, ← bw.rat?, ← bh.rat?,
          ← floatV? f, ← clear? c, ← kind? k⟩
  | _ => none

/-- `(cx w rtl)` -/
def cb? : Sx → Option CB
  | .list [cx, w, rtl] => do pure ⟨← cx.rat?, ← w.rat?, ← rtl.bool?⟩
  | _ => none

/-- `err:<Class>` without the site, as `harness.docs.outcome` prints it.  A `valueError` whose
site starts with `TypeError` stands for a Python `TypeError`. -/
def errStr (e : PyErr) : String :=
  match e with
  | .valueError s => if s.startsWith "TypeError" then "err:TypeError" else "err:ValueError"
  | e => match e.render.splitOn "@" with
    | h :: _ => h
    | [] => "err"

def showErr {α} (f : α → String) : Except PyErr α → String
  | .ok a => f a
  | .error e => errStr e

def showShape (s : Shape) : String :=
  "(" ++ showRat s.x ++ " " ++ showRat s.y ++ " " ++ showRat s.mw ++ " " ++ showRat s.mh ++ " " ++
    (match s.side with | .left => "left" | .right => "right") ++ ")"

/-- `(F x y mw mh side)` | `(B l0 r0 x y w h)` -/
def event? : Sx → Option Event
  | .list [.atom "F", x, y, mw, mh, sd] => do pure (.float ⟨← x.rat?, ← y.rat?, ← mw.rat?, ← mh.rat?, ← side? sd⟩)
  | .list [.atom "B", l0, r0, x, y, w, h] => do
    pure (.box (← l0.rat?) (← r0.rat?) (← x.rat?) (← y.rat?) (← w.rat?) (← h.rat?))
  | _ => none

/-- `auto` | `(px q)` | `(pct q)` -/
def dim? : Sx → Option Absolute.Dim
  | .atom "auto" => some .auto
  | .list [.atom "px", q] => q.rat?.map .px
  | .list [.atom "pct", q] => q.rat?.map .pct
  | _ => none

/-- `(side clear width height ml mr mt mb pl pr pt pb bl br bt bb minW maxW minC maxC hWide hNarrow)` -/
def floatSpec? : Sx → Option FloatSpec
  | .list [sd, c, w, h, ml, mr, mt, mb, pl, pr, pt, pb, bl, br, bt, bb, mn, mx, mc, xc, hw, hn] => do
    pure ⟨← floatV? sd, ← clear? c, ← dim? w, ← h.len?, ← dim? ml, ← dim? mr, ← dim? mt, ← dim? mb,
          ← dim? pl, ← dim? pr, ← dim? pt, ← dim? pb, ← bl.rat?, ← br.rat?, ← bt.rat?, ← bb.rat?,
          ← dim? mn, ← dim? mx, ← mc.rat?, ← xc.rat?, ← hw.rat?, ← hn.rat?⟩
  | _ => none

/-- `(w0 w h (<abox>…))` -/
def lineSpec? : Sx → Option LineSpec
  | .list [w0, w, h, .list fs] => do pure ⟨← w0.rat?, ← w.rat?, ← h.rat?, ← allSome abox? fs⟩
  | _ => none

def align? : Sx → Option Align
  | .atom "start" => some .start
  | .atom "end" => some .«end»
  | .atom "left" => some .left
  | .atom "right" => some .right
  | .atom "center" => some .center
  | _ => none

/-- `(float <abox>)` | `(para clear fs align (<line>…) mt mb)` | `(bfc clear width h ml mr mt mb)` |
`(block clear h mt mb)` | `(img clear w h ml mr)` | `(table clear w h ml mr)` -/
def item? : Sx → Option Item
  | .list [.atom "float", b] => (abox? b).map .float
  | .list [.atom "floatspec", f] => (floatSpec? f).map .floatSpec
  | .list [.atom "para", c, fs, al, .list ls, mt, mb] => do
    pure (.para (← clear? c) (← fs.rat?) (← align? al) (← allSome lineSpec? ls) (← mt.rat?) (← mb.rat?))
  | .list [.atom "bfc", c, w, h, ml, mr, mt, mb] => do
    pure (.bfc (← clear? c) (← w.len?) (← h.rat?) (← ml.rat?) (← mr.rat?) (← mt.rat?) (← mb.rat?))
  | .list [.atom "block", c, h, mt, mb] => do pure (.block (← clear? c) (← h.rat?) (← mt.rat?) (← mb.rat?))
  | .list [.atom "img", c, w, h, ml, mr] => do
    pure (.replaced .replaced (← clear? c) (← w.rat?) (← h.rat?) (← ml.rat?) (← mr.rat?))
  | .list [.atom "table", c, w, h, ml, mr] => do
    pure (.replaced .tableWrapper (← clear? c) (← w.rat?) (← h.rat?) (← ml.rat?) (← mr.rat?))
  | _ => none

def showRect (r : Rat × Rat × Rat × Rat) : String :=
  "(F " ++ " ".intercalate ([r.1, r.2.1, r.2.2.1, r.2.2.2].map showRat) ++ ")"

def showPlaced : Placed → String
  | .float x y mw mh => showRect (x, y, mw, mh)
  | .para lines => "(P" ++ String.join (lines.map fun l =>
      (if l.floats.isEmpty then
         " (" ++ showRat l.x ++ " " ++ showRat l.y ++ " " ++ showRat l.w ++ " " ++ showRat l.h
       else " (- " ++ showRat l.y ++ " - -") ++
        String.join (l.floats.map fun r => " " ++ showRect r) ++ ")") ++ ")"
  | .bfc x y w h => "(B " ++ " ".intercalate ([x, y, w, h].map showRat) ++ ")"
  | .block y => "(K " ++ showRat y ++ ")"
  | .replaced x y w h => "(R " ++ " ".intercalate ([x, y, w, h].map showRat) ++ ")"

/-- Commands:
  `flow <cb> <y0> (<item>…)`                 → placed items
  `avoid <shapes> <box> <cb> <outer>`        → `x y avail`
  `findpos <shapes> <box> <cb>`              → `x y`
  `clearance <shapes> <clear> <py> <collapsed>` → `none` | value
  `floatplace <shapes> <box> <cb>`           → `x y (shapes…)`  -/
def handle (cmd : String) (args : List Sx) : Option String :=
  match cmd, args with
  | "avoid", [ss, b, cb, outer] => do
    let ss ← shapes? ss
    let b ← abox? b
    let cb ← cb? cb
    let outer ← outer.bool?
    pure (showErr (fun p => showRat p.x ++ " " ++ showRat p.y ++ " " ++ showRat p.avail)
      (avoidCollisions ss b cb outer))
  | "findpos", [ss, b, cb] => do
    let ss ← shapes? ss
    let b ← abox? b
    let cb ← cb? cb
    pure (showErr (fun p => showRat p.1 ++ " " ++ showRat p.2) (findFloatPosition ss b cb))
  | "clearance", [ss, c, py, cm] => do
    let ss ← shapes? ss
    let c ← clear? c
    let py ← py.rat?
    let cm ← cm.rat?
    pure (match getClearance ss c py cm with
      | none => "none"
      | some q => showRat q)
  | "floatplace", [ss, b, cb] => do
    let ss ← shapes? ss
    let b ← abox? b
    let cb ← cb? cb
    pure (showErr (fun r => showRat r.1.px ++ " " ++ showRat r.1.py ++ " (" ++
      " ".intercalate (r.2.map showShape) ++ ")") (floatPlace ss b cb))
  | "avoidinfo", [ss, b, cb, outer] => do
    pure (avoidBranch (← shapes? ss) (← abox? b) (← cb? cb) (← outer.bool?))
  | "checkbfc", [.list evs] => do
    let evs ← allSome event? evs
    pure (match checkEvents [] 0 evs with
      | none => "ok"
      | some i => "fail " ++ toString i)
  | "floatwidth", [w, mn, mx, mc, xc, cbw, .list sp] => do
    -- `float_width(box, context, containing_block)`: `sp` = margin-left/right, padding-left/right, border-left/right
    let mx ← (match mx with | .atom "inf" => some none | x => x.rat?.map some)
    let sp ← allSome Sx.rat? sp
    pure (showRat (floatWidth (← w.len?) (← mn.rat?) mx (← mc.rat?) (← xc.rat?) ((← cbw.rat?) - sp.foldl (· + ·) 0)))
  | "flow", [cb, y0, .list items] => do
    let cb ← cb? cb
    let y0 ← y0.rat?
    let items ← allSome item? items
    pure (showErr (fun out => " ".intercalate (out.map showPlaced)) (flow cb [] y0 items))
  | _, _ => none

end Wp.Drive.Floats
