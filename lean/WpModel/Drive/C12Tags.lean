/-
Branch tags for the C12 correspondence: which branches of the flex / grid models a given input goes
through.  Instrumentation only (re-runs pieces of the models and names the branch taken); the
harness asks for the tags of every generated case and reports the histogram and the branches that no
case of a run reached.
  flextags <container> (<item> …)   → tag tag …
  gridtags <container> (<item> …)   → tag tag …
-/
import WpModel.Model.Wire
import WpModel.Model.Flex
import WpModel.Model.Grid
import WpModel.Drive.Flex
import WpModel.Drive.Grid

namespace Wp.Drive.C12Tags
open Wp

def dedup (l : List String) : List String :=
  l.foldl (fun acc t => if acc.contains t then acc else acc ++ [t]) []

section FlexTags
open Wp.Flex

/-- tags of one pass of 9.7.5 -/
def passTags (row grow : Bool) (avail gap : Rat) (line : List St) (f : Rat) : List String :=
  let ufs := unfrozenFactorSum line
  let r := remainingFree avail gap line f
  let t1 := if ufs < 1 then "9.7.5b:factor-sum<1" else "9.7.5b:factor-sum>=1"
  let t2 := if magLt (magnitude r.1) (magnitude (freeSpace avail gap line)) then "9.7.5b:magnitude-replaced"
            else "9.7.5b:magnitude-kept"
  let t3 := if r.2 == 0 then "9.7.5c:remaining=0"
            else if grow then (if growSum line == 0 then "9.7.5c:zero-division" else "9.7.5c:grow")
            else if scaledShrinkSum line == 0 then "9.7.5c:shrink-sum=0" else "9.7.5c:shrink"
  let t4 :=
    match distribute grow r.2 line with
    | .error _ => []
    | .ok l =>
      let l2 := l.map (fixMinMax row)
      let total := sumBy St.adj l2
      [if l2.any (fun s => s.adj > 0) then "9.7.5d:min-violation" else "9.7.5d:no-min-violation",
       if l2.any (fun s => s.adj < 0) then "9.7.5d:max-violation" else "9.7.5d:no-max-violation",
       if total == 0 then "9.7.5e:freeze-all" else if total > 0 then "9.7.5e:freeze-min" else "9.7.5e:freeze-max"]
  [t1, t2, t3] ++ t4

def loopTags (row grow : Bool) (avail gap : Rat) : Nat → Nat → List St → Rat → List String
  | fuel, n, line, f =>
    if allFrozen line then ["9.7:passes=" ++ toString (min n 3) ++ (if n > 3 then "+" else "")]
    else match fuel with
      | 0 => ["9.7:fuel"]
      | fuel + 1 =>
        passTags row grow avail gap line f ++
          match pass row grow avail gap line f with
          | .error _ => []
          | .ok (l, f') => loopTags row grow avail gap fuel (n + 1) l f'

def lineTags (row : Bool) (avail gap : Rat) (line : List St) : List String :=
  let grow := decide (lineHypSum gap line < avail)
  let l0 := line.map (sizeInflexible grow)
  [if grow then "9.7.1:grow" else "9.7.1:shrink",
   if l0.any (·.frozen) then "9.7.3:some-frozen" else "9.7.3:none-frozen"] ++
    loopTags row grow avail gap line.length 0 l0 (freeSpace avail gap l0)

def flexTags (c : Container) (items : List Item) : List String :=
  let children := step3 c.row (sortByOrder items) 0 0
  let mainSize := mainSizeOf c children
  let lines0 := flexLines c children mainSize
  let t0 : List String :=
    [(if c.row then "dir:row" else "dir:column") ++ (if c.reverse then "-reverse" else ""),
     match c.wrap with | .nowrap => "wrap:nowrap" | .wrap => "wrap:wrap" | .wrapReverse => "wrap:wrap-reverse",
     "5:lines=" ++ toString (min lines0.length 3) ++ (if lines0.length > 3 then "+" else ""),
     if children.any (fun s => (usedBasis c.row s.it).isNone) then "3:content-basis" else "3:definite-basis",
     if (!c.row && c.height.isNone) then "4:column-auto-height" else "4:definite-main"] ++
    (if lines0.any (fun l => l.length == 1 && (match l with | [s] => s.outerHyp > mainSize | _ => false))
      then ["5:single-overflowing-item"] else [])
  let t6 := (lines0.map (lineTags c.row mainSize c.mainGap)).flatten
  match mapExcept (resolveLine c.row mainSize c.mainGap) lines0 with
  | .error _ => dedup (t0 ++ t6 ++ ["result:error"])
  | .ok lines =>
    let lines7 := lines.map (List.map (step7 c.row))
    let lc := lineCrosses c lines7
    let ls := stretchLines c lc
    let t9 : List String :=
      [match lines7, crossDefinite c with
        | [_], some _ => "8:single-line-definite-cross"
        | _, _ => "8:cross-from-items",
       if c.alignContent == .normal || c.alignContent == .stretch then
         (match crossDefinite c with
          | some d => if d - crossSum c.crossGap lc != 0 then "9:stretch-lines" else "9:no-extra"
          | none => "9:indefinite-cross")
       else "9:not-stretch"]
    let l11 := ls.map fun l => { l with items := l.items.map (step11 c.row c.alignItems l.cross) }
    let t11 := if (List.zip ls l11).any (fun (a, b) => (List.zip a.items b.items).any fun (s, s') =>
        s.width != s'.width || s.height != s'.height) then ["11:stretched-item"] else ["11:no-stretch"]
    let growths := sumBy (fun s => s.it.grow) children
    let j := effectiveJustify c.reverse c.justify
    let t12 := (l11.map fun l =>
      let free := lineFree c.row mainSize c.mainGap l.items
      let autos := countAutoMain c.row l.items
      [if autos != 0 then (if free < 0 then "12:auto-margins-overflow" else "12:auto-margins")
       else if free < 0 then "12:free<0" else if free == 0 then "12:free=0" else "12:free>0",
       if j == .stretch && growths != 0 then "12:stretch-quirk" else "12:justify"]).flatten
    let l12 := l11.map fun l => { l with items := step12 c mainSize growths l.items }
    let t13 := (l12.map fun l => l.items.map fun s =>
      let autos := if c.row then s.mt.isNone || s.mb.isNone else s.ml.isNone || s.mr.isNone
      if autos then (if l.cross - s.outerCross c.row > 0 then "13:auto-cross-margins" else "13:auto-cross-margins-no-room")
      else
        let a := resolveAlign c.alignItems s.it.alignSelf
        if isEndAlign a then "14:end" else if a == .center then "14:center"
        else if a == .stretch then "14:stretch" else "14:start").flatten
    let l13 := step13Lines c.row c.alignItems l12 0
    let boxCross : Rat := match crossDefinite c with | some d => d | none => crossSum c.crossGap l13
    let extra := boxCross - crossSum c.crossGap l13
    let t16 := if l13.length > 1 then
        [if extra == 0 then "16:no-extra"
         else match alignContentShift c.alignContent extra l13.length with
           | some _ => "16:shift"
           | none => if alignContentStep c.alignContent extra l13.length != 0 then "16:space-between" else "16:start"]
      else ["16:single-line"]
    let tfin := if ((alignLines c l13).1.any fun l => l.items.any fun s =>
        (finalRect s).w != lenOr0 s.width + s.it.pl + s.it.pr + s.it.bl + s.it.br ||
        (finalRect s).h != lenOr0 s.height + s.it.pt + s.it.pb + s.it.bt + s.it.bb)
      then ["final:min/max-reclamp"] else ["final:as-computed"]
    dedup (t0 ++ t6 ++ t9 ++ t11 ++ t12 ++ t13 ++ t16 ++ tfin ++ ["result:ok"])

end FlexTags

section GridTags
open Wp.Grid

def errTag (e : GErr) : String :=
  match e with
  | .unboundLocal s => "err:UnboundLocalError@" ++ s
  | .typeError s => "err:TypeError@" ++ s
  | .indexError s => "err:IndexError@" ++ s
  | .zeroDivision s => "err:ZeroDivisionError@" ++ s
  | .nonTermination s => "err:NonTermination@" ++ s

def noSpaces (s : String) : String := String.ofList (s.toList.map fun ch => if ch == ' ' then '_' else ch)

def placeKind : Place → String
  | .auto => "auto"
  | .mk true _ none => "span"
  | .mk true _ (some _) => "span-name"
  | .mk false (some n) none => if n < 0 then "negative" else "line"
  | .mk false (some _) (some _) => "nth-name"
  | .mk false none _ => "name"

/-- tags of the track sizing of one axis -/
def trackTags (axis : String) (fns : List (Breadth × Breadth)) (boxSize : Option Rat) (cs : List Contribution)
    (start : Int) (dirX : Bool) (gap : Rat) (stretch : Bool) : List String :=
  let pbox : Rat := match boxSize with | some b => b | none => 0
  match prepareTracks fns pbox cs start dirX with
  | .error e => [axis ++ ":" ++ noSpaces (errTag e)]
  | .ok tracks =>
    let free0 := boxSize.map fun b => tracksFree b gap tracks
    let t1 := match free0 with
      | none => "1.3:indefinite"
      | some f => if f > 0 then "1.3:maximize" else "1.3:no-free-space"
    let kinds := dedup (fns.map fun f => match f.2 with
      | .px _ => "track:px" | .pct _ => "track:%" | .fr _ => "track:fr" | .auto => "track:auto"
      | .minContent => "track:min-content" | .maxContent => "track:max-content")
    let tmm := if fns.any (fun f => f.1 != f.2 && !(isFr f.2)) then ["track:minmax"] else []
    let titems := if (cs.filter (·.size == 1)).isEmpty then [] else ["1.2.2:non-spanning-items"]
    let tspan := if cs.any (·.size ≥ 2) then ["1.2.3:spanning-items"] else []
    match maximizeStep tracks free0 with
    | .error e => [axis ++ ":" ++ noSpaces (errTag e)]
    | .ok r =>
      let z : List TF := List.zip r.1 fns
      let t4 := match r.2 with
        | none => ["1.4:indefinite"]
        | some f =>
          if f ≤ 0 then ["1.4:no-free-space"]
          else
            let p := frPass z [] f
            [if p.2.1.isEmpty then "1.4:all-flexible" else "1.4:inflexible-track",
             if frFactorSum [] z 0 < 1 then "1.4:factor-sum<1" else "1.4:factor-sum>=1",
             if p.2.2.2 then "1.4:one-pass" else "1.4:several-passes"]
      let t5 := match flexStep z r.2 with
        | .error e => [noSpaces (errTag e)]
        | .ok fl =>
          let ex := frExpand fl.1 fl.2.1 z 0 fl.2.2
          match ex.2 with
          | some f => if stretch && f > 0 && fns.any (fun fn => fn.1 == .auto) then ["1.5:stretch-auto-tracks"] else ["1.5:nothing"]
          | none => ["1.5:indefinite"]
      ([t1] ++ kinds ++ tmm ++ titems ++ tspan ++ t4 ++ t5).map fun t => axis ++ ":" ++ t

def alignTag : ContentAlign → String
  | .center => "center" | .endLike => "end" | .spaceAround => "space-around" | .spaceBetween => "space-between"
  | .spaceEvenly => "space-evenly" | .normal => "normal" | .stretch => "stretch" | .other => "start"

def selfTag : SelfAlign → String
  | .auto => "auto" | .normal => "normal" | .stretch => "stretch" | .center => "center" | .endLike => "end"
  | .right => "right" | .other => "start"

def gridTags (c : GContainer) (items : List GItem) : List String :=
  let t0 : List String :=
    [(if c.flowColumn then "flow:column" else "flow:row") ++ (if c.dense then "-dense" else ""),
     if c.areas.isSome then "areas:yes" else "areas:none",
     if c.templateCols.isNone then "template-columns:none" else "template-columns:list",
     if c.templateRows.isNone then "template-rows:none" else "template-rows:list",
     if c.height.isNone then "height:auto" else "height:definite",
     "3.5:justify-content:" ++ alignTag c.justifyContent, "3.5:align-content:" ++ alignTag c.alignContent] ++
    (if (c.templateCols.getD []).any (fun e => match e with | .rep _ _ => true | _ => false) ||
        (c.templateRows.getD []).any (fun e => match e with | .rep _ _ => true | _ => false)
      then ["template:repeat"] else [])
  let tplace := (items.map fun it =>
    let (fs, fe) := itemFirst c.flowColumn it
    let (ss, se) := itemSecond c.flowColumn it
    let first := !(isAutoOrSpan fs && isAutoOrSpan fe)
    let second := !(isAutoOrSpan ss && isAutoOrSpan se)
    [if first && second then "1.1:both-axes-given"
     else if first then (if c.dense then "1.2:locked-dense" else "1.2:locked-sparse")
     else if second then (if c.dense then "1.4:second-given-dense" else "1.4:second-given-sparse")
     else (if c.dense then "1.4:free-dense" else "1.4:free-sparse"),
     "place:" ++ placeKind it.rowStart, "place:" ++ placeKind it.rowEnd, "place:" ++ placeKind it.colStart,
     "place:" ++ placeKind it.colEnd]).flatten
  match explicitGrid c with
  | .error e => dedup (t0 ++ tplace ++ [noSpaces (errTag e), "result:error"])
  | .ok ex =>
    match place c ex.rows ex.cols ex.nRowsAreas ex.nColsAreas items with
    | .error e => dedup (t0 ++ tplace ++ [noSpaces (errTag e), "result:error"])
    | .ok pl =>
      let timp : List String :=
        [if pl.implicitX1 < 0 || pl.implicitY1 < 0 then "1.3:implicit-tracks-before" else "1.3:no-track-before",
         if pl.implicitX2 > ex.nColsAreas || pl.implicitY2 > ex.nRowsAreas then "1.3:implicit-tracks-after"
         else "1.3:explicit-grid-only",
         if pl.positions.any (fun p => p.2.2.1 < 0) then "4:negative-row-dropped" else "4:all-rows-laid-out",
         if pl.positions.any (fun p => p.2.1 < 0) then "4:negative-column-index" else "4:columns>=0",
         if pl.positions.any (fun p => p.2.2.2.1 ≥ 2 || p.2.2.2.2 ≥ 2) then "4:spanning-area" else "4:single-cells"]
      match addImplicitTracks ex.cols c.autoCols ex.autoColsUsed (0 - pl.implicitX1).toNat (pl.implicitX2 - ex.nColsAreas).toNat,
            addImplicitTracks ex.rows c.autoRows ex.autoRowsUsed (0 - pl.implicitY1).toNat (pl.implicitY2 - ex.nRowsAreas).toNat with
      | .ok cols, .ok rows =>
        let colFns := (trackSizes cols).map getSizingFunctions
        let rowFns := (trackSizes rows).map getSizingFunctions
        let tc := trackTags "cols" colFns (some c.width) (contributions pl.positions items true) pl.implicitX1
          true c.colGap (isStretchContent c.justifyContent)
        let tr := match resolveTracks colFns (some c.width) (contributions pl.positions items true) pl.implicitX1
            true c.colGap (isStretchContent c.justifyContent) with
          | .error _ => []
          | .ok _ => trackTags "rows" rowFns c.height (contributions pl.positions items false) pl.implicitY1
              false c.rowGap (isStretchContent c.alignContent)
        let titem := (items.map fun it =>
          let js := resolveSelf c.justifyItems it.justifySelf
          let as := resolveSelf c.alignItems it.alignSelf
          ["4:justify-self:" ++ (if isStretch js then (if it.sWidth.isNone then "stretch" else "stretch-fixed-width") else selfTag js),
           "4:align-self:" ++ (if isStretch as then (if it.sHeight.isNone then "stretch" else "stretch-fixed-height") else selfTag as)] ++
          (if it.ml.isNone || it.mr.isNone then ["4:auto-inline-margin"] else [])).flatten
        let tres := match layout c items with
          | .error e => [noSpaces (errTag e), "result:error"]
          | .ok _ => ["result:ok"]
        dedup (t0 ++ tplace ++ timp ++ tc ++ tr ++ titem ++ tres)
      | _, _ => dedup (t0 ++ tplace ++ timp ++ ["result:error"])

end GridTags

def handle (cmd : String) (args : List Sx) : Option String :=
  match cmd, args with
  | "flextags", [c, .list items] => do
    let c ← Drive.Flex.container? c
    let items ← allSome Drive.Flex.item? items
    pure (" ".intercalate (flexTags c items))
  | "gridtags", [c, .list items] => do
    let c ← Drive.Grid.container? c
    let items ← allSome Drive.Grid.item? items
    pure (" ".intercalate (gridTags c items))
  | _, _ => none

end Wp.Drive.C12Tags
