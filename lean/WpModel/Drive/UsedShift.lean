/-
Line protocol of `Model/UsedShift.lean`:
  `shifted eps dx dy <utree> <utree>` → `ok` | `bad moved <preorder index>` | `bad shape`
-/
import WpModel.Model.UsedShift
import WpModel.Drive.UsedCheck

namespace Wp.Drive.UsedShift
open Wp Wp.UsedCheck Wp.UsedShift Wp.Drive.UsedCheck

def handle (cmd : String) (args : List Sx) : Option String :=
  match cmd, args with
  | "shifted", [eps, dx, dy, a, b] => do
    let a ← utree? a
    let b ← utree? b
    pure (match firstUnmoved (← eps.rat?) (← dx.rat?) (← dy.rat?) a b with
      | none => "ok"
      | some s => "bad " ++ s)
  | _, _ => none

end Wp.Drive.UsedShift
