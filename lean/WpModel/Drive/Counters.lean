/-
Line protocol for the counter-style model (`Model/Counters.lean`).

Strings travel as atoms `x<cp>.<cp>…` (decimal code points, `x` alone is the empty string), so that
symbols may contain spaces, parentheses and any Unicode scalar value.

  sym    ::= x… | url
  name   ::= (n x…) | (s x…) | (y x<system> x… …)            identifier / ('string', s) / symbols()
  desc   ::= (sys neg pfx sfx range pad fallback symbols additive)
    sys      ::= none | (e|n x<name> <int>|none)
    neg      ::= none | (sym sym)
    range    ::= none | auto | (entry …)        entry ::= auto | (bound bound)     bound ::= -inf | inf | <int>
    pad      ::= none | (<nat> sym)
    fallback ::= none | x…
    symbols  ::= none | (sym …)
    additive ::= none | ((<nat> sym) …)
  table  ::= ((x<name> desc) …)
  base   ::= ua | empty                          lookups try the given table first, then the base

  rv <base> <table> <int> <name>          → ok x… | err:<Class>          render_value
  rvb <base> <table> <int> <name>         → the exit the top-level call takes (evidence histogram only)
  rm <base> <table> <int> <name>          → ok x… | err:<Class>          render_marker
  rc <base> <table> <name> <prev>         → resolved dict and previous_types after resolve_counter
                                            (<prev> ::= none | (name …))
-/
import WpModel.Model.Wire
import WpModel.Model.Counters
import WpModel.Gen.CounterStyles

namespace Wp.Drive.Counters
open Wp Wp.Counters

def decodeStr (a : String) : Option String :=
  match a.toList with
  | 'x' :: rest =>
    if rest.isEmpty then some ""
    else
      let parts := (String.ofList rest).splitOn "."
      (allSome (fun p => p.toNat?.map Char.ofNat) parts).map String.ofList
  | _ => none

def encodeStr (s : String) : String :=
  "x" ++ ".".intercalate (s.toList.map fun c => toString c.toNat)

def str? (x : Sx) : Option String := x.atom?.bind decodeStr

def sym? : Sx → Option Sym
  | .atom "url" => some .url
  | x => (str? x).map .str

def optOf {α} (f : Sx → Option α) : Sx → Option (Option α)
  | .atom "none" => some none
  | x => (f x).map some

def cname? : Sx → Option CName
  | .list [.atom "n", s] => (str? s).map .named
  | .list [.atom "s", s] => (str? s).map .str
  | .list (.atom "y" :: sys :: args) => do
    let sys ← str? sys
    let args ← allSome str? args
    pure (.symbols sys args)
  | _ => none

def sys? : Sx → Option Sys
  | .list [.atom e, n, f] => do
    let ext ← (if e = "e" then some true else if e = "n" then some false else none)
    let n ← str? n
    let f ← optOf Sx.int? f
    pure ⟨ext, n, f⟩
  | _ => none

def bound? : Sx → Option Bound
  | .atom "-inf" => some .negInf
  | .atom "inf" => some .posInf
  | x => x.int?.map .fin

def rangeEntry? : Sx → Option RangeEntry
  | .atom "auto" => some .autoKw
  | .list [lo, hi] => do pure (.pair (← bound? lo) (← bound? hi))
  | _ => none

def range? : Sx → Option RangeDesc
  | .atom "auto" => some .auto
  | .list l => (allSome rangeEntry? l).map .entries
  | _ => none

def padT? : Sx → Option (Nat × Sym)
  | .list [n, s] => do pure (← n.nat?, ← sym? s)
  | _ => none

def neg? : Sx → Option (Sym × Sym)
  | .list [a, b] => do pure (← sym? a, ← sym? b)
  | _ => none

def listOf {α} (f : Sx → Option α) : Sx → Option (List α)
  | .list l => allSome f l
  | _ => none

def desc? : Sx → Option Desc
  | .list [sys, neg, pfx, sfx, range, pad, fb, syms, add] => do
    pure { system := ← optOf sys? sys, negative := ← optOf neg? neg, pfx := ← optOf sym? pfx,
           sfx := ← optOf sym? sfx, range := ← optOf range? range, pad := ← optOf padT? pad,
           fallback := ← optOf str? fb, symbols := ← optOf (listOf sym?) syms,
           additive := ← optOf (listOf padT?) add }
  | _ => none

def table? : Sx → Option Styles :=
  listOf fun
    | .list [n, d] => do pure (← str? n, ← desc? d)
    | _ => none

def styles? (base table : Sx) : Option Styles := do
  let t ← table? table
  match base with
  | .atom "ua" => pure (t ++ Gen.uaCounterStyles)
  | .atom "empty" => pure t
  | _ => none

def showOut : Except CErr String → String
  | .ok s => "ok " ++ encodeStr s
  | .error e => e.render

/- Canonical printing of a resolved dict (same shape as the input grammar). -/
def sxSym : Sym → Sx
  | .str s => .atom (encodeStr s)
  | .url => .atom "url"

def sxOpt {α} (f : α → Sx) : Option α → Sx
  | none => .atom "none"
  | some a => f a

def sxBound : Bound → Sx
  | .negInf => .atom "-inf"
  | .posInf => .atom "inf"
  | .fin i => sxInt i

def sxDesc (d : Desc) : Sx :=
  .list [
    sxOpt (fun s : Sys => .list [.atom (if s.ext then "e" else "n"), .atom (encodeStr s.name), sxOpt sxInt s.fixed]) d.system,
    sxOpt (fun p : Sym × Sym => .list [sxSym p.1, sxSym p.2]) d.negative,
    sxOpt sxSym d.pfx, sxOpt sxSym d.sfx,
    sxOpt (fun r : RangeDesc => match r with
      | .auto => .atom "auto"
      | .entries l => .list (l.map fun
        | .autoKw => .atom "auto"
        | .pair lo hi => .list [sxBound lo, sxBound hi])) d.range,
    sxOpt (fun p : Nat × Sym => .list [sxNat p.1, sxSym p.2]) d.pad,
    sxOpt (fun s : String => .atom (encodeStr s)) d.fallback,
    sxOpt (fun l : List Sym => .list (l.map sxSym)) d.symbols,
    sxOpt (fun l : List (Nat × Sym) => .list (l.map fun p => .list [sxNat p.1, sxSym p.2])) d.additive]

def sxCName : CName → Sx
  | .named s => .list [.atom "n", .atom (encodeStr s)]
  | .str s => .list [.atom "s", .atom (encodeStr s)]
  | .symbols sys args => .list (.atom "y" :: .atom (encodeStr sys) :: args.map fun a => .atom (encodeStr a))

def handle (cmd : String) (args : List Sx) : Option String :=
  match cmd, args with
  | "rv", [base, table, v, name] => do
    let cs ← styles? base table
    let v ← v.int?
    let name ← cname? name
    pure (showOut (renderValueTop cs v name))
  | "rvb", [base, table, v, name] => do
    let cs ← styles? base table
    let v ← v.int?
    let name ← cname? name
    pure (topBranch cs v name)
  | "rm", [base, table, v, name] => do
    let cs ← styles? base table
    let v ← v.int?
    let name ← cname? name
    pure (showOut (renderMarker cs name v))
  | "rc", [base, table, name, prev] => do
    let cs ← styles? base table
    let name ← cname? name
    let prev ← optOf (listOf cname?) prev
    match resolveCounter cs name prev with
    | .error e => pure e.render
    | .ok (c, p) =>
      pure ((sxOpt sxDesc c).render ++ " " ++ (sxOpt (fun l : List CName => .list (l.map sxCName)) p).render)
  | _, _ => none

end Wp.Drive.Counters
