/-
Line-protocol front end of `Model/Resources.lean` (C20).  Strings travel as atoms `'<text>` where every
character outside `[A-Za-z0-9./:_+*=?#&,!@-]` is written `~hh` (two hex digits); `none` is Python `None`.
-/
import WpModel.Model.Wire
import WpModel.Model.Resources
import WpModel.Model.ResourcesDoc

namespace Wp.Drive.Resources
open Wp Wp.Res

/-! ### strings -/

def hexVal (c : Char) : Option Nat :=
  if '0' ≤ c && c ≤ '9' then some (c.toNat - '0'.toNat)
  else if 'a' ≤ c && c ≤ 'f' then some (c.toNat - 'a'.toNat + 10)
  else none

def decodeChars : List Char → Option (List Char)
  | [] => some []
  | '~' :: a :: b :: rest => do
    let x ← hexVal a
    let y ← hexVal b
    let tail ← decodeChars rest
    pure (Char.ofNat (x * 16 + y) :: tail)
  | '~' :: _ => none
  | c :: rest => (decodeChars rest).map (c :: ·)

def plainChar (c : Char) : Bool :=
  isAlpha c || isDigit c || c == '.' || c == '/' || c == ':' || c == '_' || c == '+' || c == '*' ||
  c == '=' || c == '?' || c == '#' || c == '&' || c == ',' || c == '!' || c == '@' || c == '-'

def hexDigit (n : Nat) : Char := if n < 10 then Char.ofNat ('0'.toNat + n) else Char.ofNat ('a'.toNat + n - 10)

def enc (s : String) : String :=
  "'" ++ String.ofList (s.toList.flatMap (fun c =>
    if plainChar c then [c] else ['~', hexDigit (c.toNat / 16 % 16), hexDigit (c.toNat % 16)]))

def str? : Sx → Option String
  | .atom a => match a.toList with
    | '\'' :: rest => (decodeChars rest).map String.ofList
    | _ => none
  | _ => none

/-- `none` or a string. -/
def ostr? : Sx → Option (Option String)
  | .atom "none" => some none
  | x => (str? x).map some

def encO : Option String → String
  | none => "none"
  | some s => enc s

/-! ### parsers -/

def exc? : Sx → Option Exc
  | .list [c, m] => do pure ⟨← str? c, ← str? m⟩
  | _ => none

def oexc? : Sx → Option (Option Exc)
  | .atom "none" => some none
  | x => (exc? x).map some

def pil? : Sx → Option (Option Pil)
  | .atom "none" => some none
  | .list [f, m, e, t] => do pure (some ⟨← str? f, ← str? m, ← e.bool?, ← t.bool?⟩)
  | _ => none

def content? : Sx → Option Content
  | .list [i, x, p, w, wo, fo] => do
    pure ⟨← i.nat?, ← x.bool?, ← pil? p, ← w.bool?, ← wo.bool?, ← fo.bool?⟩
  | _ => none

def fileObj? : Sx → Option (Option FileObj)
  | .atom "none" => some none
  | .list [.atom "fo", r, c] => do pure (some ⟨← oexc? r, ← c.bool?⟩)
  | _ => none

def fetched? : Sx → Option Fetched
  | .atom "notdict" => some .notDict
  | .list [.atom "raises", c, m] => do pure (.raises ⟨← str? c, ← str? m⟩)
  | .list [.atom "resp", s, fo, mime, red, c] => do
    pure (.resp ⟨← s.bool?, ← fileObj? fo, ← ostr? mime, ← ostr? red, ← content? c⟩)
  | _ => none

/-- `((url fetched) …)`; unknown URLs raise `LookupError('unknown')` (as the harness fetcher does). -/
def fetcher? (x : Sx) : Option Fetcher := do
  let entries ← x.list?
  let table ← allSome (fun e => match e with
    | .list [u, f] => do pure (← str? u, ← fetched? f)
    | _ => none) entries
  pure (fun url => (table.lookup url).getD (.raises ⟨"LookupError", "unknown"⟩))

def orient? : Sx → Option Orient
  | .atom "from-image" => some .fromImage
  | .atom "none" => some .keep
  | .list [a, f] => do pure (.explicit (← a.nat?) (← f.bool?))
  | _ => none

def opts? : Sx → Option Opts
  | .list [o, q] => do pure ⟨← o.bool?, ← q.bool?⟩
  | _ => none

def req? : Sx → Option Req
  | .list [u, o, m] => do pure ⟨← str? u, ← orient? o, ← ostr? m⟩
  | _ => none

def fontSrc? : Sx → Option FontSrc
  | .atom "internal" => some .internal
  | .list [.atom "ext", u] => do pure (.external (← ostr? u))
  | .list [.atom "local", n, f, m, u] => do pure (.«local» (← str? n) (← f.bool?) (← m.bool?) (← str? u))
  | _ => none

def face? : Sx → Option FontFace
  | .list [k, .list srcs] => do pure ⟨← k.nat?, ← allSome fontSrc? srcs⟩
  | _ => none

def media? : Sx → Option (Option (List String))
  | .atom "none" => some none
  | .list ms => (allSome str? ms).map some
  | _ => none

mutual
  partial def item? : Sx → Option CssItem
    | .atom "other" => some .other
    | .list [.atom "rule", i] => do pure (.rule (← i.nat?))
    | .list [.atom "import", u, m, s] => do pure (.importRule (← ostr? u) (← media? m) (← sheet? s))
    | .list [.atom "media", m, .list items] => do pure (.mediaRule (← media? m) (← allSome item? items))
    | .list [.atom "fontface", c, f] => do pure (.fontFace (← c.bool?) (← face? f))
    | _ => none
  partial def sheet? : Sx → Option Sheet
    | .list [.atom "sheet", f, .list items] => do pure (.mk (← fetched? f) (← allSome item? items))
    | _ => none
end

def styleEl? : Sx → Option StyleEl
  | .list [.atom "el", l, t, m, r, h, j, .list items, s] => do
    pure ⟨← l.bool?, ← ostr? t, ← ostr? m, ← ostr? r, ← ostr? h, ← ostr? j, ← allSome item? items, ← sheet? s⟩
  | _ => none

/-! ### printers -/

def showEv : Ev → String
  | .call u => "call=" ++ enc u
  | .body => "body"
  | .close => "close"
  | .closeWarn => "closewarn"

def showEvs (evs : List Ev) : String := "[" ++ ",".intercalate (evs.map showEv) ++ "]"

/-- Events as a recording fetcher sees them (the entry of the `with` body is not observable there). -/
def showLog (evs : List Ev) : String := showEvs (evs.filter (· != .body))

def showExcFull (e : Exc) : String := "err:" ++ e.cls ++ ":" ++ enc e.msg
def showExc (e : Exc) : String := "err:" ++ e.cls

def showSrc : Src → String
  | .lazyLocal p => "local=" ++ enc p
  | .memOriginal => "mem"
  | .memReencoded => "reenc"

def showImg : Option Img → String
  | none => "none"
  | some (.svg c) => "svg:" ++ toString c
  | some (.raster f s c) => "raster:" ++ f ++ ":" ++ showSrc s ++ ":" ++ toString c

def showImgOut : Except Exc (Option Img) → String
  | .ok i => showImg i
  | .error e => showExc e

def showBox : BoxOut → String
  | .replaced => "replaced"
  | .altText s => "alt=" ++ enc s
  | .fallback => "fallback"

def showBoxes (bs : List BoxOut) : String := "[" ++ ",".intercalate (bs.map showBox) ++ "]"

def showNats (ns : List Nat) : String := "[" ++ ",".intercalate (ns.map toString) ++ "]"

def showOut (o : Out) : String :=
  "rules=" ++ (if o.err.isSome then "*" else showNats o.rules) ++ " fonts=" ++ showNats (o.fonts.map (·.key)) ++ " log=" ++ showLog o.log ++
  " " ++ (match o.err with | none => "ok" | some e => showExc e)

def showFontOut (o : FontOut) : String :=
  "log=" ++ showLog o.log ++ " installed=" ++
  (match o.installed with | none => "none" | some c => toString c) ++
  " written=" ++ showNats o.written ++ " warned=" ++ toString o.warned ++ " " ++
  (match o.err with | none => "ok" | some e => showExc e)

def showEmbedded : Except Exc Embedded → String
  | .ok (.fetched c) => "fetched:" ++ toString c
  | .ok (.reencodedFrom c) => "reencoded:" ++ toString c
  | .ok (.fileBytes c) => "file:" ++ toString c
  | .error e => showExc e

def showONat : Option Nat → String
  | none => "none"
  | some n => toString n

/-! ### document level -/

def imgRef? : Sx → Option Doc.ImgRef
  | .list [k, u, a, o, m] => do
    let kind ← match k with
      | .atom "img" => some Doc.ImgKind.img
      | .atom "embed" => some .embed
      | .atom "object" => some .object
      | .atom "background" => some .background
      | .atom "liststyle" => some .listStyle
      | .atom "content" => some .content
      | _ => none
    pure ⟨kind, ← ostr? u, ← ostr? a, ← orient? o, ← ostr? m⟩
  | _ => none

def fsEntry? : Sx → Option (String × Nat)
  | .list [p, c] => do pure (← str? p, ← c.nat?)
  | _ => none

def doc? : Sx → Option Doc.Document
  | .list [.atom "doc", dev, .list els, .list imgs, .list metas, .list annots, fetcher, opts, .list fs] => do
    let table ← allSome fsEntry? fs
    pure { device := ← str? dev, styles := ← allSome styleEl? els, images := ← allSome imgRef? imgs,
           metaAttachments := ← allSome str? metas, annotAttachments := ← allSome str? annots,
           fetcher := ← fetcher? fetcher, opts := ← opts? opts, fs := fun p => table.lookup p }
  | _ => none

def showStage : Except Exc Unit → String
  | .ok _ => "ok"
  | .error e => showExc e

def sortNats (ns : List Nat) : List Nat := (ns.mergeSort (fun a b => decide (a ≤ b))).eraseDups

def showDocOut (o : Doc.DocOut) : String :=
  let writeOk := match o.write with | .ok _ => true | .error _ => false
  "css=" ++ showLog o.cssLog ++ " rules=" ++ (match o.render with | .ok _ => showNats (sortNats o.rules) | .error _ => "[]") ++
  " fonts=" ++ showLog o.fontLog ++ " installed=" ++ toString (o.fontInstalled.filter Option.isSome).length ++
  " img=" ++ showLog o.imageLog ++ " boxes=" ++ "[" ++ (match o.render with
    | .ok _ => ",".intercalate (o.boxes.map showBoxes)
    | .error _ => "") ++ "]" ++
  " render=" ++ showStage o.render ++
  " att=" ++ showLog o.attachLog ++
  " embedded=" ++ (if writeOk then showNats o.embedded else "[]") ++
  " annots=[" ++ (if writeOk then ",".intercalate (o.annots.filterMap (fun a => a.map toString)) else "") ++ "]" ++
  " opens=" ++ (match o.write with
    | .error ⟨"FileNotFoundError", _⟩ => "-"
    | _ => "[" ++ ",".intercalate ((o.opens.mergeSort (fun a b => decide (a ≤ b))).map enc) ++ "]") ++
  " write=" ++ showStage o.write ++ " absent=" ++ (if writeOk then "eq" else "-")

/-! ### commands -/

def handle (cmd : String) (args : List Sx) : Option String :=
  match cmd, args with
  -- `fetch <fetched> <url> <body: ok | (cls msg)>`
  | "fetch", [f, u, b] => do
    let f ← fetched? f
    let u ← str? u
    let b ← oexc? (match b with | .atom "ok" => .atom "none" | x => x)
    let (evs, out) := fetch f u (fun r => match b with
      | none => Except.ok (r.redirected, r.mime)
      | some e => Except.error e)
    pure (showEvs evs ++ " " ++ match out with
      | .ok (red, mime) => "ok red=" ++ encO red ++ " mime=" ++ encO mime
      | .error e => showExcFull e)
  -- `images <opts> <fetcher> (<req> …)`
  | "images", [o, f, .list reqs] => do
    let opts ← opts? o
    let fetcher ← fetcher? f
    let reqs ← allSome req? reqs
    let (outs, cache) := runImages fetcher opts [] reqs
    pure (";".intercalate (outs.map (fun (evs, out) => showLog evs ++ showImgOut out)) ++
      " cache=[" ++ ",".intercalate (cache.reverse.map (fun (k, v) => enc k ++ "=" ++ showImg v)) ++ "]")
  -- `raster <pil> <orient> <filename> <opts>`
  | "raster", [p, o, fn, opts] => do
    let p ← (← pil? p)
    let (fmt, src) := rasterInit p (← orient? o) (← ostr? fn) (← opts? opts)
    pure (fmt ++ " " ++ showSrc src)
  -- `atwrite <img src kind> <fs content | none>`
  | "atwrite", [src, fn, fsv] => do
    let fn ← str? fn
    let src ← match src with
      | .atom "local" => some (Src.lazyLocal fn)
      | .atom "mem" => some .memOriginal
      | .atom "reenc" => some .memReencoded
      | _ => none
    let fsv ← match fsv with | .atom "none" => some none | x => x.nat?.map some
    pure (showEmbedded (dataAtWrite (fun p => if p == fn then fsv else none) (.raster "PNG" src 0)))
  | "handle", [.atom which, s, j, a, i] => do
    let s := resolveHref (← ostr? s) (← ostr? j)
    let a ← ostr? a
    let img := if (← i.bool?) then some (Img.svg 0) else none
    match which with
    | "img" => pure (showBoxes (handleImg s a img))
    | "embed" => pure (showBoxes (handleEmbed s img))
    | "object" => pure (showBoxes (handleObject s img))
    | _ => none
  | "css", [d, .list els] => do
    pure (showOut (findStylesheets (← str? d) (← allSome styleEl? els)))
  | "sheet", [d, c, u, s] => do
    pure (showOut (runSheet (← str? d) (← c.bool?) (← str? u) (← sheet? s)))
  | "fonts", [f, .list faces] => do
    let outs := runFonts (← fetcher? f) {} (← allSome face? faces)
    pure (" | ".intercalate (outs.map showFontOut))
  | "attach", [f, u] => do
    let (evs, out) := writeAttachment (← fetcher? f) (← str? u)
    pure (showLog evs ++ " " ++ match out with
      | .ok v => showONat v
      | .error e => showExc e)
  | "annots", [f, .list us] => do
    let (evs, out) := annotAttachments (← fetcher? f) [] (← allSome str? us)
    pure (showLog evs ++ " " ++ match out with
      | .ok vs => "[" ++ ",".intercalate (vs.map showONat) ++ "]"
      | .error e => showExc e)
  | "meta", [f, .list us] => do
    let (evs, out) := metadataAttachments (← fetcher? f) (← allSome str? us)
    pure (showLog evs ++ " " ++ match out with
      | .ok vs => showNats vs
      | .error e => showExc e)
  | "url", [.atom which, u] => do
    let u ← str? u
    match which with
    | "scheme" => pure (enc (urlScheme u))
    | "path" => pure (enc (urlFilename u))
    | "abs" => pure (toString (urlIsAbsolute u))
    | _ => none
  | "attr", [.atom which, v, w] => do
    let v ← ostr? v
    match which with
    | "mime" => pure (enc (styleMime v))
    | "media" => pure ("[" ++ ",".intercalate ((styleMedia v).map enc) ++ "]")
    | "rel" => pure (toString (hasLinkType v (← str? w)))
    | _ => none
  | "doc", [d] => do pure (showDocOut (Doc.run (← doc? d)))
  | _, _ => none

end Wp.Drive.Resources
