/-
Line-protocol front end of `Model/Resources.lean` (C20).  Strings travel as atoms `'<text>` where every
character outside `[A-Za-z0-9./:_+*=?#&,!@-]` is written `~hh` (two hex digits); `none` is Python `None`.
-/
import WpModel.Model.Wire
import WpModel.Model.Resources
import WpModel.Model.ResourcesDoc
import WpModel.Model.ResourcesUrl
import WpModel.Model.ResourcesTrace

namespace Wp.Drive.Resources
open Wp Wp.Res

/-! ### strings -/

def hexVal (c : Char) : Option Nat :=
  if '0' ≤ c && c ≤ '9' then some (c.toNat - '0'.toNat)
  else if 'a' ≤ c && c ≤ 'f' then some (c.toNat - 'a'.toNat + 10)
  else none

def decodeChars : List Char → Option (List Char)
  | [] => some []
  | '~' :: 'u' :: a :: b :: c :: d :: e :: f :: rest => do
    let n ← [a, b, c, d, e, f].foldlM (fun acc ch => (hexVal ch).map (acc * 16 + ·)) 0
    let tail ← decodeChars rest
    pure (Char.ofNat n :: tail)
  | '~' :: a :: b :: rest => do
    let x ← hexVal a
    let y ← hexVal b
    let tail ← decodeChars rest
    pure (Char.ofNat (x * 16 + y) :: tail)
  | '~' :: _ => none
  | c :: rest => (decodeChars rest).map (c :: ·)

def plainChar (c : Char) : Bool :=
  isAlpha c || isDigit c || c == '.' || c == '/' || c == ':' || c == '_' || c == '+' || c == '*' ||
  c == '=' || c == '?' || c == '#' || c == '&' || c == ',' || c == '!' || c == '@' || c == '-'

def hexDigit (n : Nat) : Char := if n < 10 then Char.ofNat ('0'.toNat + n) else Char.ofNat ('a'.toNat + n - 10)

def enc (s : String) : String :=
  "'" ++ String.ofList (s.toList.flatMap (fun c =>
    if plainChar c then [c]
    else if c.toNat < 256 then ['~', hexDigit (c.toNat / 16 % 16), hexDigit (c.toNat % 16)]
    else ['~', 'u'] ++ [5, 4, 3, 2, 1, 0].map (fun i => hexDigit (c.toNat / 16 ^ i % 16))))

def str? : Sx → Option String
  | .atom a => match a.toList with
    | '\'' :: rest => (decodeChars rest).map String.ofList
    | _ => none
  | _ => none

/-- `none` or a string. -/
def ostr? : Sx → Option (Option String)
  | .atom "none" => some none
  | x => (str? x).map some

def encO : Option String → String
  | none => "none"
  | some s => enc s

/-! ### parsers -/

def exc? : Sx → Option Exc
  | .list [c, m] => do pure ⟨← str? c, ← str? m⟩
  | _ => none

def oexc? : Sx → Option (Option Exc)
  | .atom "none" => some none
  | x => (exc? x).map some

def pil? : Sx → Option (Option Pil)
  | .atom "none" => some none
  | .list [f, m, e, t, w] => do pure (some ⟨← str? f, ← str? m, ← e.bool?, ← t.bool?, ← w.bool?⟩)
  | _ => none

def content? : Sx → Option Content
  | .list [i, x, p, w, wo, fo] => do
    pure ⟨← i.nat?, ← x.bool?, ← pil? p, ← w.bool?, ← wo.bool?, ← fo.bool?⟩
  | _ => none

def fileObj? : Sx → Option (Option FileObj)
  | .atom "none" => some none
  | .list [.atom "fo", r, c] => do pure (some ⟨← oexc? r, ← c.bool?⟩)
  | _ => none

def fetched? : Sx → Option Fetched
  | .atom "notdict" => some .notDict
  | .list [.atom "raises", c, m] => do pure (.raises ⟨← str? c, ← str? m⟩)
  | .list [.atom "resp", s, fo, mime, red, c] => do
    pure (.resp ⟨← s.bool?, ← fileObj? fo, ← ostr? mime, ← ostr? red, ← content? c⟩)
  | _ => none

/-- `((url fetched) …)`; unknown URLs raise `LookupError('unknown')` (as the harness fetcher does). -/
def fetcher? (x : Sx) : Option Fetcher := do
  let entries ← x.list?
  let table ← allSome (fun e => match e with
    | .list [u, f] => do pure (← str? u, ← fetched? f)
    | _ => none) entries
  pure (fun url => (table.lookup url).getD (.raises ⟨"LookupError", "unknown"⟩))

def orient? : Sx → Option Orient
  | .atom "from-image" => some .fromImage
  | .atom "none" => some .keep
  | .list [a, f] => do pure (.explicit (← a.nat?) (← f.bool?))
  | _ => none

def onat? : Sx → Option (Option Nat)
  | .atom "none" => some none
  | x => x.nat?.map some

/-- `(optimize_images jpeg_quality dpi)`. -/
def opts? : Sx → Option Opts
  | .list [o, q, d] => do pure ⟨← o.bool?, ← onat? q, ← onat? d⟩
  | _ => none

def req? : Sx → Option Req
  | .list [u, o, m] => do pure ⟨← str? u, ← orient? o, ← ostr? m⟩
  | _ => none

/-- A request with the options of its call: `(url orientation forced-mime opts)`. -/
def optsReq? : Sx → Option (Opts × Req)
  | .list [u, o, m, opts] => do pure (← opts? opts, ⟨← str? u, ← orient? o, ← ostr? m⟩)
  | _ => none

def fontSrc? : Sx → Option FontSrc
  | .atom "internal" => some .internal
  | .list [.atom "ext", u] => do pure (.external (← ostr? u))
  | .list [.atom "local", n, f, m, u] => do pure (.«local» (← str? n) (← f.bool?) (← m.bool?) (← str? u))
  | _ => none

def face? : Sx → Option FontFace
  | .list [k, .list srcs] => do pure ⟨← k.nat?, ← allSome fontSrc? srcs⟩
  | _ => none

def media? : Sx → Option (Option (List String))
  | .atom "none" => some none
  | .list ms => (allSome str? ms).map some
  | _ => none

mutual
  partial def item? : Sx → Option CssItem
    | .atom "other" => some .other
    | .list [.atom "rule", i] => do pure (.rule (← i.nat?))
    | .list [.atom "import", u, m, s] => do pure (.importRule (← ostr? u) (← media? m) (← sheet? s))
    | .list [.atom "media", m, .list items] => do pure (.mediaRule (← media? m) (← allSome item? items))
    | .list [.atom "fontface", c, f] => do pure (.fontFace (← c.bool?) (← face? f))
    | _ => none
  partial def sheet? : Sx → Option Sheet
    | .list [.atom "sheet", f, .list items] => do pure (.mk (← fetched? f) (← allSome item? items))
    | _ => none
end

def styleEl? : Sx → Option StyleEl
  | .list [.atom "el", l, t, m, r, h, j, .list items, s] => do
    pure ⟨← l.bool?, ← ostr? t, ← ostr? m, ← ostr? r, ← ostr? h, ← ostr? j, ← allSome item? items, ← sheet? s⟩
  | _ => none

/-! ### printers -/

def showEv : Ev → String
  | .call u => "call=" ++ enc u
  | .body => "body"
  | .close => "close"
  | .closeWarn => "closewarn"

def showEvs (evs : List Ev) : String := "[" ++ ",".intercalate (evs.map showEv) ++ "]"

/-- Events as a recording fetcher sees them (the entry of the `with` body is not observable there). -/
def showLog (evs : List Ev) : String := showEvs (evs.filter (· != .body))

def showExcFull (e : Exc) : String := "err:" ++ e.cls ++ ":" ++ enc e.msg
def showExc (e : Exc) : String := "err:" ++ e.cls

def showSrc : Src → String
  | .lazyLocal p => "local=" ++ enc p
  | .memOriginal => "mem"
  | .memReencoded => "reenc"

def showImg : Option Img → String
  | none => "none"
  | some (.svg c) => "svg:" ++ toString c
  | some (.raster f s c) => "raster:" ++ f ++ ":" ++ showSrc s ++ ":" ++ toString c

def showImgOut : Except Exc (Option Img) → String
  | .ok i => showImg i
  | .error e => showExc e

def showBox : BoxOut → String
  | .replaced => "replaced"
  | .altText s => "alt=" ++ enc s
  | .fallback => "fallback"

def showBoxes (bs : List BoxOut) : String := "[" ++ ",".intercalate (bs.map showBox) ++ "]"

def showNats (ns : List Nat) : String := "[" ++ ",".intercalate (ns.map toString) ++ "]"

def showOut (o : Out) : String :=
  "rules=" ++ (if o.err.isSome then "*" else showNats o.rules) ++ " fonts=" ++ showNats (o.fonts.map (·.key)) ++ " log=" ++ showLog o.log ++
  " " ++ (match o.err with | none => "ok" | some e => showExc e)

def showFontOut (o : FontOut) : String :=
  "log=" ++ showLog o.log ++ " installed=" ++
  (match o.installed with | none => "none" | some c => toString c) ++
  " written=" ++ showNats o.written ++ " warned=" ++ toString o.warned ++ " " ++
  (match o.err with | none => "ok" | some e => showExc e)

def showEmbedded : Except Exc Embedded → String
  | .ok (.fetched c) => "fetched:" ++ toString c
  | .ok (.reencodedFrom c) => "reencoded:" ++ toString c
  | .ok (.fileBytes c) => "file:" ++ toString c
  | .error e => showExc e

def showONat : Option Nat → String
  | none => "none"
  | some n => toString n

/-! ### document level -/

def imgRef? : Sx → Option Doc.ImgRef
  | .list [.atom "inlinesvg", c] => do pure ⟨.inlineSvg, none, none, .fromImage, none, some (← c.nat?)⟩
  | .list [k, u, a, o, m] => do
    let kind ← match k with
      | .atom "img" => some Doc.ImgKind.img
      | .atom "embed" => some .embed
      | .atom "object" => some .object
      | .atom "background" => some .background
      | .atom "liststyle" => some .listStyle
      | .atom "content" => some .content
      | .atom "borderimage" => some .borderImage
      | .atom "maskborder" => some .maskBorder
      | _ => none
    pure ⟨kind, ← ostr? u, ← ostr? a, ← orient? o, ← ostr? m, none⟩
  | _ => none

def fsEntry? : Sx → Option (String × Nat)
  | .list [p, c] => do pure (← str? p, ← c.nat?)
  | _ => none

def svgItem? : Sx → Option Doc.SvgItem
  | .list [.atom "image", u] => do pure (.image (← ostr? u))
  | .list [.atom "use", u] => do pure (.useExternal (← str? u))
  | _ => none

def svgEntry? : Sx → Option (Nat × List Doc.SvgItem)
  | .list [c, .list items] => do pure (← c.nat?, ← allSome svgItem? items)
  | _ => none

def doc? : Sx → Option Doc.Document
  | .list [.atom "doc", dev, .list els, .list imgs, .list metas, .list annots, fetcher, opts, .list fs, .list svgs] => do
    let table ← allSome fsEntry? fs
    pure { device := ← str? dev, styles := ← allSome styleEl? els, images := ← allSome imgRef? imgs,
           metaAttachments := ← allSome str? metas, annotAttachments := ← allSome str? annots,
           fetcher := ← fetcher? fetcher, opts := ← opts? opts, fs := fun p => table.lookup p,
           svgInfo := ← allSome svgEntry? svgs }
  | _ => none

def showStage : Except Exc Unit → String
  | .ok _ => "ok"
  | .error e => showExc e

def sortNats (ns : List Nat) : List Nat := (ns.mergeSort (fun a b => decide (a ≤ b))).eraseDups

def showDocOut (o : Doc.DocOut) : String :=
  let writeOk := match o.write with | .ok _ => true | .error _ => false
  "css=" ++ showLog o.cssLog ++ " rules=" ++ (match o.render with | .ok _ => showNats (sortNats o.rules) | .error _ => "[]") ++
  " fonts=" ++ showLog o.fontLog ++ " installed=" ++ toString (o.fontInstalled.filter Option.isSome).length ++
  " img=" ++ showLog o.imageLog ++ " boxes=" ++ "[" ++ (match o.render with
    | .ok _ => ",".intercalate (o.boxes.map showBoxes)
    | .error _ => "") ++ "]" ++
  " render=" ++ showStage o.render ++
  " att=" ++ showLog o.attachLog ++ " paint=" ++ showLog o.paintLog ++
  " embedded=" ++ (if writeOk then showNats o.embedded else "[]") ++
  " tree=" ++ (if writeOk then (match Doc.embeddedFilesTree o.embedded with | none => "none" | some n => toString n) else "-") ++
  " annots=[" ++ (if writeOk then ",".intercalate (o.annots.filterMap (fun a => a.map toString)) else "") ++ "]" ++
  " opens=" ++ (match o.write with
    | .error ⟨"FileNotFoundError", _⟩ => "-"
    | _ => "[" ++ ",".intercalate ((o.opens.mergeSort (fun a b => decide (a ≤ b))).map enc) ++ "]") ++
  " write=" ++ showStage o.write ++ " absent=" ++ (if writeOk then "eq" else "-")

/-! ### branch tags: which branch of the model a case takes (diagnostics for the evidence histogram) -/

def srcTag : Src → String
  | .lazyLocal _ => "lazy-local"
  | .memOriginal => "original-bytes"
  | .memReencoded => "reencoded"

def imageTag (cache : Cache) (fetcher : Fetcher) (opts : Opts) (req : Req) : String :=
  match cache.find? (req.key opts) with
  | some (some _) => "img:cache-hit-image"
  | some none => "img:cache-hit-failure"
  | none =>
    match fetcher req.url with
    | .raises _ => "img:fetcher-raises"
    | .notDict => "img:not-a-dict-escapes"
    | .resp r =>
      match readAll r with
      | .error e => if e.isUrlFetching || e.isImageLoading then "img:read-error-caught-class" else
          (if r.fileObj.isSome then "img:read-error-escapes" else "img:no-string-no-file-escapes")
      | .ok c =>
        let svgMime := effectiveMime req.forcedMime r == some "image/svg+xml"
        if svgMime && c.xmlOk then "img:svg-by-mime"
        else match c.pillow with
          | some p =>
            let fn := if urlScheme (r.redirected.getD req.url) == "file" then some (urlFilename (r.redirected.getD req.url)) else none
            match rasterInit p req.orient fn opts with
            | .ok (fmt, src) => "img:raster-" ++ fmt ++ "-" ++ srcTag src
            | .error _ => "img:error-reencoding-fails"
          | none => if svgMime then "img:error-svg-mime" else if c.xmlOk then "img:svg-last-chance" else "img:error-undecodable"

def imagesTags (fetcher : Fetcher) : Cache → List (Opts × Req) → List String
  | _, [] => []
  | cache, (opts, req) :: rest =>
    imageTag cache fetcher opts req :: imagesTags fetcher (getImage cache fetcher opts req).1 rest

def fetchedTag (pre : String) : Fetched → String
  | .raises _ => pre ++ ":fetcher-raises"
  | .notDict => pre ++ ":not-a-dict"
  | .resp r =>
    if r.hasString then pre ++ (if r.fileObj.isSome then ":string+file-obj" else ":string")
    else match r.fileObj with
      | none => pre ++ ":no-string-no-file"
      | some fo => pre ++ (if fo.readErr.isSome then ":read-error" else if fo.closeErr then ":file-obj-close-fails" else ":file-obj")

def fontSrcTags (fetcher : Fetcher) : List FontSrc → List String
  | [] => ["font:exhausted-warning"]
  | src :: rest =>
    match src.target with
    | none => (match src with
        | .external _ => "font:broken-url"
        | .internal => "font:internal"
        | .«local» _ found _ _ => if found then "font:local-name-mismatch" else "font:local-no-match") :: fontSrcTags fetcher rest
    | some url =>
      let pre := match src with | .«local» .. => "font:local-fetch" | _ => "font:url-fetch"
      match (fetch (fetcher url) url readAll).2 with
      | .error _ => (pre ++ "-fails") :: fontSrcTags fetcher rest
      | .ok c =>
        if c.woff && !c.woffOk then "font:woff-decode-fails" :: fontSrcTags fetcher rest
        else if c.fontOk then [pre ++ "-installed"]
        else "font:fontconfig-rejects" :: fontSrcTags fetcher rest

def facesTags (fetcher : Fetcher) : FontState → List FontFace → List String
  | _, [] => []
  | st, face :: rest =>
    (if st.loaded.contains face.key then ["font:already-loaded"] else fontSrcTags fetcher face.srcs) ++
      facesTags fetcher (addFontFace fetcher st face).1 rest

mutual
  partial def itemsTags (d : String) : Bool → List CssItem → List String
    | _, [] => []
    | _, .rule _ :: rest => "css:rule" :: itemsTags d true rest
    | _, .other :: rest => "css:other-at-rule" :: itemsTags d true rest
    | ign, .importRule url media target :: rest =>
      if ign then "css:import-too-late" :: itemsTags d ign rest
      else match url, media with
        | none, _ => "css:import-no-url" :: itemsTags d ign rest
        | some _, none => "css:import-invalid-media" :: itemsTags d ign rest
        | some u, some m =>
          if !evaluateMedia m d then "css:import-media-mismatch" :: itemsTags d ign rest
          else
            let o := runSheet d false u target
            (if o.err.isSome then
              (if o.absorbFetchError.err.isSome then "css:import-escapes" else "css:import-fetch-error-logged")
             else "css:import-loaded") :: sheetTags d false target ++ itemsTags d ign rest
    | ign, .mediaRule media items :: rest =>
      match media with
      | none => "css:media-invalid" :: itemsTags d ign rest
      | some m =>
        if !evaluateMedia m d then "css:media-mismatch" :: itemsTags d true rest
        else "css:media-entered" :: itemsTags d true items ++ itemsTags d true rest
    | _, .fontFace complete _ :: rest =>
      (if complete then "css:font-face" else "css:font-face-incomplete") :: itemsTags d true rest
  partial def sheetTags (d : String) (checkMime : Bool) : Sheet → List String
    | .mk fetched items =>
      fetchedTag "sheet" fetched ::
      (match fetched with
       | .resp r =>
         if checkMime && r.mime != some "text/css" then ["sheet:wrong-mime-empty"]
         else match cssSourceBody checkMime r with
           | .ok true => itemsTags d false items
           | _ => []
       | _ => [])
end

def styleElTags (d : String) (el : StyleEl) : List String :=
  if styleMime el.typeAttr != "text/css" then ["el:type-not-css"]
  else if !evaluateMedia (styleMedia el.mediaAttr) d then ["el:media-mismatch"]
  else if !el.isLink then "el:style" :: itemsTags d false el.items
  else if (el.href.getD "") == "" then ["el:link-no-href"]
  else if !hasLinkType el.rel "stylesheet" || hasLinkType el.rel "alternate" then ["el:link-rel-skipped"]
  else match resolveHref el.href el.joined with
    | none => ["el:link-unresolvable"]
    | some _ => "el:link-fetched" :: sheetTags d true el.target

def svgTags (fetcher : Fetcher) (opts : Opts) : Cache → List Doc.SvgItem → List String
  | _, [] => []
  | cache, .useExternal _ :: rest => "svg:external-use-direct-call" :: svgTags fetcher opts cache rest
  | cache, .image none :: rest => "svg:image-no-href-skipped" :: svgTags fetcher opts cache rest
  | cache, .image (some url) :: rest =>
    if url == "" then "svg:image-no-href-skipped" :: svgTags fetcher opts cache rest
    else
      let r := getImage cache fetcher opts ⟨url, .fromImage, some "image/*"⟩
      match r.2.2 with
      | .error _ => ["svg:image-escapes-swallowed"]
      | .ok v => ("svg:image" ++ (if v.isSome then "-loaded" else "-none")) :: svgTags fetcher opts r.1 rest

def urljoinTag (base url : List Char) : String :=
  if base.isEmpty then "join:no-base"
  else if url.isEmpty then "join:empty-reference"
  else
    let b := Url.urlparse base []
    let u := Url.urlparse url b.scheme
    if u.scheme != b.scheme then "join:other-scheme"
    else if !Url.inList Url.usesRelative u.scheme then "join:non-hierarchical-scheme"
    else if Url.inList Url.usesNetloc u.scheme && !u.netloc.isEmpty then "join:has-authority"
    else if u.path.isEmpty && u.params.isEmpty then (if u.query.isEmpty then "join:fragment-only" else "join:query-only")
    else if u.path.head? == some '/' then "join:absolute-path"
    else if (splitOnChar '/' u.path).any (fun s => s == ['.', '.']) then "join:merge-with-dotdot"
    else "join:merge"

def tagsFor (cmd : String) (args : List Sx) : Option (List String) :=
  match cmd, args with
  | "fetch", [f, _, b] => do
    let f ← fetched? f
    pure [fetchedTag "fetch" f ++ (match b with | .atom "ok" => "/body-returns" | _ => "/body-raises")]
  | "images", [f, .list reqs] => do
    pure (imagesTags (← fetcher? f) [] (← allSome optsReq? reqs))
  | "fonts", [f, .list faces] => do pure (facesTags (← fetcher? f) {} (← allSome face? faces))
  | "css", [d, .list els] => do
    let d ← str? d
    pure ((← allSome styleEl? els).flatMap (styleElTags d))
  | "sheet", [d, c, _, s] => do pure (sheetTags (← str? d) (← c.bool?) (← sheet? s))
  | "attach", [f, u] => do pure [fetchedTag "attachment" ((← fetcher? f) (← str? u))]
  | "urljoin", [b, u] => do pure [urljoinTag (← str? b).toList (← str? u).toList]
  | "doc", [d] => do
    let d ← doc? d
    let o := Doc.run d
    let cache := (Doc.runRefs d.fetcher d.opts [] d.images).2.2.1
    pure ((d.styles.flatMap (styleElTags d.device)) ++
      (match o.render with | .ok _ => ["doc:render-completes"] | .error _ => ["doc:render-escapes"]) ++
      (match o.render, o.write with
        | .ok _, .ok _ => ["doc:write-completes"]
        | .ok _, .error ⟨"FileNotFoundError", _⟩ => ["doc:write-local-file-missing"]
        | .ok _, .error _ => ["doc:write-escapes"]
        | _, _ => []) ++
      (if o.opens.isEmpty then [] else ["doc:local-file-read"]) ++
      (((Doc.paintOrder d.images).filterMap (Doc.svgOfRef d.opts cache)).flatMap (fun kc => svgTags d.fetcher d.opts cache ((d.svgInfo.lookup kc.2).getD []))))
  | _, _ => none

/-! ### commands -/

def handle (cmd : String) (args : List Sx) : Option String :=
  match cmd, args with
  -- `fetch <fetched> <url> <body: ok | (cls msg)>`
  | "fetch", [f, u, b] => do
    let f ← fetched? f
    let u ← str? u
    let b ← oexc? (match b with | .atom "ok" => .atom "none" | x => x)
    let (evs, out) := fetch f u (fun r => match b with
      | none => Except.ok (r.redirected, r.mime)
      | some e => Except.error e)
    pure (showEvs evs ++ " " ++ match out with
      | .ok (red, mime) => "ok red=" ++ encO red ++ " mime=" ++ encO mime
      | .error e => showExcFull e)
  -- `images <fetcher> ((url orientation forced-mime opts) …)`
  | "images", [f, .list reqs] => do
    let fetcher ← fetcher? f
    let reqs ← allSome optsReq? reqs
    let (outs, cache) := runImages fetcher [] reqs
    pure (";".intercalate (outs.map (fun (evs, out) => showLog evs ++ showImgOut out)) ++
      " cache=[" ++ ",".intercalate (cache.reverse.map (fun (k, v) => enc k ++ "=" ++ showImg v)) ++ "]")
  -- `raster <pil> <orient> <filename> <opts>`
  | "raster", [p, o, fn, opts] => do
    let p ← (← pil? p)
    match rasterInit p (← orient? o) (← ostr? fn) (← opts? opts) with
    | .ok (fmt, src) => pure (fmt ++ " " ++ showSrc src)
    | .error e => pure (showExc e)
  -- `atwrite <img src kind> <fs content | none>`
  | "atwrite", [src, fn, fsv] => do
    let fn ← str? fn
    let src ← match src with
      | .atom "local" => some (Src.lazyLocal fn)
      | .atom "mem" => some .memOriginal
      | .atom "reenc" => some .memReencoded
      | _ => none
    let fsv ← match fsv with | .atom "none" => some none | x => x.nat?.map some
    pure (showEmbedded (dataAtWrite (fun p => if p == fn then fsv else none) (.raster "PNG" src 0)))
  | "handle", [.atom which, s, j, a, i] => do
    let s := resolveHref (← ostr? s) (← ostr? j)
    let a ← ostr? a
    let img := if (← i.bool?) then some (Img.svg 0) else none
    match which with
    | "img" => pure (showBoxes (handleImg s a img))
    | "embed" => pure (showBoxes (handleEmbed s img))
    | "object" => pure (showBoxes (handleObject s img))
    | _ => none
  | "css", [d, .list els] => do
    pure (showOut (findStylesheets (← str? d) (← allSome styleEl? els)))
  | "sheet", [d, c, u, s] => do
    pure (showOut (runSheet (← str? d) (← c.bool?) (← str? u) (← sheet? s)))
  | "fonts", [f, .list faces] => do
    let outs := runFonts (← fetcher? f) {} (← allSome face? faces)
    pure (" | ".intercalate (outs.map showFontOut))
  | "attach", [f, u] => do
    let (evs, out) := writeAttachment (← fetcher? f) (← str? u)
    pure (showLog evs ++ " " ++ match out with
      | .ok v => showONat v
      | .error e => showExc e)
  -- the same `Attachment` written twice (`Attachment.source` builds a new context manager each time: a0bb005)
  | "attach2", [f, u] => do
    let fetcher ← fetcher? f
    let u ← str? u
    let (evs1, out1) := writeAttachment fetcher u
    let (evs2, out2) := writeAttachment fetcher u
    let sh := fun (out : Except Exc (Option Nat)) => match out with
      | .ok v => showONat v
      | .error e => showExc e
    pure (showLog (evs1 ++ evs2) ++ " " ++ sh out1 ++ " " ++ sh out2)
  | "annots", [f, .list us] => do
    let (evs, out) := annotAttachments (← fetcher? f) [] (← allSome str? us)
    pure (showLog evs ++ " " ++ match out with
      | .ok vs => "[" ++ ",".intercalate (vs.map showONat) ++ "]"
      | .error e => showExc e)
  | "meta", [f, .list us] => do
    let (evs, out) := metadataAttachments (← fetcher? f) (← allSome str? us)
    pure (showLog evs ++ " " ++ match out with
      | .ok vs => showNats vs
      | .error e => showExc e)
  | "url", [.atom which, u] => do
    let u ← str? u
    match which with
    | "scheme" => pure (enc (urlScheme u))
    | "path" => pure (enc (urlFilename u))
    | "abs" => pure (toString (urlIsAbsolute u))
    | _ => none
  -- `trace full|obs (ev …) (named …)`: the verified trace checkers on a recorded log
  | "trace", [.atom which, .list evs, named] => do
    let evs ← allSome (fun e => match e with
      | .atom "body" => some Ev.body
      | .atom "close" => some Ev.close
      | .atom "closewarn" => some Ev.closeWarn
      | .list [.atom "call", u] => (str? u).map Ev.call
      | _ => none) evs
    let shape := if which == "full" then traceOk 0 evs else obsOk false evs
    let within ← match named with
      | .atom "any" => some true
      | .list ns => (allSome str? ns).map (fun l => callsWithin l evs)
      | _ => none
    pure ("shape=" ++ toString shape ++ " within=" ++ toString within)
  | "urljoin", [b, u] => do
    pure (enc (String.ofList (Url.urljoin (← str? b).toList (← str? u).toList)))
  | "iri", [u] => do pure (enc (String.ofList (iriToUri (← str? u).toList)))
  | "urlattr", [a, b, r] => do
    let a ← ostr? a
    let b ← ostr? b
    pure (encO ((Url.getUrlAttribute (a.map (·.toList)) (b.map (·.toList)) (← r.bool?)).map String.ofList))
  | "findbase", [h, f] => do
    let h ← ostr? h
    let f ← ostr? f
    pure (encO ((Url.findBaseUrl (h.map (·.toList)) (f.map (·.toList))).map String.ofList))
  | "urlparse", [u] => do
    let p := Url.urlparse (← str? u).toList []
    pure (" ".intercalate ([p.scheme, p.netloc, p.path, p.params, p.query, p.fragment].map (fun x => enc (String.ofList x))))
  | "attr", [.atom which, v, w] => do
    let v ← ostr? v
    match which with
    | "mime" => pure (enc (styleMime v))
    | "media" => pure ("[" ++ ",".intercalate ((styleMedia v).map enc) ++ "]")
    | "rel" => pure (toString (hasLinkType v (← str? w)))
    | _ => none
  | "doc", [d] => do pure (showDocOut (Doc.run (← doc? d)))
  | "tags", (.atom inner :: rest) => do pure (" ".intercalate (← tagsFor inner rest))
  | _, _ => none

end Wp.Drive.Resources
