import WpModel.Model.Wire
namespace Wp.Drive.Total
open Wp
/-- The model of the stages that are not modelled: they return. -/
def handle (cmd : String) (args : List Sx) : Option String :=
  match cmd, args with
  | "total", [] => some "ok"
  | _, _ => none
end Wp.Drive.Total
