/-
Line protocol of the ToUnicode part of C17:
  tounicode ((glyph (u16 …)) …) (glyph …)   → the decoded UTF-16 code units `(u …)` or `none`
  record ((glyph (u16 …)) …)                → the table built by `if glyph not in cmap: cmap[glyph] = text`
  bfline glyph (code point …)               → the bfchar line `<gggg> <utf-16be hex>` written for that entry
-/
import WpModel.Model.Wire
import WpModel.Model.ToUnicode
import WpModel.Model.Utf16

namespace Wp.Drive.ToUnicode
open Wp Wp.ToUnicode

def entry? : Sx → Option (Nat × List Nat)
  | .list [g, .list us] => do pure ((← g.nat?), (← allSome Sx.nat? us))
  | _ => none

def showUnits (l : List Nat) : String := "(" ++ " ".intercalate (l.map toString) ++ ")"

def handle (cmd : String) (args : List Sx) : Option String :=
  match cmd, args with
  | "tounicode", [.list entries, .list glyphs] => do
    let m ← allSome entry? entries
    let gs ← allSome Sx.nat? glyphs
    pure (match decode m gs with | some t => showUnits t | none => "none")
  | "record", [.list entries] => do
    let ps ← allSome entry? entries
    pure ("(" ++ " ".intercalate ((recordAll [] ps).map (fun e => "(" ++ toString e.1 ++ " " ++ showUnits e.2 ++ ")")) ++ ")")
  | "bfline", [glyph, .list cps] => do
    -- the bfchar line `build_fonts_dictionary` writes for one entry of `font.cmap` (text as code points)
    pure (Wp.Utf16.bfcharLine (← glyph.nat?) (← allSome Sx.nat? cps))
  | _, _ => none

end Wp.Drive.ToUnicode
