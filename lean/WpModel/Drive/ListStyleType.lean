/-
Line protocol for `Model/ListStyleType.lean` (tokens as in `Drive/ContentFns`, styles as in `Drive/Counters`).
  stok ::= (t atok) | (f x<function name as written> (atok …))
  lst stok      → none | <cname>
-/
import WpModel.Model.Wire
import WpModel.Model.ListStyleType
import WpModel.Drive.ContentFns

namespace Wp.Drive.ListStyleType
open Wp Wp.Counters Wp.ContentFns Wp.ListStyleType Wp.Drive.Counters Wp.Drive.ContentFns

def stok? : Sx → Option StyleTok
  | .list [.atom "t", t] => (atok? t).map .tok
  | .list [.atom "f", name, args] => do pure (.func (← str? name) (← listOf atok? args))
  | _ => none

def handle (cmd : String) (args : List Sx) : Option String :=
  match cmd, args with
  | "lst", [t] => do
    let t ← stok? t
    match listStyleType t with
    | none => pure "none"
    | some c => pure (sxCName c).render
  | _, _ => none

end Wp.Drive.ListStyleType
