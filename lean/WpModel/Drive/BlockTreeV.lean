/-
Line protocol of `Model/BlockTreeV.lean`:
  `docv W H <page nstyle> <node>`  → the page box, then every block of the root element's tree (preorder):
                                     `(x ml mr w pl pr bl br mt mb pt pb bt bb y h)`
-/
import WpModel.Model.BlockTreeV
import WpModel.Drive.BoxModel

namespace Wp.Drive.BlockTreeV
open Wp Wp.BoxModel Wp.BlockTree Wp.BlockTreeV Wp.Drive.BoxModel

def showVGeo (v : VGeo) : String :=
  let g := v.g
  "(" ++ " ".intercalate [showRat g.x, showRat g.ml, showRat g.mr, showRat g.w, showRat g.pl,
    showRat g.pr, showRat g.bl, showRat g.br, showRat g.mt, showRat g.mb, showRat g.pt, showRat g.pb,
    showRat g.bt, showRat g.bb, showRat v.y, showRat v.h] ++ ")"

def handle (cmd : String) (args : List Sx) : Option String :=
  match cmd, args with
  | "docv", [w, h, pg, root] => do
    let r := layoutDocV (← w.rat?) (← h.rat?) (← nstyle? pg) (← node? root)
    pure (out (fun (p, vs) => " ".intercalate ((p :: vs).map showVGeo)) r)
  | _, _ => none

end Wp.Drive.BlockTreeV
