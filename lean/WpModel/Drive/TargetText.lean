/-
Line protocol for `Model/TargetText.lean` (strings: atoms `x<cp>.<cp>…`).
  item  ::= (str x…) | (ref x<anchor> content|before|after|first-letter)
  elem  ::= (<id> <bool:displayed> x<anchor>|none x<text> x<before>|none (item …)|none (elem …) x<tail>)
  tt <elem>   → ok (<id> x<text of the ::after box>) …      sorted by id
-/
import WpModel.Model.Wire
import WpModel.Model.TargetText
import WpModel.Drive.Counters

namespace Wp.Drive.TargetText
open Wp Wp.TargetText Wp.Drive.Counters

def mode? : Sx → Option Mode
  | .atom "content" => some .content
  | .atom "before" => some .before
  | .atom "after" => some .after
  | .atom "first-letter" => some .firstLetter
  | _ => none

def item? : Sx → Option TItem
  | .list [.atom "str", s] => (str? s).map .str
  | .list [.atom "ref", a, m] => do pure (.ref (← str? a) (← mode? m))
  | _ => none

partial def elem? : Sx → Option TElem
  | .list [i, d, a, t, b, af, .list kids, tl] => do
    pure (.mk (← i.nat?) (← d.bool?) (← optOf str? a) (← str? t) (← optOf str? b)
      (← optOf (listOf item?) af) (← allSome elem? kids) (← str? tl))
  | _ => none

def handle (cmd : String) (args : List Sx) : Option String :=
  match cmd, args with
  | "tt", [e] => do
    let e ← elem? e
    let m := (afterBoxes e).toArray.qsort (fun a b => a.1 < b.1)
    pure (" ".intercalate ("ok" :: m.toList.map fun p => "(" ++ toString p.1 ++ " " ++ encodeStr p.2 ++ ")"))
  | _, _ => none

end Wp.Drive.TargetText
