/-
Line-protocol handlers of `driver_c13` (see `py/props/c13.py` for the producer side).
Options: `none` (Python `None`), `auto`, `inf`; a `Dimension` is `(px v)` / `(% v)`.
-/
import WpModel.Model.Wire
import WpModel.Model.Replaced
import WpModel.Model.ReplacedBg
import WpModel.Model.ImageDedupe
import WpModel.Model.ImageDraw
import WpModel.Model.ReplacedDoc
import WpModel.Model.RasterEmbed
import WpModel.Model.SvgViewport
import WpModel.Model.ImageOrient
import WpModel.Model.ReplacedPreferred
import WpModel.Model.SvgCascade
import WpModel.Model.PngChunks
import WpModel.Model.CanvasBg
import WpModel.Model.ImageId
import WpModel.Gen.SvgNotInherited

namespace Wp.Drive.Replaced
open Wp Wp.Replaced

/-! ### parsing -/

/-- `none` or a rational. -/
def optRat? : Sx → Option (Option Rat)
  | .atom "none" => some none
  | x => x.rat?.map some

/-- `auto`, `none` (both `none`) or a rational. -/
def spec? : Sx → Option Len
  | .atom "none" => some none
  | .atom "auto" => some none
  | x => x.rat?.map some

/-- `inf` or a rational. -/
def maxLen? : Sx → Option MaxLen
  | .atom "inf" => some none
  | x => x.rat?.map some

def rats? (x : Sx) : Option (List Rat) := x.list?.bind (allSome Sx.rat?)

def intr? : Sx → Option Intr
  | .list [w, h, r] => do
    let w ← optRat? w
    let h ← optRat? h
    let r ← optRat? r
    pure ⟨w, h, r⟩
  | _ => none

def dim? : Sx → Option Dim
  | .list [.atom "px", v] => v.rat?.map Dim.px
  | .list [.atom "%", v] => v.rat?.map Dim.pct
  | _ => none

def optDim? : Sx → Option (Option Dim)
  | .atom "auto" => some none
  | x => (dim? x).map some

def position? : Sx → Option Position
  | .list [fr, x, fb, y] => do
    let fr ← fr.bool?
    let x ← dim? x
    let fb ← fb.bool?
    let y ← dim? y
    pure ⟨fr, x, fb, y⟩
  | _ => none

def geom? (x : Sx) : Option Geom :=
  match rats? x with
  | some [x, y, mt, mr, mb, ml, bt, br, bb, bl, pt, pr, pb, pl, w, h] =>
    some ⟨x, y, mt, mr, mb, ml, bt, br, bb, bl, pt, pr, pb, pl, w, h⟩
  | _ => none

def rbox? : Sx → Option RBox
  | .list [w, h, ml, mr, mt, mb, pl, pr, bl, br, minw, maxw, minh, maxh, px, col] => do
    let w ← w.len?
    let h ← h.len?
    let ml ← ml.len?
    let mr ← mr.len?
    let mt ← mt.len?
    let mb ← mb.len?
    let pl ← pl.rat?
    let pr ← pr.rat?
    let bl ← bl.rat?
    let br ← br.rat?
    let minw ← minw.rat?
    let maxw ← maxLen? maxw
    let minh ← minh.rat?
    let maxh ← maxLen? maxh
    let px ← px.rat?
    let col ← col.bool?
    pure ⟨w, h, ml, mr, mt, mb, pl, pr, bl, br, minw, maxw, minh, maxh, px, col⟩
  | _ => none

def cb? : Sx → Option Cb
  | .list [w, rtl] => do
    let w ← w.rat?
    let rtl ← rtl.bool?
    pure ⟨w, rtl⟩
  | _ => none

def cell? : Sx → Option Cell
  | .list [x, w, h] => do
    let x ← x.rat?
    let w ← w.rat?
    let h ← h.rat?
    pure ⟨x, w, h⟩
  | _ => none

def cells? (x : Sx) : Option (List Cell) := x.list?.bind (allSome cell?)

def kind? : Sx → Option BoxKind
  | .atom "plain" => some .plain
  | .list [.atom "page", t, r, b, l] => do
    let t ← t.rat?
    let r ← r.rat?
    let b ← b.rat?
    let l ← l.rat?
    pure (.page t r b l)
  | .list [.atom "rowgroup", .list rows] => (allSome cells? rows).map BoxKind.rowGroup
  | .list [.atom "row", cs] => (cells? cs).map BoxKind.row
  | .list [.atom "column", cs] => (cells? cs).map BoxKind.column
  | _ => none

def bgSize? : Sx → Option BgSize
  | .atom "cover" => some .cover
  | .atom "contain" => some .contain
  | .list [w, h] => do
    let w ← optDim? w
    let h ← optDim? h
    pure (.explicit w h)
  | _ => none

def optIntr? : Sx → Option (Option Intr)
  | .atom "none" => some none
  | x => (intr? x).map some

partial def draw? : Sx → Option ImageDedupe.Draw
  | .list [.atom "i", .atom id, interp, ratio, alpha] => do
    let interp ← interp.bool?
    let ratio ← ratio.rat?
    let alpha ← alpha.bool?
    pure (.image id interp ratio alpha)
  | .list (.atom "g" :: body) => (allSome draw? body).map ImageDedupe.Draw.group
  | .list (.atom "p" :: body) => (allSome draw? body).map ImageDedupe.Draw.pattern
  | _ => none

def cssBox? : Sx → Option CssBox
  | .list [w, h, minw, minh, maxw, maxh, ml, mr, mt, mb, pl, pr, bl, br] => do
    let od (x : Sx) : Option (Option Dim) := match x with
      | .atom "auto" => some none
      | .atom "none" => some none
      | x => (dim? x).map some
    pure ⟨← od w, ← od h, ← od minw, ← od minh, ← od maxw, ← od maxh, ← od ml, ← od mr, ← od mt, ← od mb,
      ← dim? pl, ← dim? pr, ← bl.rat?, ← br.rat?⟩
  | _ => none

/-- A string travelling as the list of its code points (it may hold blanks); `none` = attribute absent. -/
def cpString? : Sx → Option String
  | .list cps => (allSome Sx.nat? cps).map (fun l => String.ofList (l.map Char.ofNat))
  | _ => none

def optCpString? : Sx → Option (Option String)
  | .atom "none" => some none
  | x => (cpString? x).map some

def showCps (s : String) : String := "(" ++ " ".intercalate (s.toList.map (fun c => toString c.toNat)) ++ ")"

/-! ### printing -/

def showPair (p : Rat × Rat) : String := showRat p.1 ++ " " ++ showRat p.2

def showRect (r : Rect) : String :=
  "(" ++ showRat r.x ++ " " ++ showRat r.y ++ " " ++ showRat r.w ++ " " ++ showRat r.h ++ ")"

def showRBox (b : RBox) : String :=
  " ".intercalate [showLen b.width, showLen b.height, showLen b.marginLeft, showLen b.marginRight,
    showLen b.marginTop, showLen b.marginBottom, showRat b.positionX]

def out {α} (f : α → String) : Except Err α → String
  | .ok a => "ok " ++ f a
  | .error e => e.render

def showCm (m : Cm) : String :=
  "(" ++ " ".intercalate [showRat m.a, showRat m.b, showRat m.c, showRat m.d, showRat m.e, showRat m.f] ++ ")"

def showImageOps (o : ImageOps) : String :=
  o.name ++ " " ++ toString o.interpolate ++ " " ++ showRat o.ratio ++ " " ++ showCm o.cm

def showRepeat : Repeat → String
  | .repeat => "repeat" | .noRepeat => "no-repeat" | .space => "space" | .round => "round" | .other => "other"

def showLayer (r : LayerResult) : String :=
  "painting " ++ showRect r.paintingArea ++ " " ++
  match r.layer with
  | none => "image none"
  | some l => "size (" ++ showPair l.size ++ ") position (" ++ showPair l.position ++ ") positioning " ++
      showRect l.positioningArea

def showBgDraw : BgDraw → String
  | .nothing => "nothing"
  | .single c e f w h => "single " ++ showRect c ++ " " ++ " ".intercalate [showRat e, showRat f, showRat w, showRat h]
  | .pattern c e f w h xs ys => "pattern " ++ showRect c ++ " " ++
      " ".intercalate [showRat e, showRat f, showRat w, showRat h, showRat xs, showRat ys]

def showObj : ImageDedupe.Obj → String
  | .image n i r => "(img " ++ n ++ " " ++ toString i ++ " " ++ showRat r ++ ")"
  | .mask n => "(mask " ++ n ++ ")"
  | .group k => "(group " ++ k ++ ")"
  | .pattern k => "(pattern " ++ k ++ ")"
  | .resources => "res"

def showSt (st : ImageDedupe.St) : String :=
  "objs (" ++ " ".intercalate (st.objs.map showObj) ++ ") refs (" ++
    " ".intercalate (st.refs.map (fun p => "(" ++ p.2.1 ++ " " ++ toString p.2.2 ++ ")")) ++ ")"

mutual
/-- A `Resources` tree as the harness reads it back: XObject entries in dictionary order (an image is its
name, a group `(xK (XObject…) (Pattern…))`), then Pattern entries `(pK (XObject…) (Pattern…))`. -/
def showNodes : List ImageDedupe.Node → List String
  | [] => []
  | n :: rest => showNode n :: showNodes rest
def showNode : ImageDedupe.Node → String
  | .image name => name
  | .group key xs ps => "(" ++ key ++ " (" ++ " ".intercalate (showNodes xs) ++ ") (" ++ " ".intercalate (showNodes ps) ++ "))"
  | .pattern key xs ps => "(" ++ key ++ " (" ++ " ".intercalate (showNodes xs) ++ ") (" ++ " ".intercalate (showNodes ps) ++ "))"
end

def showTree (r : List ImageDedupe.Node × List ImageDedupe.Node) : String :=
  "(" ++ " ".intercalate (showNodes r.1) ++ ") (" ++ " ".intercalate (showNodes r.2) ++ ")"

/-- `(image res colored hidden size clip rx ry origin pos fixed)`, image: `none` or `(pw ph)`. -/
def bgStyle? : Sx → Option BgStyle
  | .list [image, res, colored, hidden, size, clip, rx, ry, origin, pos, fixed] => do
    let image ← match image with
      | .atom "none" => some none
      | .list [a, b] => do pure (some ((← a.rat?), (← b.rat?)))
      | _ => none
    pure ⟨image, ← colored.bool?, ← hidden.bool?, ← res.rat?, ← bgSize? size, BoxArea.ofCss (← clip.atom?),
      Repeat.ofCss (← rx.atom?), Repeat.ofCss (← ry.atom?), BoxArea.ofCss (← origin.atom?), ← position? pos,
      ← fixed.bool?⟩
  | _ => none

/-! ### commands -/

def layerArgs (args : List Sx) : Option (Except Err LayerResult) :=
  match args with
  | [g, kind, pg, image, size, clip, rx, ry, origin, pos, fixed] => do
    let g ← geom? g
    let kind ← kind? kind
    let pg ← geom? pg
    let image ← optIntr? image
    let size ← bgSize? size
    let clip ← clip.atom?
    let rx ← rx.atom?
    let ry ← ry.atom?
    let origin ← origin.atom?
    let pos ← position? pos
    let fixed ← fixed.bool?
    pure (layoutBackgroundLayer g kind pg image size (BoxArea.ofCss clip) (Repeat.ofCss rx) (Repeat.ofCss ry)
      (BoxArea.ofCss origin) pos fixed)
  | _ => none

def handle (cmd : String) (args : List Sx) : Option String :=
  match cmd, args with
  | "dis", [i, sw, sh, dw, dh] => do
    let i ← intr? i
    let sw ← spec? sw
    let sh ← spec? sh
    let dw ← dw.rat?
    let dh ← dh.rat?
    pure (out showPair (defaultImageSizing i sw sh dw dh))
  | "constraint", [cw, ch, r, cover] => do
    let cw ← cw.rat?
    let ch ← ch.rat?
    let r ← optRat? r
    let cover ← cover.bool?
    pure (out showPair (constraintSizing cw ch r cover))
  | "rlayout", [g, fit, pos, i] => do
    let g ← geom? g
    let fit ← fit.atom?
    let pos ← position? pos
    let i ← intr? i
    pure (out (fun r => " ".intercalate [showRat r.w, showRat r.h, showRat r.x, showRat r.y])
      (replacedboxLayout g (ObjectFit.ofCss fit) pos i))
  | "blwcore", [b, cb] => do
    let b ← rbox? b
    let cb ← cb? cb
    pure ("ok " ++ showRBox (blwCore b cb))
  | "blw", [b, cb] => do
    let b ← rbox? b
    let cb ← cb? cb
    pure (out showRBox (blockLevelWidth b cb))
  | "rbwcore", [i, cb, b] => do
    pure (out showRBox (rbwCore (← intr? i) (← cb? cb) (← rbox? b)))
  | "rbw", [i, cb, b] => do
    pure (out showRBox (replacedBoxWidth (← intr? i) (← cb? cb) (← rbox? b)))
  | "rbhcore", [i, b] => do
    pure (out showRBox (rbhCore (← intr? i) (← rbox? b)))
  | "rbh", [i, b] => do
    pure (out showRBox (replacedBoxHeight (← intr? i) (← rbox? b)))
  | "mmar", [b] => do
    pure (out showRBox (minMaxAutoReplaced (← rbox? b)))
  | "irwh", [auto, i, cb, b] => do
    pure (out showRBox (inlineReplacedWH (← auto.bool?) (← intr? i) (← cb? cb) (← rbox? b)))
  | "irl", [auto, i, cb, b] => do
    pure (out showRBox (inlineReplacedBoxLayout (← auto.bool?) (← intr? i) (← cb? cb) (← rbox? b)))
  | "brwcore", [i, cb, b] => do
    pure (out showRBox (brwCore (← intr? i) (← cb? cb) (← rbox? b)))
  | "brw", [i, cb, b] => do
    pure (out showRBox (blockReplacedWidth (← intr? i) (← cb? cb) (← rbox? b)))
  | "brl", [auto, i, cb, cx, py, b] => do
    pure (out (fun r => showRBox r.1 ++ " at " ++ showRat r.2.1 ++ " " ++ showRat r.2.2)
      (blockReplacedBoxLayout (← auto.bool?) (← intr? i) (← cb? cb) (← cx.rat?) (← py.rat?) (← rbox? b)))
  | "bglayer", args => (layerArgs args).map (out showLayer)
  | "bgdraw", args => (layerArgs args).map (fun r => out showBgDraw (r.bind drawBackgroundImage))
  | "dedupe", [base, .list draws] => do
    let base ← base.nat?
    let draws ← allSome draw? draws
    pure (match ImageDedupe.document draws base with
      | some st => "ok " ++ showSt st ++ " tree " ++ showTree (ImageDedupe.buildList draws [] [])
      | none => "err:KeyError")
  | "restree", [.list draws] => do
    -- the `Resources` dictionaries of the page(s), groups and patterns after the drawing (names only)
    let draws ← allSome draw? draws
    pure ("ok " ++ showTree (ImageDedupe.buildList draws [] []))
  | "imgname", [.atom id, interp] => do
    pure (ImageDedupe.imageName id (← interp.bool?))
  | "rdraw", [.atom id, pw, ph, dpi, cw, ch, c00, c11, auto] => do
    let r := rasterDraw id (← pw.rat?) (← ph.rat?) (← optRat? dpi) (← cw.rat?) (← ch.rat?) (← c00.rat?)
      (← c11.rat?) (← auto.bool?)
    pure (out (fun o => match o with | none => "none" | some o => showImageOps o) r)
  | "drawrep", [vis, g, fit, pos, res, ratio, .atom id, pw, ph, dpi, c00, c11, auto] => do
    let r := drawReplacedbox (← vis.bool?) (← geom? g) (ObjectFit.ofCss (← fit.atom?)) (← position? pos)
      (← res.rat?) (← ratio.rat?) id (← pw.rat?) (← ph.rat?) (← optRat? dpi) (← c00.rat?) (← c11.rat?) (← auto.bool?)
    pure (out (fun o => match o with
      | none => "none"
      | some o => showCm o.translate ++ " " ++ showImageOps o.image) r)
  | "docimg", [block, css, cb, cbh, cx, py, pw, ph, res, ratio] => do
    let r := docImage (← block.bool?) (← cssBox? css) (← cb? cb) (← cbh.len?) (← cx.rat?) (← py.rat?)
      (← pw.rat?) (← ph.rat?) (← res.rat?) (← ratio.rat?)
    pure (out (fun r => showRBox r.1 ++ " at " ++ showRat r.2.1 ++ " " ++ showRat r.2.2) r)
  | "absrep", [auto, i, cbx, cby, cbw, cbh, b] => do
    pure (out (fun b => showLen b.width ++ " " ++ showLen b.height)
      (absoluteReplacedWH (← auto.bool?) (← intr? i) (← cbx.rat?) (← cby.rat?) (← cbw.rat?) (← cbh.rat?) (← rbox? b)))
  | "svgintr", [w, h, vb] => do
    let vb ← match vb with
      | .atom "none" => some none
      | .list [a, b] => do pure (some ((← a.rat?), (← b.rat?)))
      | _ => none
    let showOpt : Option Rat → String := fun o => match o with | none => "none" | some q => showRat q
    pure (out (fun i => showOpt i.w ++ " " ++ showOpt i.h ++ " " ++ showOpt i.ratio)
      (svgIntrinsic (← optRat? w) (← optRat? h) vb))
  | "docsvg", [block, css, cb, cbh, cx, py, w, h, vb] => do
    let vb ← match vb with
      | .atom "none" => some none
      | .list [a, b] => do pure (some ((← a.rat?), (← b.rat?)))
      | _ => none
    let r := docSvg (← block.bool?) (← cssBox? css) (← cb? cb) (← cbh.len?) (← cx.rat?) (← py.rat?)
      (← optRat? w) (← optRat? h) vb
    pure (out (fun r => showRBox r.1 ++ " at " ++ showRat r.2.1 ++ " " ++ showRat r.2.2) r)
  | "embed", [.atom mode, transp, .atom fmt, app14, rotated, hasData, optimize, quality] => do
    let s : RasterEmbed.Src := ⟨RasterEmbed.PMode.ofPillow mode, ← transp.bool?, RasterEmbed.Fmt.ofPillow fmt,
      ← app14.bool?, ← rotated.bool?, ← hasData.bool?⟩
    let o : RasterEmbed.Opts := ⟨← optimize.bool?, ← quality.bool?⟩
    pure (match RasterEmbed.loadEmbed s o with
      | none => "not-loaded"
      | some (r, x) => "ok " ++ " ".intercalate [r.mode.pillow, toString r.jpeg, toString r.reencoded,
          toString r.invert, x.colorSpace, x.filter, toString x.colors3, toString x.smask,
          toString x.decodeInverted, if RasterEmbed.faithful r then "pixels-same" else "pixels-unchecked"])
  | "svgratio", [vb, root, iw, ih, .list parWords, marker, w, h] => do
    -- the preserveAspectRatio string travels as the list of its characters' code points (it may hold blanks)
    let cps ← allSome Sx.nat? parWords
    let par := String.ofList (cps.map Char.ofNat)
    let marker ← match marker with
      | .atom "none" => some none
      | .list [a, b] => do pure (some ((← a.rat?), (← b.rat?)))
      | _ => none
    let r := SvgViewport.preserveRatio (← rats? vb) (← root.bool?) ((← optRat? iw), (← optRat? ih)) par marker
      (← w.rat?) (← h.rat?)
    pure (match r with
      | .ok r => "ok " ++ " ".intercalate [showRat r.sx, showRat r.sy, showRat r.tx, showRat r.ty]
      | .error e => e.render)
  | "canvasbg", [pg, .list [bt, br, bb, bl], pstyle, rg, rstyle, isHtml, body] => do
    -- `layout_backgrounds`: which element's background becomes the canvas background, and its layers
    let body ← match body with
      | .atom "none" => some none
      | .list [g, st] => do pure (some ((← geom? g), (← bgStyle? st)))
      | _ => none
    let r := layoutBackgrounds (← geom? pg) (← bt.rat?) (← br.rat?) (← bb.rat?) (← bl.rat?) (← bgStyle? pstyle)
      (← geom? rg) (← bgStyle? rstyle) (← isHtml.bool?) body
    pure (out (fun r => (match r.1 with | .root => "root" | .body => "body" | .nobody => "none") ++
      String.join (r.2.map (fun l => " " ++ showLayer l))) r)
  | "imgids", [.list reqs] => do
    -- a sequence of image requests on one cache: classes of equal `RasterImage.id`, classes of identical objects
    let keys ← allSome (fun r => match r with
      | Sx.list [u, o, a, b, c] => do pure (ImageId.Key.mk (← u.nat?) (← o.nat?) (← a.nat?) (← b.nat?) (← c.nat?))
      | _ => none) reqs
    let show' (l : List Nat) : String := "(" ++ " ".intercalate (l.map toString) ++ ")"
    pure ("ok " ++ show' (ImageId.idClasses keys) ++ " " ++ show' (ImageId.objectClasses keys))
  | "imgres", [value, factor, exact] => do
    -- the `image-resolution` validator on one dimension token: `none` factor = not a resolution; `exact` false:
    -- the unit factor is not a dyadic number (dpi, dpcm), only the verdict is printed
    let exact ← exact.bool?
    pure (match imageResolutionValid (← value.rat?) (← optRat? factor) with
      | none => "ok invalid"
      | some r => if exact then "ok " ++ showRat r else "ok valid")
  | "pngdata", [.list bytes] => do
    -- `RasterImage._get_png_data` on the bytes of the file
    let bytes ← allSome Sx.nat? bytes
    pure (match PngChunks.getPngData bytes with
      | .ok data => "ok (" ++ " ".intercalate (data.map toString) ++ ")"
      | .error e => e.render)
  | "svgattr", [key, .list chain] => do
    -- the attribute `key` on the last element of a chain of nested elements, after `Node.cascade`
    let key ← cpString? key
    let chain ← allSome optCpString? chain
    pure (match SvgViewport.chainAttr Gen.svgNotInherited key chain with
      | none => "ok none"
      | some v => "ok " ++ showCps v)
  | "svgratioc", [vb, .list chain, marker, w, h] => do
    -- `preserve_ratio` on a nested element: `preserveAspectRatio` as written on root … element
    let chain ← allSome optCpString? chain
    let par := SvgViewport.effectivePar Gen.svgNotInherited chain
    let marker ← match marker with
      | .atom "none" => some none
      | .list [a, b] => do pure (some ((← a.rat?), (← b.rat?)))
      | _ => none
    let r := SvgViewport.preserveRatio (← rats? vb) false (none, none) par marker (← w.rat?) (← h.rat?)
    pure (match r with
      | .ok r => "ok " ++ " ".intercalate [showRat r.sx, showRat r.sy, showRat r.tx, showRat r.ty]
      | .error e => e.render)
  | "svgroot", [vb, iw, ih, .list parWords, w, h] => do
    let cps ← allSome Sx.nat? parWords
    let r := SvgViewport.rootTransform (← rats? vb) ((← optRat? iw), (← optRat? ih))
      (String.ofList (cps.map Char.ofNat)) (← w.rat?) (← h.rat?)
    pure (match r with
      | .ok r => "ok " ++ " ".intercalate [showRat r.sx, showRat r.sy, showRat r.tx, showRat r.ty]
      | .error e => e.render)
  | "svgimage", [w, h, iw, ih, ir] => do
    pure (match SvgViewport.imageBox (← w.rat?) (← h.rat?) (← optRat? iw) (← optRat? ih) (← optRat? ir) with
      | .ok (a, b, c, d) => "ok " ++ " ".intercalate [showRat a, showRat b, showRat c, showRat d]
      | .error e => e.render)
  | "svgimagee", [href, loaded, w, h, iw, ih, ir] => do
    pure (match SvgViewport.imageElement (← href.bool?) (← loaded.bool?) (← w.rat?) (← h.rat?) (← optRat? iw)
        (← optRat? ih) (← optRat? ir) with
      | .ok (asked, none) => "ok " ++ toString asked ++ " none"
      | .ok (asked, some (a, b, c, d)) => "ok " ++ toString asked ++ " " ++
          " ".intercalate [showRat a, showRat b, showRat c, showRat d]
      | .error e => e.render)
  | "orientangle", [q] => do
    pure (toString (ImageOrient.computedAngle (← q.rat?)))
  | "orient", [.atom kind, angle, flip, .list rows] => do
    let rows ← allSome (fun r => r.list?.bind (allSome Sx.nat?)) rows
    let a ← angle.nat?
    let f ← flip.bool?
    let o : ImageOrient.Orientation := if kind == "none" then .none else if kind == "from-image" then .fromImage
      else .turn a f
    let r := ImageOrient.rotatePillow (ImageOrient.Img.ofRows 0 rows) o
    pure ("ok " ++ toString r.2 ++ " " ++ toString r.1.w ++ " " ++ toString r.1.h ++ " (" ++
      " ".intercalate (r.1.rows.map (fun row => "(" ++ " ".intercalate (row.map toString) ++ ")")) ++ ")")
  | "prefwidth", [minimum, outer, .list [w, h, minw, maxw, minh, maxh, ml, mr, pl, pr, bl, br], i] => do
    let od (x : Sx) : Option (Option Dim) := match x with
      | .atom "auto" => some none
      | .atom "none" => some none
      | x => (dim? x).map some
    let s : PrefStyle := ⟨← od w, ← od h, ← od minw, ← od maxw, ← od minh, ← od maxh, ← od ml, ← od mr,
      ← dim? pl, ← dim? pr, ← bl.rat?, ← br.rat?⟩
    let i ← intr? i
    let mn ← minimum.bool?
    let ou ← outer.bool?
    let r := if mn then replacedMinContentWidth s i ou else replacedMaxContentWidth s i ou
    pure (out showRat r)
  | "docok", _ => some "ok"          -- a generated document was rendered and read back (structure checks of the harness)
  | "imgcount", [.list draws] => do
    let draws ← allSome draw? draws
    pure (match ImageDedupe.document draws 0 with
      | some st =>
        let names := st.objs.filterMap (fun o => match o with | .image n _ _ => some n | _ => none)
        "ok " ++ toString names.length ++ " (" ++ " ".intercalate names ++ ")"
      | none => "err:KeyError")
  | _, _ => none

end Wp.Drive.Replaced
