import WpModel.Model.Wire
import WpModel.Model.C02Extra
import WpModel.Model.RowEnding

namespace Wp.Drive.C02Extra
open Wp Wp.C02x

def kind? : Sx → Option Kind
  | .atom "line" => some .line
  | .atom "caption" => some .caption
  | .atom "table" => some .table
  | .atom "other" => some .other
  | _ => none

partial def ibox? : Sx → Option IBox
  | .list [k, fl, y, b, .list kids] => do
    pure (.mk (← kind? k) (← fl.bool?) (← y.rat?) (← b.rat?) (← allSome ibox? kids))
  | _ => none

def errClass (e : PyErr) : String := (e.render.splitOn "@").headD ""

/-- Commands:
  `ibaseline <is_table_wrapper> <overflow visible> <position_y> <margin_height> (children…)`
      → the baseline | `err:<Class>`                       (child = `(kind inflow position_y baseline (children…))`)
  `thumb <width> <height> <dpi_ratio>` → `(W H)` asked of `Image.thumbnail`
  `growth <c1> <c2> <c3>` → `ok` | `super-polynomial`
  `row-ending <skip> ((rowspan…)…)` → `ok (row.cell …) …` (the cells ending in each row laid out) | `err:IndexError` -/
def handle (cmd : String) (args : List Sx) : Option String :=
  match cmd, args with
  | "ibaseline", [w, o, y, m, .list kids] => do
    let b : IBlock := { wrapper := (← w.bool?), overflowVisible := (← o.bool?), posY := (← y.rat?),
                        marginHeight := (← m.rat?), kids := (← allSome ibox? kids) }
    match inlineBlockBaseline b with
    | .ok r => pure (showRat r)
    | .error e => pure (errClass e)
  | "thumb", [w, h, r] => do
    let (tw, th) := thumbSize (← w.nat?) (← h.nat?) (← r.rat?)
    pure s!"({tw} {th})"
  | "row-ending", [skip, .list rows] => do
    let spans ← allSome (fun r => r.list?.bind (allSome Sx.nat?)) rows
    match RowEnding.groupEnding spans (← skip.nat?) with
    | .error e => pure (errClass e)
    | .ok out =>
      let showRow := fun (cells : List RowEnding.Cell) =>
        "(" ++ " ".intercalate (cells.map (fun c => s!"{c.1}.{c.2}")) ++ ")"
      pure ("ok " ++ " ".intercalate (out.map showRow))
  | "growth", [a, b, c] => do
    pure (if growthOk (← a.nat?) (← b.nat?) (← c.nat?) then "ok" else "super-polynomial")
  | _, _ => none

end Wp.Drive.C02Extra
