/-
Line protocol for `Model/ContentFns.lean` (strings and styles as in `Drive/Counters`).
  atok ::= (i x<value>) | (s x<value>) | (u x<value>) | attr | comma | other
  link ::= (s x…) | (ui x<fragment>) | ue | attr
  cfn x<function name as written> (atok …)
      → none | (c x<name> style) | (cs x<name> x<sep> style) | (tc link x<name> x<style>)
        | (tcs link x<name> x<sep> x<style>) | (tt link x<mode>)
-/
import WpModel.Model.Wire
import WpModel.Model.ContentFns
import WpModel.Drive.Counters

namespace Wp.Drive.ContentFns
open Wp Wp.Counters Wp.ContentFns Wp.Drive.Counters

def atok? : Sx → Option ATok
  | .list [.atom "i", v] => (str? v).map .ident
  | .list [.atom "s", v] => (str? v).map .str
  | .list [.atom "u", v] => (str? v).map .url
  | .atom "attr" => some .attr
  | .atom "comma" => some .comma
  | .atom "other" => some .other
  | _ => none

def sxLink : Link → Sx
  | .str s => .list [.atom "s", .atom (encodeStr s)]
  | .internal f => .list [.atom "ui", .atom (encodeStr f)]
  | .external => .atom "ue"
  | .attr => .atom "attr"

def sxParsed : Parsed → Sx
  | .counter n st => .list [.atom "c", .atom (encodeStr n), sxCName st]
  | .counters n sep st => .list [.atom "cs", .atom (encodeStr n), .atom (encodeStr sep), sxCName st]
  | .targetCounter l n st => .list [.atom "tc", sxLink l, .atom (encodeStr n), .atom (encodeStr st)]
  | .targetCounters l n sep st =>
    .list [.atom "tcs", sxLink l, .atom (encodeStr n), .atom (encodeStr sep), .atom (encodeStr st)]
  | .targetText l m => .list [.atom "tt", sxLink l, .atom (encodeStr m)]

def handle (cmd : String) (args : List Sx) : Option String :=
  match cmd, args with
  | "cfn", [name, toks] => do
    let name ← str? name
    let toks ← listOf atok? toks
    match contentFn name toks with
    | none => pure "none"
    | some p => pure (sxParsed p).render
  | _, _ => none

end Wp.Drive.ContentFns
