/-
Line protocol of `Model/BoxEdges.lean`.
-/
import WpModel.Model.Wire
import WpModel.Model.BoxEdges

namespace Wp.Drive.BoxEdges
open Wp Wp.BoxEdges

def ebox? : Sx → Option EBox
  | .list [x, y, w, h, ml, mr, mt, mb, pl, pr, pt, pb, bl, br, bt, bb] => do
    pure { x := ← x.rat?, y := ← y.rat?, w := ← w.rat?, h := ← h.rat?, ml := ← ml.rat?, mr := ← mr.rat?,
           mt := ← mt.rat?, mb := ← mb.rat?, pl := ← pl.rat?, pr := ← pr.rat?, pt := ← pt.rat?,
           pb := ← pb.rat?, bl := ← bl.rat?, br := ← br.rat?, bt := ← bt.rat?, bb := ← bb.rat? }
  | _ => none

partial def etree? : Sx → Option ETree
  | .list [x, y, f, .list kids] => do
    let z : Rat := 0
    let b : EBox := { x := ← x.rat?, y := ← y.rat?, w := z, h := z, ml := z, mr := z, mt := z, mb := z,
                      pl := z, pr := z, pt := z, pb := z, bl := z, br := z, bt := z, bb := z }
    pure (.mk b (← f.bool?) (← allSome etree? kids))
  | _ => none

/-- Commands:
  `edges <ebox>`                      → the twelve helpers, in the order of the Python file
  `translate dx dy ignore <etree>`    → preorder `(x y)` positions after `translate` -/
def handle (cmd : String) (args : List Sx) : Option String :=
  match cmd, args with
  | "edges", [b] => do
    let b ← ebox? b
    pure (" ".intercalate ([b.paddingWidth, b.paddingHeight, b.borderWidth, b.borderHeight, b.marginWidth,
      b.marginHeight, b.contentBoxX, b.contentBoxY, b.paddingBoxX, b.paddingBoxY, b.borderBoxX,
      b.borderBoxY].map showRat))
  | "translate", [dx, dy, ig, t] => do
    let t ← etree? t
    let r := translate (← dx.rat?) (← dy.rat?) (← ig.bool?) t
    pure (" ".intercalate ((positions r).map (fun p => "(" ++ showRat p.1 ++ " " ++ showRat p.2 ++ ")")))
  | _, _ => none

end Wp.Drive.BoxEdges
