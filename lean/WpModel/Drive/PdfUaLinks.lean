import WpModel.Model.Wire
import WpModel.Model.PdfUaLinks

/-!
  `ualinks (page (key annot) …) …` → `objr=<annotation of each object reference> nums=<i:objr-annotation …>
                                       sp=<annotation:i …> kids=<number of object references that are a kid of an element>`
-/
namespace Wp.Drive.PdfUaLinks
open Wp Wp.PdfUa

def marked? : Sx → Option Marked
  | .list [.atom key, a] => do some { key := key, annot := ← a.nat? }
  | _ => none

def page? : Sx → Option (List Marked)
  | .list items => allSome marked? items
  | _ => none

def handle (cmd : String) (args : List Sx) : Option String :=
  match cmd, args with
  | "ualinks", pages => do
    let pages ← allSome page? pages
    let u := pdfuaLinks pages
    let annotOf (i : Nat) : String := match u.objrs[i]? with | some a => toString a | none => "?"
    some ("objr=" ++ ",".intercalate (u.objrs.map toString) ++
      " nums=" ++ ",".intercalate (u.nums.filterMap (fun e => match e.2 with
        | .objr i => some (toString e.1 ++ ":" ++ annotOf i) | _ => none)) ++
      " sp=" ++ ",".intercalate (u.structParent.map (fun e => toString e.1 ++ ":" ++ toString e.2)) ++
      " kids=" ++ toString ((List.range u.objrs.length).filter (objrIsKid u)).length)
  | _, _ => none

end Wp.Drive.PdfUaLinks
