/-
Line protocol for the flex model.
  flex (<dir> <wrap> W H mainGap crossGap <justify> <align-items> <align-content>) (<item> …)
    <dir>  = row | row-reverse | column | column-reverse
    <item> = (id order grow shrink basis width height minW maxW minH maxH ml mr mt mb pl pr pt pb bl br bt bb align-self)
             basis = auto | content | q ; `auto` for auto/none lengths
  → `ok h=<container height> (id x y w h) …`   (border boxes relative to the container's content box,
     in the order of the laid-out children)  |  `err:<PythonExceptionClass>`
  flexlines <wrap:bool> M gap (outer …)        → `(n1 n2 …)` sizes of the lines of step 5
  flexresolve <row:bool> M gap (<ritem> …)     → targets of 9.7 for one line
    <ritem> = (base hyp extra grow shrink minMain maxMain sMinW sMaxW)
  magnitude q                                   → int(log10 q) | -inf
-/
import WpModel.Model.Wire
import WpModel.Model.Flex

namespace Wp.Drive.Flex
open Wp Wp.Flex

def justify? : String → Option Justify
  | "center" => some .center | "space-between" => some .spaceBetween
  | "space-around" => some .spaceAround | "space-evenly" => some .spaceEvenly
  | "stretch" => some .stretch | "normal" => some .normal
  | "flex-start" => some .flexStart | "flex-end" => some .flexEnd
  | "start" => some .start | "end" => some .«end» | "left" => some .left | "right" => some .right
  | _ => none

def align? : String → Option Align
  | "auto" => some .auto | "normal" => some .normal | "stretch" => some .stretch
  | "center" => some .center | "start" => some .start | "end" => some .«end»
  | "self-start" => some .selfStart | "self-end" => some .selfEnd
  | "flex-start" => some .flexStart | "flex-end" => some .flexEnd
  | _ => none

def alignContent? : String → Option AlignContent
  | "center" => some .center | "space-between" => some .spaceBetween
  | "space-around" => some .spaceAround | "space-evenly" => some .spaceEvenly
  | "stretch" => some .stretch | "normal" => some .normal
  | "flex-start" => some .flexStart | "flex-end" => some .flexEnd
  | "start" => some .start | "end" => some .«end»
  | _ => none

def wrap? : String → Option Wrap
  | "nowrap" => some .nowrap | "wrap" => some .wrap | "wrap-reverse" => some .wrapReverse
  | _ => none

def dir? : String → Option (Bool × Bool)
  | "row" => some (true, false) | "row-reverse" => some (true, true)
  | "column" => some (false, false) | "column-reverse" => some (false, true)
  | _ => none

def basis? : Sx → Option Basis
  | .atom "auto" => some .auto
  | .atom "content" => some .content
  | x => x.rat?.map .px

def item? : Sx → Option Item
  | .list [id, order, grow, shrink, basis, w, h, minW, maxW, minH, maxH, ml, mr, mt, mb,
           pl, pr, pt, pb, bl, br, bt, bb, al] => do
    pure {
      id := ← id.nat?, order := ← order.int?,
      -- the values as written in the style sheet go through the validator
      grow := computedFactor (← grow.rat?) 0, shrink := computedFactor (← shrink.rat?) 1,
      basis := ← basis? basis, sWidth := ← w.len?, sHeight := ← h.len?,
      sMinW := ← minW.len?, sMaxW := ← maxW.len?, sMinH := ← minH.len?, sMaxH := ← maxH.len?,
      ml := ← ml.len?, mr := ← mr.len?, mt := ← mt.len?, mb := ← mb.len?,
      pl := ← pl.rat?, pr := ← pr.rat?, pt := ← pt.rat?, pb := ← pb.rat?,
      bl := ← bl.rat?, br := ← br.rat?, bt := ← bt.rat?, bb := ← bb.rat?,
      alignSelf := ← al.atom?.bind align? }
  | _ => none

def container? : Sx → Option Container
  | .list [d, wr, w, h, mg, cg, j, ai, ac] => do
    let (row, rev) ← d.atom?.bind dir?
    pure { row := row, reverse := rev, wrap := ← wr.atom?.bind wrap?, width := ← w.rat?,
           height := ← h.len?, mainGap := ← mg.rat?, crossGap := ← cg.rat?,
           justify := ← j.atom?.bind justify?, alignItems := ← ai.atom?.bind align?,
           alignContent := ← ac.atom?.bind alignContent? }
  | _ => none

/-- Python exception class only (the harness compares `err:<Class>`). -/
def errClass (e : PyErr) : String := (e.render.splitOn "@").headD ""

def showRect (r : Rect) : String :=
  "(" ++ toString r.id ++ " " ++ showRat r.x ++ " " ++ showRat r.y ++ " " ++ showRat r.w ++ " " ++
    showRat r.h ++ ")"

def showResult : Except PyErr Result → String
  | .error e => errClass e
  | .ok r => " ".intercalate (("ok h=" ++ showRat r.height) :: r.rects.map showRect)

/-- A bare item for the line-collection / 9.7 commands. -/
def bareItem : Item :=
  { id := 0, order := 0, grow := 0, shrink := 1, basis := .auto, sWidth := none, sHeight := none,
    sMinW := none, sMaxW := none, sMinH := none, sMaxH := none, ml := some 0, mr := some 0,
    mt := some 0, mb := some 0, pl := 0, pr := 0, pt := 0, pb := 0, bl := 0, br := 0, bt := 0,
    bb := 0, alignSelf := .auto }

def bareSt (hyp extra : Rat) : St :=
  { it := bareItem, width := none, height := none, ml := some 0, mr := some 0, mt := some 0,
    mb := some 0, posX := 0, posY := 0, base := hyp, extra := extra, hyp := hyp, target := 0,
    frozen := false, factor := 0, adj := 0 }

def ritem? (row : Bool) : Sx → Option St
  | .list [base, hyp, extra, grow, shrink, mn, mx, sMinW, sMaxW] => do
    let mn ← mn.rat?
    let mx ← mx.len?
    let it : Item := { bareItem with
      grow := ← grow.rat?, shrink := ← shrink.rat?, sMinW := ← sMinW.len?, sMaxW := ← sMaxW.len? }
    let it : Item := if row then { it with sMinW := some mn, sMaxW := mx }
                     else { it with sMinH := some mn, sMaxH := mx }
    pure { bareSt (← hyp.rat?) (← extra.rat?) with it := it, base := ← base.rat? }
  | _ => none

def handle (cmd : String) (args : List Sx) : Option String :=
  match cmd, args with
  | "flex", [c, .list items] => do
    let c ← container? c
    let items ← allSome item? items
    pure (showResult (layout c items))
  | "flexlines", [w, m, g, .list outers] => do
    let w ← w.bool?
    let m ← m.rat?
    let g ← g.rat?
    let outers ← allSome Sx.rat? outers
    let lines := collectLines w m g (outers.map fun o => bareSt o 0) [] 0
    pure ("(" ++ " ".intercalate (lines.map fun l => toString l.length) ++ ")")
  | "flexresolve", [row, m, g, .list items] => do
    let row ← row.bool?
    let m ← m.rat?
    let g ← g.rat?
    let items ← allSome (ritem? row) items
    match resolveLine row m g items with
    | .error e => pure (errClass e)
    | .ok line => pure ("(" ++ " ".intercalate (line.map fun s => showRat s.target) ++ ")")
  | "magnitude", [q] => do
    let q ← q.rat?
    pure (match magnitude q with | none => "-inf" | some k => toString k)
  | _, _ => none

end Wp.Drive.Flex
