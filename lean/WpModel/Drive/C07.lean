/-
Line-protocol handlers of property C07 (declaration funnel, shorthand expanders, units, var()).
Strings travel as atoms with `%HEX;` escapes (see `decodeAtom`); values of the real validators are opaque
atoms (`vN`, interned by the harness); a validation table is an association list
`((actual_name value_id) result)` with `result ::= (ok atom) | invalid | err:Class`.
-/
import WpModel.Model.Wire
import WpModel.Model.Declarations
import WpModel.Model.VarSubst
import WpModel.Model.LengthC07
import WpModel.Model.PendingC07
import WpModel.Model.ExpandersC07
import WpModel.Model.SheetC07
import WpModel.Model.KeywordsC07
import WpModel.Model.DescriptorsC07
import WpModel.Model.NumericC07
import WpModel.Model.TracksC07
import WpModel.Model.GradientC07
import WpModel.Model.GridLineC07
import WpModel.Model.FontFamilyC07

namespace Wp.Drive.C07
open Wp Wp.Decl

/-! ### atoms -/

def hexVal (c : Char) : Nat :=
  if '0' ≤ c && c ≤ '9' then c.toNat - '0'.toNat
  else if 'a' ≤ c && c ≤ 'f' then c.toNat - 'a'.toNat + 10
  else if 'A' ≤ c && c ≤ 'F' then c.toNat - 'A'.toNat + 10
  else 0

/-- `%HEX;` → the character with that code point; `%;` → nothing (the empty string is the atom `%;`). -/
partial def decodeChars : List Char → List Char
  | [] => []
  | '%' :: rest =>
    let hex := rest.takeWhile (· != ';')
    let after := (rest.dropWhile (· != ';')).drop 1
    if hex.isEmpty then decodeChars after
    else Char.ofNat (hex.foldl (fun acc c => acc * 16 + hexVal c) 0) :: decodeChars after
  | c :: rest => c :: decodeChars rest

def decodeAtom (s : String) : String := String.ofList (decodeChars s.toList)

def hexDigits (n : Nat) : List Char := (Nat.toDigits 16 n)

def encodeChar (c : Char) : List Char :=
  if c.toNat > 32 && c.toNat < 127 && c != '(' && c != ')' && c != '%' then [c]
  else '%' :: (hexDigits c.toNat ++ [';'])

def encodeAtom (s : String) : String :=
  if s.isEmpty then "%;" else String.ofList (s.toList.flatMap encodeChar)

def str? (x : Sx) : Option String := x.atom?.map decodeAtom

/-! ### results and tables -/

def res? : Sx → Option (R String)
  | .list [.atom "ok", .atom v] => some (.ok v)
  | .atom s => (Fail.parse s).map .error
  | _ => none

/-- `((name id) result)` entries. -/
abbrev VTable := List ((String × String) × R String)

def vtable? (x : Sx) : Option VTable :=
  x.list?.bind (allSome fun e =>
    match e with
    | .list [.list [n, i], r] => do
      let n ← str? n
      let i ← i.atom?
      let r ← res? r
      pure ((n, i), r)
    | _ => none)

def lookupV (t : VTable) (name id : String) : R String :=
  match t.lookup (name, id) with
  | some r => r
  | none => .error (.other "NoTableEntry")

def head? : Sx → Option Head
  | .atom "inherit" => some .inheritKw
  | .atom "initial" => some .initialKw
  | .atom "var" => some .hasVar
  | .atom "plain" => some .plain
  | _ => none

def showOutV : OutV String → String
  | .kw s => "kw:" ++ s
  | .pending => "pending"
  | .val v => v

def showLonghands (l : Longhands String) : String :=
  "ok" ++ String.join (l.map fun (n, v) => " (" ++ encodeAtom n ++ " " ++ showOutV v ++ ")")

def showR (r : R (Longhands String)) : String :=
  match r with
  | .ok l => showLonghands l
  | .error f => f.render

def fail? (x : Sx) : Option (Option Fail) :=
  match x with
  | .atom "none" => some none
  | .atom s => (Fail.parse s).map some
  | _ => none

/-- Raw items `((new_name value_id) …)`. -/
def items? (x : Sx) : Option (List (String × String)) :=
  x.list?.bind (allSome fun e =>
    match e with
    | .list [n, i] => do pure ((← str? n), (← i.atom?))
    | _ => none)

def joinIds (ids : List String) : String := if ids.isEmpty then "e" else "+".intercalate ids

def optStr? : Sx → Option (Option String)
  | .atom "none" => some none
  | x => (str? x).map some

/-! ### tokens of the modelled expanders -/

def sideTok? : Sx → Option (SideTok String)
  | .list [c, w, s, i] => do
    pure { isColor := ← c.bool?, isWidth := ← w.bool?, isStyle := ← s.bool?, tok := ← i.atom? }
  | _ => none

def listTok? : Sx → Option (ListTok String)
  | .list [n, im, p, t, i] => do
    pure { isNone := ← n.bool?, isImage := ← im.bool?, isPosition := ← p.bool?, isType := ← t.bool?,
           tok := ← i.atom? }
  | _ => none

def decoTok? : Sx → Option (DecoTok String)
  | .list [l, n, s, c, t, i] => do
    pure { isLine := ← l.bool?, isNone := ← n.bool?, isStyle := ← s.bool?, isColor := ← c.bool?,
           isThickness := ← t.bool?, tok := ← i.atom? }
  | _ => none

def colTok? : Sx → Option (ColTok String)
  | .list [a, w, c, i] => do
    pure { isAuto := ← a.bool?, isWidth := ← w.bool?, isCount := ← c.bool?, tok := ← i.atom? }
  | _ => none

def flowTok? : Sx → Option (FlowTok String)
  | .list [d, w, i] => do pure { isDirection := ← d.bool?, isWrap := ← w.bool?, tok := ← i.atom? }
  | _ => none

def gapTok? : Sx → Option (Bool × String)
  | .list [ok, i] => do pure ((← ok.bool?), (← i.atom?))
  | _ => none

def rtok? : Sx → Option (RTok (String × Option String))
  | .atom "slash" => some .slash
  | .list [i, l] => do
    let i ← i.atom?
    let l ← l.atom?
    pure (.tok (i, if l == "none" then none else some l))
  | _ => none

def mapRaw {α β : Type} (f : α → β) (r : Raw α) : Raw β :=
  { items := r.items.map fun (n, a) => (n, f a), ends := r.ends }

/-- A registered generic expander whose wrapped generator is modelled: names from the generated table. -/
def runGeneric (fn name : String) (head : Head) (raw : Raw String) (t : VTable) : Option String :=
  (genericNames fn).map fun names => showR (genericFill names name head raw (lookupV t))

/-! ### funnel -/

def kind? : Sx → Option ItemKind
  | .atom "declaration" => some .declaration
  | .atom "error" => some .error
  | .atom "qualified-rule" => some .qualifiedRule
  | .atom "at-rule" => some .atRule
  | .atom _ => some .other
  | _ => none

def valResult? : Sx → Option (R (List (String × String)))
  | .list (.atom "ok" :: outs) => do
    let outs ← allSome (fun o => match o with
      | .list [n, v] => do pure ((← str? n), (← v.atom?))
      | _ => none) outs
    pure (.ok outs)
  | .atom s => (Fail.parse s).map .error
  | _ => none

/-- `(kind name lower noTokens important ((candidate_name result) …))` -/
def item? (id : Nat) : Sx → Option (Item × List (String × R (List (String × String))))
  | .list [k, n, l, nt, imp, .list tbl] => do
    let item : Item := { kind := ← kind? k, name := ← str? n, lowerName := ← str? l, noTokens := ← nt.bool?,
                         important := ← imp.bool?, id := id }
    let tbl ← allSome (fun e => match e with
      | .list [cn, r] => do pure ((← str? cn), (← valResult? r))
      | _ => none) tbl
    pure (item, tbl)
  | _ => none

def items2? (xs : List Sx) : Option (List (Item × List (String × R (List (String × String))))) :=
  go 0 xs
where
  go (i : Nat) : List Sx → Option (List (Item × List (String × R (List (String × String)))))
    | [] => some []
    | x :: rest => do
      let a ← item? i x
      let b ← go (i + 1) rest
      pure (a :: b)

def showOuts (outs : List (Out String)) : String :=
  "ok" ++ String.join (outs.map fun (n, v, imp) =>
    " (" ++ encodeAtom n ++ " " ++ v ++ " " ++ (if imp then "true" else "false") ++ ")")

/-! ### var() -/

partial def tk? : Sx → Option Var.Tk
  | .atom "ws" => some .ws
  | .atom "comma" => some .comma
  | .list [.atom "id", v] => (str? v).map .ident
  | .list [.atom "leaf", v] => (str? v).map .leaf
  | .list [.atom "fn", n, l, .list args] => do
    pure (.fn (← str? n) (← str? l) (← allSome tk? args))
  | _ => none

partial def tkSx : Var.Tk → Sx
  | .ws => .atom "ws"
  | .comma => .atom "comma"
  | .ident v => .list [.atom "id", .atom (encodeAtom v)]
  | .leaf v => .list [.atom "leaf", .atom (encodeAtom v)]
  | .fn n l args => .list [.atom "fn", .atom (encodeAtom n), .atom (encodeAtom l), .list (args.map tkSx)]

def env? (x : Sx) : Option Var.Env := do
  let entries ← x.list?.bind (allSome fun e =>
    match e with
    | .list [n, .list toks] => do pure ((← str? n), (← allSome tk? toks))
    | _ => none)
  pure fun name => (entries.lookup name).getD []

def showToks (ts : List Var.Tk) : String := (Sx.list (ts.map tkSx)).render

/-! ### lengths -/

def spec? : Sx → Option Len07.Spec
  | .list [.atom "kw", s] => (str? s).map .keyword
  | .list [.atom "dim", v, .atom "none"] => v.rat?.map (.dim · none)
  | .list [.atom "dim", v, u] => do pure (.dim (← v.rat?) (some (← str? u)))
  | _ => none

def absQ (q : Rat) : Rat := if q < 0 then -q else q

/-- How the implementation's float (sent as its exact binary value) sits next to the exact rational. -/
def relation (impl exact : Rat) : String :=
  if impl == exact then "exact"
  else if absQ (impl - exact) * 562949953421312 ≤ absQ exact then "near"     -- 2^-49 relative
  else "far"

def showUnit : Option String → String
  | none => "none"
  | some u => encodeAtom u

def ltok? : Sx → Option Len07.LTok
  | .list [.atom "number", v] => v.rat?.map .number
  | .list [.atom "dimension", v, u, l] => do pure (.dimension (← v.rat?) (← str? u) (← str? l))
  | .list [.atom "percentage", v] => v.rat?.map .percentage
  | .atom "other" => some .other
  | _ => none

def showSpec : Option Len07.Spec → String
  | none => "none"
  | some (.keyword s) => "kw " ++ encodeAtom s
  | some (.dim v u) => "dim " ++ showRat v ++ " " ++ showUnit u

def casc? : Sx → Option (Pending.Casc String)
  | .atom "absent" => some .absent
  | .atom "inherit" => some .inheritKw
  | .atom "initial" => some .initialKw
  | .atom "value" => some (.value "v")
  | .list [.atom "pending", .atom "valid"] => some (.pending (.valid "v"))
  | .list [.atom "pending", .atom "inherit"] => some (.pending .inheritKw)
  | .list [.atom "pending", .atom "initial"] => some (.pending .initialKw)
  | .list [.atom "pending", .atom "invalid"] => some (.pending .invalid)
  | _ => none

def optInt? : Sx → Option (Option Int)
  | .atom "none" => some none
  | x => x.int?.map some

def optRat? : Sx → Option (Option Rat)
  | .atom "none" => some none
  | x => x.rat?.map some

def clampTok? : Sx → Option (ClampTok String)
  | .list [n, num, iv, e, i] => do
    pure { isNone := ← n.bool?, isNumber := ← num.bool?, intValue := ← optInt? iv, ellipsisOk := ← e.bool?,
           tok := ← i.atom? }
  | _ => none

def flexTok? : Sx → Option FlexTok
  | .list [z, b, f, i] => do
    pure { isZeroNumber := ← z.bool?, basisOk := ← b.bool?, factor := ← optRat? f, id := ← i.atom? }
  | _ => none

def fontTok? : Sx → Option (FontTok String)
  | .list [n, st, c, w, sr, sz, sl, lh, i] => do
    pure { isNormal := ← n.bool?, isStyle := ← st.bool?, isCaps := ← c.bool?, isWeight := ← w.bool?,
           isStretch := ← sr.bool?, isSize := ← sz.bool?, isSlash := ← sl.bool?, isLineHeight := ← lh.bool?,
           tok := ← i.atom? }
  | _ => none

def gridLine? : Sx → Option (GridLine String)
  | .list [ok, c, .list ids] => do
    pure { ok := ← ok.bool?, custom := ← c.bool?, toks := ← allSome Sx.atom? ids }
  | _ => none

def trackPart? : Sx → Option (TrackPart String)
  | .list [ok, .list ids] => do pure { ok := ← ok.bool?, toks := ← allSome Sx.atom? ids }
  | _ => none

def gridTok? : Sx → Option (GridTok String)
  | .list [d, a, l, i] => do
    pure { isDense := ← d.bool?, isAutoFlow := ← a.bool?, isLast := ← l.bool?, tok := ← i.atom? }
  | _ => none

def optBool? : Sx → Option (Option Bool)
  | .atom "none" => some none
  | x => x.bool?.map some

def optNat? : Sx → Option (Option Nat)
  | .atom "none" => some none
  | x => x.nat?.map some

partial def rule? : Sx → Option Sheet.Rule
  | .atom "nc" => some .noContent
  | .atom "fontface" => some .fontFace
  | .atom "other" => some .otherAt
  | .list [.atom "counter", ok] => ok.bool?.map .counterStyle
  | .list [.atom "style", id, ok, .list ps, d] => do
    pure (.style (← id.nat?) (← ok.bool?) (← allSome Sx.bool? ps) (← d.bool?))
  | .list [.atom "import", u, f, .list rules] => do
    pure (.importRule (← u.bool?) (← f.bool?) (← allSome rule? rules))
  | .list [.atom "media", q, .list rules] => do pure (.media (← optBool? q) (← allSome rule? rules))
  | .list [.atom "page", id, n, d, .list ms] => do
    let ms ← allSome (fun m => match m with
      | .list [name, h] => do pure ((← str? name), (← h.bool?))
      | _ => none) ms
    pure (.page (← id.nat?) (← optNat? n) (← d.bool?) ms)
  | _ => none

/-! ### grid track lists -/

def breadth? : Sx → Option Tracks07.Breadth
  | .list [.atom "kw", s] => (str? s).map .kw
  | .list [.atom "dim", v, .atom "none"] => v.rat?.map (.dim · none)
  | .list [.atom "dim", v, u] => do pure (.dim (← v.rat?) (some (← str? u)))
  | _ => none

partial def track? : Sx → Option Tracks07.Track
  | .list (.atom "names" :: ns) => (allSome str? ns).map .names
  | .list [.atom "breadth", b] => (breadth? b).map .breadth
  | .list [.atom "minmax", a, b] => do pure (.minmax (← breadth? a) (← breadth? b))
  | .list [.atom "fit", v, .atom "none"] => v.rat?.map (.fitContent · none)
  | .list [.atom "fit", v, u] => do pure (.fitContent (← v.rat?) (some (← str? u)))
  | .list [.atom "rep", n, .list ts] => do pure (.rep (← str? n) (← allSome track? ts))
  | .list [.atom "other", t] => (str? t).map .other
  | _ => none

def breadthSx : Tracks07.Breadth → Sx
  | .kw s => .list [.atom "kw", .atom (encodeAtom s)]
  | .dim v u => .list [.atom "dim", .atom (showRat v), .atom (showUnit u)]

partial def trackSx : Tracks07.Track → Sx
  | .names l => .list (.atom "names" :: l.map fun n => .atom (encodeAtom n))
  | .breadth b => .list [.atom "breadth", breadthSx b]
  | .minmax a b => .list [.atom "minmax", breadthSx a, breadthSx b]
  | .fitContent v u => .list [.atom "fit", .atom (showRat v), .atom (showUnit u)]
  | .rep n ts => .list [.atom "rep", .atom (encodeAtom n), .list (ts.map trackSx)]
  | .other t => .list [.atom "other", .atom (encodeAtom t)]

/-! ### gradient images -/

def gdim? : Sx → Option Grad07.Dim
  | .list [.atom "d", v, .atom "none"] => v.rat?.map (·, none)
  | .list [.atom "d", v, u] => do pure ((← v.rat?), some (← str? u))
  | _ => none

def gstop? : Sx → Option (Option Grad07.Dim)
  | .atom "none" => some none
  | x => (gdim? x).map some

def gimage? : Sx → Option Grad07.Image
  | .list [.atom "other", k] => (str? k).map .other
  | .list [.atom "linear", .list stops] => do
    pure (.linear { stops := ← allSome gstop? stops, center := none, explicitSize := none })
  | .list [.atom "radial", .list stops, c, sz] => do
    let center : Option (Grad07.Dim × Grad07.Dim) ← (match c with
      | .atom "none" => some none
      | .list [a, b] => do pure (some ((← gdim? a), (← gdim? b)))
      | _ => none)
    let size : Option (List Grad07.Dim) ← (match sz with
      | .atom "none" => some none
      | .list ds => (allSome gdim? ds).map some
      | _ => none)
    pure (.radial { stops := ← allSome gstop? stops, center := center, explicitSize := size })
  | _ => none

def gdimSx (d : Grad07.Dim) : Sx := .list [.atom "d", .atom (showRat d.1), .atom (showUnit d.2)]

def gstopSx : Option Grad07.Dim → Sx
  | none => .atom "none"
  | some d => gdimSx d

def gimageSx : Grad07.Image → Sx
  | .other k => .list [.atom "other", .atom (encodeAtom k)]
  | .linear g => .list [.atom "linear", .list (g.stops.map gstopSx)]
  | .radial g => .list [.atom "radial", .list (g.stops.map gstopSx),
      (match g.center with | none => .atom "none" | some c => .list [gdimSx c.1, gdimSx c.2]),
      (match g.explicitSize with | none => .atom "none" | some l => .list (l.map gdimSx))]

/-! ### the handler -/

def handle (cmd : String) (args : List Sx) : Option String :=
  match cmd, args with
  | "echo", [x] => some x.render
  -- funnel: items with their validation tables
  | "funnel", items => do
    let its ← items2? items
    let tables := its.map fun (it, tbl) => (it.id, tbl)
    let validate (name : String) (d : Item) : R (List (String × String)) :=
      match tables.lookup d.id with
      | some tbl => (tbl.lookup name).getD (.error (.other "NoTableEntry"))
      | none => .error (.other "NoTableEntry")
    match preprocess validate (its.map (·.1)) with
    | .ok outs => pure (showOuts outs)
    | .error f => pure f.render
  | "effective", [n, l] => do
    let item : Item := { kind := .declaration, name := ← str? n, lowerName := ← str? l, noTokens := false,
                         important := false, id := 0 }
    pure (match effectiveName item with | some s => encodeAtom s | none => "skip")
  -- generic_expander_wrapper around the *real* wrapped generator (all generic expanders)
  | "generic", [fn, name, hd, items, ends, tbl] => do
    let raw : Raw String := { items := ← items? items, ends := ← fail? ends }
    runGeneric (← str? fn) (← str? name) (← head? hd) raw (← vtable? tbl)
  | "expander-fn", [key] => do
    pure (match expanderFn (← str? key) with | some f => f | none => "none")
  | "four", [name, hasVar, .list toks, tbl] => do
    let t ← vtable? tbl
    pure (showR (expandFourSides (← str? name) (← hasVar.bool?) (← allSome Sx.atom? toks) (lookupV t)))
  | "four-names", [name] => do
    pure ("ok" ++ String.join ((fourSideNames (← str? name)).map fun n => " " ++ encodeAtom n))
  | "radius", [name, hd, .list toks] => do
    let toks ← allSome rtok? toks
    let names ← genericNames "border_radius"
    let pairOf (p : (String × Option String) × (String × Option String)) : Option (String × String) :=
      borderCornerRadius [p.1.2, p.2.2]
    let validPair (_ : String) (p : (String × Option String) × (String × Option String)) : R Unit :=
      match pairOf p with | some _ => pure () | none => throw .invalid
    let validate (_ : String) (p : (String × Option String) × (String × Option String)) : R String :=
      match pairOf p with
      | some (a, b) => pure ("(pair " ++ a ++ " " ++ b ++ ")")
      | none => throw .invalid
    pure (showR (genericFill names (← str? name) (← head? hd) (borderRadiusRaw toks validPair) validate))
  | "side", [name, hd, .list toks, tbl] => do
    let t ← vtable? tbl
    pure (showR (expandBorderSide (← str? name) (← head? hd) (← allSome sideTok? toks) (lookupV t)))
  | "border", [name, hd, .list toks, tbl] => do
    let t ← vtable? tbl
    pure (showR (expandBorder (← str? name) (← head? hd) (← allSome sideTok? toks) (lookupV t)))
  | "list-style", [name, hd, .list toks, tbl] => do
    let t ← vtable? tbl
    pure (showR (expandListStyle (← str? name) (← head? hd) (← allSome listTok? toks) (lookupV t)))
  | "text-decoration", [name, hd, .list toks, tbl] => do
    let raw := mapRaw joinIds (textDecorationRaw (← allSome decoTok? toks))
    runGeneric "expand_text_decoration" (← str? name) (← head? hd) raw (← vtable? tbl)
  | "columns", [name, hd, .list toks, autoTok, tbl] => do
    let raw := columnsRaw (← allSome colTok? toks) (← autoTok.atom?)
    runGeneric "expand_columns" (← str? name) (← head? hd) raw (← vtable? tbl)
  | "flex-flow", [name, hd, .list toks, tbl] => do
    runGeneric "expand_flex_flow" (← str? name) (← head? hd) (flexFlowRaw (← allSome flowTok? toks)) (← vtable? tbl)
  | "gap", [name, hd, .list toks, tbl] => do
    let raw := mapRaw joinIds (gapRaw (← allSome gapTok? toks))
    runGeneric "expand_gap" (← str? name) (← head? hd) raw (← vtable? tbl)
  | "rename", [fn, name, hd, newName, ok, toks, tbl] => do
    let raw := renameRaw (← str? newName) (← ok.bool?) (← toks.atom?)
    runGeneric (← str? fn) (← str? name) (← head? hd) raw (← vtable? tbl)
  | "page-break", [fn, name, hd, kw, toks, pageTok, tbl] => do
    let nm ← str? name
    let raw := pageBreakRaw nm (← optStr? kw) (← toks.atom?) (← pageTok.atom?)
    runGeneric (← str? fn) nm (← head? hd) raw (← vtable? tbl)
  | "text-align", [name, hd, n, kw, tok, jt, st, tbl] => do
    let raw := textAlignRaw (← n.nat?) (← optStr? kw) (← tok.atom?) (← jt.atom?) (← st.atom?)
    runGeneric "expand_text_align" (← str? name) (← head? hd) raw (← vtable? tbl)
  | "descriptors", [rule, .list items] => do
    let parsed ← allSome (fun x => match x with
      | .list [k, n, imp, nt, r] => do
        let res : R (Option String) ← (match r with
          | .atom "none" => some (.ok none)
          | .list [.atom "ok", .atom v] => some (.ok (some v))
          | .atom s => (Fail.parse s).map .error
          | _ => none)
        pure ((← kind? k), (← str? n), (← imp.bool?), (← nt.bool?), res)
      | _ => none) items
    let indexed := parsed.zipIdx
    let descs : List Desc := indexed.map fun ((k, n, imp, nt, _), i) =>
      { kind := k, name := n, important := imp, noTokens := nt, id := i }
    let validate (_ : String) (d : Desc) : R (Option String) :=
      match indexed.find? (fun (_, i) => i == d.id) with
      | some ((_, _, _, _, r), _) => r
      | none => .error (.other "NoTableEntry")
    pure (match preprocessDescriptors (← str? rule) validate descs with
      | .ok outs => "ok" ++ String.join (outs.map fun (n, v) => " (" ++ encodeAtom n ++ " " ++ v ++ ")")
      | .error f => f.render)
  | "font-variant", [name, hd, kw, .list toks, tbl] => do
    let toks ← allSome (fun x => match x with
      | .list [n, f, i] => do
        pure ({ isNormal := ← n.bool?, feature := ← optStr? f, tok := ← i.atom? } : VariantTok String)
      | _ => none) toks
    let kw : Option String ← kw.atom?.map fun a => match a.toList with
      | 'i' :: ':' :: rest => some (decodeAtom (String.ofList rest))
      | _ => none
    let raw := mapRaw joinIds (fontVariantRaw kw "normal" "none" toks)
    runGeneric "font_variant" (← str? name) (← head? hd) raw (← vtable? tbl)
  | "keyword-validator", [name, .list parts] => do
    let ktok? (x : Sx) : Option Kw.KTok :=
      x.atom?.map fun a => match a.toList with
        | 'i' :: ':' :: rest => some (decodeAtom (String.ofList rest))
        | _ => none
    let parts ← allSome (fun p => p.list?.bind (allSome ktok?)) parts
    pure (match Kw.validate (← str? name) parts with
      | none => "not-keyword-only"
      | some none => "invalid"
      | some (some kws) => "ok" ++ String.join (kws.map fun k => " " ++ encodeAtom k))
  | "numeric-validator", [name, .list toks] => do
    let ntok? (x : Sx) : Option Num07.NTok := match x with
      | .list [iv, kw, lt] => do
        let kw : Option String ← kw.atom?.map fun a => match a.toList with
          | 'i' :: ':' :: rest => some (decodeAtom (String.ofList rest))
          | _ => none
        pure { intValue := ← optInt? iv, keyword := kw, ltok := ← ltok? lt }
      | _ => none
    pure (match Num07.validate (← str? name) (← allSome ntok? toks) with
      | none => "not-numeric"
      | some none => "invalid"
      | some (some (.int n)) => "int " ++ toString n
      | some (some (.kw k)) => "kw " ++ encodeAtom k
      | some (some (.num q)) => "num " ++ showRat q
      | some (some (.len s)) => showSpec (some s))
  | "track-template", [fs, rfs, ex, ch, tpl] => do
    let ctx : Len07.FontCtx := { fontSize := ← fs.rat?, rootFontSize := ← rfs.rat?, exRatio := ← ex.rat?,
                                 chRatio := ← ch.rat? }
    let tpl : Tracks07.Template ← (match tpl with
      | .atom "none" => some .none
      | .atom "subgrid" => some .subgrid
      | .list (.atom "tracks" :: ts) => (allSome track? ts).map .tracks
      | _ => none)
    pure (match Tracks07.gridTemplate ctx tpl with
      | .none => "none"
      | .subgrid => "subgrid"
      | .tracks ts => (Sx.list (.atom "tracks" :: ts.map trackSx)).render)
  | "track-auto", [fs, rfs, ex, ch, .list ts] => do
    let ctx : Len07.FontCtx := { fontSize := ← fs.rat?, rootFontSize := ← rfs.rat?, exRatio := ← ex.rat?,
                                 chRatio := ← ch.rat? }
    pure (Sx.list ((Tracks07.gridAuto ctx (← allSome track? ts)).map trackSx)).render
  | "font-family", [.list parts] => do
    let ftok? (x : Sx) : Option Font07.FTok := match x with
      | .list [.atom "s", v] => (str? v).map .str
      | .list [.atom "i", v] => (str? v).map .ident
      | .atom "x" => some .other
      | _ => none
    let parts ← allSome (fun p => p.list?.bind (allSome ftok?)) parts
    pure (match Font07.fontFamily parts with
      | none => "invalid"
      | some fs => "ok" ++ String.join (fs.map fun f => " " ++ encodeAtom f))
  | "opacity", [tok] => do
    pure (match Num07.opacityValidate (← ltok? tok) with
      | none => "invalid"
      | some q => "num " ++ showRat q)
  | "grid-line", [.list toks] => do
    let gtok? (x : Sx) : Option GridLine07.GTok := match x with
      | .list [.atom "id", l, v] => do pure (.ident (← str? l) (← str? v))
      | .list [.atom "int", n] => n.int?.map .int
      | .atom "other" => some .other
      | _ => none
    let optS (o : Option String) : String := match o with | none => "none" | some v => encodeAtom v
    pure (match GridLine07.gridLine (← allSome gtok? toks) with
      | none => "invalid"
      | some .auto => "auto"
      | some (.line sp num id) =>
        "line " ++ (if sp then "span" else "none") ++ " " ++
          (match num with | none => "none" | some n => toString n) ++ " " ++ optS id)
  | "image-computer", [fs, rfs, ex, ch, name, .list images] => do
    let ctx : Len07.FontCtx := { fontSize := ← fs.rat?, rootFontSize := ← rfs.rat?, exRatio := ← ex.rat?,
                                 chRatio := ← ch.rat? }
    let out := Grad07.computeProperty ctx (← str? name) (← allSome gimage? images)
    pure (Sx.list (out.map gimageSx)).render
  | "length-list", [name, .list toks] => do
    let showPair (p : Len07.Spec × Len07.Spec) : String := showSpec (some p.1) ++ " | " ++ showSpec (some p.2)
    pure (match Num07.validateLengthList (← str? name) (← allSome ltok? toks) with
      | none => "not-length-list"
      | some none => "invalid"
      | some (some p) => "ok " ++ showPair p)
  -- reference: which single tokens a <length> / <length-percentage> grammar with the given range takes
  | "length-flags", [neg, pct, .list toks] => do
    let neg ← neg.bool?
    let pct ← pct.bool?
    let toks ← allSome ltok? toks
    pure (String.ofList (toks.map fun t => if (Len07.getLength neg pct t).isSome then '1' else '0'))
  | "image-resolution", [tok, impl] => do
    let implQ := impl.rat?.getD 0
    pure (match Num07.imageResolution (← ltok? tok) with
      | none => "invalid"
      | some q => "ok " ++ (match relation implQ q with | "exact" => (if q.den ≤ 1000000 then "exact" else "near") | r => r))
  | "get-resolution", [tok, impl] => do
    let implQ := impl.rat?.getD 0
    pure (match Num07.getResolution (← ltok? tok) with
      | none => "none"
      | some q => "ok " ++ (if q < 0 then "neg" else if q == 0 then "zero" else "pos") ++ " " ++
          (match relation implQ q with | "exact" => (if q.den ≤ 1000000 then "exact" else "near") | r => r))
  | "sheet", [ig, .list rules] => do
    let (events, ig') := Sheet.processRules (← ig.bool?) (← allSome rule? rules)
    let _ := ig'
    let isSel (e : Sheet.Event) : Bool := match e with | .selector _ _ => true | _ => false
    pure ("ok" ++ String.join ((events.filter isSel).map fun e => " " ++ e.render) ++ " |" ++
      String.join ((events.filter (fun e => !isSel e)).map fun e => " " ++ e.render))
  | "place", [fn, name, hd, tbl] => do
    runGeneric (← str? fn) (← str? name) (← head? hd) placeRaw (← vtable? tbl)
  | "line-clamp", [name, hd, .list toks, tbl] => do
    let raw := lineClampRaw "none" "auto" "discard" (← allSome clampTok? toks)
    runGeneric "expand_line_clamp" (← str? name) (← head? hd) raw (← vtable? tbl)
  | "flex", [name, hd, singleNone, .list toks, tbl] => do
    let raw := flexRaw (← singleNone.bool?) (fun q => "n:" ++ showRat q) "0px" "auto" (← allSome flexTok? toks)
    runGeneric "expand_flex" (← str? name) (← head? hd) raw (← vtable? tbl)
  | "font", [name, hd, systemFont, .list toks, .list famOk, tbl] => do
    let byLen ← allSome Sx.bool? famOk
    let familyOk (rest : List (FontTok String)) : Bool := byLen.getD rest.length false
    let raw := mapRaw joinIds (fontRaw (← systemFont.bool?) familyOk (← allSome fontTok? toks))
    runGeneric "expand_font" (← str? name) (← head? hd) raw (← vtable? tbl)
  | "grid-lines", [fn, name, hd, .list lines, tbl] => do
    let fn ← str? fn
    let lines ← allSome gridLine? lines
    let raw := if fn == "expand_grid_area" then gridAreaRaw ["auto"] lines else gridColumnRowRaw ["auto"] lines
    runGeneric fn (← str? name) (← head? hd) (mapRaw joinIds raw) (← vtable? tbl)
  | "grid-template", [name, hd, singleNone, .list parts, tbl] => do
    let raw := gridTemplateRaw (← singleNone.bool?) ["none"] (← allSome trackPart? parts)
    runGeneric "expand_grid_template" (← str? name) (← head? hd) (mapRaw joinIds raw) (← vtable? tbl)
  | "grid", [name, hd, singleNone, .list parts, .list sides, tbl] => do
    let template := gridTemplateRaw (← singleNone.bool?) ["none"] (← allSome trackPart? parts)
    let sides ← allSome (fun s => s.list?.bind (allSome gridTok?)) sides
    let raw := gridRaw template "auto" "none" "row" "column" sides
    runGeneric "expand_grid" (← str? name) (← head? hd) (mapRaw joinIds raw) (← vtable? tbl)
  | "border-image", [fn, name, hd, withMode, n, .list src, .list mode, .list rep, .list fill, .list slash,
      .list slices, .list widths, .list outsets, tbl] => do
    let bools (xs : List Sx) : Option (Nat → Bool) := do
      let bs ← allSome Sx.bool? xs
      pure fun i => bs.getD i false
    let pairs (xs : List Sx) : Option (Nat → Nat → Bool) := do
      let ps ← allSome (fun x => match x with
        | .list [i, j] => do pure ((← i.nat?), (← j.nat?))
        | _ => none) xs
      pure fun i j => ps.contains (i, j)
    let o : ImageOracle := { n := ← n.nat?, sourceOk := ← bools src, modeOk := ← bools mode, repeatOk := ← bools rep,
                             isFill := ← bools fill, isSlash := ← bools slash, sliceOk := ← pairs slices,
                             widthOk := ← pairs widths, outsetOk := ← pairs outsets }
    let raw := mapRaw joinIds (borderImageRaw o (← withMode.bool?))
    runGeneric (← str? fn) (← str? name) (← head? hd) raw (← vtable? tbl)
  | "background", [hd, .list layers, .list initials] => do
    let optAtom? (x : Sx) : Option (Option String) := x.atom?.map fun a => if a == "none" then none else some a
    let opts (xs : List Sx) : Option (Nat → Option String) := do
      let vs ← allSome optAtom? xs
      pure fun i => (vs.getD i none)
    let triples (xs : List Sx) : Option (Nat → Nat → Option String) := do
      let ts ← allSome (fun x => match x with
        | .list [p, l, .atom v] => do pure (((← p.nat?), (← l.nat?)), v)
        | _ => none) xs
      pure fun p l => ts.lookup (p, l)
    let layer? (x : Sx) : Option BgOracle := match x with
      | .list [n, .list r2, .list r1, .list c, .list im, .list att, .list pos, .list sz, .list bx, .list sl] => do
        let slash ← allSome Sx.bool? sl
        pure { n := ← n.nat?, repeatFirst := ← opts r2, repeatOne := ← opts r1, color := ← opts c, image := ← opts im,
               attachment := ← opts att, position := ← triples pos, size := ← triples sz, box := ← opts bx,
               isSlash := fun i => slash.getD i false }
      | _ => none
    let layers ← allSome layer? layers
    let inits ← allSome (fun x => match x with
      | .list [n, .atom v] => do pure ((← str? n), v)
      | _ => none) initials
    let initial (n : String) : String := (inits.lookup n).getD "?"
    let names := bgNames
    pure (match ← head? hd with
      | .inheritKw => "ok" ++ String.join (names.map fun n => " (" ++ n ++ " kw:inherit)")
      | .initialKw => "ok" ++ String.join (names.map fun n => " (" ++ n ++ " kw:initial)")
      | .hasVar => "ok" ++ String.join (names.map fun n => " (" ++ n ++ " pending)")
      | .plain =>
        match backgroundExpand layers initial with
        | none => "invalid"
        | some (rows, color) =>
          "ok" ++ String.join (rows.map fun (n, vs) => " (" ++ n ++ String.join (vs.map (" " ++ ·)) ++ ")") ++
            " (background-color " ++ color ++ ")")
  | "pending-expander", [name, wanted, items, ends] => do
    let gen : Raw String := { items := ← items? items, ends := ← fail? ends }
    pure (match pendingExpanderValidate (← str? name) gen (← str? wanted) with
      | .ok v => "ok " ++ v
      | .error f => f.render)
  | "vns", [name, required, hasVar, kw, raw, fnres] => do
    let fr : R (Option String) ← (match fnres with
      | .atom "none" => some (.ok none)
      | .list [.atom "ok", .atom v] => some (.ok (some v))
      | .atom s => (Fail.parse s).map .error
      | _ => none)
    let r := validateNonShorthand (← str? name) (← required.bool?) (← hasVar.bool?) (← optStr? kw)
      (← raw.atom?) (fun _ => fr)
    pure (match r with
      | .ok (n, v) => "ok (" ++ encodeAtom n ++ " " ++ showOutV v ++ ")"
      | .error f => f.render)
  -- units
  | "unit", [u, implFloat] => do
    let u ← str? u
    let f ← implFloat.rat?
    pure (match Len07.factor u with
      | some k => showRat k ++ " " ++ relation f k
      | none => "none")
  | "length", [fs, rfs, ex, ch, po, spec, impl] => do
    let ctx : Len07.FontCtx := { fontSize := ← fs.rat?, rootFontSize := ← rfs.rat?, exRatio := ← ex.rat?,
                                 chRatio := ← ch.rat? }
    let out := Len07.length ctx (← po.bool?) (← spec? spec)
    let implQ := impl.rat?.getD 0
    pure (match out with
      | .keyword s => "kw " ++ encodeAtom s
      | .number q => "number " ++ showRat q ++ " " ++ relation implQ q
      | .dim q u => "dim " ++ showRat q ++ " " ++ showUnit u ++ " " ++ relation implQ q)
  | "get-length", [neg, pct, tok] => do
    pure (showSpec (Len07.getLength (← neg.bool?) (← pct.bool?) (← ltok? tok)))
  -- validator (get_length with the property's flags) then computer (length): `rejected` or the computed value
  | "length-pipeline", [neg, pct, fs, rfs, ex, ch, po, tok, impl] => do
    let ctx : Len07.FontCtx := { fontSize := ← fs.rat?, rootFontSize := ← rfs.rat?, exRatio := ← ex.rat?,
                                 chRatio := ← ch.rat? }
    let implQ := impl.rat?.getD 0
    let po ← po.bool?
    pure (match Len07.getLength (← neg.bool?) (← pct.bool?) (← ltok? tok) with
      | none => "rejected"
      | some spec =>
        match Len07.length ctx po spec with
        | .keyword s => "kw " ++ encodeAtom s
        | .number q => "number " ++ showRat q ++ " " ++ relation implQ q
        | .dim q u => "dim " ++ showRat q ++ " " ++ showUnit u ++ " " ++ relation implQ q)
  -- ComputedStyle.__missing__ selection
  | "select", [key, hasParent, c] => do
    pure (match Pending.select (← str? key) (← hasParent.bool?) (← casc? c) with
      | .ok (.specified _) => "specified"
      | .ok .parent => "parent"
      | .ok .initial => "initial"
      | .error f => f.render)
  -- Pending.solve: a sequence of calls on one shared object
  | "pending-solve", [.list calls] => do
    let calls ← allSome (fun x => match x with
      | .list [nt, r] => do pure ((← nt.bool?), (← res? r))
      | _ => none) calls
    let outs := Pending.solveSeq false calls
    pure (" ".intercalate (outs.map fun o =>
      (match o.result with | .ok v => "ok:" ++ v | .error f => f.render) ++ (if o.warned then "/w" else "/-")))
  -- var()
  | "check-var", [tok] => do pure (toString (Var.checkVar (← tk? tok)))
  | "parse-function", [tok] => do
    pure (match Var.parseFunction (← tk? tok) with
      | some (l, a) => "ok " ++ encodeAtom l ++ " " ++ showToks a
      | none => "none")
  | "resolve", [fuel, env, tok] => do
    pure (match Var.resolveVar (← env? env) [] (← fuel.nat?) (← tk? tok) with
      | .ok none => "none"
      | .ok (some ts) => "ok " ++ showToks ts
      | .error f => f.render)
  | "resolve-tokens", [fuel, env, .list toks] => do
    pure (match Var.resolveTokens (← env? env) (← fuel.nat?) (← allSome tk? toks) with
      | .ok ts => "ok " ++ showToks ts
      | .error f => f.render)
  | "subst", [fuel, env, .list toks] => do
    let env ← env? env
    let fuel ← fuel.nat?
    let parts := (← allSome tk? toks).map (Var.subst env fuel)
    pure (match allSome id parts with
      | some ps => "ok " ++ showToks ps.flatten
      | none => "out-of-fuel")
  | _, _ => none

end Wp.Drive.C07
