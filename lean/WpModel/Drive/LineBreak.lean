/-
Line protocol of the C09 model.
  text atoms: `t:` followed by the characters, U+0020 written `_`, U+000A written `|`, U+00A0 written `~`
  sfl  <heur> <text> <ws> <wb> <ow> <fs> <maxw> <is_line_start> <minimum>  → (length resume width text)
  stb  <text> <ws> <wb> <ow> <fs> <maxw> <skip> <is_line_start>            → (child resume preserved)
  align <all> <last> <ws> <rtl> <lastline> <line.width> <avail> <tree>     → (offset tree)
  para <text> <ws> <wb> <ow> <fs> <lh> <cbx> <width> <indent> <all> <last> <rtl> <y> → ((x y w h child) …)
  pango <text> <width|none> <wrapchar> <hyph> <fs>                         → (length resume width)
  sfw  <text> <ws> <index>                                                 → index | continue
  rlw  <text> <ws> <wb> <ow> <fs> <maxw> <skip>   split_text_box then remove_last_whitespace → (text width removed) | none
Python exceptions are printed `err:<Class>` (the site is dropped: the harness sees only the class).
-/
import WpModel.Model.Wire
import WpModel.Model.LineBreak
import WpModel.Model.LineBreakTrace

namespace Wp.Drive.LineBreak
open Wp Wp.Py Wp.Pango Wp.LB

def decodeText (s : String) : Option Text :=
  if s.startsWith "t:" then
    some ((s.toList.drop 2).map (fun c =>
      if c = '_' then ' ' else if c = '|' then '\n' else if c = '~' then '\u00a0' else c))
  else none

def encodeText (t : Text) : String :=
  "t:" ++ String.ofList (t.map (fun c => if c = ' ' then '_' else if c = '\n' then '|' else c))

def text? (x : Sx) : Option Text := x.atom?.bind decodeText

def maxw? (x : Sx) : Option MaxW :=
  match x with
  | .atom "none" => some .none
  | .atom "inf" => some .inf
  | .atom s => (parseRat s).map .fin
  | _ => none

def optNat (o : Option Nat) : Sx :=
  match o with
  | none => .atom "none"
  | some n => sxNat n

def errStr (e : PyErr) : String := (e.render.splitOn "@").headD ""

def style? (ws wb ow fs : Sx) : Option Style := do
  let ws ← ws.atom?.bind WS.ofCss?
  let wb ← wb.atom?.bind WB.ofCss?
  let ow ← ow.atom?.bind OW.ofCss?
  let fs ← fs.rat?
  pure { ws := ws, wb := wb, ow := ow, fs := fs }

def resSx (r : Res) : Sx :=
  .list [sxNat r.length, optNat r.resume, sxRat r.width, .atom (encodeText r.text)]

partial def ibox? : Sx → Option IBox
  | .list [.atom "t", x, w, t] => do
    -- `box.text.count(' ') + box.text.count('\u00a0')`
    let txt ← text? t
    pure (.text (← x.rat?) (← w.rat?) (count txt ' ' + count txt '\u00a0'))
  | .list [.atom "i", x, w, rtl, .list kids] => do
    pure (.inl (← x.rat?) (← w.rat?) (← rtl.bool?) (← allSome ibox? kids))
  | .list [.atom "a", x, f, .list kids] => do
    pure (.atom (← x.rat?) (← f.bool?) (← allSome ibox? kids))
  | _ => none

partial def iboxSx : IBox → Sx
  | .text x w s => .list [.atom "t", sxRat x, sxRat w, sxNat s]
  | .inl x w rtl kids => .list [.atom "i", sxRat x, sxRat w, sxBool rtl, .list (kids.map iboxSx)]
  | .atom x f kids => .list [.atom "a", sxRat x, sxBool f, .list (kids.map iboxSx)]

def alignLast? (x : Sx) : Option (Option Align) :=
  match x with
  | .atom "auto" => some none
  | .atom s => (Align.ofCss? s).map some
  | _ => none

def outLineSx (l : OutLine) : Sx :=
  .list [sxRat l.x, sxRat l.y, sxRat l.w, sxRat l.h,
    (match l.child with
     | none => .atom "none"
     | some (t, x, w) => .list [.atom (encodeText t), sxRat x, sxRat w])]

def render (r : Except PyErr Sx) : String :=
  match r with
  | .ok s => s.render
  | .error e => errStr e

def handle (cmd : String) (args : List Sx) : Option String :=
  match cmd, args with
  | "sfl", [heur, text, ws, wb, ow, fs, maxw, ils, mn] => do
    let st ← style? ws wb ow fs
    let r := splitFirstLineH (← heur.bool?) st (← text? text) (← maxw? maxw) (← ils.bool?) (← mn.bool?)
    pure (render (r.map resSx))
  | "sfl-branches", [text, ws, wb, ow, fs, maxw, ils, mn] => do
    let st ← style? ws wb ow fs
    pure (" ".intercalate (Wp.LBTrace.trace st (← text? text) (← maxw? maxw) (← ils.bool?) (← mn.bool?)))
  | "sfl-all-branches", [] => pure (" ".intercalate Wp.LBTrace.allBranches)
  | "stb", [text, ws, wb, ow, fs, maxw, skip, ils] => do
    let st ← style? ws wb ow fs
    let r := splitTextBox st (← text? text) (← maxw? maxw) (← skip.nat?) (← ils.bool?)
    pure (render (r.map (fun s => .list [
      (match s.child with
       | none => .atom "none"
       | some c => .list [.atom (encodeText c.text), sxRat c.width]),
      optNat s.resume, sxBool s.preserved])))
  | "align", [all, last, ws, rtl, lastLine, lw, avail, tree] => do
    let s : AlignStyle := { alignAll := ← all.atom?.bind Align.ofCss?, alignLast := ← alignLast? last,
                            ws := ← ws.atom?.bind WS.ofCss?, rtl := ← rtl.bool? }
    let r := textAlign s (← ibox? tree) (← lw.rat?) (← avail.rat?) (← lastLine.bool?)
    pure (render (r.map (fun (off, t) => .list [sxRat off, iboxSx t])))
  | "para", [text, ws, wb, ow, fs, lh, cbx, width, indent, all, last, rtl, y] => do
    let st ← style? ws wb ow fs
    let a : AlignStyle := { alignAll := ← all.atom?.bind Align.ofCss?, alignLast := ← alignLast? last,
                            ws := st.ws, rtl := ← rtl.bool? }
    let p : Para := { st := st, text := ← text? text, lineHeight := ← lh.rat?, cbx := ← cbx.rat?,
                      width := ← width.rat?, indent := ← indent.rat?, align := a, y := ← y.rat? }
    pure (render ((paragraph p).map (fun ls => .list (ls.map outLineSx))))
  | "sfw", [text, ws, index] => do
    let r := skipFirstWhitespace (← ws.atom?.bind WS.ofCss?) (← text? text) (← index.nat?)
    pure (match r with
      | none => "continue"
      | some i => toString i)
  | "rlw", [text, ws, wb, ow, fs, maxw, skip] => do
    let st ← style? ws wb ow fs
    let r : Except PyErr Sx := do
      let s ← splitTextBox st (← (text? text).elim (.error (.valueError "text")) .ok) (← (maxw? maxw).elim (.error (.valueError "maxw")) .ok)
        (← (skip.nat?).elim (.error (.valueError "skip")) .ok) true
      match s.child with
      | none => pure (.atom "none")
      | some c =>
        let (c', removed) ← removeLastWhitespace st c
        pure (.list [.atom (encodeText c'.text), sxRat c'.width, sxRat removed])
    pure (render r)
  | "pango", [text, width, wrapChar, hyph, fs] => do
    let w : Option Rat ← (match width with
      | .atom "none" => some none
      | x => x.rat?.map some)
    let lay : Layout := { text := truncNl (← text? text), width := w, wrapChar := ← wrapChar.bool?,
                          hyph := ← hyph.bool? }
    let l := firstLine (← fs.rat?) lay
    pure (Sx.list [sxNat l.length, optNat l.resume, sxRat l.width]).render
  | _, _ => none

end Wp.Drive.LineBreak
