/-
Line protocol for `Model/MarginCounters.lean` (values, scopes, ops, items as in `Drive/CounterScope`).
  mbox <base> <table> <values> <scopes> ((ops (item …)) …)   → ok x<text> … | err:<Class>
-/
import WpModel.Model.Wire
import WpModel.Model.MarginCounters
import WpModel.Drive.CounterScope

namespace Wp.Drive.MarginCounters
open Wp Wp.Counters Wp.MarginCounters Wp.Drive.Counters Wp.Drive.CounterScope

def mbox? : Sx → Option MBox
  | .list [o, items] => do pure (← ops? o, ← listOf item? items)
  | _ => none

def handle (cmd : String) (args : List Sx) : Option String :=
  match cmd, args with
  | "mbox", [base, table, vs, sc, boxes] => do
    let cs ← styles? base table
    let vs ← values? vs
    let sc ← scopes? sc
    let boxes ← listOf mbox? boxes
    match marginTexts cs ⟨vs, sc⟩ boxes with
    | .error e => pure e.render
    | .ok ts => pure (" ".intercalate ("ok" :: ts.map encodeStr))
  | _, _ => none

end Wp.Drive.MarginCounters
