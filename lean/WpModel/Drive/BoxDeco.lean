/-
Line protocol of `Model/BoxDeco.lean`:
  `deco parent <clone> <ebox> (<sides>) ((start end) …)`         → ParentBox.remove_decoration, the calls in order
  `deco inline <clone> <ltr> <ebox> (<sides>) ((start end) …)`   → InlineBox.remove_decoration
  `reset <side> <ebox> (<sides>)`                                 → ParentBox._reset_spacing
output: the sixteen used values, then the removed sides in the order top right bottom left, e.g. `… | top bottom`.
-/
import WpModel.Model.BoxDeco
import WpModel.Drive.BoxEdges

namespace Wp.Drive.BoxDeco
open Wp Wp.BoxEdges Wp.BoxDeco Wp.Drive.BoxEdges

def side? : Sx → Option Side
  | .atom "top" => some .top
  | .atom "right" => some .right
  | .atom "bottom" => some .bottom
  | .atom "left" => some .left
  | _ => none

def sides? (x : Sx) : Option Sides := do
  let l ← x.list?
  let ss ← allSome side? l
  pure (ss.foldl Sides.add Sides.empty)

def calls? (x : Sx) : Option (List (Bool × Bool)) := do
  let l ← x.list?
  allSome (fun c => match c with
    | .list [s, e] => do pure (← s.bool?, ← e.bool?)
    | _ => none) l

def showDBox (b : DBox) : String :=
  let e := b.box
  let vals := [e.x, e.y, e.w, e.h, e.ml, e.mr, e.mt, e.mb, e.pl, e.pr, e.pt, e.pb, e.bl, e.br, e.bt, e.bb]
  let sides := [Side.top, .right, .bottom, .left].filter b.removed.mem
  let name : Side → String := fun s => match s with
    | .top => "top" | .right => "right" | .bottom => "bottom" | .left => "left"
  " ".intercalate (vals.map showRat) ++ " |" ++ String.join (sides.map (fun s => " " ++ name s))

def handle (cmd : String) (args : List Sx) : Option String :=
  match cmd, args with
  | "deco", [.atom "parent", clone, b, sides, calls] => do
    let clone ← clone.bool?
    let start : DBox := { box := ← ebox? b, removed := ← sides? sides }
    pure (showDBox ((← calls? calls).foldl (fun acc c => removeDecoration clone c.1 c.2 acc) start))
  | "deco", [.atom "inline", clone, ltr, b, sides, calls] => do
    let clone ← clone.bool?
    let ltr ← ltr.bool?
    let start : DBox := { box := ← ebox? b, removed := ← sides? sides }
    pure (showDBox ((← calls? calls).foldl (fun acc c => removeDecorationInline clone ltr c.1 c.2 acc) start))
  | "reset", [side, b, sides] => do
    pure (showDBox (resetSpacing (← side? side) { box := ← ebox? b, removed := ← sides? sides }))
  | _, _ => none

end Wp.Drive.BoxDeco
