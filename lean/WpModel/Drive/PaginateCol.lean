import WpModel.Model.Wire
import WpModel.Model.PaginateCol
import WpModel.Drive.Paginate

namespace Wp.Drive.PaginateCol
open Wp Wp.PM Wp.PMC
open Wp.Drive.Paginate (style? resumeSx geoSx)

partial def box? (ltr : Bool) (width : Rat) : Sx → Option ColBox
  | .list [.atom "para", id, n, lh, st] => do
    pure (.para (← id.nat?) (← n.nat?) (← lh.rat?) (← style? st))
  | .list [.atom "block", id, st, .list kids] => do
    pure (.block (← id.nat?) (← style? st) (← allSome (box? ltr width) kids))
  | .list [.atom "columns", id, st, count, balance, .list flags, .list kids] => do
    let cs : ColSpec := { count := ← count.nat?, balance := ← balance.bool?, ltr := ltr, width := width }
    pure (.columns (← id.nat?) (← style? st) cs (← allSome Sx.bool? flags) (← allSome (box? ltr width) kids))
  | .list [.atom "columns", id, st, count, balance, gap, .list flags, .list kids] => do
    let cs : ColSpec :=
      { count := ← count.nat?, balance := ← balance.bool?, ltr := ltr, width := width, gap := ← gap.rat? }
    pure (.columns (← id.nat?) (← style? st) cs (← allSome Sx.bool? flags) (← allSome (box? ltr width) kids))
  | _ => none

partial def fragSx : CFrag → Sx
  | .para id idx _ _ g lines =>
    .list ([.atom "p", sxNat id, sxNat idx] ++ geoSx g ++
      [.list (lines.map fun (i, y) => .list [sxNat i, sxRat y])])
  | .block id idx _ g kids =>
    .list ([.atom "b", sxNat id, sxNat idx] ++ geoSx g ++ [.list (kids.map fragSx)])
  | .cols id idx _ g kids =>
    .list ([.atom "m", sxNat id, sxNat idx] ++ geoSx g ++ [.list (kids.map fragSx)])
  | .column id _ x g kids =>
    .list ([.atom "c", sxNat id, sxRat x] ++ geoSx g ++ [.list (kids.map fragSx)])

def pageSx (p : CPage) : Sx :=
  .list [.atom "page", sxNat p.type.index, sxBool p.type.right, sxBool p.type.blank,
    .atom (if p.type.name = "" then "-" else p.type.name), resumeSx p.resume,
    .atom (match p.nextPage.brk with | none => "any" | some b => b.toCss),
    .atom (match p.nextPage.page with | none => "none" | some "" => "-" | some s => s),
    fragSx p.root]

/-- `pmcol <pageH> <pageW> <ltr> <box>` → the pages, `err:pagination` (`assert root_box`),
`err:<Class>` (an exception of the layout) or `err:fuel` (`2·units + 8` pages were not enough). -/
def handle (cmd : String) (args : List Sx) : Option String :=
  match cmd, args with
  | "pmcol", [h, w, ltr, b] => do
    let h ← h.rat?
    let w ← w.rat?
    let ltr ← ltr.bool?
    let root ← box? ltr w b
    let d : CDoc := { pageH := h, rootLtr := ltr, root := root }
    match paginateCol d (2 * sizeBox root + 8) with
    | .ok pages => pure (" ".intercalate (pages.map fun p => (pageSx p).render))
    | .assertFail => pure "err:pagination"
    | .raised e => pure s!"err:{e}"
    | .fuel => pure "err:fuel"
  | _, _ => none

end Wp.Drive.PaginateCol
