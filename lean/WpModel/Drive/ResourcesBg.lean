/-
Line-protocol front end of `Model/ResourcesBg.lean` (C20): multi-layer backgrounds, `DiskCache`.
-/
import WpModel.Drive.Resources
import WpModel.Model.ResourcesBg

namespace Wp.Drive.ResourcesBg
open Wp Wp.Res Wp.Res.Bg Wp.Drive.Resources

def bgImage? : Sx → Option BgImage
  | .atom "none" => some .noneKw
  | .list [.atom "url", u] => do pure (.url (← ostr? u))
  | .list [.atom "grad", n] => do pure (.gradient (← n.nat?))
  | _ => none

def nats? : Sx → Option (List Nat)
  | .list xs => allSome Sx.nat? xs
  | _ => none

/-- `(hidden transparent ispage orient (image …) (sizes) (clips) (repeats) (origins) (positions) (attachments))`. -/
def bgBox? : Sx → Option BgBox
  | .list [h, t, p, o, .list images, s, c, r, og, ps, a] => do
    pure ⟨← h.bool?, ← t.bool?, ← p.bool?, ← orient? o, ← allSome bgImage? images,
          ⟨← nats? s, ← nats? c, ← nats? r, ← nats? og, ← nats? ps, ← nats? a⟩⟩
  | _ => none

/-- A layer as the harness reads it from `box.background.layers`: a layer without image has `'unused'` size, position,
repeat and positioning area; with `background-attachment: fixed` (id 1) the origin is not used. -/
def showLayer (l : Layer) : String :=
  match l.image with
  | .absent => "none:" ++ toString l.clip
  | img =>
    (match img with | .gradient _ => "grad" | _ => "img") ++ ":" ++ toString l.size ++ ":" ++ toString l.clip ++ ":" ++
      toString l.repeat ++ ":" ++ (if l.attachment == 1 then "fixed" else toString l.origin) ++ ":" ++ toString l.position

def showCVal : Except Exc CVal → String
  | .ok (.img v) => showImg v
  | .ok (.bytes _) => "bytes"
  | .error e => showExc e

def handle (cmd : String) (args : List Sx) : Option String :=
  match cmd, args with
  -- `bg <fetcher> <opts> <box>`
  | "bg", [f, o, b] => do
    let (_, evs, out) := layoutBackground (← fetcher? f) (← opts? o) [] (← bgBox? b)
    pure ("log=" ++ showLog evs ++ " " ++ match out with
      | .error e => showExc e
      | .ok none => "background=none"
      | .ok (some layers) => "background=[" ++ ",".intercalate (layers.map showLayer) ++ "]")
  -- `imagesdisk <fetcher> ((url orientation forced-mime opts) …)`: `images` with a `DiskCache` on an empty folder
  | "imagesdisk", [f, .list reqs] => do
    let fetcher ← fetcher? f
    let reqs ← allSome optsReq? reqs
    let (outs, cache) := runImagesDisk fetcher {} reqs
    pure (";".intercalate (outs.map (fun (evs, out) => showLog evs ++ showCVal out)) ++
      " cache=[" ++ ",".intercalate (cache.memory.reverse.map (fun (k, v) => enc k ++ "=" ++ showImg v)) ++ "]")
  | _, _ => none

end Wp.Drive.ResourcesBg
