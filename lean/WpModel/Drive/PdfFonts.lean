import WpModel.Model.Wire
import WpModel.Model.PdfFonts
import WpModel.Drive.PdfStream

/-!
  `fontdict <acroForm> (used-name …) (hash bitmap usedInForms) …`
        → `F=<keys of /Font in order> U=<names used by Tf that are not keys>` | `err:KeyError`
  `textfonts (pango key hash bitmap size) …`   one entry per `add_font` call of a line (a change of Pango font)
        → the `Tf` calls `draw_first_line` makes, `name:size` separated by blanks
  `warray (cid width) …`   → the `/W` array, e.g. `3 [500 600] 7 [250]`
  `cidset <last> cid …`    → the bits of the `/CIDSet` stream
-/
namespace Wp.Drive.PdfFonts
open Wp Wp.Pdf Wp.PdfFonts

def font? : Sx → Option FontInfo
  | .list [.atom hash, b, f] => do some { hash := hash, bitmap := ← b.bool?, usedInForms := ← f.bool? }
  | _ => none

def run? : Sx → Option Run
  | .list [p, k, .atom hash, b, sz] => do
    some { pango := ← p.nat?, key := ← k.nat?, fresh := { hash := hash, bitmap := ← b.bool? }, size := ← sz.num?, text := "x" }
  | _ => none

def pair? : Sx → Option (Nat × Int)
  | .list [c, w] => do some (← c.nat?, ← w.int?)
  | _ => none

def showItem : WItem → String
  | .cid c => toString c
  | .widths ws => "[" ++ " ".intercalate (ws.map toString) ++ "]"

def handle (cmd : String) (args : List Sx) : Option String :=
  match cmd, args with
  | "fontdict", acro :: .list used :: fonts => do
    let acro ← acro.bool?
    let used ← allSome Sx.atom? used
    let fonts ← allSome font? fonts
    match fontResourceKeys fonts acro with
    | .ok ks => some ("F=" ++ ",".intercalate ks ++ " U=" ++ ",".intercalate (undefinedFonts ks used))
    | .error e => some e.render
  | "textfonts", runs => do
    let runs ← allSome run? runs
    let calls := (drawLine [] runs).2
    some (" ".intercalate (calls.filterMap (fun c => match c with
      | .setFont h sz => some (h ++ ":" ++ sz.toBytes)
      | _ => none)))
  | "warray", pairs => do
    let pairs ← allSome pair? pairs
    match wArray pairs with
    | .ok items => some (" ".intercalate (items.map showItem))
    | .error e => some e.render
  | "cidset", last :: cids => do
    let last ← last.nat?
    let cids ← allSome Sx.nat? cids
    some (String.ofList ((cidSetBits cids last).map (fun b => if b then '1' else '0')))
  | "cidsetwritten", [.atom version, has] => do some (toString (cidSetWritten version (← has.bool?)))
  | _, _ => none

end Wp.Drive.PdfFonts
