import WpModel.Model.Wire
import WpModel.Model.BreakTrace

namespace Wp.Drive.BreakTrace
open Wp Wp.BreakTrace

def obs? : Sx → Option Obs
  | .list [vs, a, b, r, l] => do
    let vs ← vs.list?.bind (allSome (fun x => x.atom?.bind Brk.ofCss?))
    pure { values := vs, pageA := (← a.nat?), pageB := (← b.nat?), rightB := (← r.bool?), ltr := (← l.bool?) }
  | _ => none

def avoidObs? : Sx → Option AvoidObs
  | .list [vs, a, b, f] => do
    let vs ← vs.list?.bind (allSome (fun x => x.atom?.bind Brk.ofCss?))
    pure { values := vs, pageA := (← a.nat?), pageB := (← b.nat?), aFirst := (← f.bool?) }
  | _ => none

def insideObs? : Sx → Option InsideObs
  | .list [v, n, f] => do
    pure { value := (← v.atom?.bind Brk.ofCss?), pages := (← n.nat?), first := (← f.bool?) }
  | _ => none

def showBad (bad : List Nat) : String := "(" ++ " ".intercalate (bad.map toString) ++ ")"

/-- `breaks (obs…)` → `ok` | `bad (indices)`; `avoid-obs (between…) (inside…)` → `ok` | `bad (i…) (j…)` -/
def handle (cmd : String) (args : List Sx) : Option String :=
  match cmd, args with
  | "breaks", [.list os] => do
    let os ← allSome obs? os
    let bad := badObs os
    pure (if bad.isEmpty then "ok" else "bad (" ++ " ".intercalate (bad.map toString) ++ ")")
  | "avoid-obs", [.list bs, .list is] => do
    let bs ← allSome avoidObs? bs
    let is ← allSome insideObs? is
    let b1 := badAvoid bs
    let b2 := badInside is
    pure (if b1.isEmpty && b2.isEmpty then "ok" else "bad " ++ showBad b1 ++ " " ++ showBad b2)
  | _, _ => none

end Wp.Drive.BreakTrace
