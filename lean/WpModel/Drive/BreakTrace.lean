import WpModel.Model.Wire
import WpModel.Model.BreakTrace

namespace Wp.Drive.BreakTrace
open Wp Wp.BreakTrace

def obs? : Sx → Option Obs
  | .list [vs, a, b, r, l] => do
    let vs ← vs.list?.bind (allSome (fun x => x.atom?.bind Brk.ofCss?))
    pure { values := vs, pageA := (← a.nat?), pageB := (← b.nat?), rightB := (← r.bool?), ltr := (← l.bool?) }
  | _ => none

/-- `breaks (obs…)` → `ok` | `bad (indices)` -/
def handle (cmd : String) (args : List Sx) : Option String :=
  match cmd, args with
  | "breaks", [.list os] => do
    let os ← allSome obs? os
    let bad := badObs os
    pure (if bad.isEmpty then "ok" else "bad (" ++ " ".intercalate (bad.map toString) ++ ")")
  | _, _ => none

end Wp.Drive.BreakTrace
