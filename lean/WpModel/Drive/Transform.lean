/-
Line protocol of the transformation matrix part of C17:
  tmatrix (bbx bby bw bh) (oxv oxpct oyv oypct) (fn …)   → `a b c d e f det`
  gmatrix Kind (bbx bby bw bh) (oxv oxpct oyv oypct) (fn …)   → `none`, or `a b c d e f det`: the whole
      transform part of `gather_anchors` on a box of that class (an empty list is `transform: none`)
  fn ::= (scale sx sy) | (translate xv xpct yv ypct) | (matrix a b c d e f)
-/
import WpModel.Model.Wire
import WpModel.Model.Transform
import WpModel.Model.LaidOut

namespace Wp.Drive.Transform
open Wp Wp.Transform Wp.Rounded

def fn? : Sx → Option Fn
  | .list [.atom "scale", x, y] => do pure (.scale (← x.rat?) (← y.rat?))
  | .list [.atom "translate", xv, xp, yv, yp] => do
    pure (.translate { value := (← xv.rat?), percent := (← xp.bool?) } { value := (← yv.rat?), percent := (← yp.bool?) })
  | .list [.atom "matrix", a, b, c, d, e, f] => do
    pure (.matrix (← a.rat?) (← b.rat?) (← c.rat?) (← d.rat?) (← e.rat?) (← f.rat?))
  | _ => none

def handle (cmd : String) (args : List Sx) : Option String :=
  match cmd, args with
  | "tmatrix", [.list [bbx, bby, bw, bh], .list [oxv, oxp, oyv, oyp], .list fns] => do
    let fns ← allSome fn? fns
    let m := transformationMatrix (← bbx.rat?) (← bby.rat?) (← bw.rat?) (← bh.rat?)
      { value := (← oxv.rat?), percent := (← oxp.bool?) } { value := (← oyv.rat?), percent := (← oyp.bool?) } fns
    pure (" ".intercalate ([m.a, m.b, m.c, m.d, m.e, m.f, m.det].map showRat))
  | "gmatrix", [kind, .list [bbx, bby, bw, bh], .list [oxv, oxp, oyv, oyp], .list fns] => do
    let k ← kind.atom?.bind Wp.Gen.Kind.ofName?
    let fns ← allSome fn? fns
    match Wp.Stacking.gatherMatrix k {
        bbx := (← bbx.rat?), bby := (← bby.rat?), bw := (← bw.rat?), bh := (← bh.rat?),
        ox := { value := (← oxv.rat?), percent := (← oxp.bool?) },
        oy := { value := (← oyv.rat?), percent := (← oyp.bool?) }, fns := fns } with
    | none => pure "none"
    | some m => pure (" ".intercalate ([m.a, m.b, m.c, m.d, m.e, m.f, m.det].map showRat))
  | _, _ => none

end Wp.Drive.Transform
