import WpModel.Model.Wire
import WpModel.Model.Trace

namespace Wp.Drive.Trace
open Wp Wp.Trace

def natList? (x : Sx) : Option (List Nat) := x.list?.bind (allSome Sx.nat?)

def group? : Sx → Option Group
  | .list [k, ws] => do pure { kind := (← k.nat?), words := (← natList? ws) }
  | _ => none

def item? : Sx → Option Item
  | .list [b, f] => do pure { bottom := (← b.rat?), first := (← f.bool?) }
  | _ => none

def showNats (l : List Nat) : String := "(" ++ " ".intercalate (l.map toString) ++ ")"

/-- `conserve (groups…) (pages…)` → `ok` | `bad (group indices) scattered (group indices)`;
`fits <pageBottom> (items…)` → `ok` | `overflow (item indices)`. -/
def handle (cmd : String) (args : List Sx) : Option String :=
  match cmd, args with
  | "conserve", [.list gs, .list ps] => do
    let gs ← allSome group? gs
    let ps ← allSome natList? ps
    let bad := badGroups gs ps
    let sc := scatteredGroups gs ps
    pure (if bad.isEmpty && sc.isEmpty then "ok" else s!"bad {showNats bad} scattered {showNats sc}")
  | "fits", [b, .list its] => do
    let b ← b.rat?
    let its ← allSome item? its
    let o := overflowing b its
    pure (if o.isEmpty then "ok" else s!"overflow {showNats o}")
  | _, _ => none

end Wp.Drive.Trace
