/-
Line protocol of `Model/UsedCheck.lean`:
  `used eps cx pw prtl <utree>` → `ok` | `bad <preorder index> <clause>`
-/
import WpModel.Model.Wire
import WpModel.Model.UsedCheck

namespace Wp.Drive.UsedCheck
open Wp Wp.UsedCheck

def optRat? : Sx → Option (Option Rat)
  | .atom "inf" => some none
  | x => x.rat?.map some

def kind? : Sx → Option Kind
  | .atom "flow" => some .flow
  | .atom "line" => some .line
  | .atom "oof" => some .oof
  | .atom "other" => some .other
  | _ => none

def ubox? : Sx → Option UBox
  | .list [x, y, w, h, ml, mr, mt, mb, pl, pr, pt, pb, bl, br, bt, bb, minW, maxW, minH, maxH,
           mlA, mrA, wA, hA, k, rtl, whole] => do
    pure { x := ← x.rat?, y := ← y.rat?, w := ← w.rat?, h := ← h.rat?, ml := ← ml.rat?, mr := ← mr.rat?,
           mt := ← mt.rat?, mb := ← mb.rat?, pl := ← pl.rat?, pr := ← pr.rat?, pt := ← pt.rat?,
           pb := ← pb.rat?, bl := ← bl.rat?, br := ← br.rat?, bt := ← bt.rat?, bb := ← bb.rat?,
           minW := ← minW.rat?, maxW := ← optRat? maxW, minH := ← minH.rat?, maxH := ← optRat? maxH,
           mlAuto := ← mlA.bool?, mrAuto := ← mrA.bool?, wAuto := ← wA.bool?, hAuto := ← hA.bool?,
           kind := ← kind? k, rtl := ← rtl.bool?, whole := ← whole.bool? }
  | _ => none

partial def utree? : Sx → Option UTree
  | .list [b, .list kids] => do pure (.mk (← ubox? b) (← allSome utree? kids))
  | _ => none

def handle (cmd : String) (args : List Sx) : Option String :=
  match cmd, args with
  | "used", [eps, cx, pw, prtl, t] => do
    let c : Ctx := { cx := ← cx.rat?, pw := ← pw.rat?, prtl := ← prtl.bool? }
    let t ← utree? t
    let eps ← eps.rat?
    pure (match firstBad eps c t with
      | none => if usedOk eps c t then "ok" else "bad ? inconsistent"
      | some (i, s) => s!"bad {i} {s}")
  | _, _ => none

end Wp.Drive.UsedCheck
