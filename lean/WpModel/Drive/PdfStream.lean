import WpModel.Model.Wire
import WpModel.Model.PdfStream
import WpModel.Model.UseRefs
import WpModel.Model.GradientDraw

/-!
Wire commands of the stream machine.

  `script <mark> <pages> (wcall) (wcall) …`  → the whole document state after the calls, or `err:<PythonException>`
  `naive  <mark> (call) …`                    → operators of the cache-free reference emission on one stream
  `tag <element_tag>`                         → `get_marked_content_tag`
  `tobytes <num>` / `pystr <num>`             → `pydyf._to_bytes` / `str`
-/
namespace Wp.Drive.PdfStream
open Wp Wp.Pdf

def optNum? (x : Sx) : Option (Option Num) :=
  match x with
  | .atom "none" => some none
  | _ => x.num?.map some

def optBool? (x : Sx) : Option (Option Bool) :=
  match x with
  | .atom "none" => some none
  | _ => x.bool?.map some

def optStr? (x : Sx) : Option (Option String) :=
  match x with
  | .atom "none" => some none
  | .atom s => some (some s)
  | _ => none

def optNat? (x : Sx) : Option (Option Nat) :=
  match x with
  | .atom "none" => some none
  | _ => x.nat?.map some

def raw? : String → Option Raw
  | "rectangle" => some .rectangle | "clip" => some .clip | "end" => some .end_ | "fill" => some .fill
  | "stroke" => some .stroke | "fill_and_stroke" => some .fillStroke | "move_to" => some .moveTo
  | "line_to" => some .lineTo | "close" => some .close | "set_line_width" => some .lineWidth
  | "set_line_cap" => some .lineCap | "set_line_join" => some .lineJoin | "set_miter_limit" => some .miterLimit
  | "set_text_matrix" => some .textMatrix | "set_text_rise" => some .textRise | "move_text_to" => some .moveText
  | "show_text" => some .showText
  | _ => none

def call? : List Sx → Option Call
  | [.atom "push"] => some .push
  | [.atom "pop"] => some .pop
  | [.atom "tr", a, b, c, d, e, f] => do
    some (.transform (← a.num?) (← b.num?) (← c.num?) (← d.num?) (← e.num?) (← f.num?))
  | [.atom "bt"] => some .beginText
  | [.atom "et"] => some .endText
  | [.atom "color", .atom space, c1, c2, c3, al, k1, k2, k3, st] => do
    some (.setColor ⟨space, ← c1.num?, ← c2.num?, ← c3.num?, ← al.num?, ← k1.num?, ← k2.num?, ← k3.num?⟩ (← st.bool?))
  | [.atom "font", .atom name, sz] => do some (.setFont name (← sz.num?))
  | [.atom "alpha", al, st, fl] => do some (.setAlpha (← al.num?) (← st.bool?) (← optBool? fl))
  | [.atom "state", ca, cA, .atom kind] => do
    some (.setState { ca := ← optNum? ca, CA := ← optNum? cA, kind := kind })
  | [.atom "softmask"] => some .softMaskState
  | [.atom "blend", .atom mode] => some (.setBlendMode mode)
  | [.atom "bm", .atom et, mcid, tag] => do some (.beginMarked et (← mcid.bool?) (← optStr? tag))
  | [.atom "em"] => some .endMarked
  | [.atom "dox", n] => do some (.drawX (.x (← n.nat?)))
  | [.atom "doi", .atom id, i] => do some (.drawX (.img id (← i.bool?)))
  | [.atom "sh", n] => do some (.paintShading (← n.nat?))
  | [.atom "cs", .atom space, st] => do some (.setColorSpace space (← st.bool?))
  | [.atom "scn", pat, st, .list ops] => do
    some (.setColorSpecial (← optNat? pat) (← st.bool?) (← allSome Sx.num? ops))
  | [.atom "raw", .atom k, .list args, flag, .atom text] => do
    some (.raw (← raw? k) (← allSome Sx.num? args) (← flag.bool?) text)
  | [.atom "tok", .atom cls, .atom token] => do
    let c ← match cls with
      | "path" => some RawClass.path | "paint" => some .paint | "gparam" => some .gparam
      | "textPos" => some .textPos | "textState" => some .textState | "textShow" => some .textShow
      | _ => none
    some (.rawTok c token)
  | _ => none

def wcall? : Sx → Option WCall
  | .list (.atom "on" :: h :: rest) => do some (.on (← h.nat?) (← call? rest))
  | .list [.atom "group", h] => do some (.addGroup (← h.nat?))
  | .list [.atom "pattern", h] => do some (.addPattern (← h.nat?))
  | .list [.atom "shading", h] => do some (.addShading (← h.nat?))
  | .list [.atom "image", h, .atom id, i, ratio] => do some (.addImage (← h.nat?) id (← i.bool?) (← ratio.num?))
  | .list [.atom "alphastate", h] => do some (.setAlphaState (← h.nat?))
  | .list [.atom "clone", h] => do some (.clone (← h.nat?))
  | .list [.atom "newpage"] => some .newPage
  | .list [.atom "assignsh", h, n] => do some (.assignSh (← h.nat?) (← n.nat?))
  | _ => none

def showMat (m : Mat) : String := ",".intercalate ([m.a, m.b, m.c, m.d, m.e, m.f].map showRat)

def showStream (s : SState) : String :=
  "S res=" ++ toString s.res ++ " id=" ++ s.id.getD "-" ++
  " marked=" ++ ",".intercalate s.marked.reverse ++
  " ctm=" ++ ";".intercalate (s.ctm.reverse.map showMat) ++ " :" ++
  String.join (s.rops.reverse.map (fun o => " " ++ o.render))

def showRes (r : Res) : String :=
  "R E=" ++ ",".intercalate (r.extG.map (·.1.render)) ++
  " X=" ++ ",".intercalate (r.xobj.map (fun e => e.1.render ++ ":" ++ (match e.2 with | some h => toString h | none => "-"))) ++
  " P=" ++ ",".intercalate (r.pattern.map toString) ++
  " Sh=" ++ toString r.shading

def showWorld (w : World) : String :=
  "ok | " ++ " | ".intercalate (w.streams.map showStream) ++ " || " ++ " | ".intercalate (w.res.map showRes) ++
  " || I " ++ " ".intercalate (w.images.map (fun e => e.1 ++ "=" ++ ",".intercalate (e.2.map showRat)))

/-- Long items are truncated the same way by the harness (`apilog.short`). -/
def trunc (s : String) : String :=
  if s.length > 120 then String.ofList (s.toList.take 100) ++ "~" ++ toString s.length else s

def showStreamToks (s : SState) : String :=
  "S res=" ++ toString s.res ++ " id=" ++ s.id.getD "-" ++ " marked=" ++ ",".intercalate s.marked.reverse ++ " :" ++
  String.join (s.rops.reverse.map (fun o => " " ++ trunc o.render))

def showResKeys (r : Res) : String :=
  "R E=" ++ ",".intercalate (r.extG.map (·.1.render)) ++ " X=" ++ ",".intercalate (r.xobj.map (·.1.render)) ++
  " P=" ++ toString r.pattern.length ++ " Sh=" ++ toString r.shading

/-- API-level bracket discipline of the calls made on each stream (`apiRun [] calls`), per stream handle. -/
def apiStacks (calls : List WCall) : List (Nat × Option (List Fr)) :=
  calls.foldl (fun acc c =>
    match c with
    | .on h call =>
      let cur := (acc.lookup h).getD (some [])
      let nxt := cur.bind (fun st => apiStep st call)
      (h, nxt) :: acc.filter (·.1 != h)
    | _ => acc) []

/-- The calls made on each stream, in order (for the cache discipline `scopedOK`), per stream handle. -/
def callsOf (calls : List WCall) : List (Nat × List Call) :=
  calls.foldl (fun acc c =>
    match c with
    | .on h call => (h, (acc.lookup h).getD [] ++ [call]) :: acc.filter (·.1 != h)
    | .setAlphaState h => (h, (acc.lookup h).getD [] ++ [Call.softMaskState]) :: acc.filter (·.1 != h)
    | _ => acc) []

def showFr : Fr → String | .q => "q" | .T => "T" | .M => "M"

/-- The exception class only (the harness strips nothing). -/
def showErr : PyErr → String
  | .assertFailed _ => "err:AssertionError"
  | .indexError "model:handle" => "bad-handle"
  | .indexError _ => "err:IndexError"
  | e => e.render

def handle (cmd : String) (args : List Sx) : Option String :=
  match cmd, args with
  | "script", mark :: pages :: calls => do
    let mark ← mark.bool?
    let pages ← pages.nat?
    let calls ← allSome wcall? calls
    match (World.init mark pages).run calls with
    | .ok w => some (showWorld w)
    | .error e => some (showErr e)
  | "scriptnaive", mark :: pages :: calls => do
    -- reference (cache-free, peephole-free) emission of the same script: tokens per stream
    let mark ← mark.bool?
    let pages ← pages.nat?
    let calls ← allSome wcall? calls
    match (World.init mark pages).runNaive calls with
    | .ok w => some ("ok | " ++ " | ".intercalate (w.streams.map showStreamToks))
    | .error e => some (showErr e)
  | "docscript", mark :: calls => do
    -- the calls logged on the real streams of one write_pdf: tokens of every stream and every resource dictionary,
    -- and whether the calls on each stream were well bracketed at the API level
    let mark ← mark.bool?
    let calls ← allSome wcall? calls
    let wbBad := (apiStacks calls).filter (fun e => e.2 != some [])
    let wb := if wbBad.isEmpty then "wb=ok" else
      "wb=bad:" ++ ",".intercalate (wbBad.reverse.map (fun e => toString e.1 ++ ":" ++
        (match e.2 with | none => "illegal" | some st => "open-" ++ String.join (st.map showFr))))
    -- the raw setters that bypass the caches are followed by no set_color / set_alpha before the next pop_state
    let csBad := (callsOf calls).filter (fun e => !scopedOK false e.2)
    let wb := wb ++ (if csBad.isEmpty then " cs=ok" else
      " cs=bad:" ++ ",".intercalate (csBad.reverse.map (fun e => toString e.1)))
    match (World.init mark 0).run calls with
    | .ok w =>
      -- the late pass of generate_pdf on the final state: `_use_references`
      let refs := match useReferences w with
        | .ok st => "U fonts=" ++ toString st.fontSet.length ++ " streams=" ++
            toString (st.added.filter (fun a => match a with | .stream _ => true | _ => false)).length ++
            " images=" ++ toString st.imagesDone.length
        | .error e => "U " ++ showErr e
      -- every name an operator uses is a key of the dictionary of the stream that emits it (`resources_defined`)
      let wb := wb ++ (if w.badRefs.isEmpty then " refs=ok" else
        " refs=bad:" ++ ",".intercalate (w.badRefs.map toString))
      some ("ok " ++ wb ++ " | " ++ " | ".intercalate (w.streams.map showStreamToks) ++ " || " ++
        " | ".intercalate (w.res.map showResKeys) ++ " || " ++ refs)
    | .error e => some (showErr e)
  | "naive", mark :: calls => do
    let mark ← mark.bool?
    let calls ← allSome (fun x => x.list?.bind call?) calls
    match runNaive {} { mark := mark } calls with
    | .ok (s, _) => some ("ok" ++ String.join (s.rops.reverse.map (fun o => " " ++ o.render)))
    | .error e => some (showErr e)
  | "tag", [.atom t] => some (markedTag t)
  | "tobytes", [n] => n.num?.map Num.toBytes
  | "pystr", [n] => n.num?.map Num.pyStr
  | _, _ => none

end Wp.Drive.PdfStream
