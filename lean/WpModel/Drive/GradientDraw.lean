import WpModel.Model.Wire
import WpModel.Model.GradientDraw
import WpModel.Model.BackgroundDraw
import WpModel.Drive.PdfStream

/-!
  `docgrad <mark> item …` → the streams and resource dictionaries after the calls (same form as `skeleton`)
  item ::= (call <wcall>) | (grad <h> <solid> <translucent> <scaleY> <rect-token> (<colour…>))
  Every `Gradient.draw` of the recorded run is replaced by one `grad` item: the model makes the calls itself.
-/
namespace Wp.Drive.GradientDraw
open Wp Wp.Pdf Wp.Drive.PdfStream

def colour? : List Sx → Option Colour
  | [.atom space, c1, c2, c3, al, k1, k2, k3] => do
    some ⟨space, ← c1.num?, ← c2.num?, ← c3.num?, ← al.num?, ← k1.num?, ← k2.num?, ← k3.num?⟩
  | _ => none

def gitem? : Sx → Option GItem
  | .list [.atom "call", c] => (wcall? c).map GItem.call
  | .list [.atom "grad", h, solid, tr, sy, .atom rect, .list col] => do
    some (.grad (← h.nat?) { solid := ← solid.bool?, translucent := ← tr.bool?, scaleY := ← sy.num?, rect := rect,
                             colour := ← colour? col })
  | _ => none

def bgprops? : List Sx → Option BgProps
  | [skip, nr, unb, .atom rect, tx, ty] => do
    some { skip := ← skip.bool?, noRepeat := ← nr.bool?, unbounded := ← unb.bool?, rect := rect, tx := ← tx.num?,
           ty := ← ty.num? }
  | _ => none

def bitem? : Sx → Option BItem
  | .list [.atom "bg", h, .list props, .list img] => do
    some (.bg (← h.nat?) (← bgprops? props) (← allSome gitem? img))
  | x => match gitem? x with
    | some (.call c) => some (.call c)
    | some (.grad h p) => some (.grad h p)
    | none => none

def handle (cmd : String) (args : List Sx) : Option String :=
  match cmd, args with
  | "docbg", mark :: items => do
    -- `(bg h (skip noRepeat unbounded rect tx ty) (image items…))`: draw_background_image replaced by the model
    let mark ← mark.bool?
    let items ← allSome bitem? items
    match runBItems (World.init mark 0) items with
    | .ok w => some ("ok | " ++ " | ".intercalate (w.streams.map showStreamToks) ++ " || " ++
        " | ".intercalate (w.res.map showResKeys))
    | .error e => some (showErr e)
  | "docgrad", mark :: items => do
    let mark ← mark.bool?
    let items ← allSome gitem? items
    match runItems (World.init mark 0) items with
    | .ok w => some ("ok | " ++ " | ".intercalate (w.streams.map showStreamToks) ++ " || " ++
        " | ".intercalate (w.res.map showResKeys))
    | .error e => some (showErr e)
  | _, _ => none

end Wp.Drive.GradientDraw
