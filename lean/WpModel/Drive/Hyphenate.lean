/-
Line protocol of the hyphenation model (C09).
  sflh <text> <ws> <wb> <ow> <fs> <maxw> <is_line_start> <minimum> <total> <zone-is-%> <zone> <hchar> <dict>
     dict ::= ((<word> (<first part length> …)) …)        → (length resume width text)
-/
import WpModel.Model.Wire
import WpModel.Model.Hyphenate
import WpModel.Drive.LineBreak

namespace Wp.Drive.Hyphenate
open Wp Wp.Py Wp.LB Wp.Hy Wp.Drive.LineBreak

def entry? : Sx → Option (Text × List Nat)
  | .list [w, .list ks] => do
    pure (← text? w, ← allSome Sx.nat? ks)
  | _ => none

def handle (cmd : String) (args : List Sx) : Option String :=
  match cmd, args with
  | "sflh", [text, ws, wb, ow, fs, maxw, ils, mn, total, zpct, zone, hchar, .list dict] => do
    let st ← style? ws wb ow fs
    let cfg : Cfg := { total := ← total.nat?, zonePct := ← zpct.bool?, zone := ← zone.rat?,
                       hchar := ← text? hchar, dict := ← allSome entry? dict }
    let r := splitFirstLineHy st (some cfg) (← text? text) (← maxw? maxw) (← ils.bool?) (← mn.bool?)
    pure (render (r.map resSx))
  | _, _ => none

end Wp.Drive.Hyphenate
