/-
Line protocol for the page-group functions (`Model/PageGroups.lean`).
  resume_at:  `none` | `((k v) (k v) …)`        element: `(s:page isParent inFlow (children…))`
  group:      `(s:name index resume_at)`
-/
import WpModel.Drive.C14
import WpModel.Model.PageGroups

namespace Wp.Drive.C14Groups
open Wp Wp.PageGroups Wp.Drive.C14

mutual
partial def ra? : Sx → Option RA
  | .atom "none" => some .none
  | .list es => (entries? es).map .dict
  | _ => none
partial def entries? : List Sx → Option REntries
  | [] => some .nil
  | .list [k, v] :: rest => do
    let k ← k.nat?
    let v ← ra? v
    let r ← entries? rest
    pure (.cons k v r)
  | _ => none
end

partial def elt? : Sx → Option Elt
  | .list [p, ip, fl, .list cs] => do
    pure (.mk (← str? p) (← ip.bool?) (← fl.bool?) (← allSome elt? cs))
  | _ => none

def group? : Sx → Option Group
  | .list [n, i, r] => do pure ⟨← str? n, ← i.nat?, ← ra? r⟩
  | _ => none

mutual
partial def showRA : RA → String
  | .none => "none"
  | .dict es => "(" ++ " ".intercalate (showEntries es) ++ ")"
partial def showEntries : REntries → List String
  | .nil => []
  | .cons k v r => s!"({k} {showRA v})" :: showEntries r
end

def showGroup (g : Group) : String := s!"({showStr g.name} {g.index} {showRA g.resume})"

def handle (cmd : String) (args : List Sx) : Option String :=
  match cmd, args with
  -- _includes_resume_at(resume_at, page_group_resume_at)
  | "includes", [r, g] => do
    match includes (← ra? r) (← ra? g) with
    | .ok b => pure (toString b)
    | .error e => pure (errOut e)
  -- _update_page_groups(page_groups, resume_at, next_page, root_box)
  | "groups", [.list gs, r, isAny, nm, root] => do
    match updatePageGroups (← allSome group? gs) (← ra? r) (← isAny.bool?) (← str? nm) (← elt? root) with
    | .ok gs => pure ("(" ++ " ".intercalate (gs.map showGroup) ++ ")")
    | .error e => pure (errOut e)
  | _, _ => none

end Wp.Drive.C14Groups
