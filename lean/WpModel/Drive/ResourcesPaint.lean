/-
Line-protocol front end of `Model/ResourcesPaint.lean` (C20): border image / mask border at paint time.
-/
import WpModel.Drive.Resources
import WpModel.Model.ResourcesPaint

namespace Wp.Drive.ResourcesPaint
open Wp Wp.Res Wp.Res.Paint Wp.Drive.Resources

def source? : Sx → Option (Source × Option String)
  | .atom "none" => some (.noneKw, none)
  | .atom "grad" => some (.gradient, none)
  | .list [.atom "url", u] => do pure (.url, some (← str? u))
  | _ => none

def handle (cmd : String) (args : List Sx) : Option String :=
  match cmd, args with
  -- `boxpaint <fetcher> <opts> <visible> <border source> <all widths zero> <mask source>`: layout_box_backgrounds loads
  -- the border image, then the mask border image; then set_mask_border and draw_border
  | "boxpaint", [f, o, v, b, z, m] => do
    let fetcher ← fetcher? f
    let opts ← opts? o
    let (bsrc, burl) ← source? b
    let (msrc, murl) ← source? m
    let load (cache : Cache) (url : Option String) : Cache × List Ev × Except Exc (Option Img) :=
      match url with
      | some u => getImage cache fetcher opts ⟨u, .fromImage, none⟩
      | none => (cache, [], .ok none)
    let (c1, e1, r1) := load [] burl
    match r1 with
    | .error e => pure ("log=" ++ showLog e1 ++ " " ++ showExc e)
    | .ok bimg =>
      let (_, e2, r2) := load c1 murl
      match r2 with
      | .error e => pure ("log=" ++ showLog (e1 ++ e2) ++ " " ++ showExc e)
      | .ok mimg =>
        -- the harness sees the border image only when it paints something: not on borders of width 0
        let zero ← z.bool?
        let paint := drawBorder (← v.bool?) bsrc (imageSet bsrc bimg) zero
        pure ("log=" ++ showLog (e1 ++ e2) ++ " border=" ++ (if paint == .image && !zero then "image" else "ordinary") ++
          " mask=" ++ toString (setMaskBorder msrc (imageSet msrc mimg)))
  | _, _ => none

end Wp.Drive.ResourcesPaint
