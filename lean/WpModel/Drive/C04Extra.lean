import WpModel.Model.Wire
import WpModel.Model.TableBreaks
import WpModel.Model.BreakConserve
import WpModel.Model.TableNames
import WpModel.Drive.Trace
import WpModel.Drive.BreakTrace

namespace Wp.Drive.C04Extra
open Wp Wp.TableBreaks

def brk? (x : Sx) : Option Brk := x.atom?.bind Brk.ofCss?

def row? : Sx → Option RowE
  | .list [b, a] => do pure ⟨← brk? b, ← brk? a⟩
  | _ => none

def kind? : Sx → Option GroupKind
  | .atom "header" => some .header
  | .atom "body" => some .body
  | .atom "footer" => some .footer
  | _ => none

def part? : Sx → Option PartE
  | .list [.atom "caption", top, b, a] => do pure (.caption (← top.bool?) (← brk? b) (← brk? a))
  | .list [.atom "group", k, b, a, .list rows] => do
    pure (.group (← kind? k) (← brk? b) (← brk? a) (← allSome row? rows))
  | .list [.atom "row", b, a] => do pure (.row ⟨← brk? b, ← brk? a⟩)
  | _ => none

def table? : Sx → Option TableE
  | .list [.atom "table", b, a, .list parts] => do pure ⟨← brk? b, ← brk? a, ← allSome part? parts⟩
  | _ => none

partial def elem? : Sx → Option Elem
  | .list [.atom "block", b, a, .list kids] => do pure (.block (← brk? b) (← brk? a) (← allSome elem? kids))
  | .list [.atom "para", b, a] => do pure (.para (← brk? b) (← brk? a))
  | t@(.list (.atom "table" :: _)) => (table? t).map .table
  | _ => none

def name? : Sx → Option String
  | .atom "-" => some ""
  | .atom s => some s
  | _ => none

partial def pbox? : Sx → Option PBox
  | .list [t, fl, p, .list kids] => do pure (.mk (← t.bool?) (← fl.bool?) (← name? p) (← allSome pbox? kids))
  | _ => none

def showName (s : String) : String := if s.isEmpty then "-" else s

def optNat? : Sx → Option (Option Nat)
  | .atom "none" => some none
  | x => x.nat?.map some

def obs? : Sx → Option TableObs
  | .list [ltr, roomy, pl, tf, tfr, tl, nf, nfr, cap, grid, pif, tif] => do
    pure { ltr := (← ltr.bool?), roomy := (← roomy.bool?), prevLast := (← pl.nat?), tableFirst := (← tf.nat?),
           tableFirstRight := (← tfr.bool?), tableLast := (← tl.nat?), nextFirst := (← nf.nat?),
           nextFirstRight := (← nfr.bool?), topCapLast := (← optNat? cap), gridFirst := (← optNat? grid),
           prevIsFirst := (← pif.bool?), tableIsFirst := (← tif.bool?) }
  | _ => none

partial def nelem? : Sx → Option TableNames.NElem
  | .list [.atom "block", p, .list kids] => do pure (.block (← name? p) (← allSome nelem? kids))
  | .list [.atom "para", p] => do pure (.para (← name? p))
  | _ => none

def nameObs? : Sx → Option (Option (TableNames.NameObs × Bool))
  | .atom "none" => some none
  | .list [a, b, n, f] => do pure (some (⟨← a.nat?, ← b.nat?, ← name? n⟩, ← f.bool?))
  | _ => none

def showBoundaryName : Option (PBox × PBox) → String
  | none => "x"
  | some ab => match pageNameBetween ab.1 ab.2 with
    | none => "none"
    | some n => showName n

def showBrks (l : List Brk) : String := "(" ++ " ".intercalate (l.map Brk.toCss) ++ ")"
def showNats (l : List Nat) : String := "(" ++ " ".intercalate (l.map toString) ++ ")"

/-- Commands:
  `table-breaks <prev> <table> <next>` → `<before the table> <after the table> (<inside…>)`
  `table-obs <prev> <table> <next> <obs>` → `ok` | `bad (boundaries…)`
  `page-values <pbox>` → `<start> <end>` ; `page-name <pbox> <pbox>` → name | `none`  (`-` = the empty name)
  `table-names <inherited> <prev> <page of the table> (top captions…) (bottom captions…) <next>` → the name asked at
      the four boundaries (`x` = no such boundary)
  `table-name-obs … (obs…)` → `ok` | `bad (boundaries…)`   (obs = `none` | `(pageA pageB nameB fresh)`)
  `avoid-conserve (groups…) (pages…) (avoid obs…)` → `ok` | `bad (groups…) (observations…)` -/
def handle (cmd : String) (args : List Sx) : Option String :=
  match cmd, args with
  | "table-breaks", [p, t, n] => do
    let p ← elem? p
    let t ← table? t
    let n ← elem? n
    pure s!"{(breakBetween p (.table t)).toCss} {(breakBetween (.table t) n).toCss} {showBrks (insideTable t)}"
  | "table-obs", [p, t, n, o] => do
    let bad := tableObsBad (← elem? p) (← table? t) (← elem? n) (← obs? o)
    pure (if bad.isEmpty then "ok" else s!"bad {showNats bad}")
  | "page-values", [b] => do
    let (s, e) := pageValues (← pbox? b)
    pure s!"{showName s} {showName e}"
  | "page-name", [a, b] => do
    match pageNameBetween (← pbox? a) (← pbox? b) with
    | some n => pure (showName n)
    | none => pure "none"
  | "table-names", [inh, p, tp, .list tops, .list bottoms, n] => do
    let bs := TableNames.nameBoundaries (← name? inh) (← nelem? p) (← name? tp) (← allSome name? tops)
      (← allSome name? bottoms) (← nelem? n)
    pure (" ".intercalate (bs.map showBoundaryName))
  | "table-name-obs", [inh, p, tp, .list tops, .list bottoms, n, .list os] => do
    let bs := TableNames.nameBoundaries (← name? inh) (← nelem? p) (← name? tp) (← allSome name? tops)
      (← allSome name? bottoms) (← nelem? n)
    let bad := TableNames.namesBad bs (← allSome nameObs? os)
    pure (if bad.isEmpty then "ok" else s!"bad {showNats bad}")
  | "avoid-conserve", [.list gs, .list ps, .list os] => do
    let gs ← allSome Trace.group? gs
    let ps ← allSome Trace.natList? ps
    let os ← allSome BreakTrace.avoidObs? os
    let (b1, b2) := BreakConserve.check gs ps os
    pure (if b1.isEmpty && b2.isEmpty then "ok" else s!"bad {showNats b1} {showNats b2}")
  | _, _ => none

end Wp.Drive.C04Extra
