import WpModel.Model.Wire
import WpModel.Model.PdfFile
import WpModel.Model.PdfNames

/-!
  `pdata <pval>`                                    → hex of `_to_bytes(value)`
  `writefile x<version> (n g) (n g)|none (x<id> x<hash>)|none (gen free x<data>) …`
                                                   → `len=… hash=… xref=… offsets=…` of `PDF.write`
  `checkfile x<bytes>`                              → `ok n=… xref=…` | `bad`
  `objstreams <version> <compress>`                 → whether `PDF.write` uses object streams
  pval ::= (raw x…) | (text x…) | (num <num>) | (pstr x…) | (arr pval…) | (dict (x<key> pval)…)
         | (stream (pval…) ((x<key> pval)…))
Bytes are `x` followed by two hexadecimal digits per byte.
-/
namespace Wp.Drive.PdfFile
open Wp Wp.Pdf Wp.PdfFile

def hexVal? (c : Char) : Option Nat :=
  if '0' ≤ c ∧ c ≤ '9' then some (c.toNat - 48)
  else if 'a' ≤ c ∧ c ≤ 'f' then some (c.toNat - 87) else none

def unhexList : List Char → Option Bytes
  | [] => some []
  | a :: b :: rest => do
    let x ← hexVal? a
    let y ← hexVal? b
    let r ← unhexList rest
    some (Char.ofNat (16 * x + y) :: r)
  | _ => none

def bytes? (x : Sx) : Option Bytes :=
  match x.atom? with
  | some s => match s.toList with
    | 'x' :: rest => unhexList rest
    | _ => none
  | none => none

def hexDigit (n : Nat) : Char := if n < 10 then Char.ofNat (48 + n) else Char.ofNat (87 + n)

def hex (b : Bytes) : String :=
  String.ofList ('x' :: b.flatMap (fun c => [hexDigit (c.toNat / 16), hexDigit (c.toNat % 16)]))

mutual
  partial def pval? : Sx → Option PVal
    | .list [.atom "raw", b] => (bytes? b).map .raw
    | .list [.atom "text", b] => (bytes? b).map .text
    | .list [.atom "num", n] => n.num?.map .num
    | .list [.atom "pstr", b] => (bytes? b).map .pstring
    | .list (.atom "arr" :: items) => (allSome pval? items).map .array
    | .list (.atom "dict" :: entries) => (allSome entry? entries).map .dict
    | .list [.atom "stream", .list items, .list entries] => do
      some (.stream (← allSome pval? items) (← allSome entry? entries))
    | _ => none
  partial def entry? : Sx → Option (Bytes × PVal)
    | .list [k, v] => do some (← bytes? k, ← pval? v)
    | _ => none
end

def ref? : Sx → Option (Option (Nat × Nat))
  | .atom "none" => some none
  | .list [n, g] => do some (some (← n.nat?, ← g.nat?))
  | _ => none

def object? : Sx → Option PObject
  | .list [g, f, d] => do some ⟨← g.nat?, ← f.bool?, ← bytes? d⟩
  | _ => none

/-- Polynomial hash of the bytes (the harness computes the same on the real output). -/
def rolling (b : Bytes) : Nat := b.foldl (fun h c => (h * 257 + c.toNat + 1) % 1000000007) 7

def handle (cmd : String) (args : List Sx) : Option String :=
  match cmd, args with
  | "pdata", [v] => (pval? v).map (fun p => hex p.data)
  | "writefile", version :: root :: info :: ident :: objs => do
    let version ← bytes? version
    let root ← ref? root
    let root ← root
    let info ← ref? info
    let ident ← match ident with
      | .atom "none" => some none
      | .list [a, b] => do some (some (← bytes? a, ← bytes? b))
      | _ => none
    let objs ← allSome object? objs
    let w := writeFile version objs ⟨root, info, ident⟩
    some ("len=" ++ toString w.bytes.length ++ " hash=" ++ toString (rolling w.bytes) ++ " xref=" ++
      toString w.xrefPos ++ " offsets=" ++ ",".intercalate (w.offsets.map toString) ++
      " check=" ++ (match checkFile w.bytes with | some (n, x) => toString n ++ "@" ++ toString x | none => "bad"))
  | "checkfile", [b] => do
    let b ← bytes? b
    match checkFile b with
    | some (n, x) => some ("ok n=" ++ toString n ++ " xref=" ++ toString x)
    | none => some "bad"
  | "destnames", names => do
    -- anchor names as lists of code points → the keys of the /Dests name array, in array order (hex)
    let names ← allSome (fun x => x.list?.bind (allSome Sx.nat?)) names
    some (" ".intercalate ((Wp.PdfNames.destKeys names).map (fun k => hex (k.map Char.ofNat))))
  | "embeddednames", names => do
    -- attachment file names as lists of bytes → the keys of the /EmbeddedFiles name array, in array order (hex)
    let names ← allSome (fun x => x.list?.bind (allSome Sx.nat?)) names
    some (" ".intercalate ((Wp.PdfNames.embeddedKeys names).map (fun k => hex (k.map Char.ofNat))))
  | "objstreams", [.atom version, compress] => do
    some (toString (usesObjectStreams version (← compress.bool?)))
  | _, _ => none

end Wp.Drive.PdfFile
