import WpModel.Model.Wire
import WpModel.Model.PaginateOof
import WpModel.Drive.Paginate

namespace Wp.Drive.PaginateOof
open Wp Wp.PM Wp.PMO Wp.Drive.Paginate

def pos? : Sx → Option Pos
  | .atom "static" => some .static
  | .atom "abs" => some .abs
  | .atom "float" => some .float
  | _ => none

def ostyle? (st pos clear : Sx) : Option OStyle := do
  pure { toPStyle := (← style? st), pos := (← pos? pos), clear := (← clear.bool?) }

/-- Any box may be out of the flow, at any depth (round 4: also an absolutely positioned box inside another one,
`layoutAbs`). -/
partial def box? : Sx → Option OBox
  | .list [.atom "para", id, n, lh, st, pos, clear] => do
    let st ← ostyle? st pos clear
    pure (.para (← id.nat?) (← n.nat?) (← lh.rat?) st)
  | .list [.atom "block", id, st, pos, clear, .list kids] => do
    let st ← ostyle? st pos clear
    pure (.block (← id.nat?) st (← allSome box? kids))
  | _ => none

/-- The root and its single child (html, body) are static blocks. -/
def rootOk : OBox → Bool
  | .block _ st [.block _ st' _] => st.pos == .static && st'.pos == .static
  | _ => false

partial def fragSx : OFrag → Sx
  | .para _ id idx _ _ g lines =>
    .list ([.atom "p", sxNat id, sxNat idx] ++ geoSx g ++
      [.list (lines.map fun (i, y) => .list [sxNat i, sxRat y])])
  | .block _ id idx _ g kids =>
    .list ([.atom "b", sxNat id, sxNat idx] ++ geoSx g ++ [.list (kids.map fragSx)])
  | .ph _ id idx y => .list [.atom "ph", sxNat id, sxNat idx, sxRat y]

def brokenSx (bs : List Broken) : Sx :=
  .list (.atom "bk" :: bs.map fun e => .list [sxNat e.box.id, resumeSx (some e.resume)])

def pageSx (p : PMO.Page) : Sx :=
  .list [.atom "page", sxNat p.type.index, sxBool p.type.right, sxBool p.type.blank,
    .atom (if p.type.name = "" then "-" else p.type.name), resumeSx p.resume,
    .atom (match p.nextPage.brk with | none => "any" | some b => b.toCss),
    .atom (match p.nextPage.page with | none => "none" | some "" => "-" | some s => s),
    brokenSx p.broken,
    fragSx p.root]

mutual
def countBox : OBox → Nat
  | .para _ n _ _ => n + 1
  | .block _ _ kids => 1 + countKids kids
def countKids : List OBox → Nat
  | [] => 0
  | k :: ks => countBox k + countKids ks
end

/-- `pmoof <pageH> <ltr> <box>` → the pages, `err:pagination` (`assert root_box` / fuel), or
`err:AttributeError@float.py:find_float_position`. -/
def handle (cmd : String) (args : List Sx) : Option String :=
  match cmd, args with
  | "pmoof", [h, ltr, b] => do
    let h ← h.rat?
    let ltr ← ltr.bool?
    let root ← box? b
    if !rootOk root then none
    let d : PMO.Doc := { pageH := h, rootLtr := ltr, root := root }
    match PMO.paginate d (2 * countBox root + 8) with
    | some pages =>
      if pages.any (·.crash) then pure "err:AttributeError@float.py:find_float_position"
      else pure (" ".intercalate (pages.map fun p => (pageSx p).render))
    | none => pure "err:pagination"
  | _, _ => none

end Wp.Drive.PaginateOof
