/-
Line protocol for `Model/Repaginate.lean`.
  flags ::= (<bool> <bool>)                      content_changed, pages_wanted
  pass  ::= (<pages> (flags …))
  loop <max_loops> (pass …)     → passes=<n> pages=<n>
  remake <pagesEmpty:bool> flags → true|false
-/
import WpModel.Model.Wire
import WpModel.Model.Repaginate

namespace Wp.Drive.Repaginate
open Wp Wp.Repaginate

def flags? : Sx → Option Flags
  | .list [a, b] => do pure ⟨← a.bool?, ← b.bool?⟩
  | _ => none

def pass? : Sx → Option PassObs
  | .list [n, .list fl] => do pure ⟨← n.nat?, ← allSome flags? fl⟩
  | _ => none

def handle (cmd : String) (args : List Sx) : Option String :=
  match cmd, args with
  | "loop", [m, .list passes] => do
    let m ← m.nat?
    let tr ← allSome pass? passes
    let r := replayTrace m tr
    pure s!"passes={r.passes} pages={r.pages}"
  | "remake", [e, f] => do
    let e ← e.bool?
    let f ← flags? f
    pure (toString (mustRemake e f))
  | _, _ => none

end Wp.Drive.Repaginate
