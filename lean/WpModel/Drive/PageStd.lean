/-
Line protocol for `Model/PageStd.lean` (pairs as in `Drive/CounterScope`).
  prop ::= auto | ((x<name> <int>) …)
  pstd <bool:pseudo_type is None> <set> <reset> <increment>   → <set> <reset> <increment> after the call
-/
import WpModel.Model.Wire
import WpModel.Model.PageStd
import WpModel.Drive.CounterScope

namespace Wp.Drive.PageStd
open Wp Wp.PageStd Wp.Drive.Counters Wp.Drive.CounterScope

def prop? : Sx → Option (Option Pairs)
  | .atom "auto" => some none
  | x => (listOf pair? x).map some

def sxProp : Option Pairs → Sx
  | none => .atom "auto"
  | some l => .list (l.map fun p => .list [.atom (encodeStr p.1), sxInt p.2])

def handle (cmd : String) (args : List Sx) : Option String :=
  match cmd, args with
  | "pstd", [b, s, r, i] => do
    let out := standardize ⟨← prop? s, ← prop? r, ← prop? i⟩ (← b.bool?)
    pure (" ".intercalate [(sxProp out.set).render, (sxProp out.reset).render, (sxProp out.incr).render])
  | _, _ => none

end Wp.Drive.PageStd
