/-
Line protocol of the C08 driver.  A box is
  (Kind style ws (colspan rowspan span) (flags colspan rowspan gridx) (code points…) (kids…) (column groups…))
with `style`  = letters of f(loat) n(footnote) a(bsolute) r(unning) h(eader display) t(footer display)
                b(ottom caption) A(nonymous style), text-transform c(apitalize) u(ppercase) l(owercase)
                w(ide), y (hyphens: none), or `-`;
     `flags`  = letters of l(eading space) t(railing space) w(rapper) h(is_header) f(is_footer)
                x(flex item) g(rid item) n(is_floated overridden), or `-`.
An element is (el <estyle> (colspan rowspan span) <marker> <before> <after> (text…) (kids…) (tail…)) with
  estyle  = ((display…) float position ws letters quotes), letters of c u l w y b o(utside markers) or `-`,
            quotes = none | auto | ((open…) (close…)) (each quote a list of code points);
  content = inhibit | (item…), item = (s code points…) | (q open insert);
  before / after = none | (<estyle> <content>);  marker = none | (<estyle> <content> <text of the type | none>).
-/
import WpModel.Model.Wire
import WpModel.Model.BoxGen

namespace Wp.Drive.BoxTree
open Wp Wp.Bx

def optInt? : Sx → Option (Option Int)
  | .atom "none" => some none
  | x => x.int?.map some

def optNat? : Sx → Option (Option Nat)
  | .atom "none" => some none
  | x => x.nat?.map some

def text? (x : Sx) : Option Text := x.list?.bind (allSome Sx.nat?)

def style? (letters : String) (ws : WS) : Option Style :=
  if letters == "-" then some { ws := ws }
  else if letters.toList.all (fun c => "fnarhtbAculwy".toList.contains c) then
    let has (c : Char) : Bool := letters.toList.contains c
    some { flt := has 'f', foot := has 'n', abs := has 'a', run := has 'r', ws := ws,
           tt := if has 'c' then .capitalize else if has 'u' then .uppercase else if has 'l' then .lowercase
                 else if has 'w' then .fullWidth else .none,
           hyph := has 'y',
           disp := if has 'h' then .header else if has 't' then .footer else .other,
           capBottom := has 'b', anon := has 'A' }
  else none

def el? : Sx → Option El
  | .list [c, r, s] => do
    let c ← optInt? c
    let r ← optInt? r
    let s ← optInt? s
    pure { colspan := c, rowspan := r, span := s }
  | _ => none

def inst? : Sx → Option Inst
  | .list [.atom letters, c, r, g] => do
    let c ← c.nat?
    let r ← r.nat?
    let g ← optNat? g
    if letters == "-" || letters.toList.all (fun ch => "ltwhfxgn".toList.contains ch) then
      let has (ch : Char) : Bool := letters != "-" && letters.toList.contains ch
      pure { lcs := has 'l', tcs := has 't', colspan := c, rowspan := r, gridX := g, wrapper := has 'w',
             isHeader := has 'h', isFooter := has 'f', flexItem := has 'x', gridItem := has 'g',
             noFloat := has 'n' }
    else none
  | _ => none

partial def box? : Sx → Option KBox
  | .list [.atom kind, .atom st, .atom ws, el, inst, text, .list kids, .list cols] => do
    let k ← BoxKind.ofName? kind
    let w ← WS.ofCss? ws
    let s ← style? st w
    let e ← el? el
    let i ← inst? inst
    let t ← text? text
    let ks ← allSome box? kids
    let cs ← allSome box? cols
    pure (.mk k s e i t ks cs)
  | _ => none

def letters (pairs : List (Bool × Char)) : String :=
  let cs := pairs.filterMap (fun p => if p.1 then some p.2 else none)
  if cs.isEmpty then "-" else String.ofList cs

def showStyle (s : Style) : String :=
  letters [(s.flt, 'f'), (s.foot, 'n'), (s.abs, 'a'), (s.run, 'r'), (s.disp == .header, 'h'),
           (s.disp == .footer, 't'), (s.capBottom, 'b'), (s.anon, 'A'), (s.tt == .capitalize, 'c'),
           (s.tt == .uppercase, 'u'), (s.tt == .lowercase, 'l'), (s.tt == .fullWidth, 'w'), (s.hyph, 'y')]

def showOptInt : Option Int → String | none => "none" | some v => toString v
def showOptNat : Option Nat → String | none => "none" | some v => toString v

def showText (t : Text) : String := "(" ++ " ".intercalate (t.map toString) ++ ")"

def showInst (i : Inst) : String :=
  "(" ++ letters [(i.lcs, 'l'), (i.tcs, 't'), (i.wrapper, 'w'), (i.isHeader, 'h'), (i.isFooter, 'f'),
                  (i.flexItem, 'x'), (i.gridItem, 'g'), (i.noFloat, 'n')] ++
  " " ++ toString i.colspan ++ " " ++ toString i.rowspan ++ " " ++ showOptNat i.gridX ++ ")"

partial def showBox : KBox → String
  | .mk k s e i t ks cs =>
    "(" ++ k.name ++ " " ++ showStyle s ++ " " ++ s.ws.toCss ++ " (" ++ showOptInt e.colspan ++ " " ++
    showOptInt e.rowspan ++ " " ++ showOptInt e.span ++ ") " ++ showInst i ++ " " ++ showText t ++ " (" ++
    " ".intercalate (ks.map showBox) ++ ") (" ++ " ".intercalate (cs.map showBox) ++ "))"

def showRes : Except BErr KBox → String
  | .ok b => showBox b
  | .error e => e.render

def strs? (x : Sx) : Option (List String) := x.list?.bind (allSome Sx.atom?)

def texts? (x : Sx) : Option (List Text) := x.list?.bind (allSome text?)

def quotes? : Sx → Option Quotes
  | .atom "none" => some .none
  | .atom "auto" => some .auto
  | .list [o, c] => do pure (.pairs (← texts? o) (← texts? c))
  | _ => none

def estyle? : Sx → Option EStyle
  | .list [disp, .atom fl, .atom pos, .atom ws, .atom st, q] => do
    let d ← strs? disp
    let w ← WS.ofCss? ws
    let q ← quotes? q
    if st == "-" || st.toList.all (fun c => "culwybo".toList.contains c) then
      let has (c : Char) : Bool := st != "-" && st.toList.contains c
      pure { display := d, float := fl, position := pos, ws := w,
             tt := if has 'c' then .capitalize else if has 'u' then .uppercase else if has 'l' then .lowercase
                   else if has 'w' then .fullWidth else .none,
             hyph := has 'y', capBottom := has 'b', listOutside := has 'o', quotes := q }
    else none
  | _ => none

def citem? : Sx → Option CItem
  | .list (.atom "s" :: cps) => (allSome Sx.nat? cps).map .str
  | .list [.atom "q", o, i] => do pure (.quote (← o.bool?) (← i.bool?))
  | _ => none

def content? : Sx → Option Content
  | .atom "inhibit" => some .inhibit
  | .list items => (allSome citem? items).map .items
  | _ => none

def pseudo? : Sx → Option (Option Pseudo)
  | .atom "none" => some none
  | .list [st, c] => do pure (some ⟨← estyle? st, ← content? c⟩)
  | _ => none

def marker? : Sx → Option (Option MarkerSpec)
  | .atom "none" => some none
  | .list [st, c, t] => do
    let tt ← (match t with | .atom "none" => some none | x => (text? x).map some)
    pure (some ⟨← estyle? st, ← content? c, tt⟩)
  | _ => none

partial def dom? : Sx → Option Dom
  | .list [.atom "el", st, el, marker, before, after, text, .list kids, tail] => do
    let s ← estyle? st
    let e ← el? el
    let m ← marker? marker
    let b ← pseudo? before
    let a ← pseudo? after
    let t ← text? text
    let tl ← text? tail
    let ks ← allSome dom? kids
    pure (.el s e m b a t ks tl)
  | _ => none

def cellIn? : Sx → Option TableGrid.CellIn
  | .list [c, r] => do pure ⟨← c.nat?, ← r.nat?⟩
  | _ => none

def colIn? : Sx → Option TableGrid.ColGroupIn
  | .list [n, s] => do pure ⟨← n.nat?, ← s.nat?⟩
  | _ => none

def nats (l : List Nat) : String := "(" ++ " ".intercalate (l.map toString) ++ ")"

def showCellOut (c : TableGrid.CellOut) : String :=
  "(" ++ toString c.gridX ++ " " ++ toString c.colspan ++ " " ++ toString c.rowspan ++ ")"

def showTableOut (t : TableGrid.TableOut) : String :=
  "(" ++ " ".intercalate (t.colGroups.map (fun g => "(" ++ toString g.gridX ++ " " ++ nats g.cols ++ ")")) ++ ") (" ++
  " ".intercalate (t.groups.map (fun g => "(" ++ " ".intercalate (g.map (fun r => "(" ++
    " ".intercalate (r.map showCellOut) ++ ")")) ++ ")")) ++ ") " ++ toString t.gridWidth ++ " " ++ toString t.gridHeight

/-- Commands (see the header of this file for the box syntax). -/
def handle (cmd : String) (args : List Sx) : Option String :=
  match cmd, args with
  | "ptext", [.atom ws, fcs, text] => do
    let w ← WS.ofCss? ws
    let f ← fcs.bool?
    let t ← text? text
    let r := processText w t f
    pure (showText r.text ++ " " ++ toString r.setLeading ++ " " ++ toString r.following)
  | "cap", [text] => (text? text).map (fun t => showText (capitalize t))
  | "content", [q, c, depth] => do
    let q ← quotes? q
    let c ← content? c
    let d ← depth.nat?
    match c with
    | .inhibit => pure "inhibit"
    | .items l =>
      match contentText q l [] d with
      | .ok (t, d') => pure (showText t ++ " " ++ toString d')
      | .error e => pure e.render
  | "wspace", [b] => (box? b).map (fun b => toString (isWhitespace b))
  | "pw", [fcs, b] => do
    let f ← fcs.bool?
    let b ← box? b
    let r := pw b f
    pure (toString r.2 ++ " " ++ showBox r.1)
  | "ptt", [b] => (box? b).map (fun b => showBox (ptt b))
  | "iib", [b] => (box? b).map (fun b => showRes (iib false b))
  | "bii", [b] => (box? b).map (fun b => showRes (bii (biiFuel b) b))
  | "atb", [b] => (box? b).map (fun b => showRes (atb b))
  | "flex", [b] => (box? b).map (fun b => showBox (fgb false b))
  | "grid", [b] => (box? b).map (fun b => showBox (fgb true b))
  | "pipeline", [b] => (box? b).map (fun b => showRes (createAnonymousBoxes b))
  | "wraptable", [b, .list kids] => do
    let b ← box? b
    let ks ← allSome box? kids
    pure (showRes (wrapTable (tableFuel ks.length) b ks))
  | "slots", [.list cols, .list groups] => do
    let cs ← allSome colIn? cols
    let gs ← allSome (fun g => g.list?.bind (allSome (fun r => r.list?.bind (allSome cellIn?)))) groups
    match TableGrid.placeTable cs gs with
    | .ok t => pure (showTableOut t)
    | .error e => pure e.render
  | "blockify", [d, .atom fl, .atom pos, root] => do
    let d ← strs? d
    let r ← root.bool?
    pure ("(" ++ " ".intercalate (blockify d fl pos r) ++ ")")
  | "cfloat", [.atom fl, .atom pos] => some (computeFloat fl pos)
  | "boxtype", [d] => (strs? d).map (fun d =>
      match boxTypeFromDisplay d with | some k => k.name | none => "err:KeyError")
  | "e2b", [d] => (dom? d).map (fun d => showRes (buildFormattingStructure d))
  | _, _ => none

end Wp.Drive.BoxTree
