/-
Line protocol of C17 (driver_c17).

  box    ::= (L attrs) | (N attrs (box …)) | (P box)
  attrs  ::= (id Kind positioned absPos z gridItem opacity styleTransform overflowVisible floated visible
              matrix clipProp isRoot bg border borderSides outline color collapse emptyCellsShow cellEmpty (colgroup …))
  z      ::= auto | int          matrix ::= none | sing | code        bg ::= none | transparent | code
  border, outline ::= none | code          colgroup ::= (id bg ((id bg) …))
Style-level forms (what layout reads; the driver applies `boxBackground` / `boxMatrix` of Model/LaidOut):
  bg     ::= (S visibility colour images)        visibility ::= visible | hidden | collapse     colour ::= transparent | code
  matrix ::= (T (bbx bby bw bh) (oxv oxpct oyv oypct) (fn …))      fn as in Drive/Transform

Commands:
  frompage <attrs of the page> (box …)            → the StackingContext built by `from_page`, canonical
  paint    <attrs of the page> <canvas bg> (box …) → the display list of `draw_page`, or `err:<Class>`
  paintdoc <attrs of the page> (rootHtml (isBody …)) (box …)
                                                   → the display list of `Page.paint`: `layout_backgrounds`
                                                     (canvas from the root element or its <body> child), then
                                                     `draw_page`; `isBody` for every child of the root box
  laidout  <attrs of the page> (rootHtml (isBody …)) (box …)
                                                   → `canvas (id bg matrix) …`: what layout leaves in
                                                     `page.canvas_background`, `box.background`,
                                                     `box.transformation_matrix` for every box in tree order
  sortz    (z …)                                   → order of the indexes after the stable sort by z
-/
import WpModel.Model.Wire
import WpModel.Model.Stacking
import WpModel.Model.PaintOrder
import WpModel.Model.LaidOut
import WpModel.Drive.Transform

namespace Wp.Drive.Stacking
open Wp Wp.Stacking Wp.Gen

def zed? : Sx → Option (Option Int)
  | .atom "auto" => some none
  | x => x.int?.map some

def bg? : Sx → Option (Option (Option Nat))
  | .atom "none" => some none
  | .atom "transparent" => some (some none)
  | x => x.nat?.map (fun c => some (some c))

/-- `box.background`, given (legacy form) or computed from the style by `boxBackground`. -/
def bgWire? (isPage : Bool) : Sx → Option (Option (Option Nat))
  | .list [.atom "S", vis, colour, images] => do
    let colour ← match colour with
      | .atom "transparent" => some none
      | x => x.nat?.map some
    let vis ← match vis with
      | .atom "visible" => some Visibility.visible
      | .atom "hidden" => some Visibility.hidden
      | .atom "collapse" => some Visibility.collapse
      | _ => none
    pure (boxBackground isPage { visibility := vis, colour := colour, images := (← images.nat?) })
  | x => bg? x

def optNat? : Sx → Option (Option Nat)
  | .atom "none" => some none
  | x => x.nat?.map some

def mat? : Sx → Option Mat
  | .atom "none" => some .none
  | .atom "sing" => some .singular
  | x => x.nat?.map .regular

/-- `box.transformation_matrix`, given (legacy form) or computed from the style by `boxMatrix`. -/
def matWire? (k : Kind) : Sx → Option Mat
  | .list [.atom "T", .list [bbx, bby, bw, bh], .list [oxv, oxp, oyv, oyp], .list fns] => do
    let fns ← allSome Wp.Drive.Transform.fn? fns
    pure (boxMatrix k {
      bbx := (← bbx.rat?), bby := (← bby.rat?), bw := (← bw.rat?), bh := (← bh.rat?),
      ox := { value := (← oxv.rat?), percent := (← oxp.bool?) },
      oy := { value := (← oyv.rat?), percent := (← oyp.bool?) }, fns := fns })
  | x => mat? x

def col? : Sx → Option (Nat × Option (Option Nat))
  | .list [i, b] => do pure ((← i.nat?), (← bgWire? false b))
  | _ => none

def colGroup? : Sx → Option ColGroup
  | .list [i, b, .list cols] => do
    pure { id := (← i.nat?), bg := (← bgWire? false b), cols := (← allSome col? cols) }
  | _ => none

def attrs? : Sx → Option Attrs
  | .list [id, kind, pos, abs, z, grid, op, st, ov, fl, vis, mat, clip, root, bg, border, sides, outline,
           color, collapse, ecs, cempty, .list groups] => do
    let k ← kind.atom?.bind Kind.ofName?
    pure {
      id := (← id.nat?), kind := k,
      positioned := (← pos.bool?), absPos := (← abs.bool?), z := (← zed? z),
      gridItem := (← grid.bool?), opacity := (← op.rat?), styleTransform := (← st.bool?),
      overflowVisible := (← ov.bool?), floated := (← fl.bool?), visible := (← vis.bool?),
      matrix := (← matWire? k mat), clipProp := (← clip.bool?), isRoot := (← root.bool?),
      bg := (← bgWire? k.drawPage bg), border := (← optNat? border), borderSides := (← sides.nat?), outline := (← optNat? outline),
      color := (← color.nat?), collapse := (← collapse.bool?), emptyCellsShow := (← ecs.bool?),
      cellEmpty := (← cempty.bool?), colGroups := (← allSome colGroup? groups) }
  | _ => none

/-- A leaf must be of a non-ParentBox class and a node of a ParentBox class: the constructor *is* the
`isinstance(box, ParentBox)` test of `_dispatch_children`, cross-checked with the generated table. -/
partial def box? : Sx → Option Box
  | .list [.atom "L", a] => do
    let a ← attrs? a
    if a.kind.dispParent then none else pure (.leaf a)
  | .list [.atom "N", a, .list kids] => do
    let a ← attrs? a
    if !a.kind.dispParent then none else pure (.node a (← allSome box? kids))
  | .list [.atom "P", b] => (box? b).map .ph
  | _ => none

partial def showNode : Node → Sx
  | .leaf a => .list [sxNat a.id]
  | .node a kids => .list (sxNat a.id :: kids.map showNode)
  | .ph _ => .list [.atom "ph"]
  | .ctx box neg zero pos blocks floats bc z =>
    .list [.atom "ctx", sxInt z, showNode box, .list (neg.map showNode), .list (zero.map showNode),
           .list (pos.map showNode), .list (blocks.map showNode), .list (floats.map showNode),
           .list (bc.map showNode)]

def showEnv (e : Env) : String :=
  toString e.clips.length ++ ":" ++ ",".intercalate (e.alphas.map showRat) ++ ":" ++
    ",".intercalate (e.transforms.map toString)

/-- Observable items: filled paths and shown texts.  `replaced` and `collapsedBorders` stand for
sub-procedures that are not modelled (their own fills are not predicted) and are not printed. -/
def showItem : Item → Option String
  | .paint .text _ c e => some ("t:" ++ toString c ++ ":" ++ showEnv e)
  | .paint .replaced _ _ e => some ("r:0:" ++ showEnv e)
  | .paint .collapsedBorders _ _ _ => none
  | .paint _ _ c e => some ("f:" ++ toString c ++ ":" ++ showEnv e)
  | .raise _ => none

def errClass : PyErr → String
  | .assertFailed _ => "err:AssertionError"
  | .zeroDivision _ => "err:ZeroDivisionError"
  | .indexError _ => "err:IndexError"
  | .noneAttribute _ => "err:AttributeError"
  | .recursion _ => "err:RecursionError"
  | .valueError _ => "err:ValueError"

def showBg : Option (Option Nat) → String
  | none => "none"
  | some none => "transparent"
  | some (some c) => toString c

def showMat : Mat → String
  | .none => "none"
  | .singular => "sing"
  | .regular c => toString c

def showAttrsLaidOut (a : Attrs) : List String :=
  ("(" ++ toString a.id ++ " " ++ showBg a.bg ++ " " ++ showMat a.matrix ++ ")") ::
    a.colGroups.flatMap (fun g =>
      ("(" ++ toString g.id ++ " " ++ showBg g.bg ++ " none)") ::
        g.cols.map (fun c => "(" ++ toString c.1 ++ " " ++ showBg c.2 ++ " none)"))

partial def showLaidOut : Box → List String
  | .leaf a => showAttrsLaidOut a
  | .node a kids => showAttrsLaidOut a ++ kids.flatMap showLaidOut
  | .ph b => showLaidOut b

def handle (cmd : String) (args : List Sx) : Option String :=
  match cmd, args with
  | "frompage", [page, .list kids] => do
    let page ← attrs? page
    let kids ← allSome box? kids
    let r := fromPage page kids
    pure (if r.2 then "err:AssertionError" else (showNode r.1).render)
  | "paint", [page, canvas, .list kids] => do
    let page ← attrs? page
    let canvas ← bg? canvas
    let kids ← allSome box? kids
    if (fromPage page kids).2 then pure "err:AssertionError" else
    match runItems (drawPage page canvas kids) with
    | .error e => pure (errClass e)
    | .ok items => pure (" ".intercalate (items.filterMap showItem))
  | "paintdoc", [page, .list [rootHtml, .list flags], .list kids] => do
    let page ← attrs? page
    let rootHtml ← rootHtml.bool?
    let flags ← allSome Sx.bool? flags
    let kids ← allSome box? kids
    if (fromPage page kids).2 then pure "err:AssertionError" else
    match runItems (drawDocument page rootHtml flags kids) with
    | .error e => pure (errClass e)
    | .ok items => pure (" ".intercalate (items.filterMap showItem))
  | "laidout", [page, .list [rootHtml, .list flags], .list kids] => do
    let _ ← attrs? page
    let rootHtml ← rootHtml.bool?
    let flags ← allSome Sx.bool? flags
    let kids ← allSome box? kids
    match layoutBackgrounds rootHtml flags kids with
    | .error e => pure (errClass e)
    | .ok (canvas, kids') =>
      pure (showBg canvas ++ " " ++ " ".intercalate (kids'.flatMap showLaidOut))
  | "sortz", [.list zs] => do
    let zs ← allSome Sx.int? zs
    -- contexts tagged by their index (as the id of a page-less leaf box)
    let mk (i : Nat) (z : Int) : Node :=
      .ctx (.leaf { (default : Attrs) with id := i }) [] [] [] [] [] [] z
    let nodes := (List.range zs.length).zip zs |>.map (fun p => mk p.1 p.2)
    let ids (l : List Node) : String := " ".intercalate (l.map (fun n =>
      match n with
      | .ctx (.leaf a) .. => toString a.id
      | _ => "?"))
    let s := splitZ nodes
    pure ("(" ++ ids (sortZ s.1) ++ ") (" ++ ids s.2.1 ++ ") (" ++ ids (sortZ s.2.2) ++ ")")
  | _, _ => none

end Wp.Drive.Stacking
