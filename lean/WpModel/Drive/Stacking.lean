/-
Line protocol of C17 (driver_c17).

  box    ::= (L attrs) | (N attrs (box …)) | (P box)
  attrs  ::= (id Kind positioned absPos z gridItem opacity styleTransform overflowVisible floated visible
              matrix clipProp isRoot bg border borderSides outline color collapse emptyCellsShow cellEmpty (colgroup …))
  z      ::= auto | int          matrix ::= none | sing | code        bg ::= none | transparent | code
  border, outline ::= none | code          colgroup ::= (id bg ((id bg) …))

Commands:
  frompage <attrs of the page> (box …)            → the StackingContext built by `from_page`, canonical
  paint    <attrs of the page> <canvas bg> (box …) → the display list of `draw_page`, or `err:<Class>`
  sortz    (z …)                                   → order of the indexes after the stable sort by z
-/
import WpModel.Model.Wire
import WpModel.Model.Stacking
import WpModel.Model.PaintOrder

namespace Wp.Drive.Stacking
open Wp Wp.Stacking Wp.Gen

def zed? : Sx → Option (Option Int)
  | .atom "auto" => some none
  | x => x.int?.map some

def bg? : Sx → Option (Option (Option Nat))
  | .atom "none" => some none
  | .atom "transparent" => some (some none)
  | x => x.nat?.map (fun c => some (some c))

def optNat? : Sx → Option (Option Nat)
  | .atom "none" => some none
  | x => x.nat?.map some

def mat? : Sx → Option Mat
  | .atom "none" => some .none
  | .atom "sing" => some .singular
  | x => x.nat?.map .regular

def col? : Sx → Option (Nat × Option (Option Nat))
  | .list [i, b] => do pure ((← i.nat?), (← bg? b))
  | _ => none

def colGroup? : Sx → Option ColGroup
  | .list [i, b, .list cols] => do
    pure { id := (← i.nat?), bg := (← bg? b), cols := (← allSome col? cols) }
  | _ => none

def attrs? : Sx → Option Attrs
  | .list [id, kind, pos, abs, z, grid, op, st, ov, fl, vis, mat, clip, root, bg, border, sides, outline,
           color, collapse, ecs, cempty, .list groups] => do
    pure {
      id := (← id.nat?), kind := (← kind.atom?.bind Kind.ofName?),
      positioned := (← pos.bool?), absPos := (← abs.bool?), z := (← zed? z),
      gridItem := (← grid.bool?), opacity := (← op.rat?), styleTransform := (← st.bool?),
      overflowVisible := (← ov.bool?), floated := (← fl.bool?), visible := (← vis.bool?),
      matrix := (← mat? mat), clipProp := (← clip.bool?), isRoot := (← root.bool?),
      bg := (← bg? bg), border := (← optNat? border), borderSides := (← sides.nat?), outline := (← optNat? outline),
      color := (← color.nat?), collapse := (← collapse.bool?), emptyCellsShow := (← ecs.bool?),
      cellEmpty := (← cempty.bool?), colGroups := (← allSome colGroup? groups) }
  | _ => none

/-- A leaf must be of a non-ParentBox class and a node of a ParentBox class: the constructor *is* the
`isinstance(box, ParentBox)` test of `_dispatch_children`, cross-checked with the generated table. -/
partial def box? : Sx → Option Box
  | .list [.atom "L", a] => do
    let a ← attrs? a
    if a.kind.dispParent then none else pure (.leaf a)
  | .list [.atom "N", a, .list kids] => do
    let a ← attrs? a
    if !a.kind.dispParent then none else pure (.node a (← allSome box? kids))
  | .list [.atom "P", b] => (box? b).map .ph
  | _ => none

partial def showNode : Node → Sx
  | .leaf a => .list [sxNat a.id]
  | .node a kids => .list (sxNat a.id :: kids.map showNode)
  | .ph _ => .list [.atom "ph"]
  | .ctx box neg zero pos blocks floats bc z =>
    .list [.atom "ctx", sxInt z, showNode box, .list (neg.map showNode), .list (zero.map showNode),
           .list (pos.map showNode), .list (blocks.map showNode), .list (floats.map showNode),
           .list (bc.map showNode)]

def showEnv (e : Env) : String :=
  toString e.clips.length ++ ":" ++ ",".intercalate (e.alphas.map showRat) ++ ":" ++
    ",".intercalate (e.transforms.map toString)

/-- Observable items: filled paths and shown texts.  `replaced` and `collapsedBorders` stand for
sub-procedures that are not modelled (their own fills are not predicted) and are not printed. -/
def showItem : Item → Option String
  | .paint .text _ c e => some ("t:" ++ toString c ++ ":" ++ showEnv e)
  | .paint .replaced _ _ e => some ("r:0:" ++ showEnv e)
  | .paint .collapsedBorders _ _ _ => none
  | .paint _ _ c e => some ("f:" ++ toString c ++ ":" ++ showEnv e)
  | .raise _ => none

def errClass : PyErr → String
  | .assertFailed _ => "err:AssertionError"
  | .zeroDivision _ => "err:ZeroDivisionError"
  | .indexError _ => "err:IndexError"
  | .noneAttribute _ => "err:AttributeError"
  | .recursion _ => "err:RecursionError"
  | .valueError _ => "err:ValueError"

def handle (cmd : String) (args : List Sx) : Option String :=
  match cmd, args with
  | "frompage", [page, .list kids] => do
    let page ← attrs? page
    let kids ← allSome box? kids
    let r := fromPage page kids
    pure (if r.2 then "err:AssertionError" else (showNode r.1).render)
  | "paint", [page, canvas, .list kids] => do
    let page ← attrs? page
    let canvas ← bg? canvas
    let kids ← allSome box? kids
    if (fromPage page kids).2 then pure "err:AssertionError" else
    match runItems (drawPage page canvas kids) with
    | .error e => pure (errClass e)
    | .ok items => pure (" ".intercalate (items.filterMap showItem))
  | "sortz", [.list zs] => do
    let zs ← allSome Sx.int? zs
    -- contexts tagged by their index (as the id of a page-less leaf box)
    let mk (i : Nat) (z : Int) : Node :=
      .ctx (.leaf { (default : Attrs) with id := i }) [] [] [] [] [] [] z
    let nodes := (List.range zs.length).zip zs |>.map (fun p => mk p.1 p.2)
    let ids (l : List Node) : String := " ".intercalate (l.map (fun n =>
      match n with
      | .ctx (.leaf a) .. => toString a.id
      | _ => "?"))
    let s := splitZ nodes
    pure ("(" ++ ids (sortZ s.1) ++ ") (" ++ ids s.2.1 ++ ") (" ++ ids (sortZ s.2.2) ++ ")")
  | _, _ => none

end Wp.Drive.Stacking
