/-
Line protocol of the lines-next-to-floats model (C09).
  fpara (<shape>…) <text> <ws> <wb> <ow> <fs> <lh> <cbx> <width> <indent> <all> <last> <y>
     shape ::= (x y margin-width margin-height left|right)        → ((x y w h child) …)
  fipara (<shape>…) <nodes> <ws> <wb> <ow> <fs> <lh> <cbx> <width> <indent> <all> <last> <y>
     nodes / result as `ipara` (Drive/InlineRun): nested inline boxes next to floats
-/
import WpModel.Model.Wire
import WpModel.Model.LineFloats
import WpModel.Model.LineFloatsInline
import WpModel.Drive.LineBreak
import WpModel.Drive.InlineRun

namespace Wp.Drive.LineFloats
open Wp Wp.LB Wp.Floats Wp.Drive.LineBreak

def shape? : Sx → Option Shape
  | .list [x, y, mw, mh, .atom "left"] => do pure ⟨← x.rat?, ← y.rat?, ← mw.rat?, ← mh.rat?, .left⟩
  | .list [x, y, mw, mh, .atom "right"] => do pure ⟨← x.rat?, ← y.rat?, ← mw.rat?, ← mh.rat?, .right⟩
  | _ => none

def handle (cmd : String) (args : List Sx) : Option String :=
  match cmd, args with
  | "fpara", [.list shapes, text, ws, wb, ow, fs, lh, cbx, width, indent, all, last, y] => do
    let st ← style? ws wb ow fs
    let a : AlignStyle := { alignAll := ← all.atom?.bind Align.ofCss?, alignLast := ← alignLast? last,
                            ws := st.ws, rtl := false }
    let p : Para := { st := st, text := ← text? text, lineHeight := ← lh.rat?, cbx := ← cbx.rat?,
                      width := ← width.rat?, indent := ← indent.rat?, align := a, y := ← y.rat? }
    pure (render ((LF.paragraph (← allSome shape? shapes) p).map (fun ls => .list (ls.map outLineSx))))
  | "fipara", [.list shapes, .list nodes, ws, wb, ow, fs, lh, cbx, width, indent, all, last, y] => do
    let st ← style? ws wb ow fs
    let a : AlignStyle := { alignAll := ← all.atom?.bind Align.ofCss?, alignLast := ← alignLast? last,
                            ws := st.ws, rtl := false }
    let p : IR.Para := { st := st, kids := ← allSome Wp.Drive.InlineRun.node? nodes, lineHeight := ← lh.rat?,
                         cbx := ← cbx.rat?, width := ← width.rat?, indent := ← indent.rat?, align := a, y := ← y.rat? }
    pure (render ((LFI.paragraph (← allSome shape? shapes) p).map (fun ls => .list (ls.map Wp.Drive.InlineRun.lineSx))))
  | "ftpara", [.list shapes, .list nodes, ws, wb, ow, fs, strut, lineH, cbx, width, indent, all, last, y] => do
    -- as `fipara`, for a paragraph whose lines are `lineH` high in a block whose strut is `strut`
    let st ← style? ws wb ow fs
    let a : AlignStyle := { alignAll := ← all.atom?.bind Align.ofCss?, alignLast := ← alignLast? last,
                            ws := st.ws, rtl := false }
    let p : IR.Para := { st := st, kids := ← allSome Wp.Drive.InlineRun.node? nodes, lineHeight := ← lineH.rat?,
                         cbx := ← cbx.rat?, width := ← width.rat?, indent := ← indent.rat?, align := a, y := ← y.rat? }
    pure (render ((LFI.paragraphTall (← allSome shape? shapes) p (← strut.rat?) (← lineH.rat?)).map
      (fun ls => .list (ls.map Wp.Drive.InlineRun.lineSx))))
  | _, _ => none

end Wp.Drive.LineFloats
