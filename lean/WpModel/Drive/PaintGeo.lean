/-
Line protocol of the geometric display list of C17 (driver_c17).

  paintgeo <attrs of the page> <canvas bg> (box …) (entry …)
  paintgeodoc <attrs of the page> (rootHtml (isBody …)) (box …) (entry …)     the same on the style-level
                                export: `LaidOut.drawDocument` (canvas background derived by the model)
  entry ::= (B id geo clip)     geometry of a box and the `background-clip` of its last layer
                                (clip ::= border-box | padding-box | content-box), geo as in Drive/Rounded
          | (A id x y w h)      painting area given as such (the page's bleed area)
          | (C id x y w h)      painting area of the canvas background (only used when the page has no B entry:
                                the model takes the page's border box, as `layout_backgrounds` does)
          | (R id geo (cell …))         a table row: its geometry and the ids of its cells (B entries)
          | (G id geo ((cell …) …))     a row group: the cells of each of its rows
          | (K id geo (cell …))         a column or column group: `get_cells()`
          | (P id (bbx bby bw bh) (top right bottom left))   border box and `clip` of an absolutely positioned
                                box (`auto` or a length each)
          | (T id x y size)     text origin (`position_x`, `position_y + baseline`) and font size
  → one token per painted item:
      kind:colour:alphas:transforms:clip|clip|…:geometry
    where a clip / geometry is the path the drawing code must emit (`re(x,y,w,h)`, `m(x,y)`, `l(x,y)`,
    `c(x1,y1,x2,y2,x3,y3)` concatenated; two paths joined by `+`), `tm(x,y,size)` for text, `*` when the
    model does not predict it (border side segments, outlines, table parts).
Numbers are decimals with at most six places.
-/
import WpModel.Model.Wire
import WpModel.Model.PaintOrder
import WpModel.Model.LaidOut
import WpModel.Model.RoundedBox
import WpModel.Model.TablePartBg
import WpModel.Model.ClipRect
import WpModel.Drive.Stacking
import WpModel.Drive.Rounded

namespace Wp.Drive.PaintGeo
open Wp Wp.Stacking Wp.Rounded

/-- Decimal with at most six places (rounded half away from zero), no trailing zeros. -/
def showDec (q : Rat) : String :=
  let neg := q < 0
  let a : Rat := if neg then -q else q
  let scaled : Nat := ((a * 1000000 + 1 / 2).floor).toNat
  let ip := scaled / 1000000
  let fp := scaled % 1000000
  let digits := (toString (1000000 + fp)).toList.drop 1
  let trimmed := (digits.reverse.dropWhile (· == '0')).reverse
  let body := if trimmed.isEmpty then toString ip else toString ip ++ "." ++ String.ofList trimmed
  if neg && scaled != 0 then "-" ++ body else body

def showOp : PathOp → String
  | .re x y w h => "re(" ++ ",".intercalate [showDec x, showDec y, showDec w, showDec h] ++ ")"
  | .m x y => "m(" ++ showDec x ++ "," ++ showDec y ++ ")"
  | .l x y => "l(" ++ showDec x ++ "," ++ showDec y ++ ")"
  | .c a b c d e f => "c(" ++ ",".intercalate [showDec a, showDec b, showDec c, showDec d, showDec e, showDec f] ++ ")"

def showPath (p : List PathOp) : String := "".intercalate (p.map showOp)

inductive PartKind where
  | row | group | column
  deriving Repr, DecidableEq, BEq

structure Table where
  boxes : List (Nat × Geo × BgClip) := []
  parts : List (Nat × PartKind × Geo × List (List Nat)) := []
  clipProps : List (Nat × (Rat × Rat × Rat × Rat)) := []      -- the operands of the `clip` rectangle
  areas : List (Nat × (Rat × Rat × Rat × Rat)) := []
  canvas : List (Nat × (Rat × Rat × Rat × Rat)) := []
  texts : List (Nat × (Rat × Rat × Rat)) := []

def bgClip? : Sx → Option BgClip
  | .atom "border-box" => some .borderBox
  | .atom "padding-box" => some .paddingBox
  | .atom "content-box" => some .contentBox
  | _ => none

def entry? (t : Table) : Sx → Option Table
  | .list [.atom "B", id, g, c] => do
    pure { t with boxes := ((← id.nat?), (← Wp.Drive.Rounded.geo? g), (← bgClip? c)) :: t.boxes }
  | .list [.atom "A", id, x, y, w, h] => do
    pure { t with areas := ((← id.nat?), ((← x.rat?), (← y.rat?), (← w.rat?), (← h.rat?))) :: t.areas }
  | .list [.atom "C", id, x, y, w, h] => do
    pure { t with canvas := ((← id.nat?), ((← x.rat?), (← y.rat?), (← w.rat?), (← h.rat?))) :: t.canvas }
  | .list [.atom "R", id, g, .list cells] => do
    pure { t with parts := ((← id.nat?), .row, (← Wp.Drive.Rounded.geo? g), [← allSome Sx.nat? cells]) :: t.parts }
  | .list [.atom "K", id, g, .list cells] => do
    pure { t with parts := ((← id.nat?), .column, (← Wp.Drive.Rounded.geo? g), [← allSome Sx.nat? cells]) :: t.parts }
  | .list [.atom "G", id, g, .list rows] => do
    let rows ← allSome (fun r => match r with | .list cells => allSome Sx.nat? cells | _ => none) rows
    pure { t with parts := ((← id.nat?), .group, (← Wp.Drive.Rounded.geo? g), rows) :: t.parts }
  | .list [.atom "P", id, .list [bbx, bby, bw, bh], .list [top, right, bottom, left]] => do
    let side (x : Sx) : Option (Option Rat) := match x with | .atom "auto" => some none | y => y.rat?.map some
    let c : Wp.ClipRect.ClipProp :=
      { top := (← side top), right := (← side right), bottom := (← side bottom), left := (← side left) }
    pure { t with clipProps :=
      ((← id.nat?), Wp.ClipRect.clipRect (← bbx.rat?) (← bby.rat?) (← bw.rat?) (← bh.rat?) c) :: t.clipProps }
  | .list [.atom "T", id, x, y, sz] => do
    pure { t with texts := ((← id.nat?), ((← x.rat?), (← y.rat?), (← sz.rat?))) :: t.texts }
  | _ => none

def table? (entries : List Sx) : Option Table :=
  entries.foldlM entry? {}

def rect (r : Rat × Rat × Rat × Rat) : String := showOp (.re r.1 r.2.1 r.2.2.1 r.2.2.2)

/-- The background layer of a table part (`layout_background_layer`): painting area and clipped boxes;
`none` when the id is not a table part or a cell's geometry is missing. -/
def partLayer (t : Table) (id : Nat) : Option (Wp.TablePart.Rect × List RBox) := do
  let (kind, g, rows) ← t.parts.lookup id
  let geos ← allSome (fun cells => allSome (fun c => (t.boxes.lookup c).map (·.1)) cells) rows
  match kind with
  | .row => pure (Wp.TablePart.rowLayer g geos.flatten)
  | .column => pure (Wp.TablePart.columnLayer g geos.flatten)
  | .group => pure (Wp.TablePart.groupLayer g geos)

def areaOf (t : Table) (role : Role) (id : Nat) : String :=
  if (role == .bg || role == .colBg) && (t.parts.lookup id).isSome then
    match partLayer t id with | some (r, _) => rect r | none => "*"
  else
  if role == .canvas then
    -- layout_backgrounds: `painting_area = box_rectangle(page, 'border-box')` for every layer of the canvas
    match t.boxes.lookup id with
    | some (g, _) => rect (boxRectangle g .borderBox)
    | none => match t.canvas.lookup id with | some r => rect r | none => "*"
  else if role == .bg then
    match t.areas.lookup id with
    | some r => rect r
    | none => match t.boxes.lookup id with
      | some (g, k) => rect (boxRectangle g k)
      | none => "*"
  else "*"

def showClip (t : Table) : Clip → String
  | .viewport => match t.boxes.lookup 0 with
    | some (g, _) => showPath (roundedPath (roundedPaddingBox g)) | none => "*"
  | .overflow id => match t.boxes.lookup id with
    | some (g, _) => showPath (roundedPath (roundedPaddingBox g)) | none => "*"
  | .bgBoxes role id =>
    if (t.parts.lookup id).isSome then
      match partLayer t id with
      | some (_, clipped) => "+".intercalate (clipped.map (fun b => showPath (roundedPath b)))
      | none => "*"
    else if role == .bg then
      match t.boxes.lookup id with
      | some (g, k) => showPath (roundedPath (clippedBox g k)) | none => "*"
    else "*"
  | .bgArea role id => areaOf t role id
  | .clipProp id => match t.clipProps.lookup id with | some r => rect r | none => "*"
  | _ => "*"

/-- `box.border_*_width` count of every box id of the tree (for the simple border case). -/
partial def sidesOf : Box → List (Nat × Nat)
  | .leaf a => [(a.id, a.borderSides)]
  | .node a kids => (a.id, a.borderSides) :: kids.flatMap sidesOf
  | .ph b => sidesOf b

def showGeom (t : Table) (sides : List (Nat × Nat)) : Item → String
  | .paint .bg id _ _ => areaOf t .bg id
  | .paint .canvas id _ _ => areaOf t .canvas id
  | .paint .colBg id _ _ => areaOf t .colBg id
  | .paint .border id _ _ =>
    match t.boxes.lookup id, sides.lookup id with
    | some (g, _), some 4 =>
      showPath (roundedPath (roundedPaddingBox g)) ++ "+" ++ showPath (roundedPath (roundedBorderBox g))
    | _, _ => "*"
  | .paint .text id _ _ =>
    match t.texts.lookup id with
    | some (x, y, sz) => "tm(" ++ showDec x ++ "," ++ showDec y ++ "," ++ showDec sz ++ ")"
    | none => "*"
  | _ => "*"

def showItem (t : Table) (sides : List (Nat × Nat)) : Item → Option String
  | .paint .replaced _ _ e =>
    some ("r:0:" ++ ",".intercalate (e.alphas.map showRat) ++ ":" ++ ",".intercalate (e.transforms.map toString) ++
      ":" ++ "|".intercalate (e.clips.map (showClip t)) ++ ":*")
  | .paint .collapsedBorders _ _ _ => none
  | .raise _ => none
  | .paint r id c e =>
    let kind := if r == .text then "t" else "f"
    some (kind ++ ":" ++ toString c ++ ":" ++ ",".intercalate (e.alphas.map showRat) ++ ":" ++
      ",".intercalate (e.transforms.map toString) ++ ":" ++
      "|".intercalate (e.clips.map (showClip t)) ++ ":" ++ showGeom t sides (.paint r id c e))

def handle (cmd : String) (args : List Sx) : Option String :=
  match cmd, args with
  | "paintgeo", [page, canvas, .list kids, .list entries] => do
    let page ← Wp.Drive.Stacking.attrs? page
    let canvas ← Wp.Drive.Stacking.bg? canvas
    let kids ← allSome Wp.Drive.Stacking.box? kids
    let t ← table? entries
    if (fromPage page kids).2 then pure "err:AssertionError" else
    let sides := (page.id, page.borderSides) :: kids.flatMap sidesOf
    match runItems (drawPage page canvas kids) with
    | .error e => pure (Wp.Drive.Stacking.errClass e)
    | .ok items => pure (" ".intercalate (items.filterMap (showItem t sides)))
  | "paintgeodoc", [page, .list [rootHtml, .list flags], .list kids, .list entries] => do
    let page ← Wp.Drive.Stacking.attrs? page
    let rootHtml ← rootHtml.bool?
    let flags ← allSome Sx.bool? flags
    let kids ← allSome Wp.Drive.Stacking.box? kids
    let t ← table? entries
    if (fromPage page kids).2 then pure "err:AssertionError" else
    let sides := (page.id, page.borderSides) :: kids.flatMap sidesOf
    match runItems (drawDocument page rootHtml flags kids) with
    | .error e => pure (Wp.Drive.Stacking.errClass e)
    | .ok items => pure (" ".intercalate (items.filterMap (showItem t sides)))
  | "dec", [q] => q.rat?.map showDec
  | _, _ => none

end Wp.Drive.PaintGeo
