/-
Line protocol of `Model/TablePages.lean`.

  row    ::= (height before after)
  group  ::= ((row…) before after inside) | none
  skip   ::= none | (g none) | (g r)                       body-group coordinates
  tablefrag sp <break-inside> pageBottom <header> <footer> (group…) <skip> y bottomSpace pageIsEmpty
     → none | frag <header> <footer> ((g (row…) y height)…) <resume> <next break|any> endY | err:ValueError
-/
import WpModel.Model.Wire
import WpModel.Model.TablePages
import WpModel.Drive.Table

namespace Wp.Drive.TablePages
open Wp Wp.TablePages Wp.Drive.Table

def brk? (x : Sx) : Option Brk := x.atom?.bind Brk.ofCss?

def row? : Sx → Option PRow
  | .list [h, b, a] => do pure ⟨← h.rat?, ← brk? b, ← brk? a⟩
  | _ => none

def group? : Sx → Option PGroup
  | .list [.list rows, b, a, i] => do pure ⟨← allSome row? rows, ← brk? b, ← brk? a, ← brk? i⟩
  | _ => none

def optGroup? : Sx → Option (Option PGroup)
  | .atom "none" => some none
  | x => (group? x).map some

def skip? : Sx → Option (Option Resume)
  | .atom "none" => some none
  | .list [g, .atom "none"] => do pure (some ⟨← g.nat?, none⟩)
  | .list [g, r] => do pure (some ⟨← g.nat?, some (← r.nat?)⟩)
  | _ => none

def showResume : Option Resume → String
  | none => "none"
  | some ⟨g, none⟩ => "(" ++ toString g ++ " none)"
  | some ⟨g, some r⟩ => "(" ++ toString g ++ " " ++ toString r ++ ")"

def showGroup (g : PlacedGroup) : String :=
  "(" ++ toString g.index ++ " (" ++ " ".intercalate (g.rows.map (fun r => toString r.1)) ++ ") " ++
  showRat g.y ++ " " ++ showRat g.height ++ ")"

def handle (cmd : String) (args : List Sx) : Option String :=
  match cmd, args with
  | "tablefrag", [sp, inside, pb, hd, ft, .list bodies, skip, y, bs, empty] => do
    let t : PTable := ⟨← sp.rat?, ← brk? inside, ← optGroup? hd, ← optGroup? ft, ← allSome group? bodies⟩
    match tableLayout t (← pb.rat?) (← skip? skip) (← y.rat?) (← bs.rat?) (← empty.bool?) with
    | .error e => pure (errStr e)
    | .ok none => pure "none"
    | .ok (some f) =>
      pure ("frag " ++ toString f.header ++ " " ++ toString f.footer ++ " (" ++
        " ".intercalate (f.groups.map showGroup) ++ ") " ++ showResume f.resume ++ " " ++
        (match f.next with | none => "any" | some b => b.toCss) ++ " " ++ showRat f.endY)
  | _, _ => none

end Wp.Drive.TablePages
