/-
Line protocol for `Model/PageMarks.lean`:
  marks <crop> <cross> <width> <height> (top right bottom left) → `((x0 y0 x1 y1) …) ((cx cy r) …)`
-/
import WpModel.Drive.C14
import WpModel.Model.PageMarks

namespace Wp.Drive.C14Marks
open Wp Wp.PageMarks Wp.PdfBoxes

def handle (cmd : String) (args : List Sx) : Option String :=
  match cmd, args with
  | "marks", [crop, cross, w, h, .list [t, r, b, l]] => do
    let (segs, circs) := marksOf (← crop.bool?) (← cross.bool?) (← w.rat?) (← h.rat?)
      ⟨← t.rat?, ← r.rat?, ← b.rat?, ← l.rat?⟩
    let s := segs.map (fun s => s!"({showRat s.x0} {showRat s.y0} {showRat s.x1} {showRat s.y1})")
    let c := circs.map (fun c => s!"({showRat c.cx} {showRat c.cy} {showRat c.r})")
    pure ("(" ++ " ".intercalate s ++ ") (" ++ " ".intercalate c ++ ")")
  | _, _ => none

end Wp.Drive.C14Marks
