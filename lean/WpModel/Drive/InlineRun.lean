/-
Line protocol of the nested-inline model (C09).
  ipara <nodes> <ws> <wb> <ow> <fs> <lh> <cbx> <width> <indent> <all> <last> <y>
     nodes ::= ((t <text>) | (b <ls> <rs> <deco> (nodes…)) …)
     → ((x y w h (frags…)) …),  frag ::= (t <text> x w) | (b x w ls rs (frags…))
  pmin <nodes> <ws> <wb> <ow> <fs> <indent> <outer> <first_line> <is_line_start> <skip>  → inline_min_content_width
  pmax <nodes> <ws> <wb> <ow> <fs> <indent> <outer> <is_line_start>                     → inline_max_content_width
  ptws <nodes> <ws> <wb> <ow> <fs>                                                      → trailing_whitespace_size
     skip ::= none | (index skip)
  snodes <src> <ws>     → the children of the line box built from the source (process_whitespace + inline_in_block)
  spara <src> <ws> <wb> <ow> <fs> <lh> <cbx> <width> <indent> <all> <last> <y>   → as `ipara`, from the source
     src ::= ((t <text>) | (b <ls> <rs> <deco> (src…)) …);  nodes may be flagged: (f <node>) = trailing_collapsible_space
-/
import WpModel.Model.Wire
import WpModel.Model.InlineRun
import WpModel.Model.InlinePreferred
import WpModel.Model.InlineSource
import WpModel.Drive.LineBreak

namespace Wp.Drive.InlineRun
open Wp Wp.Py Wp.LB Wp.IR Wp.Drive.LineBreak

partial def node? : Sx → Option Node
  | .list [.atom "t", t] => (text? t).map Node.text
  | .list [.atom "b", ls, rs, deco, .list kids] => do
    pure (.box (← ls.rat?) (← rs.rat?) (← deco.bool?) (← allSome node? kids))
  | .list [.atom "f", n] => (node? n).map Node.flagged
  | _ => none

partial def src? : Sx → Option IS.Src
  | .list [.atom "t", t] => (text? t).map IS.Src.text
  | .list [.atom "b", ls, rs, deco, .list kids] => do
    pure (.box (← ls.rat?) (← rs.rat?) (← deco.bool?) (← allSome src? kids))
  | _ => none

partial def nodeSx : Node → Sx
  | .text s => .list [.atom "t", .atom (encodeText s)]
  | .box ls rs deco kids => .list [.atom "b", sxRat ls, sxRat rs, sxBool deco, .list (kids.map nodeSx)]
  | .flagged n => .list [.atom "f", nodeSx n]

partial def fragSx : Frag → Sx
  | .text s x w => .list [.atom "t", .atom (encodeText s), sxRat x, sxRat w]
  | .box x w ls rs _ kids => .list [.atom "b", sxRat x, sxRat w, sxRat ls, sxRat rs, .list (kids.map fragSx)]

def lineSx (l : IR.OutLine) : Sx :=
  .list [sxRat l.x, sxRat l.y, sxRat l.w, sxRat l.h, .list (l.kids.map fragSx)]

partial def skip? : Sx → Option (Option Skip)
  | .atom "none" => some none
  | .list [i, sub] => do
    pure (some (.mk (← i.nat?) (← skip? sub)))
  | _ => none

def ratOut (r : Except PyErr Rat) : String := render (r.map sxRat)

def handle (cmd : String) (args : List Sx) : Option String :=
  match cmd, args with
  | "pmin", [.list nodes, ws, wb, ow, fs, indent, outer, firstLine, ils, skip] => do
    let st ← style? ws wb ow fs
    pure (ratOut (IP.minContentWidth st (← allSome node? nodes) (← indent.rat?) (← outer.bool?) (← firstLine.bool?)
      (← ils.bool?) (← skip? skip)))
  | "pmax", [.list nodes, ws, wb, ow, fs, indent, outer, ils] => do
    let st ← style? ws wb ow fs
    pure (ratOut (IP.maxContentWidth st (← allSome node? nodes) (← indent.rat?) (← outer.bool?) (← ils.bool?)))
  | "ptws", [.list nodes, ws, wb, ow, fs] => do
    let st ← style? ws wb ow fs
    pure (ratOut (IP.trailingWhitespaceSize st (← allSome node? nodes)))
  | "ipara", [.list nodes, ws, wb, ow, fs, lh, cbx, width, indent, all, last, y] => do
    let st ← style? ws wb ow fs
    let a : AlignStyle := { alignAll := ← all.atom?.bind Align.ofCss?, alignLast := ← alignLast? last,
                            ws := st.ws, rtl := false }
    let p : IR.Para := { st := st, kids := ← allSome node? nodes, lineHeight := ← lh.rat?, cbx := ← cbx.rat?,
                         width := ← width.rat?, indent := ← indent.rat?, align := a, y := ← y.rat? }
    pure (render ((IR.paragraph p).map (fun ls => .list (ls.map lineSx))))
  | "snodes", [.list src, ws] => do
    let w ← ws.atom?.bind WS.ofCss?
    pure (Sx.list ((IS.lineKids w (← allSome src? src)).map nodeSx)).render
  | "spara", [.list src, ws, wb, ow, fs, lh, cbx, width, indent, all, last, y] => do
    let st ← style? ws wb ow fs
    let a : AlignStyle := { alignAll := ← all.atom?.bind Align.ofCss?, alignLast := ← alignLast? last,
                            ws := st.ws, rtl := false }
    let p : IR.Para := { st := st, kids := IS.lineKids st.ws (← allSome src? src), lineHeight := ← lh.rat?,
                         cbx := ← cbx.rat?, width := ← width.rat?, indent := ← indent.rat?, align := a, y := ← y.rat? }
    pure (render ((IR.paragraph p).map (fun ls => .list (ls.map lineSx))))
  | _, _ => none

end Wp.Drive.InlineRun
