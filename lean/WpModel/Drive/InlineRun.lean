/-
Line protocol of the nested-inline model (C09).
  ipara <nodes> <ws> <wb> <ow> <fs> <lh> <cbx> <width> <indent> <all> <last> <y>
     nodes ::= ((t <text>) | (b <ls> <rs> <deco> (nodes…)) …)
     → ((x y w h (frags…)) …),  frag ::= (t <text> x w) | (b x w ls rs (frags…))
-/
import WpModel.Model.Wire
import WpModel.Model.InlineRun
import WpModel.Drive.LineBreak

namespace Wp.Drive.InlineRun
open Wp Wp.Py Wp.LB Wp.IR Wp.Drive.LineBreak

partial def node? : Sx → Option Node
  | .list [.atom "t", t] => (text? t).map Node.text
  | .list [.atom "b", ls, rs, deco, .list kids] => do
    pure (.box (← ls.rat?) (← rs.rat?) (← deco.bool?) (← allSome node? kids))
  | _ => none

partial def fragSx : Frag → Sx
  | .text s x w => .list [.atom "t", .atom (encodeText s), sxRat x, sxRat w]
  | .box x w ls rs _ kids => .list [.atom "b", sxRat x, sxRat w, sxRat ls, sxRat rs, .list (kids.map fragSx)]

def lineSx (l : IR.OutLine) : Sx :=
  .list [sxRat l.x, sxRat l.y, sxRat l.w, sxRat l.h, .list (l.kids.map fragSx)]

def handle (cmd : String) (args : List Sx) : Option String :=
  match cmd, args with
  | "ipara", [.list nodes, ws, wb, ow, fs, lh, cbx, width, indent, all, last, y] => do
    let st ← style? ws wb ow fs
    let a : AlignStyle := { alignAll := ← all.atom?.bind Align.ofCss?, alignLast := ← alignLast? last,
                            ws := st.ws, rtl := false }
    let p : IR.Para := { st := st, kids := ← allSome node? nodes, lineHeight := ← lh.rat?, cbx := ← cbx.rat?,
                         width := ← width.rat?, indent := ← indent.rat?, align := a, y := ← y.rat? }
    pure (render ((IR.paragraph p).map (fun ls => .list (ls.map lineSx))))
  | _, _ => none

end Wp.Drive.InlineRun
