/-
Line-protocol loop shared by the per-property drivers: one command per input line, one result line
per command.   `<cmd> <sx> <sx> …`  →  result | `bad-op` (unparsable or unknown: never defaulted).
Imports nothing but the wire format, so every driver links without Mathlib.
-/
import WpModel.Model.Wire

namespace Wp.Drive
open Wp

abbrev Handler := String → List Sx → Option String

def dispatch (handlers : List Handler) (line : String) : String :=
  match Sx.parseLine line with
  | some (.atom cmd :: args) =>
    match handlers.findSome? (fun h => h cmd args) with
    | some out => out
    | none => "bad-op"
  | _ => "bad-op"

partial def loop (handlers : List Handler) (h : IO.FS.Stream) (out : IO.FS.Stream) : IO Unit := do
  let line ← h.getLine
  if line.isEmpty then return ()
  out.putStrLn (dispatch handlers line)
  loop handlers h out

def runDriver (handlers : List Handler) : IO Unit := do
  let stdin ← IO.getStdin
  let stdout ← IO.getStdout
  loop handlers stdin stdout

end Wp.Drive
