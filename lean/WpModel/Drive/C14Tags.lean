/-
`tag <cmd> <args…>`: the branch the model takes on the input of the protocol line `<cmd> <args…>`
(same argument decoding as `Drive/C14.lean`).  Used by the harness for the branch histogram.
-/
import WpModel.Drive.C14
import WpModel.Model.PageBranches

namespace Wp.Drive.C14Tags
open Wp Wp.PageBoxes Wp.PageState Wp.PageSel Wp.PageBranches Wp.Drive.C14

def tagOf (cmd : String) (args : List Sx) : Option String :=
  match cmd, args with
  | "pwh", [i, a, b, p, _cb] => do
    pure (pwhBranch (← obox? [i, a, b, p]))
  | "pdim", [i, a, b, p, cb, mn, mx] => do
    let bx ← obox? [i, a, b, p]
    pure (minMaxBranch bx (← cb.rat?) (← mn.rat?) (← optRat? mx))
  | "fixed", [i, a, b, p, outer, tl] => do
    pure (fixedBranch (← obox? [i, a, b, p]) (← outer.rat?) (← tl.bool?))
  | "variable", [vertical, avail, bgen, a, b, c] => do
    let (a, amn, amx) ← vbox? a
    let (b, bmn, bmx) ← vbox? b
    let (c, cmn, cmx) ← vbox? c
    let mk (o : OBox) (mn mx : Rat) (v : Bool) : VBox :=
      if v then toVBox o verticalMinContent verticalMaxContent else toVBox o mn mx
    let v ← vertical.bool?
    pure (variableBranch (mk a amn amx v) (mk b bmn bmx v) (mk c cmn cmx v) (← bgen.bool?) (← avail.rat?))
  | "remake", [_ix, nb, _nm, rp, ltr, fn] => do
    pure (remakeBranch (← nextBreak? nb) (← rp.bool?) (← ltr.bool?) (← fn.bool?))
  | "update", [vals, scope, reset, set, incr, li] => do
    let vals ← vals.list?.bind (allSome (fun e => match e with
      | .list [n, .list s] => do pure (← str? n, ← allSome Sx.int? s)
      | _ => none))
    let st : CState := ⟨vals, ← strList? scope⟩
    pure (updateBranch st ⟨← pairs? reset, ← pairs? set, ← optPairs? incr, ← li.bool?⟩)
  | "getstring", [cur, kw, chain, st] => do
    let chain ← chain.list?.bind (allSome Sx.bool?)
    pure (stringBranch (← store? st) (← cur.nat?) (← keyword? kw) chain)
  | "parsesel", [.list toks] => do
    pure (parseBranch (← allSome tok? toks))
  | "match", [s, p] => do
    pure (matchBranch (← sel? s) (← pageType? p))
  | _, _ => none

/-- Handler: `tag <cmd> <args…>`; `alltags` lists every tag. -/
def handle (cmd : String) (args : List Sx) : Option String :=
  match cmd, args with
  | "tag", .atom c :: rest => tagOf c rest
  | "alltags", [] => some (" ".intercalate allTags)
  | _, _ => none

end Wp.Drive.C14Tags
