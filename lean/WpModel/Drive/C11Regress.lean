/-
Regression cases of C11: the committed inputs of findings that were repaired in /repo (`fixed:` lines of
known_findings.txt).  `regression <id>` evaluates, on the model, the very clause the finding's replay function
evaluates on the rendered document (py/harness/c11_docs.py `REGRESSION_REPLAYS`), and prints `ok` when the model
satisfies it (`still-failing` otherwise).  A `fixed:` entry suppresses nothing: if the defect comes back in the
implementation the two sides disagree and the check reports it with the committed input.  The same inputs are the
regression theorems of `Witness/C11.lean`.

No Mathlib: linked into the driver.
-/
import WpModel.Model.Wire
import WpModel.Model.Floats
import WpModel.Model.FloatFlow
import WpModel.Model.Absolute

namespace Wp.Drive.C11Regress
open Wp Wp.Floats Wp.Absolute

/-- The page used by the replay documents: 300x400 with 20px margins, 10px font. -/
def pageCB (w : Rat) : CB := ⟨20, w, false⟩

def lineFloatRects (r : Except PyErr (List Shape × List PlacedLine × Rat)) :
    Option (List (List (Rat × Rat × Rat × Rat))) :=
  match r with
  | .ok (_, ls, _) => some (ls.map (fun l => l.floats))
  | .error _ => none

/-- `some true` = the model behaves as the repaired code should on the committed input. -/
def regressionOk : String → Option Bool
  | "abs-auto-margin-ignores-opposite-margin" =>
    -- left:0; right:0; width:50px; margin-left:auto; margin-right:10px in a 100-px containing block at x = 20:
    -- the border box must end 10 px before the containing block's right edge
    let b : HBox := ⟨some 0, some 0, some 50, none, some 10, 0, 0, 0, 0, 0, none, 0, 0, 20⟩
    match absoluteWidth b true 20 100 with
    | .ok r =>
      match finalX r, r.1.width, r.1.ml with
      | .ok x, some w, some ml => some (decide (x + ml + w = 20 + 100 - 10))
      | _, _, _ => some false
    | .error _ => some false
  | "zero-height-float-at-page-origin" =>
    -- a height:0 float in a 100-px container at (50, 70) stays at its static position
    match floatPlace [] ⟨50, 70, 0, 0, 0, 0, 40, 0, .left, .none, .bfc⟩ ⟨50, 100, false⟩ with
    | .ok (b, _) => some (decide (b.px = 50 ∧ b.py = 70))
    | .error _ => some false
  | "float-shrink-to-fit-ignores-margins-paddings" =>
    -- padding: 0 10px; margin-left: 5px; content 40..240 wide in a 100-px container: margin box ≤ 100
    let f : FloatSpec := ⟨.left, .none, .auto, none, .px 5, .px 0, .px 0, .px 0, .px 10, .px 10, .px 0, .px 0,
      0, 0, 0, 0, .auto, .auto, 40, 240, 10, 30⟩
    some (decide ((floatResolve f 100).marginWidth ≤ 100))
  | "float-width-ignores-min-max" =>
    let f : FloatSpec := ⟨.left, .none, .px 200, some 10, .px 0, .px 0, .px 0, .px 0, .px 0, .px 0, .px 0, .px 0,
      0, 0, 0, 0, .auto, .px 100, 0, 0, 0, 0⟩
    some (decide ((floatResolve f 100).bw = 100))
  | "rtl-inline-float-displaced" =>
    -- rtl, 100-px container at x = 20: a 20x10 left float met after a 20-px word stays inside 20..120
    let l : LineSpec := { w0 := 20, w := 20, h := 10, floats := [⟨0, 0, 0, 0, 0, 0, 20, 10, .left, .none, .bfc⟩] }
    match lineFloatRects (layoutLines ⟨20, 100, true⟩ 10 .start [] [l] 20) with
    | some [[(x, _, w, _)]] => some (decide (20 ≤ x ∧ x + w ≤ 120))
    | _ => some false
  | "inline-float-snapped-to-line-top" =>
    -- a clear:left 5x10 float met in a line next to an 80x30 left float at y = 20 goes below that float
    let l : LineSpec := { w0 := 10, w := 10, h := 10, floats := [⟨0, 0, 0, 0, 0, 0, 5, 10, .left, .left, .bfc⟩] }
    match lineFloatRects (layoutLines (pageCB 100) 10 .start [⟨20, 20, 80, 30, .left⟩] [l] 20) with
    | some [[(_, y, _, _)]] => some (decide (20 + 30 ≤ y))
    | _ => some false
  | "abs-replaced-floor-div" =>
    -- left:0; right:0; margin:auto on a 95-px image in a 100-px containing block: margins 5/2 each
    let b : RBox := ⟨some 0, some 0, some 0, none, none, none, some 0, some 0, 95, 10, 0, 0, 0, 0, 0, 0, 0, 0, 0, 0⟩
    let r := absoluteReplacedH b true 20 100
    some (decide (r.ml = some (5 / 2) ∧ r.mr = some (5 / 2)))
  | "zero-height-float-blocks-descent" =>
    -- floats 10x0, 80x50, 50x10 in a 100-px container at (20, 20): the third goes below the second
    match floatPlace [⟨20, 20, 10, 0, .left⟩, ⟨20, 20, 80, 50, .left⟩]
        ⟨20, 20, 0, 0, 0, 0, 50, 10, .left, .none, .bfc⟩ (pageCB 100) with
    | .ok (b, _) => some (decide (b.px = 20 ∧ b.py = 70))
    | .error _ => some false
  | "zero-height-float-ignores-other-floats" =>
    -- float:left 20x20 at (20, 20), then float:left;width:10px;height:0;margin:5px: beside it (x = 40), not over it
    match floatPlace [⟨20, 20, 20, 20, .left⟩] ⟨20, 20, 5, 5, 5, 5, 10, 0, .left, .none, .bfc⟩ (pageCB 100) with
    | .ok (b, _) => some (decide (b.px = 40 ∧ b.py = 20))
    | .error _ => some false
  | "inline-float-laid-out-twice" =>
    -- rtl, no earlier float: a 20x10 left float met in a line after a 20-px word is at the container's left edge
    let l : LineSpec := { w0 := 20, w := 20, h := 10, floats := [⟨0, 0, 0, 0, 0, 0, 20, 10, .left, .none, .bfc⟩] }
    match lineFloatRects (layoutLines ⟨20, 100, true⟩ 10 .start [] [l] 20) with
    | some [[(x, _, _, _)]] => some (decide (x = 20))
    | _ => some false
  | _ => none

def handle (cmd : String) (args : List Sx) : Option String :=
  match cmd, args with
  | "regression", [.atom id] => (regressionOk id).map (fun ok => if ok then "ok" else "still-failing")
  | _, _ => none

end Wp.Drive.C11Regress
