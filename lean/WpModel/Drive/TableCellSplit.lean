/-
Line protocol of `Model/TableCellSplit.lean`.

  chain   ::= none | (n…)                         `{a: {b: None}}` ↦ (a b)
  rowskip ::= none | ((index chain)…)
  cellskip <rowskip> index nChildren              → chain            (`cell_skip_stack`)
  cellresume placed <skip chain> <result chain>    → chain            (`cell_resume_at`)
  rowresumeraw ((placed <skip chain> <result chain>)…) → rowskip      (`cellResume` per cell, then `rowResume`)
  rowresume (chain…)                              → rowskip          (`resume_at[index_row]`)
-/
import WpModel.Model.Wire
import WpModel.Model.TableCellSplit

namespace Wp.Drive.TableCellSplit
open Wp Wp.TableSplit

def chain? : Sx → Option (Option Chain)
  | .atom "none" => some none
  | .list xs => (allSome Sx.nat? xs).map some
  | _ => none

def binding? : Sx → Option (Nat × Chain)
  | .list [i, .list xs] => do pure (← i.nat?, ← allSome Sx.nat? xs)
  | _ => none

def rowSkip? : Sx → Option (Option RowSkip)
  | .atom "none" => some none
  | .list xs => (allSome binding? xs).map some
  | _ => none

def showNats (l : List Nat) : String := "(" ++ " ".intercalate (l.map toString) ++ ")"

def showChain : Option Chain → String
  | none => "none"
  | some c => showNats c

def showRowSkip : Option RowSkip → String
  | none => "none"
  | some d => "(" ++ " ".intercalate (d.map (fun (b : Nat × Chain) => "(" ++ toString b.1 ++ " " ++ showNats b.2 ++ ")")) ++ ")"

def handle (cmd : String) (args : List Sx) : Option String :=
  match cmd, args with
  | "cellskip", [skip, i, n] => do
    pure (showChain (cellSkip (← rowSkip? skip) (← i.nat?) (← n.nat?)))
  | "cellresume", [placed, skip, result] => do
    pure (showChain (cellResume (← placed.bool?) (← chain? skip) (← chain? result)))
  | "rowresumeraw", [.list rs] => do
    let one := fun (x : Sx) => match x with
      | .list [placed, skip, result] => do
        pure (cellResume (← placed.bool?) (← chain? skip) (← chain? result))
      | _ => none
    pure (showRowSkip (rowResume (← allSome one rs)))
  | "rowresume", [.list rs] => do
    pure (showRowSkip (rowResume (← allSome chain? rs)))
  | _, _ => none

end Wp.Drive.TableCellSplit
