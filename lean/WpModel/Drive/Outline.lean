/-
Line protocol for `Model/Outline.lean`, `Model/Anchors.lean`, `Model/Dates.lean` (C18).

Opaque strings (labels, link targets, anchor names, states) travel as atoms escaped by the harness
(`%e` = empty string, `%20` …); they are only compared.  Strings the model looks into (dates, names
to sort) travel as lists of code points.
-/
import WpModel.Model.Wire
import WpModel.Model.Outline
import WpModel.Model.Dates
import WpModel.Model.Metadata
import WpModel.Model.C18PdfString
import WpModel.Model.C18Attach
import WpModel.Model.C18HitArea
import WpModel.Model.C18LinkAttr
import WpModel.Model.C18DocLinks

namespace Wp.Drive.Outline
open Wp Wp.Outline Wp.Anchors

def unesc (s : String) : String := if s == "%e" then "" else s
def esc (s : String) : String := if s == "" then "%e" else s

def str? (x : Sx) : Option String := x.atom?.map unesc

def hexChar? (c : Char) : Option Nat := Wp.PdfStr.hexVal c.toNat

/-- The code points of an opaque string from its wire atom (inverse of the harness's `esc`: `%XX`,
`%uXXXX`, everything else verbatim; the empty string has already been unescaped by `str?`). -/
def atomCps : List Char → List Nat
  | [] => []
  | '%' :: 'u' :: a :: b :: c :: d :: rest =>
    match hexChar? a, hexChar? b, hexChar? c, hexChar? d with
    | some a, some b, some c, some d => (((a * 16 + b) * 16 + c) * 16 + d) :: atomCps rest
    | _, _, _, _ => 37 :: atomCps ('u' :: a :: b :: c :: d :: rest)
  | '%' :: a :: b :: rest =>
    match hexChar? a, hexChar? b with
    | some a, some b => (a * 16 + b) :: atomCps rest
    | _, _ => 37 :: atomCps (a :: b :: rest)
  | ch :: rest => ch.toNat :: atomCps rest

def cpsOfAtom (s : String) : List Nat := atomCps s.toList

/-- Errors are printed without the site: the harness maps a Python exception to `err:<Class>` and,
for AssertionError, appends the site it reads from the failing source line. -/
def renderErr : PyErr → String
  | .assertFailed s => "err:AssertionError@" ++ s
  | .indexError _ => "err:IndexError"
  | .zeroDivision _ => "err:ZeroDivisionError"
  | .noneAttribute _ => "err:AttributeError"
  | .recursion _ => "err:RecursionError"
  | .valueError _ => "err:ValueError"

def optNat? (x : Sx) : Option (Option Nat) :=
  match x with
  | .atom "none" => some none
  | _ => x.nat?.map some

def showOptNat : Option Nat → String
  | none => "none"
  | some n => toString n

/-! ### matrices -/

def matrix? : Sx → Option Matrix
  | .list [a, b, c, d, e, f] => do
    pure ⟨← a.rat?, ← b.rat?, ← c.rat?, ← d.rat?, ← e.rat?, ← f.rat?⟩
  | _ => none

def optMatrix? : Sx → Option (Option Matrix)
  | .atom "none" => some none
  | x => (matrix? x).map some

def showMatrix (m : Matrix) : String :=
  " ".intercalate ([m.a, m.b, m.c, m.d, m.e, m.f].map showRat)

def showRect (r : Rect) : String :=
  " ".intercalate ([r.x1, r.y1, r.x2, r.y2].map showRat)

/-! ### bookmark trees -/

def bookmark? : Sx → Option Bookmark
  | .list [level, label, x, y, state] => do
    pure ⟨← level.int?, ← str? label, ← x.rat?, ← y.rat?, ← str? state⟩
  | _ => none

partial def btree? : Sx → Option BTree
  | .list [label, page, x, y, state, .list kids] => do
    let ks ← allSome btree? kids
    pure (.node (← str? label) ⟨← page.int?, ← x.rat?, ← y.rat?⟩ ks (← str? state))
  | _ => none

partial def showBTree : BTree → String
  | .node label t kids state =>
    "(" ++ esc label ++ " " ++ toString t.page ++ " " ++ showRat t.x ++ " " ++ showRat t.y ++ " " ++
      esc state ++ " (" ++ " ".intercalate (kids.map showBTree) ++ "))"

def showForest (ts : List BTree) : String := "(" ++ " ".intercalate (ts.map showBTree) ++ ")"

/-- The state the harness builds for a direct call: `n` lists in `last_by_depth`, chained through
placeholder subtrees `_1`, `_2`, …  (frames: deepest first). -/
def dummyFrames : Nat → List Frame
  | 0 => []
  | 1 => [rootFrame]
  | n + 1 => ⟨"_" ++ toString n, ⟨0, 0, 0⟩, "open", []⟩ :: dummyFrames n

def pbtPage? : Sx → Option (Int × Matrix × List Bookmark)
  | .list [n, m, .list bms] => do
    pure (← n.int?, ← matrix? m, ← allSome bookmark? bms)
  | _ => none

def runPbt : BState → List (Int × Matrix × List Bookmark) → Except PyErr BState
  | st, [] => .ok st
  | st, (n, m, bms) :: rest =>
    match makePageBookmarkTree bms st n m with
    | .error e => .error e
    | .ok st' => runPbt st' rest

def bpage? : Sx → Option BPage
  | .list [h, .list bms] => do pure ⟨← h.rat?, ← allSome bookmark? bms⟩
  | _ => none

/-! ### outlines -/

def showOutline (o : Wp.Outline.Outline) : String :=
  "(" ++ " ".intercalate [toString o.num, esc o.title, toString o.pageRef, showRat o.x, showRat o.y,
    toString o.count, showOptNat o.prev, showOptNat o.next, showOptNat o.first, showOptNat o.last,
    showOptNat o.parent] ++ ")"

def showDict : Option OutlinesDict → String
  | none => "none"
  | some d => "(" ++ " ".intercalate [toString d.num, toString d.count, toString d.first, toString d.last] ++ ")"

/-! ### links -/

def anchor? : Sx → Option Anchor
  | .list [n, x, y] => do pure ⟨← str? n, ← x.rat?, ← y.rat?⟩
  | _ => none

def link? : Sx → Option Wp.Outline.Link
  | .list [t, target, id] => do pure ⟨← str? t, ← str? target, ← id.nat?⟩
  | _ => none

def lpage? : Sx → Option LPage
  | .list [.list anchors, .list links] => do pure ⟨← allSome anchor? anchors, ← allSome link? links⟩
  | _ => none

def showAnchor (a : Anchor) : String := "(" ++ esc a.name ++ " " ++ showRat a.x ++ " " ++ showRat a.y ++ ")"
def showLink (l : Wp.Outline.Link) : String :=
  "(" ++ esc l.type ++ " " ++ esc l.target ++ " " ++ toString l.id ++ ")"

def showResolved (r : List Wp.Outline.Link × List Anchor) : String :=
  "((" ++ " ".intercalate (r.1.map showLink) ++ ") (" ++ " ".intercalate (r.2.map showAnchor) ++ "))"

def nameItem? : Sx → Option (List Nat × Nat)
  | .list [.list cps, id] => do pure (← allSome Sx.nat? cps, ← id.nat?)
  | _ => none

/-! ### gather_anchors -/

def dim? : Sx → Option Dim
  | .list [.atom "px", v] => v.rat?.map Dim.px
  | .list [.atom "pct", v] => v.rat?.map Dim.pct
  | _ => none

def top? : Sx → Option TOp
  | .list [.atom "scale", a, d] => do pure (.scale (← a.rat?) (← d.rat?))
  | .list [.atom "translate", e, f] => do pure (.translate (← dim? e) (← dim? f))
  | .list [.atom "matrix", a, b, c, d, e, f] => do
    pure (.matrix (← a.rat?) (← b.rat?) (← c.rat?) (← d.rat?) (← e.rat?) (← f.rat?))
  | _ => none

def kind? : Sx → Option Kind
  | .atom "inline" => some .inline
  | .atom "text" => some .text
  | .atom "line" => some .line
  | .atom "other" => some .other
  | _ => none

def optInt? : Sx → Option (Option Int)
  | .atom "none" => some none
  | x => x.int?.map some

def optStr? : Sx → Option (Option String)
  | .atom "none" => some none
  | x => (str? x).map some

def optLink? : Sx → Option (Option (String × String))
  | .atom "none" => some none
  | .list [t, target] => do pure (some (← str? t, ← str? target))
  | _ => none

partial def gbox? : Sx → Option GBox
  | .list [kind, .list ops, ox, oy, bx, bY, bw, bh, hx, hy, hw, hh, label, level, state, link, att,
      anchor, .list kids] => do
    let ks ← allSome gbox? kids
    pure (.mk (← kind? kind) (← allSome top? ops) (← dim? ox) (← dim? oy)
      (← bx.rat?) (← bY.rat?) (← bw.rat?) (← bh.rat?) (← hx.rat?) (← hy.rat?) (← hw.rat?) (← hh.rat?)
      (← str? label) (← optInt? level) (← str? state) (← optLink? link) (← att.bool?) (← optStr? anchor) ks)
  | _ => none

def geom? : Sx → Option BoxGeom
  | .list [px, py, w, h, mt, mr, mb, ml, pt, pr, pb, pl, bt, br, bb, bl] => do
    pure { positionX := ← px.rat?, positionY := ← py.rat?, width := ← w.rat?, height := ← h.rat?
           marginTop := ← mt.rat?, marginRight := ← mr.rat?, marginBottom := ← mb.rat?, marginLeft := ← ml.rat?
           paddingTop := ← pt.rat?, paddingRight := ← pr.rat?, paddingBottom := ← pb.rat?, paddingLeft := ← pl.rat?
           borderTop := ← bt.rat?, borderRight := ← br.rat?, borderBottom := ← bb.rat?, borderLeft := ← bl.rat? }
  | _ => none

/-- A laid-out box with its used values (`gatherraw`). -/
partial def rbox? : Sx → Option RBox
  | .list [kind, .list ops, ox, oy, geom, label, level, state, link, att, anchor, .list kids] => do
    let ks ← allSome rbox? kids
    pure (.mk (← kind? kind) (← allSome top? ops) (← dim? ox) (← dim? oy) (← geom? geom)
      (← str? label) (← optInt? level) (← str? state) (← optLink? link) (← att.bool?) (← optStr? anchor) ks)
  | _ => none

def showAcc (acc : Acc) : String :=
  let anchors := acc.anchors.map fun a => "(" ++ esc a.name ++ " " ++ showRect a.rect ++ ")"
  let links := acc.links.map fun l => "(" ++ esc l.type ++ " " ++ esc l.target ++ " " ++ showRect l.rect ++ ")"
  let bms := acc.bookmarks.map fun b =>
    "(" ++ toString b.level ++ " " ++ esc b.label ++ " " ++ showRat b.x ++ " " ++ showRat b.y ++ " " ++
      esc b.state ++ ")"
  "(" ++ " ".intercalate anchors ++ ") (" ++ " ".intercalate links ++ ") (" ++ " ".intercalate bms ++ ")"

/-! ### dates -/

def chars? (x : Sx) : Option (List Char) :=
  x.list?.bind (allSome (fun a => a.nat?.map Char.ofNat))

def optChars? : Sx → Option (Option (List Char))
  | .atom "none" => some none
  | x => (chars? x).map some

def showChars (s : List Char) : String := "(" ++ " ".intercalate (s.map fun c => toString c.toNat) ++ ")"

def handle (cmd : String) (args : List Sx) : Option String :=
  match cmd, args with
  | "pbt", [.list skipped, prev, nframes, .list pages] => do
    let sk ← allSome Sx.int? skipped
    let prev ← prev.int?
    let n ← nframes.nat?
    let pages ← allSome pbtPage? pages
    match runPbt ⟨sk.reverse, dummyFrames n, prev⟩ pages with
    | .error e => pure (renderErr e)
    | .ok st =>
      pure (showForest (rootOf st.frames) ++ " (" ++ " ".intercalate (st.skipped.reverse.map toString) ++ ") " ++
        toString st.prev ++ " " ++ toString st.frames.length)
  | "mbt", [scale, transform, .list pages] => do
    let pages ← allSome bpage? pages
    match makeBookmarkTree pages (← scale.rat?) (← transform.bool?) with
    | .error e => pure (renderErr e)
    | .ok forest => pure (showForest forest)
  | "outl", [.list refs, next, parent, .list forest] => do
    let refs ← allSome Sx.nat? refs
    let forest ← allSome btree? forest
    match addOutlines refs (← next.nat?) forest (← optNat? parent) with
    | .error e => pure (renderErr e)
    | .ok r =>
      pure ("(" ++ " ".intercalate ((flattenNodes r.nodes).map showOutline) ++ ") " ++ showDict r.dict ++ " " ++
        toString r.count)
  | "resolve", [.list pages] => do
    let pages ← allSome lpage? pages
    pure ("(" ++ " ".intercalate ((resolveLinks pages).map showResolved) ++ ") (" ++
      " ".intercalate ((resolveErrors pages).map esc) ++ ")")
  | "sortnames", [.list items] => do
    let items ← allSome nameItem? items
    pure ("(" ++ " ".intercalate ((sortNames items).map fun p => toString p.2) ++ ")")
  | "aabb", [m, x, y, w, h] => do
    pure (showRect (rectangleAabb (← optMatrix? m) (← x.rat?) (← y.rat?) (← w.rat?) (← h.rat?)))
  | "matmul", [m, n] => do pure (showMatrix ((← matrix? m).mul (← matrix? n)))
  | "tpoint", [m, x, y] => do
    let p := (← matrix? m).transformPoint (← x.rat?) (← y.rat?)
    pure (showRat p.1 ++ " " ++ showRat p.2)
  | "gather", [box] => do pure (showAcc (gatherPage (← gbox? box)))
  | "gatherraw", [box] => do pure (showAcc (gatherPageRaw (← rbox? box)))
  | "unquote", [s] => do pure (showChars (Wp.LinkAttr.unquote (← chars? s)))
  | "linkattr", [attr, base] => do
    match Wp.LinkAttr.getLinkAttribute (← optChars? attr) (← optChars? base) with
    | none => pure "none"
    | some (.internal, t) => pure ("(internal " ++ showChars t ++ ")")
    | some (.external, t) => pure ("(external " ++ showChars t ++ ")")
  | "hitarea", [kind, geom] => do
    let h := hitArea (← kind? kind) (← geom? geom)
    pure (" ".intercalate ([h.1, h.2.1, h.2.2.1, h.2.2.2].map showRat))
  | "annot", [scale, height, x1, y1, x2, y2] => do
    let m := pageMatrix (← scale.rat?) (← height.rat?)
    pure (showRect (annotRect m ⟨← x1.rat?, ← y1.rat?, ← x2.rat?, ← y2.rat?⟩))
  | "w3c", [s] => do
    match Wp.Dates.w3cDateToPdf (← chars? s) with
    | .error e => pure (renderErr e)
    | .ok none => pure "none"
    | .ok (some r) => pure (String.ofList r)
  | _, _ => none

/-! ### document level -/

partial def showONode : ONode → String
  | .mk o kids => "(" ++ esc o.title ++ " " ++ toString o.count ++ " (" ++ " ".intercalate (kids.map showONode) ++ "))"

/-- Headings of a document `(level label state)` → the outline structure `generate_pdf` writes. -/
def docOutline (hs : List (Int × String × String)) : Except PyErr String :=
  let bms : List Bookmark := hs.map fun h => ⟨h.1, h.2.1, 0, 0, h.2.2⟩
  match makeBookmarkTree [⟨0, bms⟩] 1 false with
  | .error e => .error e
  | .ok forest =>
    match addOutlines [0] 0 forest none with
    | .error e => .error e
    | .ok r => .ok ("(" ++ " ".intercalate (r.nodes.map showONode) ++ ") " ++ toString r.count)

def heading? : Sx → Option (Int × String × String)
  | .list [l, label, state] => do pure (← l.int?, ← str? label, ← str? state)
  | _ => none

open Wp.DocLinks in
def danchor? : Sx → Option (Anchor × List Nat)
  | .list [n, .list cps, x, y] => do pure (⟨← str? n, ← x.rat?, ← y.rat?⟩, ← allSome Sx.nat? cps)
  | _ => none

open Wp.DocLinks in
def dlink? : Sx → Option DLink
  | .list [t, target, x1, y1, x2, y2] => do
    pure ⟨← str? t, ← str? target, ⟨← x1.rat?, ← y1.rat?, ← x2.rat?, ← y2.rat?⟩⟩
  | _ => none

open Wp.DocLinks in
def dpage? : Sx → Option DPage
  | .list [h, .list anchors, .list links] => do
    pure ⟨← h.rat?, ← allSome danchor? anchors, ← allSome dlink? links⟩
  | _ => none

def showAnnot (a : Wp.DocLinks.Annot) : String :=
  match a.rect with
  | none => "(lost)"
  | some r =>
    if a.kind == "attachment" then "(attachment " ++ showRect r ++ ")"
    else "(" ++ esc a.kind ++ " " ++ esc a.target ++ " " ++ showRect r ++ ")"

/-- The `/Annots` of every page and the `/Dests` name array (`Model/C18DocLinks.lean`), printed. -/
def docLinks (scale : Rat) (pages : List Wp.DocLinks.DPage) : String :=
  let annots := Wp.DocLinks.docAnnots scale pages
  let dests := (Wp.DocLinks.docDests scale pages).map fun (x : List Nat × Wp.DocLinks.Dest) =>
    "(" ++ esc x.2.name ++ " " ++ toString x.2.page ++ " " ++ showRat x.2.x ++ " " ++ showRat x.2.y ++ ")"
  "(" ++ " ".intercalate (annots.map fun (x : List Wp.DocLinks.Annot) => "(" ++ " ".intercalate (x.map showAnnot) ++ ")") ++
    ") (" ++ " ".intercalate dests ++ ")"

def pseudo? : Sx → Option Wp.Metadata.Pseudo
  | .atom "none" => some .none
  | .atom "before" => some .before
  | .atom "after" => some .after
  | _ => none

def watchItem? : Sx → Option (Nat × Wp.Metadata.Pseudo)
  | .list [id, p] => do pure (← id.nat?, ← pseudo? p)
  | _ => none

def headEl? : Sx → Option Wp.Metadata.HeadEl
  | .list [.atom "title", t] => do pure (.titleEl (← chars? t))
  | .list [.atom "meta", n, c] => do pure (.metaEl (← chars? n) (← chars? c))
  | _ => none

def handleDoc (cmd : String) (args : List Sx) : Option String :=
  match cmd, args with
  | "docoutl", [.list hs] => do
    match docOutline (← allSome heading? hs) with
    | .error e => pure (renderErr e)
    | .ok s => pure s
  | "pdfoutl", [scale, next, .list refs, .list pages] => do
    let pages ← allSome bpage? pages
    let refs ← allSome Sx.nat? refs
    match makeBookmarkTree pages (← scale.rat?) true with
    | .error e => pure (renderErr e)
    | .ok forest =>
      match addOutlines refs (← next.nat?) forest none with
      | .error e => pure (renderErr e)
      | .ok r =>
        pure ("(" ++ " ".intercalate ((flattenNodes r.nodes).map showOutline) ++ ") " ++ showDict r.dict ++ " " ++
          toString r.count)
  | "doclinks", [scale, .list pages] => do
    pure (docLinks (← scale.rat?) (← allSome dpage? pages))
  | "watch", [.list items] => do
    let items ← allSome watchItem? items
    pure ("(" ++ " ".intercalate ((Wp.Metadata.watch items []).map fun b => if b then "true" else "false") ++ ")")
  | "docspec", [.list links, .list names] => do
    let links ← allSome (fun x => match x with
      | .list [k, .atom kind, target, att] => do
        let frag ← (if kind == "fragment" then some true else if kind == "url" then some false else none)
        pure ("(" ++ toString (← k.nat?) ++ " " ++ Wp.Metadata.linkType frag (← att.bool?) ++ " " ++
          esc (← str? target) ++ ")")
      | _ => none) links
    let names ← allSome str? names
    pure ("(" ++ " ".intercalate links ++ ") (" ++
      " ".intercalate ((Wp.Metadata.firstOccurrences names []).map esc) ++ ")")
  | "docels", [base, .list els] => do
    let els ← allSome (fun x => match x with
      | .list [k, .atom tag, id, name, href, rel] => do
        pure (← k.nat?, ({ tag := tag, id := ← optChars? id, name := ← optChars? name, href := ← optChars? href,
                           rel := ← optChars? rel } : Wp.LinkAttr.El))
      | _ => none) els
    let r := Wp.LinkAttr.documentLinks els (← optChars? base)
    pure ("(" ++ " ".intercalate (r.1.map fun (k, ty, t) => "(" ++ toString k ++ " " ++ ty ++ " " ++ showChars t ++ ")") ++
      ") (" ++ " ".intercalate (r.2.map showChars) ++ ")")
  | "pdfenc", [.list cps] => do
    match Wp.PdfStr.encode (← allSome Sx.nat? cps) with
    | .error e => pure (renderErr e)
    | .ok bytes => pure ("(" ++ " ".intercalate (bytes.map toString) ++ ")")
  | "pdfdec", [.list bytes] => do
    let bytes ← allSome Sx.nat? bytes
    match Wp.PdfStr.readString bytes with
    | none => pure "unterminated"
    | some (raw, rest) =>
      let text := match Wp.PdfStr.textOf raw with
        | none => "undecodable"
        | some t => "(" ++ " ".intercalate (t.map toString) ++ ")"
      pure ("(" ++ " ".intercalate (raw.map toString) ++ ") " ++ text ++ " " ++ toString rest.length)
  | "meta", [lang, .list els] => do
    let m := Wp.Metadata.getHtmlMetadata (← optChars? lang) (← allSome headEl? els)
    let opt (v : Option (List Char)) : String := match v with | none => "none" | some t => showChars t
    pure (opt m.title ++ " " ++ opt m.description ++ " " ++ opt m.generator ++ " (" ++
      " ".intercalate (m.keywords.map showChars) ++ ") (" ++ " ".intercalate (m.authors.map showChars) ++ ") " ++
      opt m.created ++ " " ++ opt m.modified ++ " " ++ opt m.lang)
  | "rdf", [variant, version, conformance, producer, lang, .list els] => do
    let m := Wp.Metadata.getHtmlMetadata (← optChars? lang) (← allSome headEl? els)
    let fields := Wp.Metadata.rdfFields (← variant.atom?) (← version.atom?) (← optStr? conformance) (← chars? producer) m
    pure ("(" ++ " ".intercalate (fields.map fun (k, vs) => "(" ++ k ++ " " ++ " ".intercalate (vs.map showChars) ++ ")") ++ ")")
  | "info", [lang, .list els] => do
    let m := Wp.Metadata.getHtmlMetadata (← optChars? lang) (← allSome headEl? els)
    match Wp.Metadata.infoFields m with
    | .error e => pure (renderErr e)
    | .ok fields => pure ("(" ++ " ".intercalate (fields.map fun (k, v) => "(" ++ k ++ " " ++ showChars v ++ ")") ++ ")")
  | _, _ => none

/-! ### attachments -/

open Wp.Attach in
def att? : Sx → Option Att
  | .list [size, name, urlBase, desc] => do
    pure ⟨← optNat? size, ← optStr? name, ← optStr? urlBase, ← optStr? desc⟩
  | _ => none

def guess? : Sx → Option (String × String)
  | .list [f, g] => do pure (← str? f, ← str? g)
  | _ => none

open Wp.Attach in
def fetchEntry? : Sx → Option (String × Att)
  | .list [url, a] => do pure (← str? url, ← att? a)
  | _ => none

open Wp.Attach in
/-- `Attachment(url=…)` as a table; a URL outside the table fails to load. -/
def fetchOf (table : List (String × Att)) (url : String) : Att :=
  match table.find? (fun e => e.1 == url) with
  | some e => e.2
  | none => ⟨none, none, none, none⟩

open Wp.Attach in
def attLink? : Sx → Option AttLink
  | .list [t, x1, y1, x2, y2] => do pure ⟨← str? t, ⟨← x1.rat?, ← y1.rat?, ← x2.rat?, ← y2.rat?⟩⟩
  | _ => none

open Wp.Attach in
def attPage? : Sx → Option (Rat × Rat × List AttLink)
  | .list [scale, height, .list links] => do pure (← scale.rat?, ← height.rat?, ← allSome attLink? links)
  | _ => none

/-- `/` + the MIME type with its slash written `#2f` (`f'/{mime_type.replace("/", "#2f")}'`). -/
def mimeName (mime : String) : String := "/" ++ mime.replace "/" "#2f"

open Wp.Attach in
def showSpec (numbers : Bool) (f : FileSpec) : String :=
  "(" ++ (if numbers then toString f.stream ++ " " ++ toString f.spec ++ " " else "") ++ esc f.filename ++ " " ++
    esc (if numbers then mimeName f.subtype else f.subtype) ++ " " ++ toString f.size ++ " " ++ esc f.desc ++ ")"

open Wp.Attach in
def runAttPages (guesses : List (String × String)) (fetch : String → Att) (st : AnnotState)
    (pages : List (Rat × Rat × List AttLink)) : AnnotState × List (List FileAnnot) :=
  addAnnotationsPages guesses fetch st (pages.map fun p => (pageMatrix p.1 p.2.1, p.2.2))

def indexOf? (xs : List Nat) (x : Nat) : String :=
  match xs.findIdx? (· == x) with
  | some i => toString i
  | none => "lost"

open Wp.Attach in
def handleAttach (cmd : String) (args : List Sx) : Option String :=
  match cmd, args with
  | "watt", [.list guesses, next, a] => do
    let r := writeAttachment (← allSome guess? guesses) (← next.nat?) (← att? a)
    pure ((match r.1 with | none => "none" | some f => showSpec true f) ++ " " ++ toString r.2)
  | "annots", [.list guesses, .list table, next, .list pages] => do
    let table ← allSome fetchEntry? table
    let r := runAttPages (← allSome guess? guesses) (fetchOf table) ⟨[], [], ← next.nat?⟩ (← allSome attPage? pages)
    let showAnnot (a : FileAnnot) : String :=
      "(" ++ toString a.stream ++ " " ++ toString a.annot ++ " " ++ toString a.fs ++ " " ++ showRect a.rect ++ ")"
    pure ("(" ++ " ".intercalate (r.2.map fun p => "(" ++ " ".intercalate (p.map showAnnot) ++ ")") ++ ") (" ++
      " ".intercalate (r.1.files.map (showSpec true)) ++ ") " ++ toString r.1.next)
  | "docatt", [.list guesses, .list table, .list headLinks, .list docAtts, .list pages] => do
    let guesses ← allSome guess? guesses
    let table ← allSome fetchEntry? table
    let headLinks ← allSome (fun x => match x with
      | .list [h, t] => do pure (⟨← optStr? h, ← optStr? t⟩ : LinkEl)
      | _ => none) headLinks
    let r := runAttPages guesses (fetchOf table) ⟨[], [], 0⟩ (← allSome attPage? pages)
    let specs := r.1.files.map (·.spec)
    let showAnnot (a : FileAnnot) : String := "(" ++ indexOf? specs a.fs ++ " " ++ showRect a.rect ++ ")"
    let e := embeddedFiles cpsOfAtom guesses r.1.next (metaAttachments (fetchOf table) headLinks ++ (← allSome att? docAtts))
    let names := match e.2.1 with
      | none => "none"
      | some d => "(" ++ " ".intercalate (d.names.map fun n => "(" ++ esc n.1 ++ " " ++ indexOf? (e.1.map (·.spec)) n.2 ++ ")") ++ ")"
    pure ("(" ++ " ".intercalate (r.2.map fun p => "(" ++ " ".intercalate (p.map showAnnot) ++ ")") ++ ") (" ++
      " ".intercalate (r.1.files.map (showSpec false)) ++ ") (" ++
      " ".intercalate (e.1.map (showSpec false)) ++ ") " ++ names)
  | _, _ => none

end Wp.Drive.Outline
