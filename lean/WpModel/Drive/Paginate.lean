import WpModel.Model.Wire
import WpModel.Model.Paginate

namespace Wp.Drive.Paginate
open Wp Wp.PM

def brk? (x : Sx) : Option Brk := x.atom?.bind Brk.ofCss?

def style? : Sx → Option PStyle
  | .list [mt, mb, pt, pb, bt, bb, h, minH, maxH, b1, b2, b3, clone, page, orph, wid, isRoot] => do
    let mt ← mt.rat?; let mb ← mb.rat?; let pt ← pt.rat?; let pb ← pb.rat?
    let bt ← bt.rat?; let bb ← bb.rat?
    let h ← h.len?
    let minH ← minH.rat?
    let maxH ← (match maxH with | .atom "inf" => some none | x => x.rat?.map some)
    let b1 ← brk? b1; let b2 ← brk? b2; let b3 ← brk? b3
    let clone ← clone.bool?
    let page ← page.atom?
    let orph ← orph.nat?; let wid ← wid.nat?
    let isRoot ← isRoot.bool?
    pure { mt, mb, pt, pb, bt, bb, height := h, minH, maxH, brkBefore := b1, brkAfter := b2, brkInside := b3,
           clone, page := if page = "-" then "" else page, orphans := orph, widows := wid, isRoot }
  | _ => none

partial def box? : Sx → Option PBox
  | .list [.atom "para", id, n, lh, st] => do
    pure (.para (← id.nat?) (← n.nat?) (← lh.rat?) (← style? st))
  | .list [.atom "block", id, st, .list kids] => do
    pure (.block (← id.nat?) (← style? st) (← allSome box? kids))
  | _ => none

partial def resumeSx : Option Resume → Sx
  | none => .atom "none"
  | some (.line k) => .list [.atom "l", sxNat k]
  | some (.node i sub) => .list [.atom "n", sxNat i, resumeSx sub]

def geoSx (g : Geo) : List Sx :=
  [sxRat g.y, sxRat g.mt, sxRat g.mb, sxRat g.pt, sxRat g.pb, sxRat g.bt, sxRat g.bb, sxRat g.h]

partial def fragSx : Frag → Sx
  | .para id idx _ _ g lines =>
    .list ([.atom "p", sxNat id, sxNat idx] ++ geoSx g ++
      [.list (lines.map fun (i, y) => .list [sxNat i, sxRat y])])
  | .block id idx _ g kids =>
    .list ([.atom "b", sxNat id, sxNat idx] ++ geoSx g ++ [.list (kids.map fragSx)])

def pageSx (p : Page) : Sx :=
  .list [.atom "page", sxNat p.type.index, sxBool p.type.right, sxBool p.type.blank,
    .atom (if p.type.name = "" then "-" else p.type.name), resumeSx p.resume,
    .atom (match p.nextPage.brk with | none => "any" | some b => b.toCss),
    .atom (match p.nextPage.page with | none => "none" | some "" => "-" | some s => s),
    fragSx p.root]

mutual
def countBox : PBox → Nat
  | .para _ n _ _ => n + 1
  | .block _ _ kids => 1 + countKids kids
def countKids : List PBox → Nat
  | [] => 0
  | k :: ks => countBox k + countKids ks
end

/-- `pm <pageH> <ltr> <box>` → the pages, or `err:AssertionError` (`assert root_box`), or
`err:fuel` if `2·(lines + boxes) + 8` pages were not enough. -/
def handle (cmd : String) (args : List Sx) : Option String :=
  match cmd, args with
  | "pm", [h, ltr, b] => do
    let h ← h.rat?
    let ltr ← ltr.bool?
    let root ← box? b
    let d : Doc := { pageH := h, rootLtr := ltr, root := root }
    match paginate d (2 * countBox root + 8) with
    | some pages => pure (" ".intercalate (pages.map fun p => (pageSx p).render))
    | none => pure "err:pagination"
  | _, _ => none

end Wp.Drive.Paginate
