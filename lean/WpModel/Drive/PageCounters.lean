/-
Line protocol for `Model/PageCounters.lean` (strings as in `Drive/Counters`: atoms `x<cp>.<cp>…`).
  vals     ::= ((x<name> (<int> …)) …)                      keys sorted
  target   ::= (x<anchor> <bool:up-to-date> <nat>|none vals)
  lookup   ::= (<bool:content> (x<name> …) ((x<anchor> (x<name> …)) …) <nat>|none <bool:pending> vals)
  remake   ::= (<bool:content_changed> <bool:pages_wanted> (x<anchor> …) (<nat> …))
  event    ::= (x<anchor>|none <nat>|none)
  mp <bool:collecting> (target …) (lookup …) (remake …) <page_number> vals (event …)
       → ok (target …) (lookup …) (remake …) ((<nat> vals) …)      state after the section + parse_again calls
       | err:<Class>
  ct <bool:collecting> (target …) (lookup …) (remake …) x<anchor> vals <page_maker_index>
       → ok … (as mp)                                    cache_target_page_counters alone
  nextentry <bool:new> <bool:changed> <bool:resume_is_none> → keep | (<bool> <bool>)
-/
import WpModel.Model.Wire
import WpModel.Model.PageCounters
import WpModel.Drive.Counters

namespace Wp.Drive.PageCounters
open Wp Wp.PageCounters Wp.Drive.Counters

def vals? : Sx → Option Vals :=
  listOf fun
    | .list [n, .list st] => do pure (← str? n, ← allSome Sx.int? st)
    | _ => none

def target? : Sx → Option (String × TargetItem)
  | .list [a, u, i, v] => do pure (← str? a, ⟨← u.bool?, ← optOf Sx.nat? i, ← vals? v⟩)
  | _ => none

def lookup? : Sx → Option LookupItem
  | .list [c, m, mt, i, p, v] => do
    let mt ← listOf (fun
      | .list [a, names] => do pure (← str? a, ← listOf str? names)
      | _ => none) mt
    pure ⟨← c.bool?, ← listOf str? m, mt, ← optOf Sx.nat? i, ← p.bool?, ← vals? v⟩
  | _ => none

def remake? : Sx → Option Remake
  | .list [c, p, a, l] => do pure ⟨← c.bool?, ← p.bool?, ← listOf str? a, ← listOf Sx.nat? l⟩
  | _ => none

def event? : Sx → Option Event
  | .list [a, l] => do pure ⟨← optOf str? a, ← optOf Sx.nat? l⟩
  | _ => none

def sxStr' (s : String) : Sx := .atom (encodeStr s)
def sxVals (v : Vals) : Sx := .list (v.map fun p => .list [sxStr' p.1, .list (p.2.map sxInt)])
def sxOptNat : Option Nat → Sx
  | none => .atom "none"
  | some n => sxNat n

def sxState (st : PState) : String :=
  let targets := Sx.list (st.targets.map fun p =>
    .list [sxStr' p.1, sxBool p.2.upToDate, sxOptNat p.2.index, sxVals p.2.cached])
  let lookups := Sx.list (st.lookups.map fun l =>
    .list [sxBool l.content, .list (l.missing.map sxStr'),
      .list (l.missingTarget.map fun p => .list [sxStr' p.1, .list (p.2.map sxStr')]),
      sxOptNat l.index, sxBool l.pending, sxVals l.cached])
  let pm := Sx.list (st.pageMaker.map fun r =>
    .list [sxBool r.contentChanged, sxBool r.pagesWanted, .list (r.anchors.map sxStr'), .list (r.lookups.map sxNat)])
  let calls := Sx.list (st.calls.map fun c => .list [sxNat c.1, sxVals c.2])
  " ".intercalate [targets.render, lookups.render, pm.render, calls.render]

def handle (cmd : String) (args : List Sx) : Option String :=
  match cmd, args with
  | "mp", [c, ts, ls, pm, n, v, es] => do
    let st : PState := ⟨← c.bool?, ← listOf target? ts, ← listOf lookup? ls, ← listOf remake? pm, []⟩
    let n ← n.nat?
    let v ← vals? v
    let es ← listOf event? es
    match counterSection st n v es with
    | .error e => pure e.render
    | .ok st' => pure ("ok " ++ sxState st')
  | "ct", [c, ts, ls, pm, a, v, i] => do
    let st : PState := ⟨← c.bool?, ← listOf target? ts, ← listOf lookup? ls, ← listOf remake? pm, []⟩
    pure ("ok " ++ sxState (cacheTarget st (← str? a) (← vals? v) (← i.nat?)))
  | "nextentry", [a, b, c] => do
    match nextEntry (← a.bool?) (← b.bool?) (← c.bool?) with
    | none => pure "keep"
    | some r => pure (Sx.list [sxBool r.contentChanged, sxBool r.pagesWanted]).render
  | _, _ => none

end Wp.Drive.PageCounters
