import WpModel.Model.Wire
import WpModel.Model.ContentCheck

/-!
  `check (ExtGState names) (XObject) (Pattern) (Shading) (ColorSpace) (Font) (Properties) ((op nargs lastName|none) …)`
    → `ok` | `bad <index> <reason>`
-/
namespace Wp.Drive.ContentCheck
open Wp Wp.Pdf

def names? (x : Sx) : Option (List String) := x.list?.bind (allSome Sx.atom?)

def tok? : Sx → Option Tok
  | .list [.atom op, n, .atom last] => do
    some (mkTok op (← n.nat?) (if last == "none" then none else some (String.ofList (last.toList.drop 1))))
  | _ => none

def handle (cmd : String) (args : List Sx) : Option String :=
  match cmd, args with
  | "check", [e, x, p, sh, cs, f, pr, .list toks] => do
    let ne ← names? e
    let nx ← names? x
    let np ← names? p
    let nsh ← names? sh
    let ncs ← names? cs
    let nf ← names? f
    let npr ← names? pr
    let res : ResNames := ⟨ne, nx, np, nsh, ncs, nf, npr⟩
    let toks ← allSome tok? toks
    if checkStream res toks then some "ok"
    else match firstError res [] 0 toks with
      | some (i, why) => some ("bad " ++ toString i ++ " " ++ why)
      | none => some "bad ? ?"
  | _, _ => none

end Wp.Drive.ContentCheck
