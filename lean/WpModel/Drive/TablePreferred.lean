/-
Line protocol of `Model/TablePreferred.lean`.

  pbox  ::= (min max dim minPct maxPct|inf) | none
  pcell ::= (gridX colspan rowspan pbox)
  preferred <collapse> spacing ((pcell…)…) (pbox…groups) (pbox…cols) <width px|none> minW <maxW|inf>
     → ok tmin tmax (min…) (max…) (pct…) (constrained…) spacing | err:…
-/
import WpModel.Model.Wire
import WpModel.Model.TablePreferred
import WpModel.Drive.Table

namespace Wp.Drive.TablePref
open Wp Wp.TablePref Wp.Drive.Table

def optRat? : Sx → Option (Option Rat)
  | .atom "inf" => some none
  | .atom "none" => some none
  | x => x.rat?.map some

def pbox? : Sx → Option PBox
  | .list [mn, mx, d, mp, xp] => do pure ⟨← mn.rat?, ← mx.rat?, ← dim? d, ← mp.rat?, ← optRat? xp⟩
  | _ => none

def optBox? : Sx → Option (Option PBox)
  | .atom "none" => some none
  | x => (pbox? x).map some

def pcell? : Sx → Option PCell
  | .list [x, cs, rs, b] => do pure ⟨← x.nat?, ← cs.nat?, ← rs.nat?, ← pbox? b⟩
  | _ => none

def row? : Sx → Option (List PCell)
  | .list cells => allSome pcell? cells
  | _ => none

def handle (cmd : String) (args : List Sx) : Option String :=
  match cmd, args with
  | "preferred", [collapse, sp, .list rows, .list groups, .list cols, w, mn, mx] => do
    let inp : PrefIn := ⟨← collapse.bool?, ← sp.rat?, ← allSome row? rows, ← allSome optBox? groups,
      ← allSome optBox? cols, ← optRat? w, ← mn.rat?, ← optRat? mx⟩
    match preferredWidths inp with
    | .error e => pure (errStr e)
    | .ok o =>
      pure ("ok " ++ showRat o.tmin ++ " " ++ showRat o.tmax ++ " " ++ showRats o.mins ++ " " ++
        showRats o.maxs ++ " " ++ showRats o.pcts ++ " (" ++
        " ".intercalate (o.constrained.map (fun b => if b then "true" else "false")) ++ ") " ++ showRat o.spacing)
  | _, _ => none

end Wp.Drive.TablePref
