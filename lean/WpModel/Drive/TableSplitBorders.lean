/-
Line protocol of `Model/TableSplitBorders.lean`.

  skip ::= none | (g none) | (g r true|false)
  splitborders <skip> (groupLen…) hasHeader headerShown hasFooter brokenInRow ((width…)…) before
     → skippedRows splitCells borderTop skipTop skipBottom     | err:IndexError | err:ValueError
  splitcelly rowY collapse hasHeader resumed (headerBottomWidth…)   → cell.position_y
  splitcellbox rowY rowHeight collapse hasHeader resumed (headerBottomWidth…) → cell.position_y border-box height
-/
import WpModel.Model.Wire
import WpModel.Model.TableSplitBorders
import WpModel.Drive.Table

namespace Wp.Drive.SplitBorders
open Wp Wp.SplitBorders Wp.Drive.Table

def skip? : Sx → Option Skip
  | .atom "none" => some none
  | .list [g, .atom "none"] => do pure (some (← g.nat?, none))
  | .list [g, r, c] => do pure (some (← g.nat?, some (← r.nat?, ← c.bool?)))
  | _ => none

def handle (cmd : String) (args : List Sx) : Option String :=
  match cmd, args with
  | "splitborders", [skip, .list lens, hd, shown, ft, broken, .list hw, before] => do
    let skip ← skip? skip
    let lens ← allSome Sx.nat? lens
    let hd ← hd.bool?
    let hw ← allSome rats? hw
    match borderTop skip lens hd hw (← before.rat?) with
    | .error e => pure (errStr e)
    | .ok bt =>
      pure (toString (finalSkippedRows skip lens hd (← shown.bool?)) ++ " " ++ toString (splitCells skip) ++ " " ++ showRat bt ++ " " ++
            toString (skipTop skip hd) ++ " " ++ toString (skipBottom (← broken.bool?) (← ft.bool?)))
  | "splitcellbox", [y, h, collapse, hd, resumed, hb] => do
    let y ← y.rat?
    let c ← collapse.bool?
    let hd ← hd.bool?
    let r ← resumed.bool?
    let hb ← rats? hb
    pure (showRat (splitCellY y c hd r hb) ++ " " ++ showRat (splitCellHeight y (← h.rat?) c hd r hb))
  | "splitcelly", [y, collapse, hd, resumed, hb] => do
    pure (showRat (splitCellY (← y.rat?) (← collapse.bool?) (← hd.bool?) (← resumed.bool?) (← rats? hb)))
  | _, _ => none

end Wp.Drive.SplitBorders
