import WpModel.Model.Wire
import WpModel.Model.PdfPages

/-!  `pagetree <zoom> (w h bl bt br bb) …` → `n | M=… T=… B=… | …` -/
namespace Wp.Drive.PdfPages
open Wp Wp.Pdf

def geom? : Sx → Option PageGeom
  | .list [w, h, bl, bt, br, bb] => do
    some ⟨← w.rat?, ← h.rat?, ← bl.rat?, ← bt.rat?, ← br.rat?, ← bb.rat?⟩
  | _ => none

def showBox (b : Box4) : String := ",".intercalate ([b.x0, b.y0, b.x1, b.y1].map showRat)

def showPage (p : PdfPage) : String :=
  "M=" ++ showBox p.mediaBox ++ " T=" ++ showBox p.trimBox ++ " B=" ++ showBox p.bleedBox

def handle (cmd : String) (args : List Sx) : Option String :=
  match cmd, args with
  | "pagetree", zoom :: pages => do
    let zoom ← zoom.rat?
    let pages ← allSome geom? pages
    let out := pageTree zoom pages
    some (toString out.length ++ String.join (out.map (fun p => " | " ++ showPage p)))
  | _, _ => none

end Wp.Drive.PdfPages
