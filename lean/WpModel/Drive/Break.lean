import WpModel.Model.Wire
import WpModel.Model.Break

namespace Wp.Drive.Break
open Wp

partial def bbox? : Sx → Option BBox
  | .list [p, b, a, .list kids] => do
    let p ← p.bool?
    let b ← b.atom?.bind Brk.ofCss?
    let a ← a.atom?.bind Brk.ofCss?
    let ks ← allSome bbox? kids
    pure (.mk p b a ks)
  | _ => none

def brkList? (x : Sx) : Option (List Brk) :=
  x.list?.bind (allSome (fun a => a.atom?.bind Brk.ofCss?))

/-- Commands:
  `resolve (v1 v2 …)`            → resolved value
  `between <bbox> <bbox>`        → `block_level_page_break`
  `avoids <bool> v` / `forces <bool> v` -/
def handle (cmd : String) (args : List Sx) : Option String :=
  match cmd, args with
  | "resolve", [vs] => (brkList? vs).map (fun l => (resolve l).toCss)
  | "between", [a, b] => do
    let a ← bbox? a
    let b ← bbox? b
    pure (pageBreakBetween a b).toCss
  | "avoids", [c, v] => do
    let c ← c.bool?
    let v ← v.atom?.bind Brk.ofCss?
    pure (toString (avoids c v))
  | "forces", [c, v] => do
    let c ← c.bool?
    let v ← v.atom?.bind Brk.ofCss?
    pure (toString (forces c v))
  | _, _ => none

end Wp.Drive.Break
