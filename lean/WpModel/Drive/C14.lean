/-
Line protocol for C14 (paged-media furniture).  Strings travel as `s:<text>` with spaces written
`_` (so the empty string is `s:`).  Rationals `n/d`, `'auto'` is `auto`, percentages `(pct q)`.
-/
import WpModel.Model.Wire
import WpModel.Model.PageBoxes
import WpModel.Model.PageState
import WpModel.Model.PageSelectors
import WpModel.Model.PdfBoxes
import WpModel.Model.PageDoc

namespace Wp.Drive.C14
open Wp Wp.PageBoxes Wp.PageState Wp.PageSel Wp.PdfBoxes Wp.PageDoc

/-! ## Decoding -/

def str? (x : Sx) : Option String :=
  match x with
  | .atom s => if s.startsWith "s:" then some ((s.drop 2).toString.replace "_" " ") else none
  | _ => none

def showStr (s : String) : String := "s:" ++ s.replace " " "_"

def dim? : Sx → Option Dim
  | .atom "auto" => some .auto
  | .list [.atom "pct", v] => v.rat?.map .pct
  | x => x.rat?.map .px

def optRat? : Sx → Option (Option Rat)
  | .atom "inf" => some none
  | x => x.rat?.map some

def brk? (x : Sx) : Option Brk := x.atom?.bind Brk.ofCss?

def nextBreak? : Sx → Option NextBreak
  | .atom "any" => some .any
  | x => (brk? x).map .brk

def obox? : List Sx → Option OBox
  | [i, a, b, p] => do
    pure ⟨← i.len?, ← a.len?, ← b.len?, ← p.rat?⟩
  | _ => none

def vbox? : Sx → Option (OBox × Rat × Rat)
  | .list [i, a, b, p, mn, mx] => do
    pure (⟨← i.len?, ← a.len?, ← b.len?, ← p.rat?⟩, ← mn.rat?, ← mx.rat?)
  | _ => none

def pairs? (x : Sx) : Option (List (String × Int)) :=
  x.list?.bind (allSome (fun e => match e with
    | .list [n, v] => do pure (← str? n, ← v.int?)
    | _ => none))

def optPairs? : Sx → Option (Option (List (String × Int)))
  | .atom "auto" => some none
  | x => (pairs? x).map some

def keyword? : Sx → Option Keyword
  | .atom "first" => some .first
  | .atom "start" => some .start
  | .atom "last" => some .last
  | .atom "first-except" => some .firstExcept
  | .atom _ => some .other
  | _ => none

def strList? (x : Sx) : Option (List String) := x.list?.bind (allSome str?)

def store? (x : Sx) : Option NameStore :=
  x.list?.bind (allSome (fun e => match e with
    | .list [p, vs] => do pure (← p.nat?, ← strList? vs)
    | _ => none))

def argTok? : Sx → Option ArgTok
  | .atom "ws" => some .ws
  | .atom "cm" => some .comment
  | .atom "ot" => some .other
  | .list [.atom "id", v] => (str? v).map .ident
  | _ => none

def nthEntry? : Sx → Option NthRes
  | .atom "none" => some .none
  | .list [.atom "err", c] => (str? c).map .raised
  | .list [a, b] => do pure (.val (← a.int?) (← b.int?))
  | _ => none

def tok? : Sx → Option Tok
  | .atom "ws" => some .ws
  | .atom "cm" => some .comment
  | .atom "ot" => some .other
  | .list [.atom "id", v, l] => do pure (.ident (← str? v) (← str? l))
  | .list [.atom "lit", v] => (str? v).map .literal
  | .list [.atom "fn", n, .list args, .list table] => do
    pure (.func (← str? n) (← allSome argTok? args) (← allSome nthEntry? table))
  | _ => none

def optStr? : Sx → Option (Option String)
  | .atom "none" => some none
  | x => (str? x).map some

def index? : Sx → Option (Option (Int × Int × Option String))
  | .atom "none" => some none
  | .list [a, b, g] => do pure (some (← a.int?, ← b.int?, ← optStr? g))
  | _ => none

def spec? : Sx → Option (Nat × Nat × Nat)
  | .list [a, b, c] => do pure (← a.nat?, ← b.nat?, ← c.nat?)
  | _ => none

/-- `(side blank first index name spec)` -/
def sel? : Sx → Option Sel
  | .list [sd, bl, fi, ix, nm, sp] => do
    pure { side := ← optStr? sd, blank := ← bl.bool?, first := ← fi.bool?, index := ← index? ix,
           name := ← optStr? nm, spec := ← spec? sp }
  | _ => none

def groups? (x : Sx) : Option (List (String × Nat)) :=
  x.list?.bind (allSome (fun e => match e with
    | .list [n, i] => do pure (← str? n, ← i.nat?)
    | _ => none))

/-- `(side blank name index groups)` -/
def pageType? : Sx → Option PageType
  | .list [sd, bl, nm, ix, gs] => do
    pure { side := ← str? sd, blank := ← bl.bool?, name := ← str? nm, index := ← ix.nat?, groups := ← groups? gs }
  | _ => none

def origin? : Sx → Option Origin
  | .atom "ua" => some .userAgent
  | .atom "user" => some .user
  | .atom "author" => some .author
  | _ => none

def item? : Sx → Option Item
  | .list [.atom "text", s] => (str? s).map .text
  | .list [.atom "counter", n] => (str? n).map .counter
  | .list [.atom "string", n, k] => do pure (.str (← str? n) (← keyword? k))
  | .list [.atom "element", n, k] => do pure (.elem (← str? n) (← keyword? k))
  | _ => none

def val? : Sx → Option Val
  | .list [.atom "size", w, h] => do pure (.size (← w.rat?) (← h.rat?))
  | .list [.atom "crop", b] => b.bool?.map .crop
  | .list [.atom "counters", l] => (pairs? l).map .counters
  | .list [.atom "content", .atom "none"] => some (.content none)
  | .list [.atom "content", .list items] => (allSome item? items).map (fun l => .content (some l))
  | .atom "inf" => some .inf
  | x => (dim? x).map .dim

def decl? : Sx → Option (String × Val × Bool)
  | .list [n, v, imp] => do pure (← str? n, ← val? v, ← imp.bool?)
  | _ => none

/-- `(origin (prelude tokens…) pseudo (decls…))`: one `@page` rule; the prelude is parsed by the
model, one `PageRule` per selector of the list (an unparsable prelude drops the rule). -/
def rules? : Sx → Option (List (PageRule Val))
  | .list [o, .list toks, ps, .list ds] => do
    let o ← origin? o
    let toks ← allSome tok? toks
    let ps ← str? ps
    let ds ← allSome decl? ds
    match parsePageSelectors toks with
    | .ok sels => pure (sels.map (fun s => { origin := o, sel := s, pseudo := ps, decls := ds }))
    | _ => pure []
  | _ => none

def setPiece? : Sx → Option SetPiece
  | .list [.atom "text", t] => (str? t).map .text
  | .list [.atom "counter", n] => (str? n).map .counter
  | _ => none

def sets? (x : Sx) : Option (List (String × List SetPiece)) :=
  x.list?.bind (allSome (fun e => match e with
    | .list [n, .list ps] => do pure (← str? n, ← allSome setPiece? ps)
    | _ => none))

def section? : Sx → Option Section
  | .list [b, n, s1, s2, s3, pc, w, rn] => do
    let running ← rn.list?.bind (allSome (fun e => match e with
      | .list [k, v] => do pure (← str? k, ← str? v)
      | _ => none))
    let wrap ← match w with
      | .atom "none" => some none
      | .list [i, nm] => do pure (some (← i.nat?, ← str? nm))
      | _ => none
    pure { brk := ← brk? b, name := ← str? n, sets := ← sets? s1, innerSets := ← sets? s2, lateSets := ← sets? s3,
           showCounters := ← pc.bool?, wrap := wrap, running := running }
  | _ => none

/-! ## Encoding -/

def errOut (e : PyErr) : String :=
  match e with
  | .indexError "update_counters:KeyError" => "err:KeyError"
  | .assertFailed _ => "err:AssertionError"
  | .zeroDivision _ => "err:ZeroDivisionError"
  | .indexError _ => "err:IndexError"
  | .noneAttribute _ => "err:AttributeError"
  | .recursion _ => "err:RecursionError"
  | .valueError _ => "err:ValueError"

def showR (r : RBox) : String := s!"{showRat r.inner} {showRat r.ma} {showRat r.mb}"

def showPairs (l : List (String × Int)) : String :=
  "(" ++ " ".intercalate (l.map (fun (n, v) => s!"({showStr n} {v})")) ++ ")"

def showCState (st : CState) : String :=
  "(" ++ " ".intercalate (st.values.map (fun (n, s) =>
    s!"({showStr n} ({" ".intercalate (s.map toString)}))")) ++ ") (" ++
    " ".intercalate ((st.scope.toArray.qsort (· < ·)).toList.map showStr) ++ ")"

def showOptStr : Option String → String
  | none => "none"
  | some s => showStr s

def showSel (s : Sel) : String :=
  let ix := match s.index with
    | none => "none"
    | some (a, b, g) => s!"({a} {b} {showOptStr g})"
  s!"({showOptStr s.side} {s.blank} {s.first} {ix} {showOptStr s.name} ({s.spec.1} {s.spec.2.1} {s.spec.2.2}))"

def showRect (r : Rect) : String := s!"({showRat r.x0} {showRat r.y0} {showRat r.x1} {showRat r.y1})"

def showPlaced (p : Placed) (ws : List String) : String :=
  s!"({showStr p.kw} {showRat p.x} {showRat p.y} {showRat p.ml} {showRat p.width} {showRat p.mr} " ++
  s!"{showRat p.mt} {showRat p.height} {showRat p.mb} {showStr (" ".intercalate ws)})"

def showPageOut (o : PageOut) : String :=
  let b := o.box
  s!"(page ({o.head.side.toCss} {o.head.blank} {showStr o.head.name} {o.head.index} " ++
    "(" ++ " ".intercalate (o.groups.map (fun (n, i) => s!"({showStr n} {i})")) ++ ")) " ++
  s!"(box {showRat b.marginWidth} {showRat b.marginHeight} {showRat b.width} {showRat b.height} " ++
  s!"{showRat b.mt} {showRat b.mr} {showRat b.mb} {showRat b.ml}) " ++
  s!"(bleed {showRat o.bleed.top} {showRat o.bleed.right} {showRat o.bleed.bottom} {showRat o.bleed.left}) " ++
  s!"(counters {showCState o.counters}) " ++
  "(margin " ++ " ".intercalate (o.margin.map (fun (p, ws) => showPlaced p ws)) ++ ") " ++
  "(body " ++ " ".intercalate (o.body.map showStr) ++ "))"

/-! ## Commands -/

def handle (cmd : String) (args : List Sx) : Option String :=
  match cmd, args with
  -- page_width_or_height(box, cb)
  | "pwh", [i, a, b, p, cb] => do
    let bx ← obox? [i, a, b, p]
    pure (showR (pageWidthOrHeight bx (← cb.rat?)))
  -- page_width / page_height with min / max
  | "pdim", [i, a, b, p, cb, mn, mx] => do
    let bx ← obox? [i, a, b, p]
    pure (showR (pageDimMinMax bx (← cb.rat?) (← mn.rat?) (← optRat? mx)))
  -- compute_fixed_dimension
  | "fixed", [i, a, b, p, outer, tl] => do
    let bx ← obox? [i, a, b, p]
    match computeFixed bx (← outer.rat?) (← tl.bool?) with
    | .ok r => pure (showR r)
    | .error e => pure (errOut e)
  -- compute_variable_dimension
  | "variable", [vertical, avail, bgen, a, b, c] => do
    let (a, amn, amx) ← vbox? a
    let (b, bmn, bmx) ← vbox? b
    let (c, cmn, cmx) ← vbox? c
    -- VerticalBox: the content sizes are the constants of the class, whatever the caller says
    let mk (o : OBox) (mn mx : Rat) (v : Bool) : VBox :=
      if v then toVBox o verticalMinContent verticalMaxContent else toVBox o mn mx
    let v ← vertical.bool?
    match computeVariable (mk a amn amx v) (mk b bmn bmx v) (mk c cmn cmx v) (← bgen.bool?) (← avail.rat?) with
    | .ok (ra, rb, rc) => pure s!"({showR ra}) ({showR rb}) ({showR rc})"
    | .error e => pure (errOut e)
  | "vconst", [] => pure s!"{showRat verticalMinContent} {showRat verticalMaxContent}"
  -- initialize_page_maker: right_page
  | "initside", [b, ltr] => do
    pure (toString (initRightPage (← brk? b) (← ltr.bool?)))
  -- remake_page head
  | "remake", [ix, nb, nm, rp, ltr, fn] => do
    let (h, rp') := remakeHead (← ix.nat?) (← nextBreak? nb) (← str? nm) (← rp.bool?) (← ltr.bool?) (← fn.bool?)
    pure s!"{h.side.toCss} {h.blank} {showStr h.name} {h.index} {rp'}"
  -- _standardize_page_based_counters
  | "standardize", [isPage, set, reset, incr] => do
    let s := standardize ⟨← optPairs? set, ← optPairs? reset, ← optPairs? incr⟩ (← isPage.bool?)
    pure s!"{showPairs s.set} {showPairs s.reset} {showPairs (s.incr.getD [])}"
  -- update_counters on an arbitrary state
  | "update", [vals, scope, reset, set, incr, li] => do
    let vals ← vals.list?.bind (allSome (fun e => match e with
      | .list [n, .list s] => do pure (← str? n, ← allSome Sx.int? s)
      | _ => none))
    let st : CState := ⟨vals, ← strList? scope⟩
    match updateCounters st ⟨← pairs? reset, ← pairs? set, ← optPairs? incr, ← li.bool?⟩ with
    | .ok st => pure (showCState st)
    | .error e => pure (errOut e)
  -- the page states of n pages: standardize + update_counters from the initial state, then `pages`
  | "pagestates", [.list styles] => do
    let styles ← allSome (fun e => match e with
      | .list [set, reset, incr] => do pure (⟨← optPairs? set, ← optPairs? reset, ← optPairs? incr⟩ : RawCStyle)
      | _ => none) styles
    match pageStates styles initialState with
    | .ok l => pure (" ".intercalate (l.map (fun st => "(" ++ showCState (setPages st styles.length) ++ ")")))
    | .error e => pure (errOut e)
  -- get_string_or_element_for
  | "getstring", [cur, kw, chain, st] => do
    let chain ← chain.list?.bind (allSome Sx.bool?)
    match getStringFor (← store? st) (← cur.nat?) (← keyword? kw) chain with
    | .ok none => pure "none"
    | .ok (some v) => pure (showStr v)
    | .error e => pure (errOut e)
  -- parse_page_selectors
  | "parsesel", [.list toks] => do
    match parsePageSelectors (← allSome tok? toks) with
    | .reject => pure "none"
    | .raised cls => pure ("err:" ++ cls)
    | .ok l => pure ("(" ++ " ".intercalate (l.map showSel) ++ ")")
  -- _page_type_match
  | "match", [s, p] => do
    pure (toString (pageTypeMatch (← sel? s) (← pageType? p)))
  -- declaration_precedence
  | "prec", [o, imp] => do
    pure (toString (declarationPrecedence (← origin? o) (← imp.bool?)))
  -- add_page_declarations on selectors given directly: rules = (origin sel pseudo ((name value important)…))
  | "cascade", [p, ps, .list rules] => do
    let rules ← allSome (fun e => match e with
      | .list [o, s, pp, .list ds] => do
        let ds ← allSome (fun d => match d with
          | .list [n, v, imp] => do pure (← str? n, ← v.atom?, ← imp.bool?)
          | _ => none) ds
        pure ({ origin := ← origin? o, sel := ← sel? s, pseudo := ← str? pp, decls := ds } : PageRule String)
      | _ => none) rules
    let c := addPageDeclarations rules (← pageType? p) (← str? ps)
    pure ("(" ++ " ".intercalate (c.map (fun (n, v, w) =>
      s!"({showStr n} {v} {w.prec} ({w.spec.1} {w.spec.2.1} {w.spec.2.2}))")) ++ ")")
  -- generate_pdf page boxes
  | "pdfboxes", [w, h, .list [t, r, b, l], zoom] => do
    let bx := pageBoxes (← w.rat?) (← h.rat?) ⟨← t.rat?, ← r.rat?, ← b.rat?, ← l.rat?⟩ (← zoom.rat?)
    pure s!"{showRect bx.media} {showRect bx.trim} {showRect bx.bleed}"
  | "bleed", [v, crop] => do
    pure (showRat (computedBleed (← v.len?) (← crop.bool?)))
  -- the whole document
  -- `cmp`: compare `PageType.groups` (off for documents whose pages are re-made in later passes: known
  -- finding page-groups-lost-on-remake)
  | "doc", [ltr, rb, fs, cmp, .list secs, .list rules] => do
    let cmp ← cmp.bool?
    let secs ← allSome section? secs
    let rules ← allSome rules? rules
    let d : Doc := { ltr := ← ltr.bool?, rootBreak := ← brk? rb, fontSize := ← fs.rat?, sections := secs,
                     rules := rules.flatten }
    match render d with
    | .ok pages => pure (" ".intercalate (pages.map (fun o => showPageOut (if cmp then o else { o with groups := [] }))))
    | .error e => pure (errOut e)
  | _, _ => none

end Wp.Drive.C14
