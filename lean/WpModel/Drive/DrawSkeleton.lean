import WpModel.Model.Wire
import WpModel.Model.DrawSkeleton
import WpModel.Drive.PdfStream

/-!
  `skeleton <mark> item …` → the streams and resource dictionaries after drawing (same form as `docscript`)
  item  ::= (call <wcall>) | (cur <call…>) | (ctx <props> (items) (items) (items) (items) (items)) | (ctxon h <props> …)
  props ::= (tag rootClip absClip|none opacity transform clip),  transform ::= none | singular | (a b c d e f)
-/
namespace Wp.Drive.DrawSkeleton
open Wp Wp.Pdf Wp.Drive.PdfStream

def transform? : Sx → Option Transform
  | .atom "none" => some .none
  | .atom "singular" => some .singular
  | .list [a, b, c, d, e, f] => do
    some (.regular (← a.num?) (← b.num?) (← c.num?) (← d.num?) (← e.num?) (← f.num?))
  | _ => none

def props? : Sx → Option CtxProps
  | .list [.atom tag, rootClip, absClip, opacity, tr, clip] => do
    some { tag := tag, rootClip := ← rootClip.bool?, absClip := ← optStr? absClip, opacity := ← opacity.num?,
           transform := ← transform? tr, clip := ← clip.bool? }
  | _ => none

mutual
  partial def item? : Sx → Option Item
    | .list [.atom "call", c] => (wcall? c).map Item.call
    | .list (.atom "cur" :: rest) => (call? rest).map Item.onCur
    | .list [.atom "ctx", p, a, b, c, d, e] => do
      some (.ctx (.mk (← props? p) (← items? a) (← items? b) (← items? c) (← items? d) (← items? e)))
    | .list [.atom "ctxon", h, p, a, b, c, d, e] => do
      some (.ctxOn (← h.nat?) (.mk (← props? p) (← items? a) (← items? b) (← items? c) (← items? d) (← items? e)))
    | _ => none
  partial def items? : Sx → Option (List Item)
    | .list xs => allSome item? xs
    | _ => none
end

def handle (cmd : String) (args : List Sx) : Option String :=
  match cmd, args with
  | "skeleton", mark :: items => do
    let mark ← mark.bool?
    let items ← allSome item? items
    match drawItems (World.init mark 0) 0 items with
    | .ok w => some ("ok | " ++ " | ".intercalate (w.streams.map showStreamToks) ++ " || " ++
        " | ".intercalate (w.res.map showResKeys))
    | .error e => some (showErr e)
  | _, _ => none

end Wp.Drive.DrawSkeleton
