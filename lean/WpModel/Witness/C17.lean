/-
C17 — witnesses: clauses of the property that are false of the current code, on concrete inputs
(mirrored by `finding:` lines of known_findings.txt and by the replay functions of py/props/c17.py).
-/
import WpModel.Props.C17
import WpModel.Model.LaidOut
import WpModel.Props.C17Parts
import WpModel.Props.C17Clip
import WpModel.Lemmas.ToUnicode

set_option linter.unusedSimpArgs false

namespace Wp.C17.Witness
open Wp Wp.Stacking Wp.Gen Wp.C17

/-- `<div style="display:grid; opacity:.5; background:…">` : a grid container rooting a context. -/
def gridCtx : Node :=
  .ctx (.node { plain 1 .GridBox with opacity := 1 / 2 } []) [] [] [] [] [] [] 0

/-- Regression (was the witness `paint_once_fails_for_grid_root` of finding
`context-root-loses-decoration`, grid half, repaired by a9887a3: `GridContainerBox` joined the tuple
of point 2): the background of the grid container that roots a context is due once and painted once,
inside the container's own opacity group. -/
theorem paint_once_holds_for_grid_root :
    cntBg 1 (paint true gridCtx {}) = 1 ∧ (expBg gridCtx).count 1 = 1 ∧
    paint true gridCtx {} =
      [.paint .bg 1 4 { alphas := [1 / 2], transforms := [], clips := [.bgBoxes .bg 1, .bgArea .bg 1] }] := by
  refine ⟨?_, ?_, ?_⟩
  · simp [gridCtx, paint, paintBodyWith, plain, Kind.drawOwnDecoration, Kind.drawInline, paintList,
      point7With, point7List, lastIsLine, Kind.drawReplaced, outlineList, ownOutline, inlKids, decoration,
      drawBackground, drawBorder, cntBg, isBg]
  · simp [gridCtx, expBg, expBgL, bgOf, plain]
  · have h : ((1 : Rat) / 2 < 1) := by decide +kernel
    simp [gridCtx, paint, paintBodyWith, plain, Kind.drawOwnDecoration, Kind.drawInline, paintList,
      point7With, point7List, lastIsLine, Kind.drawReplaced, outlineList, ownOutline, inlKids, decoration,
      drawBackground, drawBorder, ctxEnv, Env.clip, h]

/-- The repaired class is inside the hypothesis of `paint_once_partial` now: every grid container class
is painted by point 2 (`rootPainted`), so the theorem covers grid roots. -/
theorem grid_roots_painted :
    rootPainted (plain 1 .GridBox) ∧ rootPainted (plain 1 .InlineGridBox) ∧
    rootPainted (plain 1 .GridContainerBox) := by
  refine ⟨?_, ?_, ?_⟩ <;> simp [rootPainted, plain, Kind.drawOwnDecoration, Kind.drawInline]

/-- `<tr style="position:relative; background:…"><td style="background:…">` : a table row rooting a
(fake) context, with its cell. -/
def rowCtx : Node :=
  .ctx (.node { plain 1 .TableRowBox with positioned := true }
      [.node (plain 2 .TableCellBox) []]) [] [] [] [] [] [.node (plain 2 .TableCellBox) []] 0

/-- Known finding `context-root-loses-decoration` (what is left of it: table parts): the unrestricted
paint-once statement fails — neither the row's nor its cell's background is painted (`TableRowBox` is not
in the tuple of point 2 and `draw_table` does not reach a row that left the table's tree). -/
theorem paint_once_fails_for_row_root :
    cntBg 1 (paint true rowCtx {}) = 0 ∧ cntBg 2 (paint true rowCtx {}) = 0 ∧
    (expBg rowCtx).count 1 = 1 ∧ (expBg rowCtx).count 2 = 1 := by
  refine ⟨?_, ?_, ?_, ?_⟩
  · simp [rowCtx, paint, paintBodyWith, plain, Kind.drawOwnDecoration, Kind.drawInline, paintList,
      point7With, point7List, lastIsLine, Kind.drawReplaced, outlineList, ownOutline, inlKids, inlList,
      Node.attrs?, Kind.drawLine]
  · simp [rowCtx, paint, paintBodyWith, plain, Kind.drawOwnDecoration, Kind.drawInline, paintList,
      point7With, point7List, lastIsLine, Kind.drawReplaced, outlineList, ownOutline, inlKids, inlList,
      Node.attrs?, Kind.drawLine]
  · simp [rowCtx, expBg, expBgL, bgOf, plain]
  · simp [rowCtx, expBg, expBgL, bgOf, plain]

/-- `<span style="position:relative; z-index:0; background:…">t<span style="position:relative;
z-index:-1; background:…">inner</span></span>`: an inline box rooting a real context with a
negative-z child context. -/
def inlineRootCtx : Node :=
  .ctx (.node { plain 1 .InlineBox with positioned := true, z := some 0 } [.leaf { plain 2 .TextBox with bg := none }])
    [.ctx (.node { plain 3 .InlineBox with positioned := true, z := some (-1) } []) [] [] [] [] [] [] (-1)]
    [] [] [] [] [] 0

/-- Known finding `inline-root-background-late`: CSS 2.1 E.2 paints the background of the context's
root first; here the first item is the background of the negative-z child (box 3), the root's
background (box 1) comes after it and covers it. -/
theorem inline_root_background_not_first :
    (paint true inlineRootCtx {}).map (fun it => match it with | .paint r i _ _ => (r, i) | .raise _ => (Role.bg, 0)) =
      [(.bg, 3), (.bg, 1), (.text, 2)] := by
  simp [inlineRootCtx, paint, paintBodyWith, plain, Kind.drawOwnDecoration, Kind.drawInline, paintList,
    point7With, point7List, lastIsLine, Kind.drawReplaced, outlineList, ownOutline, inlKids, inlBoxWith,
    decoration, drawBackground, drawBorder, drawText, Kind.dilInlineOrLine, Kind.dilTextChild, Node.attrs?,
    Kind.drawLine]

/-- The box of `<p style="visibility:collapse; background:#000004; border:1px solid #000006">` as laid out. -/
def collapsedBox : Attrs :=
  let bg := boxBackground false ⟨.collapse, some 4, 0⟩
  { plain 1 .BlockBox with visible := false, bg := bg, border := some 6, borderSides := 4 }

/-- Regression (was the witness `collapse_keeps_background` of finding `collapse-paints-background`,
repaired by af29a5d: `layout_box_backgrounds` tests `visibility != 'visible'`): the collapsed box of
`<p style="visibility:collapse; background:…; border:…">` has no background after layout, as a hidden one,
and paints nothing of its own. -/
theorem collapse_paints_no_background :
    boxBackground false ⟨.collapse, some 4, 0⟩ = none ∧
    boxBackground false ⟨.hidden, some 4, 0⟩ = none ∧
    decoration collapsedBox {} = [] := by
  refine ⟨by decide, by decide, ?_⟩
  simp [collapsedBox, decoration, drawBackground, drawBorder, plain, boxBackground, StyleBg.hidden]

/-- Known finding `row-group-background-first-row-only`: `<tbody style="background:…">` with two rows of one
30 × 20 cell each, at y = 10 and y = 30 (the group is 40 high).  The painting area is (10, 10, 30, 20) — as
high as the highest cell — so the cell of the second row, through whose border box the background is to be
painted (CSS 2.1 17.5.1), lies outside it. -/
theorem group_background_misses_second_row :
    (Wp.TablePart.groupLayer { exCell 10 with height := 40 } [[exCell 10], [exCell 30]]).1 = (10, 10, 30, 20) ∧
    Wp.TablePart.covers (10, 10, 30, 20) (exCell 10) ∧ ¬ Wp.TablePart.covers (10, 10, 30, 20) (exCell 30) := by
  refine ⟨by decide +kernel, by decide +kernel, by decide +kernel⟩

section Clip
open Wp.ClipRect

/-- Known finding `clip-auto-sides-swapped`: `clip: rect(0, auto, auto, 10px)` on a 50 × 40 border box at (50, 30).  CSS clips to
x ∈ [60, 100]; the code writes the rectangle (50, 30, 10, 40): x ∈ [50, 60] — the complement strip. -/
theorem clip_auto_sides_swapped :
    xEdges (clipRect 50 30 50 40 ⟨some 0, none, none, some 10⟩) = (50, 60) ∧
    cssClipEdges 50 30 50 40 ⟨some 0, none, none, some 10⟩ = (60, 100, 30, 70) := by
  decide +kernel

end Clip

end Wp.C17.Witness

namespace Wp.C17.Witness
open Wp Wp.ToUnicode

/-- Known finding `tounicode-shared-glyph`: the functional hypothesis of `tounicode_maps_back` is
necessary.  A font that draws U+0020 and U+00A0 with the same glyph (3) records the first text only, so
"a b c" maps back to "a b c": the no-break space is lost. -/
theorem shared_glyph_maps_back_wrong :
    decode (recordAll [] [(68, [0x61]), (3, [0x20]), (69, [0x62]), (3, [0xa0]), (70, [0x63])])
        [68, 3, 69, 3, 70] = some [0x61, 0x20, 0x62, 0x20, 0x63] ∧
    [(68, [0x61]), (3, [0x20]), (69, [0x62]), (3, [0xa0]), (70, [0x63])].flatMap (·.2)
      = [0x61, 0x20, 0x62, 0xa0, 0x63] := by
  decide

end Wp.C17.Witness
