/-
C15 — witnesses: clauses that are false of the current code (each mirrored by a `finding:` line of
known_findings.txt and a replay function in py/props/c15.py), refuted on a concrete input of the model.
The true weaker statements are the `…_partial` theorems of Props/C15*.lean.  The witnesses of findings that
were repaired in /repo are kept as regression theorems (first section).
-/
import WpModel.Model.Counters
import WpModel.Model.Repaginate
import WpModel.Gen.CounterStyles
import WpModel.Model.PageCounters
import WpModel.Model.TargetText
import WpModel.Model.CounterScope
import WpModel.Model.ListHints
import WpModel.Model.ContentFns

namespace Wp.Witness.C15
open Wp.Counters Wp.Repaginate

/-! ## Regressions of repaired findings (`fixed:` lines of known_findings.txt): the former witness inputs,
with the now-correct behaviour.  If a defect comes back the model follows the code again and these stop
building — a broken obligation, reported with the corpus input by the `fixed-regressions` section. -/

/-- fixed `range-auto-crash` (5be1d36): `@counter-style x { system: cyclic; symbols: a b; range: auto }` —
the validator stores the string `'auto'` and `render_value` uses the automatic range of the system (it used to
store `('auto',)`, on which the range test raised ValueError). -/
theorem range_auto_renders :
    (([1, 2, 3, 0, -1] : List Int).map fun v => renderValueTop
      ([("x", { system := some ⟨false, "cyclic", none⟩, symbols := some [.str "a", .str "b"],
                range := some .auto })] ++ Gen.uaCounterStyles) v (.named "x")) =
      [.ok "a", .ok "b", .ok "a", .ok "b", .ok "a"] := by
  decide

/-- fixed `extends-own-symbols-loses-sign` (1bdaf16):
`@counter-style a { system: extends lower-alpha; symbols: x; range: infinite infinite }`, value −5:
the alphabetic algorithm has one symbol only, the decimal fallback now receives the original value (it used
to receive `abs(value)` and print `5`).  General statement: `C15.decimal_fallback_value`. -/
theorem decimal_fallback_keeps_sign :
    step3 { symbols := some [.str "x"] } "alphabetic" none (step3Value "alphabetic" (-5)) (decide ((-5 : Int) < 0))
      = .decimal (-5) ∧
    renderValueTop
      ([("a", { system := some ⟨true, "lower-alpha", none⟩, symbols := some [.str "x"],
                range := some (.entries [.pair .negInf .posInf]) })] ++ Gen.uaCounterStyles)
      (-5) (.named "a") = .ok "-5" := by
  decide

/-- fixed `extends-empty-symbols-index-error` (1bdaf16): a numeric style with an empty `symbols` tuple tests
the symbol count before reading `symbols[0]`: 0 renders as decimal `0` (it used to raise IndexError).
(Since d71ddd0 `symbols: ;` no longer even registers the empty tuple, `C15.preprocess_empty_ignored`.)
General statement: `C15.step3_no_index_error`. -/
theorem extends_empty_symbols_renders_zero :
    renderValueTop
      ([("e", { system := some ⟨true, "decimal", none⟩, symbols := some [] })] ++ Gen.uaCounterStyles)
      0 (.named "e") = .ok "0" ∧
    renderValueTop
      ([("e", { system := some ⟨true, "decimal", none⟩, symbols := some [] })] ++ Gen.uaCounterStyles)
      7 (.named "e") = .ok "7" ∧
    renderValueTop
      ([("e", { system := some ⟨true, "decimal", none⟩, symbols := some [] })] ++ Gen.uaCounterStyles)
      (-7) (.named "e") = .ok "-7" := by
  decide

open Wp.ContentFns in
/-- fixed `target-counter-non-ident-style-crash` (9677ed2): `target-counter("#t", c, "x")` — a string (or
`symbols()`, or a number) as counter style makes `get_target` reject the function, the declaration is dropped;
it used to be accepted with the style `None`, on which `render_value` failed its assert while boxes were built.
General statement: `C15.target_counter_style_named`. -/
theorem target_counter_non_ident_style_rejected :
    targetFn "target-counter" [.str "#t", .comma, .ident "c", .comma, .str "x"] = none ∧
    targetFn "target-counter" [.str "#t", .comma, .ident "c", .comma, .other] = none ∧
    targetFn "target-counters" [.str "#t", .comma, .ident "c", .comma, .str ".", .comma, .str "x"] = none ∧
    targetFn "target-counter" [.str "#t", .comma, .ident "c", .comma, .ident "X"] =
      some (.targetCounter (.str "#t") "c" "x") ∧
    counterFn "counter" [.ident "c", .comma, .str "x"] = some (.counter "c" (.str "x")) := by
  decide

/-- The pagination of finding `page-fixpoint-oscillation`, abstractly: the state is "is the label
currently wide (`iii`)"; a wide label pushes its target to page 4 (4 pages), a narrow one (`iv`)
lets it come back to page 3 (3 pages); every pass changes the label, so `content_changed` is raised. -/
def oscStep (wide : Bool) : Bool × PassObs :=
  (!wide, ⟨if wide then 4 else 3, [⟨true, false⟩, ⟨false, false⟩, ⟨false, false⟩]⟩)

/-- `(printed page, page of the target)` after a pass that was laid out with the label `wide`. -/
def oscLabels (wideNext : Bool) : List (Nat × Nat) :=
  -- the pass just made used the *previous* width `!wideNext`: it printed 3 (wide, "iii") with the
  -- target pushed to 4, or printed 4 ("iv") with the target back on 3
  if wideNext then [(4, 3)] else [(3, 4)]

/-- finding `page-fixpoint-oscillation`, model level.  Refutes: "`layout_document` always leaves its
loop by the `break`" — with sound flags (`content_changed` raised by every pass that leaves a wrong
number) the loop is exhausted after `max_loops = 8` passes and the printed number is wrong.  Reaching
the fix point is outside what `C15.fixpoint_consistent` can promise. -/
theorem oscillation :
    (layoutLoop oscStep 8 false).converged = false ∧ (layoutLoop oscStep 8 false).passes = 8 ∧
    (∃ l ∈ oscLabels (layoutLoop oscStep 8 false).state, l.1 ≠ l.2) ∧
    (∀ s, (∃ l ∈ oscLabels (oscStep s).1, l.1 ≠ l.2) → reloopContent (oscStep s).2 = true) := by
  refine ⟨by decide, by decide, by decide, ?_⟩
  intro s _
  cases s <;> decide

/-- fixed `target-counter-pages-forward-crash` (da41776): `a::after { content: target-counter(attr(href), pages) }`
with the target on a later page.  When the page holding the link is made, the target has not been met yet
(`page_maker_index is None`): step 3 of the counter section now skips it (it used to evaluate `None >= 0`,
TypeError); the page is marked when the target is met (`C15.step3_marks_target_page`).  General statement:
`C15.step3_total`. -/
theorem forward_pages_reference_passes :
    Wp.PageCounters.counterSection
      { collecting := false
        targets := [("t", ⟨true, none, []⟩)]
        lookups := [⟨true, [], [("t", ["pages"])], none, false, []⟩]
        pageMaker := [⟨false, false, [], []⟩]
        calls := [] }
      1 [("page", [1]), ("pages", [0])] [⟨none, some 0⟩] =
    .ok { collecting := false
          targets := [("t", ⟨true, none, []⟩)]
          lookups := [⟨true, [], [("t", ["pages"])], some 0, false, []⟩]
          pageMaker := [⟨false, false, [], [0]⟩]
          calls := [] } := by
  rfl

open Wp.TargetText in
/-- finding `target-text-open-target-empty`: `<a id="x" href="#x">self</a>` with
`a::after { content: "[" target-text(attr(href)) "]" }` prints `[]`: when the content of `::after` is
computed the element's own box (and every ancestor's) has no children yet.
Refutes: "target-text() prints the text of the designated element" for self / ancestor targets
(`C15.target_text_partial`). -/
theorem target_text_of_open_target_is_empty :
    afterBoxes (.mk 0 true none "" none none
      [.mk 1 true (some "x") "self" none (some [.str "[", .ref "x" .content, .str "]"]) [] ""] "")
      = [(1, "[]")] ∧
    boxText (.mk 1 true (some "x") "self" none (some [.str "[", .ref "x" .content, .str "]"]) [] "") = "self" := by
  decide

open Wp.ListHints in
/-- finding `counter-set-before-increment`: `<p style="counter-set: c 5; counter-increment: c 1">` —
`update_counters` runs the `counter-set` loop before the `counter-increment` loop, the counter ends at 6.
css-lists-3 §4.5 ("reset, then incremented, then set") gives 5 (second component: the same two operations on
the reference frames in the specified order).
Refutes: "counter-set gives the counter the value it names" for an element that also increments it. -/
theorem set_before_increment :
    (updateCounters initState ⟨.other, [], [("c", 5)], some [("c", 1)]⟩).map (fun st => vget st.values "c")
      = .ok (some [6]) ∧
    Spec.stack (Spec.touch (fun _ => 5) (Spec.touch (fun t => t + 1) Spec.init "c") "c") "c" = [5] := by
  decide

open Wp.ListHints in
/-- finding `li-value-nests-scope`: `<ol><li>a</li><li value="7">b</li>…` — the hint of `<li value>` is
`counter-reset:list-item 7;counter-increment:none`; inside the list (whose own instance is in the frame of
the `ol`'s siblings) the reset *adds* an instance to the frame of the items: two `list-item` instances are in
scope at the second item, `counters(list-item, ".")` prints `1.7`.
Refutes: "a flat list has one list-item counter" (css-lists-3 UA sheet: `li[value]` sets the list's counter). -/
theorem li_value_nests_scope :
    let inList := Spec.machine.push (Spec.update Spec.init (applyHint Gen.olHint Gen.uaOl none))
    let afterFirst := Spec.update inList (applyHint Gen.liHint Gen.uaLi none)
    Spec.stack afterFirst "list-item" = [1] ∧
    Spec.stack (Spec.update afterFirst (applyHint Gen.liHint Gen.uaLi (some [.int 7]))) "list-item" = [7, 1] := by
  decide

open Wp.ListHints in
/-- finding `ol-start-not-integer`: `<ol start="1.5">` — the raw attribute is pasted into
`counter-reset:list-item 1.5;counter-increment:list-item -1`: the reset is invalid and dropped (the UA reset to
0 stays), the decrement is kept, the first item prints 0.  `<ol start="abc">` resets the two counters
`list-item` and `abc`.  HTML's rules for parsing integers give 1 (`1.5`) and the default 1 (`abc`).
Refutes: "the items of `<ol start>` count from the integer HTML reads in the attribute". -/
theorem ol_start_not_integer :
    Spec.stack (Spec.machine.push (Spec.update Spec.init (applyHint Gen.olHint Gen.uaOl (some [.other]))))
      "list-item" = [-1] ∧
    applyHint Gen.olHint Gen.uaOl (some [.ident "abc"]) =
      ⟨.other, [("list-item", 0), ("abc", 0)], [], some [("list-item", -1)]⟩ ∧
    Spec.stack (Spec.machine.push (Spec.update Spec.init (applyHint Gen.olHint Gen.uaOl none))) "list-item" = [0] := by
  decide

end Wp.Witness.C15
