/-
C15 — witnesses: clauses that are false of the current code (each mirrored by a `finding:` line of
known_findings.txt and a replay function in py/props/c15.py), refuted on a concrete input of the model.
The true weaker statements are the `…_partial` theorems of Props/C15.lean.
-/
import WpModel.Model.Counters
import WpModel.Model.Repaginate
import WpModel.Gen.CounterStyles
import WpModel.Model.PageCounters
import WpModel.Model.TargetText

namespace Wp.Witness.C15
open Wp.Counters Wp.Repaginate

/-- finding `range-auto-crash`: `@counter-style x { system: cyclic; symbols: a b; range: auto }` — the
validator stores `('auto',)`, `render_value` unpacks its element as a `(min, max)` pair.
Refutes: "the range test never fails on a validated `range`" (`C15.range_test_total_partial`). -/
theorem range_auto_raises :
    renderValueTop
      ([("x", { system := some ⟨false, "cyclic", none⟩, symbols := some [.str "a", .str "b"],
                range := some (.entries [.autoKw]) })] ++ Gen.uaCounterStyles)
      1 (.named "x") = .error .valueError := by
  decide

/-- finding `extends-own-symbols-loses-sign`:
`@counter-style a { system: extends lower-alpha; symbols: x; range: infinite infinite }`, value −5:
the alphabetic algorithm has one symbol only, the decimal fallback is called with `abs(value)`.
Refutes: "the decimal fallback renders the value the style was asked for"
(`C15.decimal_fallback_value_partial`). -/
theorem decimal_fallback_loses_sign :
    step3 { symbols := some [.str "x"] } "alphabetic" none (step3Value "alphabetic" (-5)) (decide ((-5 : Int) < 0))
      = .decimal 5 ∧
    renderValueTop
      ([("a", { system := some ⟨true, "lower-alpha", none⟩, symbols := some [.str "x"],
                range := some (.entries [.pair .negInf .posInf]) })] ++ Gen.uaCounterStyles)
      (-5) (.named "a") = .ok "5" := by
  decide

/-- finding `extends-empty-symbols-index-error`: `@counter-style e { system: extends decimal; symbols: }`
renders 0 with `symbols[0]` before the length test.
Refutes: "the numeric system falls back to decimal when it has fewer than two symbols". -/
theorem extends_empty_symbols_index_error :
    renderValueTop
      ([("e", { system := some ⟨true, "decimal", none⟩, symbols := some [] })] ++ Gen.uaCounterStyles)
      0 (.named "e") = .error .indexError ∧
    renderValueTop
      ([("e", { system := some ⟨true, "decimal", none⟩, symbols := some [] })] ++ Gen.uaCounterStyles)
      7 (.named "e") = .ok "7" := by
  decide

/-- The pagination of finding `page-fixpoint-oscillation`, abstractly: the state is "is the label
currently wide (`iii`)"; a wide label pushes its target to page 4 (4 pages), a narrow one (`iv`)
lets it come back to page 3 (3 pages); every pass changes the label, so `content_changed` is raised. -/
def oscStep (wide : Bool) : Bool × PassObs :=
  (!wide, ⟨if wide then 4 else 3, [⟨true, false⟩, ⟨false, false⟩, ⟨false, false⟩]⟩)

/-- `(printed page, page of the target)` after a pass that was laid out with the label `wide`. -/
def oscLabels (wideNext : Bool) : List (Nat × Nat) :=
  -- the pass just made used the *previous* width `!wideNext`: it printed 3 (wide, "iii") with the
  -- target pushed to 4, or printed 4 ("iv") with the target back on 3
  if wideNext then [(4, 3)] else [(3, 4)]

/-- finding `page-fixpoint-oscillation`, model level.  Refutes: "`layout_document` always leaves its
loop by the `break`" — with sound flags (`content_changed` raised by every pass that leaves a wrong
number) the loop is exhausted after `max_loops = 8` passes and the printed number is wrong.  Reaching
the fix point is outside what `C15.fixpoint_consistent` can promise. -/
theorem oscillation :
    (layoutLoop oscStep 8 false).converged = false ∧ (layoutLoop oscStep 8 false).passes = 8 ∧
    (∃ l ∈ oscLabels (layoutLoop oscStep 8 false).state, l.1 ≠ l.2) ∧
    (∀ s, (∃ l ∈ oscLabels (oscStep s).1, l.1 ≠ l.2) → reloopContent (oscStep s).2 = true) := by
  refine ⟨by decide, by decide, by decide, ?_⟩
  intro s _
  cases s <;> decide

/-- finding `target-counter-pages-forward-crash`: `a::after { content: target-counter(attr(href), pages) }`
with the target on a later page.  When the page holding the link is made, the target has not been met
yet (`page_maker_index is None`) and step 3 of the counter section evaluates `None >= 0`.
Refutes: "the counter section of `make_page` never raises" (`C15.step3_total_partial`). -/
theorem forward_pages_reference_raises :
    Wp.PageCounters.counterSection
      { collecting := false
        targets := [("t", ⟨true, none, []⟩)]
        lookups := [⟨true, [], [("t", ["pages"])], none, false, []⟩]
        pageMaker := [⟨false, false, [], []⟩]
        calls := [] }
      1 [("page", [1]), ("pages", [0])] [⟨none, some 0⟩] = .error .typeError := by
  rfl

open Wp.TargetText in
/-- finding `target-text-open-target-empty`: `<a id="x" href="#x">self</a>` with
`a::after { content: "[" target-text(attr(href)) "]" }` prints `[]`: when the content of `::after` is
computed the element's own box (and every ancestor's) has no children yet.
Refutes: "target-text() prints the text of the designated element" for self / ancestor targets
(`C15.target_text_partial`). -/
theorem target_text_of_open_target_is_empty :
    afterBoxes (.mk 0 true none "" none none
      [.mk 1 true (some "x") "self" none (some [.str "[", .ref "x" .content, .str "]"]) [] ""] "")
      = [(1, "[]")] ∧
    boxText (.mk 1 true (some "x") "self" none (some [.str "[", .ref "x" .content, .str "]"]) [] "") = "self" := by
  decide

end Wp.Witness.C15
