/-
C13 — witnesses: clauses of the property that are false of the current code, refuted on a concrete
input of the model (each is replayed on the real implementation by `py/props/c13.py`, see
`known_findings.txt`).
-/
import WpModel.Model.ReplacedDoc
import WpModel.Model.RasterEmbed

namespace Wp.C13.Witness
open Wp Wp.Replaced

/-- An image with only an intrinsic ratio (an SVG with a `viewBox`, no `width`/`height`), both sizes
auto, no margins: CSS 2.1 10.3.2 gives it the width of its containing block. -/
def ratioOnly : Intr := ⟨none, none, some 2⟩
def plainBox : RBox := ⟨none, none, some 0, some 0, some 0, some 0, 0, 0, 0, 0, 0, none, 0, none, 0, false⟩

/-- In flow (`inline_replaced_box_layout` gets the containing block): width 200 in a 200px block. -/
theorem in_flow_ratio_only_fills_containing_block :
    (inlineReplacedWH true ratioOnly ⟨200, false⟩ plainBox).toOption.map (fun b => (b.width, b.height)) =
      some (some 200, some 100) := by decide +kernel

/-- Absolutely positioned, containing block at x = 40 of width 200 (`absolute_replaced` passes the
tuple `(cb_x, cb_y, cb_width, cb_height)` and `block_level_width` reads `[0]`): the used width is the
x-coordinate 40, not 200 — and 0 when the containing block starts at x = 0. -/
theorem abs_replaced_ratio_only_uses_cb_x :
    (absoluteReplacedWH true ratioOnly 40 0 200 300 plainBox).toOption.map (fun b => (b.width, b.height)) =
      some (some 40, some 20) ∧
    (absoluteReplacedWH true ratioOnly 0 0 200 300 plainBox).toOption.map (fun b => (b.width, b.height)) =
      some (some 0, some 0) := by
  constructor <;> decide +kernel

open Wp.RasterEmbed in
/-- A 16-bit greyscale PNG (Pillow mode `I;16`): "unknown image mode", declared /DeviceRGB with one
8-bit colour per sample over 16-bit data — not a faithful rendition of the source pixels
(known finding `grey16-embedded-as-rgb8`). -/
theorem grey16_embedded_as_rgb8 :
    (embed ⟨.I16, false, .png, false, false, true⟩ ⟨false, false⟩).toOption =
      some (⟨.I16, false, false, false⟩, ⟨"/DeviceRGB", "/FlateDecode", false, false, false⟩) ∧
    faithful ⟨.I16, false, false, false⟩ = false := by
  constructor <;> decide +kernel

open Wp.RasterEmbed in
/-- A CMYK TIFF (and `PA`, `F`): the PNG re-encoding raises OSError, which the image loader does not
catch (known finding `unwritable-mode-crash`). -/
theorem unwritable_mode_raises :
    (rasterInit ⟨.CMYK, false, .other, false, false, true⟩ ⟨false, false⟩).toOption = none ∧
    (rasterInit ⟨.PA, false, .other, false, false, true⟩ ⟨false, false⟩).toOption = none := by
  constructor <;> decide +kernel

end Wp.C13.Witness
