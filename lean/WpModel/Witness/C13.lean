/-
C13 — witnesses: clauses of the property that are false of the current code, refuted on a concrete
input of the model (each is replayed on the real implementation by `py/props/c13.py`, see
`known_findings.txt`), and REGRESSION theorems: the inputs of the repaired findings (`fixed:` lines) with
the now-correct behaviour (the same inputs run on the real code in the `regressions` section).
-/
import WpModel.Model.ReplacedDoc
import WpModel.Model.RasterEmbed
import WpModel.Model.ReplacedBg
import WpModel.Model.ImageOrient
import WpModel.Gen.ImageInherited

namespace Wp.C13.Witness
open Wp Wp.Replaced

/-- An image with only an intrinsic ratio (an SVG with a `viewBox`, no `width`/`height`), both sizes
auto, no margins: CSS 2.1 10.3.2 gives it the width of its containing block. -/
def ratioOnly : Intr := ⟨none, none, some 2⟩
def plainBox : RBox := ⟨none, none, some 0, some 0, some 0, some 0, 0, 0, 0, 0, 0, none, 0, none, 0, false⟩

/-- In flow (`inline_replaced_box_layout` gets the containing block): width 200 in a 200px block. -/
theorem in_flow_ratio_only_fills_containing_block :
    (inlineReplacedWH true ratioOnly ⟨200, false⟩ plainBox).toOption.map (fun b => (b.width, b.height)) =
      some (some 200, some 100) := by decide +kernel

/-- REGRESSION (finding `abs-replaced-ratio-only-width`, fixed by a8f8a59).  Absolutely positioned,
containing block at x = 40 of width 200: `absolute_replaced` now passes `(cb_width, cb_height)`, so the
used width is 200 as in flow (it was the x-coordinate 40 — and 0 for a containing block at x = 0). -/
theorem abs_replaced_ratio_only_fills_containing_block :
    (absoluteReplacedWH true ratioOnly 40 0 200 300 plainBox).toOption.map (fun b => (b.width, b.height)) =
      some (some 200, some 100) ∧
    (absoluteReplacedWH true ratioOnly 0 0 200 300 plainBox).toOption.map (fun b => (b.width, b.height)) =
      some (some 200, some 100) := by
  constructor <;> decide +kernel

open Wp.RasterEmbed in
/-- A 16-bit greyscale PNG (Pillow mode `I;16`): "unknown image mode", declared /DeviceRGB with one
8-bit colour per sample over 16-bit data — not a faithful rendition of the source pixels
(known finding `grey16-embedded-as-rgb8`). -/
theorem grey16_embedded_as_rgb8 :
    (embed ⟨.I16, false, .png, false, false, true⟩ ⟨false, false⟩).toOption =
      some (⟨.I16, false, false, false⟩, ⟨"/DeviceRGB", "/FlateDecode", false, false, false⟩) ∧
    faithful ⟨.I16, false, false, false⟩ = false := by
  constructor <;> decide +kernel

open Wp.RasterEmbed in
/-- REGRESSION (finding `unwritable-mode-crash`, fixed by d7dc388).  A CMYK TIFF (and `PA`, `F`): the PNG
re-encoding inside `RasterImage.__init__` still raises OSError, but `get_image_from_uri` now turns it
into a loading error: the image is *not loaded* (`None`, alternative text rendered) and rendering goes on. -/
theorem unwritable_mode_not_loaded :
    (rasterInit ⟨.CMYK, false, .other, false, false, true⟩ ⟨false, false⟩).toOption = none ∧
    loadRaster ⟨.CMYK, false, .other, false, false, true⟩ ⟨false, false⟩ = none ∧
    loadRaster ⟨.PA, false, .other, false, false, true⟩ ⟨false, false⟩ = none ∧
    loadRaster ⟨.F, false, .other, false, false, true⟩ ⟨false, false⟩ = none := by
  refine ⟨?_, ?_, ?_, ?_⟩ <;> decide +kernel

/-- `background: url(10px tile) 300px 0 no-repeat repeat` on a 50px-wide box: the image is placed at
x = 300, outside the box, and must not be visible; the pattern steps by `max(10, 2·50) = 100` on the
no-repeat axis, so the copy `k = -3` lies at x = 0..10, inside the painting area
(known finding `background-no-repeat-axis-wraps`). -/
theorem no_repeat_axis_wraps :
    (repeatAxis .noRepeat 10 50 50 300).toOption = some (100, 300) ∧
    ((300 : Rat) + (-3) * 100 < 0 + 50 ∧ (0 : Rat) < 300 + (-3) * 100 + 10) := by
  constructor
  · decide +kernel
  · constructor <;> decide +kernel

open Wp.ImageOrient in
/-- REGRESSION (finding `image-orientation-rotates-ccw`, fixed by e4e2f8c).  `image-orientation: 90deg` on
the two-pixel image `[A B]`: css-images-3 rotates to the right (A on top), and so does
`rotate_pillow_image` now (`ROTATE_270` of Pillow, which turns counter-clockwise); `270deg` puts B on top. -/
theorem orientation_quarter_turn_is_clockwise :
    (rotatePillow (Img.ofRows 0 [[10, 20]]) (.turn 90 false)).1.rows = [[10], [20]] ∧
    (cssOrient (Img.ofRows 0 [[10, 20]]) 90 false).rows = [[10], [20]] ∧
    (rotatePillow (Img.ofRows 0 [[10, 20]]) (.turn 270 false)).1.rows = [[20], [10]] := by
  refine ⟨?_, ?_, ?_⟩ <;> decide +kernel

/-- REGRESSION (finding `image-orientation-not-inherited`, fixed by 8f3706e).  css-images-3 §6 defines
`image-orientation`, `image-rendering` and `image-resolution` as inherited properties; the regenerated `INHERITED`
table now lists all three (it lacked `image_orientation`: an `<img>` under an element with
`image-orientation: 90deg` was not rotated). -/
theorem image_properties_inherited :
    Gen.imagePropsInherited = [("image_orientation", true), ("image_rendering", true), ("image_resolution", true)] := by
  rfl

end Wp.C13.Witness
