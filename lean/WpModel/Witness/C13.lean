/-
C13 — witnesses: clauses of the property that are false of the current code, refuted on a concrete
input of the model (each is replayed on the real implementation by `py/props/c13.py`, see
`known_findings.txt`).
-/
import WpModel.Model.ReplacedDoc
import WpModel.Model.ReplacedBg

namespace Wp.C13.Witness
open Wp Wp.Replaced

/-- An image with only an intrinsic ratio (an SVG with a `viewBox`, no `width`/`height`), both sizes
auto, no margins: CSS 2.1 10.3.2 gives it the width of its containing block. -/
def ratioOnly : Intr := ⟨none, none, some 2⟩
def plainBox : RBox := ⟨none, none, some 0, some 0, some 0, some 0, 0, 0, 0, 0, 0, none, 0, none, 0, false⟩

/-- In flow (`inline_replaced_box_layout` gets the containing block): width 200 in a 200px block. -/
theorem in_flow_ratio_only_fills_containing_block :
    (inlineReplacedWH true ratioOnly ⟨200, false⟩ plainBox).toOption.map (fun b => (b.width, b.height)) =
      some (some 200, some 100) := by decide +kernel

/-- Absolutely positioned, containing block at x = 40 of width 200 (`absolute_replaced` passes the
tuple `(cb_x, cb_y, cb_width, cb_height)` and `block_level_width` reads `[0]`): the used width is the
x-coordinate 40, not 200 — and 0 when the containing block starts at x = 0. -/
theorem abs_replaced_ratio_only_uses_cb_x :
    (absoluteReplacedWH true ratioOnly 40 0 200 300 plainBox).toOption.map (fun b => (b.width, b.height)) =
      some (some 40, some 20) ∧
    (absoluteReplacedWH true ratioOnly 0 0 200 300 plainBox).toOption.map (fun b => (b.width, b.height)) =
      some (some 0, some 0) := by
  constructor <;> decide +kernel

def isZeroDivision {α} : Except Err α → Bool
  | .error (.zeroDivision _) => true
  | _ => false

def box100x50 : Geom := ⟨0, 0, 0, 0, 0, 0, 0, 0, 0, 0, 0, 0, 0, 0, 100, 50⟩
def centered : Position := ⟨false, .pct 0, false, .pct 0⟩

/-- `background-repeat: round` with a zero-wide image (`background-size: 0 auto`, or a percentage of a
zero-wide positioning area): `round(positioning_width / image_width)` divides by zero.  The property
wants an integer number of tiles filling the area (or no painting), not an exception. -/
theorem background_round_zero_size :
    isZeroDivision (layoutBackgroundLayer box100x50 .plain box100x50 (some ⟨some 4, some 4, some 1⟩)
      (.explicit (some (.px 0)) none) .borderBox .round .repeat .paddingBox centered false) = true := by
  decide +kernel

/-- …while the same layer without `round` is laid out (and then not painted: `0 in layer.size`). -/
theorem background_zero_size_without_round_ok :
    (layoutBackgroundLayer box100x50 .plain box100x50 (some ⟨some 4, some 4, some 1⟩)
      (.explicit (some (.px 0)) none) .borderBox .repeat .repeat .paddingBox centered false).toOption.isSome = true := by
  decide +kernel

end Wp.C13.Witness
