/-
Witnesses: clauses of C01 / C02 / C03 that are false of the current code on the footnote grammar
(each reproduced on the real layout: corpus/C01/footnote_*.json, replays in py/harness/pm_foot_corr.py).
-/
import WpModel.Props.C01Foot
import WpModel.Props.C03FootGeo

namespace Wp.C01Foot
open Wp Wp.PM Wp.PMF

/-- A 6-line paragraph on a 60px page; line 4 calls a 30px footnote with `footnote-policy: block`. The paragraph is
the first content of the page, lines 0–3 are placed, the footnote does not fit under line 4: `_linebox_layout` sets
`abort = True`, the paragraph returns `None` on an empty page, so does every ancestor, and `make_page` fails its
`assert root_box` (AssertionError, no document). -/
def wBlock : FDoc := exDocOf 60 [.para 1 6 10 exSt [⟨4, 1, 3, 10, .block⟩]]

/-- **W (C02/C03)**: `footnote-policy: block` makes the first page impossible — pagination fails. -/
theorem policy_block_crashes : paginateFoot wBlock 20 = none := by decide +kernel

/-- … already on page 1: the root box is `None`. -/
theorem policy_block_root_none :
    (remakePageF wBlock 0 none { brk := none, page := some "" } true (boxFns wBlock.root) []).isNone = true := by
  decide +kernel

/-- Everything but `noBlock` holds of `wBlock`. -/
example : NoFixedHeight wBlock.root.erase ∧ WellFormed wBlock.root.erase ∧ CallsOk wBlock.root ∧
    UniqueParaIds wBlock.root ∧ (boxFns wBlock.root).Nodup := by
  refine ⟨?_, ?_, ?_, ?_, ?_⟩
  · simp [wBlock, exDocOf, FootBox.erase, eraseList, NoFixedHeight, NoFixedHeightList, exSt]
  · simp [wBlock, exDocOf, FootBox.erase, eraseList, WellFormed, WellFormedList, exSt]
  · simp [wBlock, exDocOf, CallsOk, CallsOkList]
  · simp [wBlock, exDocOf, UniqueParaIds, paraIds, paraIdsList]
  · decide +kernel

/-- Two paragraphs on 40.5px pages (lines of 12.5px): the last line of the first calls footnotes 3 and 4 (8px each),
4 is postponed; the second paragraph has `page: pa` and calls footnote 6 on its last line. On page 3 (named `pa`) the
footnote area holds 4 (page name '') and 6 (page name `pa`): `block_container_layout` of the area sees a page-name
change between its two children (`block_level_page_name`) and stops before 6; the area is laid out with 4 alone and
the rest is dropped (`[0]` of the result is used, `resume_at` ignored). Footnote 6 is taken (`current_page_footnotes`)
but never rendered. -/
def wNamed : FDoc := exDocOf (81 / 2)
  [.para 3 5 (25 / 2) exSt [⟨4, 3, 1, 8, .auto⟩, ⟨4, 4, 1, 8, .auto⟩],
   .para 4 2 (25 / 2) { exSt with page := "pa" } [⟨1, 6, 1, 8, .auto⟩]]

/-- **W (C01)**: with two page names among the footnotes a footnote body is lost: footnote 6 is in the page's
footnote list but not in the rendered area. -/
theorem named_page_loses_footnote :
    (paginateFoot wNamed 20).map (List.map pageSummary) =
      some [⟨false, [(3, 0), (3, 1), (3, 2)], [], [], []⟩, ⟨false, [(3, 3), (3, 4)], [3], [4], [3]⟩,
            ⟨false, [(4, 0), (4, 1)], [4, 6], [], [4]⟩] ∧
    (boxFns wNamed.root).map (fun f => f.fid) = [3, 4, 6] := by
  constructor <;> decide +kernel

/-- `wNamed` satisfies every hypothesis of `footnotes_shown` but `OnePageName` (so `footnotes_conserve` and
`footnotes_chain` hold of it: the footnote *is* taken by page 3, it is the rendering of the area that drops it). -/
example : FootWF wNamed ∧ ¬ OnePageName wNamed := by
  refine ⟨⟨?_, ?_, ?_, ?_, ?_, ?_⟩, ?_⟩
  · simp [wNamed, exDocOf, FootBox.erase, eraseList, NoFixedHeight, NoFixedHeightList, exSt]
  · simp [wNamed, exDocOf, FootBox.erase, eraseList, WellFormed, WellFormedList, exSt]
  · simp [wNamed, exDocOf, NoBlockPolicy, NoBlockPolicyList]
  · simp [wNamed, exDocOf, CallsOk, CallsOkList]
  · simp [wNamed, exDocOf, UniqueParaIds, paraIds, paraIdsList]
  · decide +kernel
  · unfold OnePageName; decide +kernel

/-- A footnote area with a bottom margin and border (2px each) and `max-height: 25px`; footnote 2 (50px, page name
'') is postponed to page 2, named `pb`, where the three footnotes 11–13 of the `page: pb` paragraph are laid out and
postponed one after the other. Each time, the area holds footnotes of two page names, is laid out *fragmented*
(its bottom margin/border removed) and `_update_footnote_area` subtracts the fragmented margin height but later adds
back the full one: `context.page_bottom` rises by 4px per update, from 24 to 36, and line 1 of the paragraph
(26 … 36) is accepted although the footnote area starts at 24. -/
def wDrift : FDoc :=
  { pageH := 53, rootLtr := true, area := { mt := 0, mb := 2, pt := 0, pb := 0, bt := 0, bb := 2, maxH := some 25 },
    root := .block 100 { exSt with isRoot := true } [.block 101 exSt
      [.para 1 1 10 exSt [⟨0, 2, 5, 10, .auto⟩],
       .para 3 2 10 { exSt with page := "pb", pt := 16 } [⟨0, 11, 1, 10, .auto⟩, ⟨0, 12, 1, 10, .auto⟩,
         ⟨0, 13, 1, 10, .auto⟩]]] }

/-- **W (C03)**: body text overlaps the footnote area (the hypothesis `AreaHyp` of `C03FootGeo.paginate_line_fits`
fails: the area has a bottom margin and border): on page 2 the second line ends at 36, the area starts at 24. -/
theorem page_bottom_drifts :
    (paginateFoot wDrift 20).map (fun ps => ps.map (fun p =>
      ((placedLines p.page.root true (C03FootGeo.pageSourceF wDrift p).erase).map (fun l => l.y + l.lineH),
       p.area.map (fun a => a.y)))) =
    some [([10], none), ([26, 36], some 24), ([], some 29), ([], some 39)] := by decide +kernel

end Wp.C01Foot
