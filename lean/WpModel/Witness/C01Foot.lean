/-
Footnote grammar: regression theorems for the five defects of this grammar repaired in /repo (the former witnesses,
now stating the correct behaviour on the same inputs); no clause of C01/C03 is known to be false of the code on this
grammar any more (each input is replayed on the real layout: corpus/C01/footnote_*.json, corpus/C03/footnote_*.json, replays in
py/harness/pm_foot_corr.py).

  fixed 67bf2ca  footnote-policy-block-crash        was `policy_block_crashes : paginateFoot wBlock 20 = none`
  fixed 8db5909  footnote-named-page-lost           was `named_page_loses_footnote` (footnote 6 taken, never rendered)
  fixed 8db5909  footnote-named-page-area-overlap   was `page_bottom_drifts` (page_bottom 24 → 36, line over the area)
  fixed 84e5b27  footnote-area-negative-margin-overflow   was `area_negative_margin_overflows` (emptied area, −4px margin)
  fixed 2efefde  footnote-area-negative-margin-box        was `area_negative_margin_box_overflows` (non-empty area, −14px)
-/
import WpModel.Props.C01Foot
import WpModel.Props.C03Foot
import WpModel.Props.C03FootGeo

namespace Wp.C01Foot
open Wp Wp.PM Wp.PMF

/-! ### `footnote-policy: block` on the first content of a page (repair 67bf2ca) -/

/-- A 6-line paragraph on a 60px page; line 4 calls a 30px footnote with `footnote-policy: block`. The paragraph is
the first content of the page, lines 0–3 are placed, the footnote does not fit under line 4. Before the repair
`_linebox_layout` aborted the paragraph on an empty page and `make_page` failed its `assert root_box`. -/
def wBlock : FDoc := exDocOf 60 [.para 1 6 10 exSt [⟨4, 1, 3, 10, .block⟩]]

/-- **Regression (C02/C03, was W `policy_block_crashes`)**: the page break is taken before line 4 (as
`footnote-policy: line` does); the footnote goes with its line to page 2 and is rendered there. -/
theorem policy_block_first_content :
    (paginateFoot wBlock 20).map (List.map pageSummary) =
      some [⟨false, [(1, 0), (1, 1), (1, 2), (1, 3)], [], [], []⟩, ⟨false, [(1, 4), (1, 5)], [1], [], [1]⟩] := by
  decide +kernel

/-- … and page 1 has a root box (was W `policy_block_root_none`). -/
theorem policy_block_root_some :
    (remakePageF wBlock 0 none { brk := none, page := some "" } true (boxFns wBlock.root) []).isSome = true :=
  C03Foot.remakePageF_total wBlock 0 none _ true _ []

/-- `wBlock` satisfies the hypotheses of the footnote theorems (`FootWF` no longer excludes the policy). -/
example : FootWF wBlock := by
  refine ⟨?_, ?_, ?_, ?_, ?_⟩
  · simp [wBlock, exDocOf, FootBox.erase, eraseList, NoFixedHeight, NoFixedHeightList, exSt]
  · simp [wBlock, exDocOf, FootBox.erase, eraseList, WellFormed, WellFormedList, exSt]
  · simp [wBlock, exDocOf, CallsOk, CallsOkList]
  · simp [wBlock, exDocOf, UniqueParaIds, paraIds, paraIdsList]
  · decide +kernel

/-- The policy still pushes a paragraph that is *not* the first content of its page: two lines, then a 4-line
paragraph whose line 2 calls a 40px `footnote-policy: block` footnote on an 80px page: lines 0–1 of the paragraph
fit, the footnote does not fit under line 2, the whole paragraph is cancelled (its footnotes un-laid-out) and
starts page 2, where the footnote is rendered. -/
def wBlockPush : FDoc := exDocOf 80 [.para 2 2 10 exSt [], .para 1 4 10 exSt [⟨2, 1, 4, 10, .block⟩]]

theorem policy_block_pushes_paragraph :
    (paginateFoot wBlockPush 20).map (List.map pageSummary) =
      some [⟨false, [(2, 0), (2, 1)], [], [], []⟩,
            ⟨false, [(1, 0), (1, 1), (1, 2), (1, 3)], [1], [], [1]⟩] := by
  decide +kernel

/-! ### footnotes of two page names in one footnote area (repair 8db5909) -/

/-- Two paragraphs on 40.5px pages (lines of 12.5px): the last line of the first calls footnotes 3 and 4 (8px each),
4 is postponed; the second paragraph has `page: pa` and calls footnote 6 on its last line. Page 3 (named `pa`)
takes footnote 4 (page name '') and then 6 (page name `pa`). Before the repair the footnote area was broken at the
page-name change between its two children: 6 was taken (`current_page_footnotes`) but never rendered. -/
def wNamed : FDoc := exDocOf (81 / 2)
  [.para 3 5 (25 / 2) exSt [⟨4, 3, 1, 8, .auto⟩, ⟨4, 4, 1, 8, .auto⟩],
   .para 4 2 (25 / 2) { exSt with page := "pa" } [⟨1, 6, 1, 8, .auto⟩]]

/-- **Regression (C01, was W `named_page_loses_footnote`)**: every footnote is rendered exactly once — the whole
area (4 and 6) is now laid out on page 3, overflows the page, 6 is postponed and a last page is made for it. -/
theorem named_page_keeps_footnote :
    (paginateFoot wNamed 20).map (List.map pageSummary) =
      some [⟨false, [(3, 0), (3, 1), (3, 2)], [], [], []⟩, ⟨false, [(3, 3), (3, 4)], [3], [4], [3]⟩,
            ⟨false, [(4, 0), (4, 1)], [4], [6], [4]⟩, ⟨true, [], [6], [], [6]⟩] ∧
    (boxFns wNamed.root).map (fun f => f.fid) = [3, 4, 6] := by
  constructor <;> decide +kernel

/-- `wNamed` has two page names among its footnotes and satisfies `FootWF`: `footnotes_shown` applies to it. -/
example : FootWF wNamed ∧ (boxFns wNamed.root).map (fun f => f.page) = ["", "", "pa"] := by
  refine ⟨⟨?_, ?_, ?_, ?_, ?_⟩, ?_⟩
  · simp [wNamed, exDocOf, FootBox.erase, eraseList, NoFixedHeight, NoFixedHeightList, exSt]
  · simp [wNamed, exDocOf, FootBox.erase, eraseList, WellFormed, WellFormedList, exSt]
  · simp [wNamed, exDocOf, CallsOk, CallsOkList]
  · simp [wNamed, exDocOf, UniqueParaIds, paraIds, paraIdsList]
  · decide +kernel
  · decide +kernel

/-- A footnote area with a bottom margin and border (2px each) and `max-height: 25px`; footnote 2 (50px, page name
'') is postponed to page 2, named `pb`, where the three footnotes 11–13 of the `page: pb` paragraph are laid out
and postponed one after the other. Before the repair the area — holding footnotes of two page names — was laid out
fragmented (bottom margin/border removed), `_update_footnote_area` subtracted the fragmented margin height but
added back the full one, `page_bottom` rose from 24 to 36 and line 1 (26 … 36) was accepted over the area (top 24). -/
def wDrift : FDoc :=
  { pageH := 53, rootLtr := true, area := { mt := 0, mb := 2, pt := 0, pb := 0, bt := 0, bb := 2, maxH := some 25 },
    root := .block 100 { exSt with isRoot := true } [.block 101 exSt
      [.para 1 1 10 exSt [⟨0, 2, 5, 10, .auto⟩],
       .para 3 2 10 { exSt with page := "pb", pt := 16 } [⟨0, 11, 1, 10, .auto⟩, ⟨0, 12, 1, 10, .auto⟩,
         ⟨0, 13, 1, 10, .auto⟩]]] }

/-- **Regression (C03, was W `page_bottom_drifts`)**: per page (bottoms of the lines, top of the footnote area,
footnotes rendered): on page 2 only the first line (ending at 26, exempt as first content) is placed above the
area that starts at 24 + and the second line goes to page 3; no line below an area top otherwise. -/
theorem page_bottom_no_drift :
    (paginateFoot wDrift 20).map (fun ps => ps.map (fun p =>
      ((placedLines p.page.root true (C03FootGeo.pageSourceF wDrift p).erase).map (fun l => l.y + l.lineH),
       p.area.map (fun a => a.y), shownFids p))) =
    some [([10], none, []), ([26], some 24, [2]), ([10], some 29, [11, 12]), ([], some 39, [13])] := by
  decide +kernel


/-! ### an emptied footnote area with a negative top margin (repair 84e5b27) -/

/-- 6 lines of 10px on a 46px page; line 1 calls a 50px footnote that cannot fit and is postponed; the `@footnote`
area has `margin-top: -4px`. Before the repair `report_footnote` left the emptied area with height 0 and its margin
height −4 subtracted from `context.page_bottom` (46 → 50): line 4 (40 … 50) was accepted on page 1. -/
def wNeg : FDoc :=
  { exDocOf 46 [.para 1 6 10 exSt [⟨1, 1, 5, 10, .auto⟩]] with area := { exArea with mt := -4 } }

/-- **Regression (C03, was W `area_negative_margin_overflows`)**: the emptied area takes no room, `page_bottom` is
the page box bottom again, line 4 goes to page 2 (per page: line bottoms, area top, footnotes rendered). -/
theorem area_emptied_takes_no_room :
    (paginateFoot wNeg 20).map (fun ps => ps.map (fun p =>
      ((placedLines p.page.root true (C03FootGeo.pageSourceF wNeg p).erase).map (fun l => l.y + l.lineH),
       p.area.map (fun a => a.y), shownFids p))) =
    some [([10, 20, 30, 40], none, []), ([10], some 0, [1]), ([10], none, [])] ∧ wNeg.pageH = 46 := by
  constructor
  · decide +kernel
  · rfl

/-- The state after `report_footnote` emptied the area is the state before any footnote was laid out. -/
example :
    let c : FCtx := { area := { exArea with mt := -4 }, pageH := 46, currentPage := 1, forcedBreak := false, tbl := [] }
    let f : Fn := ⟨1, 5, 10, .auto, ""⟩
    let fs : FState := { pending := [f], cur := [], reported := [], pageBottom := 46, areaH := none }
    ((reportFootnote c (layoutFootnote c fs f).1 f).areaH, (reportFootnote c (layoutFootnote c fs f).1 f).pageBottom) =
      (none, 46) := by decide +kernel

/-! ### a non-empty footnote area whose margin box has a negative height (repair 2efefde) -/

/-- 7 lines of 10px on a 46px page; line 0 calls a 10px footnote, which fits; the `@footnote` area has
`margin-top: -14px`, more than the content is high: the margin box of the area is −4px high. Before the repair
`_update_footnote_area` subtracted −4 from `context.page_bottom` (46 → 50) and line 4 (40 … 50) was accepted on
page 1. -/
def wNegBox : FDoc :=
  { exDocOf 46 [.para 1 7 10 exSt [⟨0, 1, 1, 10, .auto⟩]] with area := { exArea with mt := -14 } }

/-- **Regression (C03, was W `area_negative_margin_box_overflows`)**: what the area takes from the page is clamped
at 0, `page_bottom` stays 46, four lines (ending at 40) are placed on page 1 and line 4 goes to page 2 (per page:
line bottoms, top of the area's margin box, footnotes rendered). -/
theorem area_negative_margin_box_clamped :
    (paginateFoot wNegBox 20).map (fun ps => ps.map (fun p =>
      ((placedLines p.page.root true (C03FootGeo.pageSourceF wNegBox p).erase).map (fun l => l.y + l.lineH),
       p.area.map (fun a => a.y), shownFids p))) =
    some [([10, 20, 30, 40], some 50, [1]), ([10, 20, 30], none, [])] ∧ wNegBox.pageH = 46 := by
  constructor
  · decide +kernel
  · rfl

/-- `wNegBox` satisfies every hypothesis `C03FootGeo.paginate_line_fits` still has (the one on the `@footnote` style
is gone), so the theorem applies to it. -/
example : DecoOk wNegBox.root.erase ∧ HeightsOk wNegBox.root := by
  refine ⟨?_, ?_⟩
  · simp [wNegBox, exDocOf, FootBox.erase, eraseList, DecoOk, DecoOkList, PStyle.DecoOk, exSt]
    decide +kernel
  · simp only [wNegBox, exDocOf, HeightsOk, HeightsOkList, List.mem_cons, List.not_mem_nil, or_false,
      forall_eq_or_imp, forall_eq, and_true]
    decide +kernel

end Wp.C01Foot
