/-
Regression theorems for the seven defects of multi-column containers that were recorded as findings of C01 / C02 /
C03 / C05 and have been repaired in /repo (`fixed:` lines of `known_findings.txt`).  Each used to be a witness
refuting a clause on a concrete document (`corpus/C01/colspan_*.json`, `corpus/C03/columns_negative_margin_bottom.json`,
`corpus/C05/columns_margin_top_ignored.json`, `corpus/C01/colspan_block_resume_*.json`); the same documents now show the correct behaviour, in the model
(`Model/PaginateCol.lean`, which follows the repaired code) and — replayed by the corpus-first cases of
`py/harness/pm_col_corr.py` — in the real layout.  The general statements are `Props/C01Col.lean`
(`pages_conserve`, now without `NoSpan`), `Props/C03Col.lean` (`page_progress`), `Props/C03GeoCol.lean` (`paginate_line_fits`, now without
any hypothesis on the container's bottom margin).
-/
import WpModel.Lemmas.ColSegPages
import WpModel.Lemmas.ColGeo

namespace Wp.Witness.C01Col
open Wp Wp.PM Wp.PMC

def st0 : PStyle :=
  { mt := 0, mb := 0, pt := 0, pb := 0, bt := 0, bb := 0, height := none, minH := 0, maxH := none,
    brkBefore := .auto, brkAfter := .auto, brkInside := .auto, clone := false, page := "", orphans := 1, widows := 1,
    isRoot := false }

def shownLines : PagesOut → Option (List (List (Nat × Nat)))
  | .ok ps => some (ps.map fun (p : CPage) => PMC.fragLines p.root)
  | _ => none

/-- Does the pagination (when it returns pages) show exactly the lines of the document? -/
def conservesB (d : CDoc) (fuel : Nat) : Bool :=
  match paginateCol d fuel with
  | .ok pages => decide (PMC.pagesLines pages = PMC.linesFrom d.root none)
  | _ => true

/-! ### 1. `column-span-loses-following-content` (fixed by b24b457)

`<body style="margin-top:8px"><div style="column-count:2;column-gap:0;column-fill:auto"><p>9 lines of 12px</p>
<p style="column-span:all">1 line</p></div>` on 192×72px pages.  The 9 lines fit in two columns of 64px (5 + 4);
the balancing loop reaches `max_height` and sets `stop_rendering`.  The loop over the groups used to stop there with
`resume_at = None`: the spanning paragraph was on no page.  It now stops only when the group really continues
(`break_page or column_skip_stack is not None`): the span is laid out next, does not fit, and opens page 2. -/
def spanLost : CDoc :=
  { pageH := 72, rootLtr := true,
    root := .block 9 { st0 with isRoot := true }
      [.block 8 { st0 with mt := 8 }
        [.columns 7 st0 { count := 2, balance := false, ltr := true, width := 192 } [false, true]
          [.para 1 9 12 st0,
           .para 6 1 12 st0]]] }

theorem span_keeps_following_content :
    shownLines (paginateCol spanLost 30) =
      some [[(1, 0), (1, 1), (1, 2), (1, 3), (1, 4), (1, 5), (1, 6), (1, 7), (1, 8)], [(6, 0)]] ∧
    conservesB spanLost 30 = true := by
  decide +kernel

/-! ### 2. `column-group-dropped-span-duplicated` (fixed by b24b457)

Container `height:40px; column-count:1; column-fill:auto` holding: an empty spanning block with a 1px bottom
border, a paragraph `min-height:40px`, a spanning paragraph; 140px pages.  The column of the paragraph cannot be
rendered after the first span (`new_child is None`: `columns = []; break_page = True`).  The loop used to go on with
the second span and to compute `{index: None}` with the index of that *last* item (paragraph 4 on no page, span 5 on
two).  It now stops at the group: page 1 shows the first span, page 2 the paragraph and the second span. -/
def groupDropped : CDoc :=
  { pageH := 140, rootLtr := true,
    root := .block 14 { st0 with isRoot := true }
      [.block 13 st0
        [.columns 6 { st0 with height := some 40 } { count := 1, balance := false, ltr := true, width := 192 }
          [true, false, true]
          [.block 3 { st0 with bb := 1 } [],
           .para 4 1 20 { st0 with minH := 40 },
           .para 5 1 20 st0]]] }

theorem group_resumed_span_once :
    shownLines (paginateCol groupDropped 30) = some [[], [(4, 0), (5, 0)]] ∧
    conservesB groupDropped 30 = true := by
  decide +kernel

/-! ### 3. `find-earlier-break-in-columns-attribute-error` (fixed by 3162604)

A container holding one spanning paragraph of 5 lines, followed by a block `break-before: avoid` that does not
fit: `find_earlier_page_break` used to go into the container and to read `.index` of its children (which have
none): `AttributeError`.  A container is no longer looked into; no earlier break exists, the block goes to page 2. -/
def attrErr : CDoc :=
  { pageH := 90, rootLtr := true,
    root := .block 11 { st0 with isRoot := true }
      [.block 10 st0
        [.columns 9 st0 { count := 1, balance := false, ltr := true, width := 192 } [true]
          [.para 8 5 10 { st0 with mb := 4 }],
         .block 4 { st0 with mt := 5, pt := 10, brkBefore := .avoid }
          [.block 3 st0
            [.para 1 2 10 { st0 with pt := 2, orphans := 2 }]]]] }

theorem find_earlier_total :
    shownLines (paginateCol attrErr 30) = some [[(8, 0), (8, 1), (8, 2), (8, 3), (8, 4)], [(1, 0), (1, 1)]] := by
  decide +kernel

/-! ### 4. `columns-negative-margin-bottom-overflow` (fixed by 94e08d4)

`block_box_layout` lays a finished container out a second time with `bottom_space += margin_bottom +
padding_bottom + border_bottom_width`; with `margin-bottom: -18px` the bottom space used to *shrink* by 18px and on
81px pages the tenth line was placed at y = 81 (bottom 90).  The second layout now only happens for a positive sum:
no line that is not first on its page or in its column ends below the page bottom. -/
def negMargin : CDoc :=
  { pageH := 81, rootLtr := true,
    root := .block 10 { st0 with isRoot := true }
      [.block 9 st0
        [.columns 8 { st0 with mb := (-18) } { count := 2, balance := false, ltr := true, width := 192 } [false, false]
          [.para 2 1 9 st0,
           .block 5 st0
            [.para 3 9 9 st0]]]] }

/-- Lines (paragraph, line, bottom) that are not exempt and end below the page bottom (with the fudge factor). -/
def overflowingLines (lh : Nat → Rat) (d : CDoc) (fuel : Nat) : List (Nat × Nat × Rat) :=
  match paginateCol d fuel with
  | .ok ps => ps.flatMap fun (p : CPage) =>
      ((PMC.placedLines lh p.root true).filter fun l =>
        !l.exempt && decide (l.y + l.lineH > d.pageH * (1 + 1 / 1000000000))).map fun l => (l.para, l.line, l.y + l.lineH)
  | _ => []

theorem container_negative_margin_fits :
    overflowingLines (fun _ => 9) negMargin 30 = [] ∧ conservesB negMargin 30 = true := by decide +kernel

/-- The document satisfies the hypotheses of `C03GeoCol.paginate_line_fits` (it did not before the repair: the
theorem then needed `margin-bottom + padding-bottom + border-bottom ≥ 0` on every container). -/
example : PMC.DecoOk negMargin.root ∧ LhOk (fun _ => (9 : Rat)) negMargin.root := by
  constructor
  · simp only [negMargin, st0, PMC.DecoOk, PMC.DecoOkList, PStyle.DecoOk]
    decide +kernel
  · simp [negMargin, LhOk, LhOkList]

/-! ### 5. `columns-margin-top-ignored` (C05; fixed by 9436248)

`columns_layout` did `box.position_y += collapse_margin(adjoining_margins) - box.margin_top` without the box's own
top margin in the list: after a 10px paragraph, a container with `margin-top: 10px` had its border box at y = 10.
It is now at y = 20, like the same box without `column-count`. -/
def afterPara (container : Bool) : CDoc :=
  { pageH := 100, rootLtr := true,
    root := .block 9 { st0 with isRoot := true } [.block 8 st0
      [.para 1 1 10 st0,
       if container then
         .columns 4 { st0 with mt := 10 } { count := 2, balance := true, ltr := true, width := 192 } [false]
           [.para 2 2 10 st0]
       else .block 4 { st0 with mt := 10 } [.para 2 2 10 st0]]] }

/-- Top of the border box (`position_y + margin_top`) of the children of `<body>` on each page. -/
def borderTops : PagesOut → List (List Rat)
  | .ok ps => ps.map fun (p : CPage) => (p.root.kids.flatMap (·.kids)).map fun f => f.geo.y + f.geo.mt
  | _ => []

theorem container_margin_top_collapses :
    borderTops (paginateCol (afterPara true) 10) = [[0, 20]] ∧
    borderTops (paginateCol (afterPara false) 10) = [[0, 20]] := by decide +kernel

/-! ### 6. `column-span-block-resume-mislevelled` (C01) / `column-span-block-resume-crash` (C02), fixed by d7e3d63

`columns:2 > [div column-span:all [p 2 lines, p 4 lines], p 4 lines]` on 192×40px pages.  The spanning block is
cut after line 2 of its second paragraph; its resume position `{1: {0: line 2}}` used to be stored as
`{0 + 1: {0: line 2}}` — the container was resumed at its *second child* with the stack of a grandchild (4 of 10
lines lost; with other line counts an IndexError in the inline layout).  The stack is now wrapped
(`column_skip_stack = {0: resume_at}`) and handed back one level down (`skip_stack[0]`). -/
def spanBlock (n1 n2 n3 : Nat) : CDoc :=
  { pageH := 40, rootLtr := true,
    root := .block 9 { st0 with isRoot := true }
      [.block 8 st0
        [.columns 7 st0 { count := 2, balance := true, ltr := true, width := 192 } [true, false]
          [.block 5 st0 [.para 1 n1 10 st0, .para 2 n2 10 st0],
           .para 3 n3 10 st0]]] }

theorem span_block_resumed_at_own_level :
    shownLines (paginateCol (spanBlock 2 4 4) 40) =
      some [[(1, 0), (1, 1), (2, 0), (2, 1)], [(2, 2), (2, 3), (3, 0), (3, 1), (3, 2), (3, 3)]] ∧
    conservesB (spanBlock 2 4 4) 40 = true := by decide +kernel

theorem span_block_resume_total :
    shownLines (paginateCol (spanBlock 1 5 1) 40) =
      some [[(1, 0), (2, 0), (2, 1), (2, 2)], [(2, 3), (2, 4), (3, 0)]] ∧
    conservesB (spanBlock 1 5 1) 40 = true := by decide +kernel

end Wp.Witness.C01Col
