/-
Witnesses: clauses of C01 / C02 / C03 that are FALSE of the current code for multi-column containers with
`column-span: all` children (model `Model/PaginateCol.lean`, which agrees exactly with the real layout on these
documents: `corpus/C01/colspan_*.json`, replayed by `py/harness/pm_col_corr.py::replay_witness`).
The true statements are the `…_partial` theorems of `Props/C01Col.lean`, `Props/C03Col.lean` (hypothesis `NoSpan`).
-/
import WpModel.Lemmas.ColSegPages
import WpModel.Lemmas.ColGeo

namespace Wp.Witness.C01Col
open Wp Wp.PM Wp.PMC

def st0 : PStyle :=
  { mt := 0, mb := 0, pt := 0, pb := 0, bt := 0, bb := 0, height := none, minH := 0, maxH := none,
    brkBefore := .auto, brkAfter := .auto, brkInside := .auto, clone := false, page := "", orphans := 1, widows := 1,
    isRoot := false }

def shownLines : PagesOut → Option (List (List (Nat × Nat)))
  | .ok ps => some (ps.map fun (p : CPage) => PMC.fragLines p.root)
  | _ => none

/-! ### 1. `column-span-loses-following-content`

`<body style="margin-top:8px"><div style="column-count:2;column-gap:0;column-fill:auto"><p>9 lines of 12px</p>
<p style="column-span:all">1 line</p></div>` on 192×72px pages.  The 9 lines fit in two columns of 64px (5 + 4).
The group before the span is balanced (`index < columns_and_blocks[-1][0]`); the balancing loop reaches
`max_height`, sets `stop_rendering = True` — although at that height everything is rendered — and
`if stop_rendering: break` leaves the loop before the spanning paragraph; `column_skip_stack` is `None`, `break_page`
is false, so the container reports `resume_at = None`: the spanning paragraph (and anything after it in the
container) is on no page. -/
def spanLost : CDoc :=
  { pageH := 72, rootLtr := true,
    root := .block 9 { st0 with isRoot := true }
      [.block 8 { st0 with mt := 8 }
        [.columns 7 st0 { count := 2, balance := false, ltr := true, width := 192 } [false, true]
          [.para 1 9 12 st0,
           .para 6 1 12 st0]]] }

/-- One page, the 9 lines of paragraph 1, and the document is declared finished: line (6, 0) is lost. -/
theorem span_loses_following_content :
    shownLines (paginateCol spanLost 30) =
      some [[(1, 0), (1, 1), (1, 2), (1, 3), (1, 4), (1, 5), (1, 6), (1, 7), (1, 8)]] ∧
    PMC.linesFrom spanLost.root none =
      [(1, 0), (1, 1), (1, 2), (1, 3), (1, 4), (1, 5), (1, 6), (1, 7), (1, 8), (6, 0)] := by
  decide +kernel

/-- Does the pagination (when it returns pages) show exactly the lines of the document? -/
def conservesB (d : CDoc) (fuel : Nat) : Bool :=
  match paginateCol d fuel with
  | .ok pages => decide (PMC.pagesLines pages = PMC.linesFrom d.root none)
  | _ => true

theorem spanLost_not_conserved : conservesB spanLost 30 = false := by decide +kernel

/-- The unrestricted conservation statement (`Props/C01Col.pages_conserve_partial` without `NoSpan`) is false. -/
theorem pages_conserve_false :
    ¬ ∀ (d : CDoc), PMC.NoFixedHeight d.root → PMC.WellFormed d.root → ∀ fuel pages,
      paginateCol d fuel = .ok pages → PMC.pagesLines pages = PMC.linesFrom d.root none := by
  intro h
  have hN : PMC.NoFixedHeight spanLost.root := by
    simp [spanLost, st0, PMC.NoFixedHeight, PMC.NoFixedHeightList]
  have hW : PMC.WellFormed spanLost.root := by
    simp [spanLost, st0, PMC.WellFormed, PMC.WellFormedList]
  have key := spanLost_not_conserved
  unfold conservesB at key
  generalize hp : paginateCol spanLost 30 = out at key
  cases out with
  | ok pages =>
    have := h spanLost hN hW 30 pages hp
    simp only [this, decide_true] at key
    cases key
  | assertFail => cases key
  | raised e => cases key
  | fuel => cases key

/-! ### 2. a column group dropped, the following span rendered twice (conservation and page progress)

Container `height:40px; column-count:1; column-fill:auto` holding: an empty spanning block with a 1px bottom
border, a paragraph `min-height:40px`, a spanning paragraph; 140px pages.  The column of the paragraph cannot be
rendered after the first span (`new_child is None`: `columns = []; break_page = True`) but `stop_rendering` is
false, so the loop goes on with the second span, renders it, and `skip_stack = {index: None}` is computed with the
`index` of that *last* item: page 1 shows spans 3 and 5, page 2 shows span 5 again; paragraph 4 is on no page. -/
def groupDropped : CDoc :=
  { pageH := 140, rootLtr := true,
    root := .block 14 { st0 with isRoot := true }
      [.block 13 st0
        [.columns 6 { st0 with height := some 40 } { count := 1, balance := false, ltr := true, width := 192 }
          [true, false, true]
          [.block 3 { st0 with bb := 1 } [],
           .para 4 1 20 { st0 with minH := 40 },
           .para 5 1 20 st0]]] }

theorem group_dropped_span_twice :
    shownLines (paginateCol groupDropped 30) = some [[(5, 0)], [(5, 0)]] ∧
    PMC.linesFrom groupDropped.root none = [(4, 0), (5, 0)] := by
  decide +kernel

/-! ### 3. `AttributeError` in `find_earlier_page_break` (C02: pagination is not total)

A container holding one spanning paragraph of 5 lines, followed by a block `break-before: avoid` that does not
fit: `find_earlier_page_break` goes into the container, finds a break inside the spanning paragraph and reads
`new_child.index` — the children of a container (column boxes and spanning blocks) never get an `.index`. -/
def attrErr : CDoc :=
  { pageH := 90, rootLtr := true,
    root := .block 11 { st0 with isRoot := true }
      [.block 10 st0
        [.columns 9 st0 { count := 1, balance := false, ltr := true, width := 192 } [true]
          [.para 8 5 10 { st0 with mb := 4 }],
         .block 4 { st0 with mt := 5, pt := 10, brkBefore := .avoid }
          [.block 3 st0
            [.para 1 2 10 { st0 with pt := 2, orphans := 2 }]]]] }

theorem find_earlier_raises :
    (match paginateCol attrErr 30 with | .raised e => e | _ => "") = "AttributeError" := by
  decide +kernel

/-! ### 4. a container with a negative `margin-bottom` pushes lines below the page bottom (C03 geometry)

`block_box_layout` lays a finished container out a second time with `bottom_space += margin_bottom +
padding_bottom + border_bottom_width` ("this condition and the whole relayout are probably wrong"): with
`margin-bottom: -18px` the bottom space *shrinks* by 18px; on 81px pages the tenth line (paragraph 3, line 8) is
placed at y = 81, bottom 90 > 81, although it is neither the first line of the page nor of its column. -/
def negMargin : CDoc :=
  { pageH := 81, rootLtr := true,
    root := .block 10 { st0 with isRoot := true }
      [.block 9 st0
        [.columns 8 { st0 with mb := (-18) } { count := 2, balance := false, ltr := true, width := 192 } [false, false]
          [.para 2 1 9 st0,
           .block 5 st0
            [.para 3 9 9 st0]]]] }

/-- Lines (paragraph, line, bottom) that are not exempt and end below the page bottom (with the fudge factor). -/
def overflowingLines (lh : Nat → Rat) (d : CDoc) (fuel : Nat) : List (Nat × Nat × Rat) :=
  match paginateCol d fuel with
  | .ok ps => ps.flatMap fun (p : CPage) =>
      ((PMC.placedLines lh p.root true).filter fun l =>
        !l.exempt && decide (l.y + l.lineH > d.pageH * (1 + 1 / 1000000000))).map fun l => (l.para, l.line, l.y + l.lineH)
  | _ => []

theorem container_negative_margin_overflows :
    overflowingLines (fun _ => 9) negMargin 30 = [(3, 8, 90)] := by decide +kernel

/-- `C03GeoCol.paginate_line_fits` without the hypothesis on the container's bottom decorations is false. -/
theorem line_fits_false :
    ¬ ∀ (lh : Nat → Rat) (d : CDoc), LhOk lh d.root → ∀ fuel pages, paginateCol d fuel = .ok pages →
      ∀ p ∈ pages, ∀ l ∈ PMC.placedLines lh p.root true,
        l.exempt = true ∨ l.y + l.lineH ≤ d.pageH * (1 + 1 / 1000000000) := by
  intro h
  have key := container_negative_margin_overflows
  unfold overflowingLines at key
  have hl : LhOk (fun _ => (9 : Rat)) negMargin.root := by
    simp [negMargin, LhOk, LhOkList]
  generalize hp : paginateCol negMargin 30 = out at key
  cases out with
  | ok pages =>
    have hall := h (fun _ => 9) negMargin hl 30 pages hp
    have hnil : (pages.flatMap fun (p : CPage) =>
        ((PMC.placedLines (fun _ => 9) p.root true).filter fun l =>
          !l.exempt && decide (l.y + l.lineH > negMargin.pageH * (1 + 1 / 1000000000))).map
            fun l => (l.para, l.line, l.y + l.lineH)) = [] := by
      rw [List.flatMap_eq_nil_iff]
      intro p hp'
      rw [List.map_eq_nil_iff, List.filter_eq_nil_iff]
      intro l hlm
      rcases hall p hp' l hlm with he | hle
      · simp [he]
      · simp only [Bool.and_eq_true, Bool.not_eq_true', decide_eq_true_eq, not_and]
        intro _
        exact Rat.not_lt.mpr hle
    simp only at key
    rw [hnil] at key
    cases key
  | assertFail => cases key
  | raised e => cases key
  | fuel => cases key

/-! ### 5. the `margin-top` of a container is ignored (C05: adjoining margins)

`columns_layout` does `box.position_y += collapse_margin(adjoining_margins) - box.margin_top` without the box's own
top margin in the list (`block_container_layout` appends it first): after a 10px paragraph, a container with
`margin-top: 10px` has its border box at y = 10, flush with the paragraph; the same box without `column-count`
is at y = 20. -/
def afterPara (container : Bool) : CDoc :=
  { pageH := 100, rootLtr := true,
    root := .block 9 { st0 with isRoot := true } [.block 8 st0
      [.para 1 1 10 st0,
       if container then
         .columns 4 { st0 with mt := 10 } { count := 2, balance := true, ltr := true, width := 192 } [false]
           [.para 2 2 10 st0]
       else .block 4 { st0 with mt := 10 } [.para 2 2 10 st0]]] }

/-- Top of the border box (`position_y + margin_top`) of the children of `<body>` on each page. -/
def borderTops : PagesOut → List (List Rat)
  | .ok ps => ps.map fun (p : CPage) => (p.root.kids.flatMap (·.kids)).map fun f => f.geo.y + f.geo.mt
  | _ => []

theorem container_margin_top_ignored :
    borderTops (paginateCol (afterPara true) 10) = [[0, 10]] ∧
    borderTops (paginateCol (afterPara false) 10) = [[0, 20]] := by decide +kernel

end Wp.Witness.C01Col
