/-
C20 — negation witnesses: concrete inputs on which the *full-strength* statement is false of the
model (and, replayed by the harness on every run, of the implementation).  Each is listed in
known_findings.txt with the same id as the `finding_replays` entry of py/props/c20.py.
-/
import WpModel.Model.Resources
import WpModel.Model.ResourcesDoc

namespace Wp.Witness.C20
open Wp Wp.Res

def pngRgb : Content := ⟨1, false, some ⟨"PNG", "RGB", false, false, true⟩, false, true, false⟩
def xhtml : Content := ⟨21, true, none, false, true, false⟩
def garbage : Content := ⟨25, false, none, false, true, false⟩

/-- A custom fetcher serving `file:///data/a.png` from memory. -/
def memoryFetcher : Fetcher := fun _ => .resp ⟨true, none, some "image/png", none, pngRgb⟩
def fileReq : Req := ⟨"file:///data/a.png", .fromImage, none⟩

/-- finding `lazy-local-image-reread` (F19).  The image served from memory for a `file:` URL keeps
only the path (`LazyLocalImage`).  When the PDF is written the path is opened behind the fetcher's
back: with no such file, `FileNotFoundError`; with another file there, *its* bytes are embedded.
(So `bytes_from_fetcher` without the scheme hypothesis is false.) -/
theorem lazy_local_reread :
    (getImage [] memoryFetcher ⟨false, none, none⟩ fileReq).2.2 = .ok (some (.raster "PNG" (.lazyLocal "/data/a.png") 1)) ∧
    opensAtWrite (.raster "PNG" (.lazyLocal "/data/a.png") 1) = ["/data/a.png"] ∧
    dataAtWrite (fun _ => none) (.raster "PNG" (.lazyLocal "/data/a.png") 1) =
      .error ⟨"FileNotFoundError", "/data/a.png"⟩ ∧
    dataAtWrite (fun _ => some 99) (.raster "PNG" (.lazyLocal "/data/a.png") 1) = .ok (.fileBytes 99) :=
  ⟨rfl, rfl, rfl, rfl⟩

/-- The same through `redirected_url`: an `http:` image whose fetcher reports a `file:` location. -/
theorem lazy_local_reread_redirect :
    (getImage [] (fun _ => .resp ⟨true, none, none, some "file:///cache/x.png", pngRgb⟩) ⟨false, none, none⟩
      ⟨"http://a.test/x.png", .fromImage, none⟩).2.2 = .ok (some (.raster "PNG" (.lazyLocal "/cache/x.png") 1)) := rfl

/-- finding `read-error-not-funnelled`.  A `file_obj` whose `read()` raises (connection reset,
truncated gzip stream: `EOFError`) is not covered by `except (URLFetchingError, ImageLoadingError)`:
the exception leaves `get_image_from_uri` (and the render).  So `image_total` without the
`absorbed` hypothesis is false. -/
theorem read_error_escapes :
    (getImage [] (fun _ => .resp ⟨false, some ⟨some ⟨"EOFError", "Compressed file ended"⟩, false⟩, some "image/png",
        none, pngRgb⟩) ⟨false, none, none⟩ ⟨"http://a.test/x.png", .fromImage, none⟩).2.2 =
      .error ⟨"EOFError", "Compressed file ended"⟩ := rfl

/-- The same hole in the stylesheet loader: the `<link>` below makes `find_stylesheets` raise, while
the document without it (or with a fetcher that raises *at call time*) is fine. -/
theorem stylesheet_read_error_escapes :
    let link (f : Fetched) : StyleEl :=
      ⟨true, none, none, some "stylesheet", some "http://a.test/s.css", none, [], .mk f [.rule 1]⟩
    (findStylesheets "print" [link (.resp ⟨false, some ⟨some ⟨"OSError", "reset"⟩, false⟩, some "text/css", none,
        garbage⟩)]).err = some ⟨"OSError", "reset"⟩ ∧
    (findStylesheets "print" [link (.raises ⟨"OSError", "reset"⟩)]).err = none ∧
    (findStylesheets "print" []).err = none := by decide

/-- … and in `write_pdf_attachment` (reached at `write_pdf` time). -/
theorem attachment_read_error_escapes :
    (writeAttachment (fun _ => .resp ⟨false, some ⟨some ⟨"OSError", "reset"⟩, false⟩, none, none, garbage⟩)
      "http://a.test/a.bin").2 = .error ⟨"OSError", "reset"⟩ ∧
    (writeAttachment (fun _ => .raises ⟨"OSError", "reset"⟩) "http://a.test/a.bin").2 = .ok none := ⟨rfl, rfl⟩

/-- finding `xml-accepted-as-image`.  "HTML instead of an image": when the HTML happens to be
well-formed XML, the last-chance branch builds an `SVGImage` from it — under any MIME type — so the
`<img>` becomes a (blank, 300×150) replaced box instead of its alt text. -/
theorem xml_accepted_as_image :
    (getImage [] (fun _ => .resp ⟨true, none, some "text/html", none, xhtml⟩) ⟨false, none, none⟩
      ⟨"http://a.test/x.png", .fromImage, none⟩).2.2 = .ok (some (.svg 21)) ∧
    handleImg (some "http://a.test/x.png") (some "ALT") (some (.svg 21)) = [.replaced] ∧
    handleImg none (some "ALT") none = [.altText "ALT"] := ⟨rfl, by decide, by decide⟩

/-- Repaired finding `svg-image-without-href` (799e002), regression on the same input.  Drawing
`<svg><image width=… height=…/></svg>` (an `<image>` without `href`) used to call `get_image_from_uri(url=None)`:
the fetcher was handed `None` and `'None from-image'` became a cache key.  Now nothing is fetched and nothing cached
(the general statement is `Wp.C20.Trace.drawObject_calls_named`: every URL asked for is the `href` of an element). -/
theorem svg_image_without_href_fetches_nothing :
    (Svg.drawObject (fun _ => .raises ⟨"LookupError", "unknown"⟩) ⟨false, none, none⟩ [(7, [.image none])] 3 [] [] "k" 7) =
      ([], [], false) := rfl

theorem svg_image_without_href_skipped (fetcher : Fetcher) (opts : Opts) (deeper : Cache → String → Nat → Svg.DrawOut)
    (cache : Cache) (rest : List Doc.SvgItem) :
    Svg.drawItems fetcher opts deeper cache (.image none :: rest) = Svg.drawItems fetcher opts deeper cache rest ∧
    Svg.drawItems fetcher opts deeper cache (.image (some "") :: rest) = Svg.drawItems fetcher opts deeper cache rest := by
  constructor <;> simp [Svg.drawItems]

/-- finding `svg-use-bypasses-fetch`.  An external `<use href="other.svg#a">` calls the fetcher directly
(`svg.url_fetcher(url)`), not through `fetch`: the file object it returns is never closed (compare
`fetch_funnel_closes_once`), and the response is passed as a dict to `SVG(…)`, which always fails, so the
reference can never be shown. -/
theorem svg_use_never_closes :
    let fetcher : Fetcher := fun _ => .resp ⟨false, some ⟨none, false⟩, some "image/svg+xml", none, xhtml⟩
    (Svg.drawObject fetcher ⟨false, none, none⟩ [(7, [.useExternal "http://a.test/o.svg#a"])] 3 [] [] "k" 7).2.1 =
      [.call "http://a.test/o.svg#a"] ∧
    (fetch (fetcher "http://a.test/o.svg#a") "http://a.test/o.svg#a" readAll).1 =
      [.call "http://a.test/o.svg#a", .body, .close] := ⟨rfl, rfl⟩

/-- `@import` chains addressed by URL (a graph, unlike the tree of `Sheet`): the URLs fetched when the
sheet at `url` is loaded, with `fuel` bounding the Python recursion depth. -/
def importFetches (imports : String → List String) : Nat → String → Except Exc (List String)
  | 0, _ => .error ⟨"RecursionError", "maximum recursion depth exceeded"⟩
  | fuel + 1, url =>
    (imports url).foldlM (fun acc u => (importFetches imports fuel u).map (acc ++ ·)) [url]

/-- finding `import-cycle-recursion`.  A stylesheet that imports itself (or any `@import` cycle) is
fetched again and again — nothing remembers the URLs being imported — until Python's recursion limit:
`RecursionError`, whatever the limit, escapes from `find_stylesheets` and aborts the render. -/
theorem import_cycle_never_terminates (fuel : Nat) :
    importFetches (fun _ => ["http://a.test/a.css"]) fuel "http://a.test/a.css" =
      .error ⟨"RecursionError", "maximum recursion depth exceeded"⟩ := by
  induction fuel with
  | zero => rfl
  | succ n ih => simp [importFetches, List.foldlM, ih, Except.map, bind, Except.bind]

/-- Repaired finding `svg-self-reference-hang` (9598d29), regression on the same input (the model of the drawing
itself, with the general termination theorem, is `Svg.drawObject` / `Wp.C20.Svg.svg_drawing_terminates`).  Number of
`SVGImage.draw` calls for an SVG with `k` `<image>` elements that point at the SVG itself (same URL and orientation:
the cache returns the same `SVGImage` object), with the `_drawing` flag of that object and the recursion cut at depth
`n`.  Before the repair each level drew its `k` elements again (`1 + k * draws n`, at least `2 ^ n` for `k = 2`, with
Python's limit of 1000 frames the drawing never finished); now every nested call returns at once. -/
def selfDraws (k : Nat) : Bool → Nat → Nat
  | true, _ => 1                 -- `if self._drawing: LOGGER.error(…); return`
  | false, 0 => 1
  | false, n + 1 => 1 + k * selfDraws k true n

theorem svg_self_reference_linear (k n : Nat) : selfDraws k false (n + 1) = 1 + k := by
  simp [selfDraws]

end Wp.Witness.C20
