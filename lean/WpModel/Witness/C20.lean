/-
C20 — negation witnesses: concrete inputs on which the *full-strength* statement is false of the
model (and, replayed by the harness on every run, of the implementation).  Each is listed in
known_findings.txt with the same id as the `finding_replays` entry of py/props/c20.py.
-/
import WpModel.Model.Resources

namespace Wp.Witness.C20
open Wp Wp.Res

def pngRgb : Content := ⟨1, false, some ⟨"PNG", "RGB", false, false⟩, false, true, false⟩
def xhtml : Content := ⟨21, true, none, false, true, false⟩
def garbage : Content := ⟨25, false, none, false, true, false⟩

/-- A custom fetcher serving `file:///data/a.png` from memory. -/
def memoryFetcher : Fetcher := fun _ => .resp ⟨true, none, some "image/png", none, pngRgb⟩
def fileReq : Req := ⟨"file:///data/a.png", .fromImage, none⟩

/-- finding `lazy-local-image-reread` (F19).  The image served from memory for a `file:` URL keeps
only the path (`LazyLocalImage`).  When the PDF is written the path is opened behind the fetcher's
back: with no such file, `FileNotFoundError`; with another file there, *its* bytes are embedded.
(So `bytes_from_fetcher` without the scheme hypothesis is false.) -/
theorem lazy_local_reread :
    (getImage [] memoryFetcher ⟨false, false⟩ fileReq).2.2 = .ok (some (.raster "PNG" (.lazyLocal "/data/a.png") 1)) ∧
    opensAtWrite (.raster "PNG" (.lazyLocal "/data/a.png") 1) = ["/data/a.png"] ∧
    dataAtWrite (fun _ => none) (.raster "PNG" (.lazyLocal "/data/a.png") 1) =
      .error ⟨"FileNotFoundError", "/data/a.png"⟩ ∧
    dataAtWrite (fun _ => some 99) (.raster "PNG" (.lazyLocal "/data/a.png") 1) = .ok (.fileBytes 99) :=
  ⟨rfl, rfl, rfl, rfl⟩

/-- The same through `redirected_url`: an `http:` image whose fetcher reports a `file:` location. -/
theorem lazy_local_reread_redirect :
    (getImage [] (fun _ => .resp ⟨true, none, none, some "file:///cache/x.png", pngRgb⟩) ⟨false, false⟩
      ⟨"http://a.test/x.png", .fromImage, none⟩).2.2 = .ok (some (.raster "PNG" (.lazyLocal "/cache/x.png") 1)) := rfl

/-- finding `read-error-not-funnelled`.  A `file_obj` whose `read()` raises (connection reset,
truncated gzip stream: `EOFError`) is not covered by `except (URLFetchingError, ImageLoadingError)`:
the exception leaves `get_image_from_uri` (and the render).  So `image_total` without the
`absorbed` hypothesis is false. -/
theorem read_error_escapes :
    (getImage [] (fun _ => .resp ⟨false, some ⟨some ⟨"EOFError", "Compressed file ended"⟩, false⟩, some "image/png",
        none, pngRgb⟩) ⟨false, false⟩ ⟨"http://a.test/x.png", .fromImage, none⟩).2.2 =
      .error ⟨"EOFError", "Compressed file ended"⟩ := rfl

/-- The same hole in the stylesheet loader: the `<link>` below makes `find_stylesheets` raise, while
the document without it (or with a fetcher that raises *at call time*) is fine. -/
theorem stylesheet_read_error_escapes :
    let link (f : Fetched) : StyleEl :=
      ⟨true, none, none, some "stylesheet", some "http://a.test/s.css", none, [], .mk f [.rule 1]⟩
    (findStylesheets "print" [link (.resp ⟨false, some ⟨some ⟨"OSError", "reset"⟩, false⟩, some "text/css", none,
        garbage⟩)]).err = some ⟨"OSError", "reset"⟩ ∧
    (findStylesheets "print" [link (.raises ⟨"OSError", "reset"⟩)]).err = none ∧
    (findStylesheets "print" []).err = none := by decide

/-- … and in `write_pdf_attachment` (reached at `write_pdf` time). -/
theorem attachment_read_error_escapes :
    (writeAttachment (fun _ => .resp ⟨false, some ⟨some ⟨"OSError", "reset"⟩, false⟩, none, none, garbage⟩)
      "http://a.test/a.bin").2 = .error ⟨"OSError", "reset"⟩ ∧
    (writeAttachment (fun _ => .raises ⟨"OSError", "reset"⟩) "http://a.test/a.bin").2 = .ok none := ⟨rfl, rfl⟩

/-- finding `xml-accepted-as-image`.  "HTML instead of an image": when the HTML happens to be
well-formed XML, the last-chance branch builds an `SVGImage` from it — under any MIME type — so the
`<img>` becomes a (blank, 300×150) replaced box instead of its alt text. -/
theorem xml_accepted_as_image :
    (getImage [] (fun _ => .resp ⟨true, none, some "text/html", none, xhtml⟩) ⟨false, false⟩
      ⟨"http://a.test/x.png", .fromImage, none⟩).2.2 = .ok (some (.svg 21)) ∧
    handleImg (some "http://a.test/x.png") (some "ALT") (some (.svg 21)) = [.replaced] ∧
    handleImg none (some "ALT") none = [.altText "ALT"] := ⟨rfl, by decide, by decide⟩

end Wp.Witness.C20
