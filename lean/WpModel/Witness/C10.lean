/-
C10 — witnesses: concrete inputs on which a full-strength statement is FALSE of the model (and of the
real code: each input is replayed on the implementation by `py/props/c10.py`).
-/
import WpModel.Props.C10

namespace Wp.Witness.C10
open Wp Wp.Table Wp.C10

/-- Non-negative declarations: table width, spacing, every `<col>` width and every first-row cell
width / padding / border are `≥ 0`. -/
def NonnegDecl (W s : Rat) (cols : List Dim) (cells : List FCell) : Prop :=
  0 ≤ W ∧ 0 ≤ s ∧
  (∀ d ∈ cols, ∀ w, d.used W = some w → 0 ≤ w) ∧
  (∀ c ∈ cells, (∀ w, c.width.used W = some w → 0 ≤ w) ∧ 0 ≤ c.padL ∧ 0 ≤ c.padR ∧ 0 ≤ c.borL ∧ 0 ≤ c.borR)

/-- `<table style="table-layout:fixed;width:60px;border-spacing:0"><col style="width:100px"><col>
<tr><td colspan=2 style="width:50px">`: the second column gets `50 − 100 = −50`, then `+5`. -/
theorem fixed_negative_column_eval :
    fixedLayout (some 60) 0 [.px 100, .auto] [⟨2, .px 50, 0, 0, 0, 0, .content⟩] = .ok ⟨60, [105, -45]⟩ := by
  decide +kernel

/-- The full statement "all column widths are ≥ 0 given non-negative declarations" (DESIGN §4 C10,
fixed_honours) is false: finding `fixed-negative-column`. -/
theorem fixed_negative_column :
    ¬ (∀ (W s : Rat) (cols : List Dim) (cells : List FCell) (o : FixedOut),
        NonnegDecl W s cols cells → fixedLayout (some W) s cols cells = .ok o → ∀ w ∈ o.cols, 0 ≤ w) := by
  intro h
  have hd : NonnegDecl 60 0 [.px 100, .auto] [⟨2, .px 50, 0, 0, 0, 0, .content⟩] := by
    refine ⟨by norm_num, le_refl _, ?_, ?_⟩
    · intro d hd w hw
      simp only [List.mem_cons, List.not_mem_nil, or_false] at hd
      rcases hd with rfl | rfl
      · simp only [Dim.used] at hw; injection hw with hw; rw [← hw]; norm_num
      · simp [Dim.used] at hw
    · intro c hc
      simp only [List.mem_cons, List.not_mem_nil, or_false] at hc
      subst hc
      refine ⟨?_, le_refl _, le_refl _, le_refl _, le_refl _⟩
      intro w hw
      simp only [Dim.used] at hw; injection hw with hw; rw [← hw]; norm_num
  have := h 60 0 _ _ _ hd fixed_negative_column_eval (-45) (by simp)
  norm_num at this

/-- Without `CleanBand`, `auto_ge_min` fails by less than `1e-9 · assignable`: two guesses whose sums
both fall inside the tolerance band above the assignable width make the code extrapolate
(`ratio = 5/3`) and the constrained first column ends `8e-8` below its min-content width 100.
(Replayed on the real `auto_table_layout` with `Fraction`s by the harness; not listed as a finding:
the deviation is below the code's own float tolerance.) -/
def bandCols : List ACol :=
  [⟨100, 100 + 120 / 1000000000, 0, true, true⟩, ⟨100, 300, 0, false, true⟩,
   ⟨0, 500, 50 * (1 + 4 / 10000000000), false, true⟩]

theorem auto_band_below_min :
    (autoColumns 400 bandCols).map (·.1) = .ok [1249999999 / 12500000, 100, 2500000001 / 12500000] ∧
    (1249999999 / 12500000 : Rat) < 100 := by
  constructor
  · decide +kernel
  · norm_num

/-- `<table style="border-spacing:10px"><tr><td colspan=2>aaaa</td></tr></table>` (10px fixed-pitch
font): `table_and_columns_preferred_widths` counts one border spacing per column *in which a cell
originates* (here 1 + 1 = 2 spacings = 20px), `table_layout` places all columns with `n + 1 = 3`
spacings.  The auto layout is internally consistent (`auto_sum_table`: `Σ cw + 20 = 50`) but the
clause "column widths plus border spacing add up to the table's width" fails with the spacings that
are actually laid out: finding `auto-spacing-ignores-spanned-only-column`. -/
def spannedOnlyIn : AutoIn :=
  ⟨none, 50, 50, 20, some 0, some 0, 0, 0, 0, 0, 400,
   [⟨15, 15, 0, false, true⟩, ⟨15, 15, 0, false, true⟩]⟩

theorem auto_spacing_short :
    (autoLayout spannedOnlyIn).map (fun o => (o.width, o.cols)) = .ok (50, [15, 15]) ∧
    (colPositions true 0 50 10 [15, 15]).positions = [10, 35] ∧
    -- the last column ends at 50 = the table's right content edge: the third spacing is outside
    sumR [15, 15] + 10 * ((2 : Rat) + 1) ≠ 50 := by
  refine ⟨by decide +kernel, by decide +kernel, by norm_num⟩

/-- Finding `rtl-columns-reversed-on-relayout`.  `table_layout` ends with `column_widths.reverse()`
on the list object shared with the pre-layout table (`finalColumns` in the model).  When the same
page lays the table out a second time (`_in_flow_layout` retries with a larger `bottom_space` because
the table's bottom border overflowed), the second pass reads the reversed list: with widths `[17, 68]`
the cell of column 0 is placed at x = 25 and is 68 wide instead of x = 76 and 17 wide.  The model
functions are pure; the witness shows what the second pass computes. -/
theorem rtl_relayout_uses_reversed_widths :
    cellGeom false (colPositions false 8 85 0 [17, 68]).positions [17, 68] 0 0 1 = .ok (some ⟨76, 17, 1⟩) ∧
    cellGeom false (colPositions false 8 85 0 (finalColumns false [17, 68])).positions
      (finalColumns false [17, 68]) 0 0 1 = .ok (some ⟨25, 68, 1⟩) := by
  constructor <;> decide +kernel

end Wp.Witness.C10
