/-
C10 — witnesses: concrete inputs on which a full-strength statement is FALSE of the model (and of the
real code: each input is replayed on the implementation by `py/props/c10.py`).
-/
import WpModel.Props.C10
import WpModel.Props.C10Draw
import WpModel.Props.C10SplitBorders
import WpModel.Props.C10Columns

namespace Wp.Witness.C10
open Wp Wp.Table Wp.C10

/-- Non-negative declarations: table width, spacing, every `<col>` width and every first-row cell
width / padding / border are `≥ 0`. -/
def NonnegDecl (W s : Rat) (cols : List Dim) (cells : List FCell) : Prop :=
  0 ≤ W ∧ 0 ≤ s ∧
  (∀ d ∈ cols, ∀ w, d.used W = some w → 0 ≤ w) ∧
  (∀ c ∈ cells, (∀ w, c.width.used W = some w → 0 ≤ w) ∧ 0 ≤ c.padL ∧ 0 ≤ c.padR ∧ 0 ≤ c.borL ∧ 0 ≤ c.borR)

/-- Regression (was the witness `fixed_negative_column_eval` of finding `fixed-negative-column`,
repaired by 5d962d2).  `<table style="table-layout:fixed;width:60px;border-spacing:0">
<col style="width:100px"><col><tr><td colspan=2 style="width:50px">`: the second column used to get
`50 − 100 = −50` (then `+5`: columns 105 / −45); it now gets `max(−50, 0) = 0` and the table is widened
to the declared 100. -/
theorem fixed_negative_column_repaired :
    fixedLayout (some 60) 0 [.px 100, .auto] [⟨2, .px 50, 0, 0, 0, 0, .content⟩] = .ok ⟨100, [100, 0]⟩ := by
  decide +kernel

/-- Regression: the full statement "all column widths are ≥ 0 given non-negative declarations"
(DESIGN §4 C10, fixed_honours), which the witness `fixed_negative_column` used to refute, now holds
(`C10.fixed_nonneg`; only the `<col>` part of `NonnegDecl` is needed). -/
theorem fixed_nonneg_of_nonnegDecl (W s : Rat) (cols : List Dim) (cells : List FCell) (o : FixedOut)
    (hd : NonnegDecl W s cols cells) (h : fixedLayout (some W) s cols cells = .ok o) : ∀ w ∈ o.cols, 0 ≤ w :=
  fixed_nonneg W s cols cells o h hd.2.2.1

/-- Without `CleanBand`, `auto_ge_min` fails by less than `1e-9 · assignable`: two guesses whose sums
both fall inside the tolerance band above the assignable width make the code extrapolate
(`ratio = 5/3`) and the constrained first column ends `8e-8` below its min-content width 100.
(Replayed on the real `auto_table_layout` with `Fraction`s by the harness; not listed as a finding:
the deviation is below the code's own float tolerance.) -/
def bandCols : List ACol :=
  [⟨100, 100 + 120 / 1000000000, 0, true, true⟩, ⟨100, 300, 0, false, true⟩,
   ⟨0, 500, 50 * (1 + 4 / 10000000000), false, true⟩]

theorem auto_band_below_min :
    (autoColumns 400 bandCols).map (·.1) = .ok [1249999999 / 12500000, 100, 2500000001 / 12500000] ∧
    (1249999999 / 12500000 : Rat) < 100 := by
  constructor
  · decide +kernel
  · norm_num

/-- `<table style="border-spacing:10px"><tr><td colspan=2>aaaa</td></tr></table>` (10px fixed-pitch
font): `table_and_columns_preferred_widths` counts one border spacing per column *in which a cell
originates* (here 1 + 1 = 2 spacings = 20px), `table_layout` places all columns with `n + 1 = 3`
spacings.  The auto layout is internally consistent (`auto_sum_table`: `Σ cw + 20 = 50`) but the
clause "column widths plus border spacing add up to the table's width" fails with the spacings that
are actually laid out: finding `auto-spacing-ignores-spanned-only-column`. -/
def spannedOnlyIn : AutoIn :=
  ⟨none, 50, 50, 20, some 0, some 0, 0, 0, 0, 0, 400,
   [⟨15, 15, 0, false, true⟩, ⟨15, 15, 0, false, true⟩]⟩

theorem auto_spacing_short :
    (autoLayout spannedOnlyIn).map (fun o => (o.width, o.cols)) = .ok (50, [15, 15]) ∧
    (colPositions true 0 50 10 [15, 15]).positions = [10, 35] ∧
    -- the last column ends at 50 = the table's right content edge: the third spacing is outside
    sumR [15, 15] + 10 * ((2 : Rat) + 1) ≠ 50 := by
  refine ⟨by decide +kernel, by decide +kernel, by norm_num⟩

/-- Regression (was the witness `rtl_relayout_uses_reversed_widths` of finding
`rtl-columns-reversed-on-relayout`, repaired by d13f52d).  `table_layout` used to end with
`column_widths.reverse()` on the list object shared with the pre-layout table, so a second layout of
the same table on the same page (`_in_flow_layout` retries with a larger `bottom_space`) read the
reversed list and placed the cell of column 0 at x = 25, 68 wide.  The code now stores a reversed
*copy* on the fragment (`table.column_widths = column_widths[::-1]`, `finalColumns` in the model) and
every pass reads the list computed by the width algorithm: with widths `[17, 68]` the cell of column 0
is at x = 76 and 17 wide, the fragment shows `[68, 17]`, and reversing what a fragment shows gives
back the layout widths (checked on every rtl fragment by the `doc-final-columns` section). -/
theorem rtl_relayout_same_widths :
    cellGeom false (colPositions false 8 85 0 [17, 68]).positions [17, 68] 0 0 1 = .ok (some ⟨76, 17, 1⟩) ∧
    finalColumns false [17, 68] = [68, 17] ∧
    finalColumns false (finalColumns false [17, 68]) = [17, 68] := by
  refine ⟨by decide +kernel, by decide +kernel, by decide +kernel⟩

/-- Regression (was the witness `footer_line_off_by_one` of finding `collapsed-footer-line-off-by-one`,
repaired by 4d1447f).  A collapsed table with a `tfoot` and five body rows `a … e`, row `e` with
`border-top: 4px solid red`, on pages that hold three body rows plus the repeated footer: the first
fragment shows `a, b, c, f`.  `row_number(y, horizontal=True)` used to test
`y >= grid_height - footer_rows - 1` and painted the red line above `e` (next page) between `b` and `c`;
it now tests `y >= grid_height - footer_rows`: line 2 of the fragment is grid line 2 (the null border)
and nothing is painted. -/
def footerFragment : BorderDraw.DrawIn :=
  let e0 : Borders.Edge := Borders.weakNull
  let red : Borders.Edge := ⟨⟨0, 4, Borders.styleRank .solid⟩, ⟨.solid, 4, 1⟩⟩
  ⟨[10, 10, 10, 10], [0, 10, 20, 30], [10], [0], 0, 1, 0, false, false,
   List.replicate 6 [e0, e0], [[e0], [e0], [e0], [e0], [red], [e0], [e0]]⟩

theorem footer_line_repaired :
    BorderDraw.rowNumber footerFragment 2 true = 2 ∧
    BorderDraw.rowNumber footerFragment 3 true = 5 ∧      -- the footer's top line is still the footer's
    BorderDraw.segments footerFragment = .ok [] := by
  refine ⟨by decide +kernel, by decide +kernel, by decide +kernel⟩

/-- Regression: the statement the witness `painted_body_lines_full_false` used to refute now holds
(`C10Draw.painted_body_lines`). -/
theorem painted_body_lines_full (d : BorderDraw.DrawIn) (y : Int) (h1 : (d.headerRows : Int) < y)
    (h2 : y < (BorderDraw.gridHeight d : Int) - d.footerRows) :
    BorderDraw.rowNumber d y true = y + BorderDraw.bodyOffset d :=
  C10Draw.painted_body_lines d y h1 (Or.inl h2)

/-- Regression (was the witness `dropped_header_shift` of finding
`collapsed-dropped-header-shifts-borders`, repaired by 02afb22).  A collapsed table whose `thead` (one
row `h`, 55px high) does not fit on the 60px page together with a body row: the header is dropped and
the first fragment shows `a, b, c` — grid rows 1, 2, 3.  `table_layout` now stores
`skipped_rows = len(header rows) = 1` on that fragment (`SplitBorders.finalSkippedRows`), so the 4px red
line above `b` (grid line 2) is painted at fragment line 1, y = 12, where the layout reserved it (it
used to be painted at y = 24, under `b`). -/
def droppedHeaderFragment : BorderDraw.DrawIn :=
  let e0 : Borders.Edge := Borders.weakNull
  let red : Borders.Edge := ⟨⟨0, 4, Borders.styleRank .solid⟩, ⟨.solid, 4, 1⟩⟩
  ⟨[12, 12, 10], [0, 12, 24], [10], [0], 0, 0, SplitBorders.finalSkippedRows none [1, 3] true false,
   false, false, List.replicate 4 [e0, e0], [[e0], [e0], [red], [e0], [e0]]⟩

theorem dropped_header_repaired :
    SplitBorders.finalSkippedRows none [1, 3] true false = 1 ∧
    BorderDraw.rowNumber droppedHeaderFragment 1 true = 2 ∧
    (BorderDraw.segments droppedHeaderFragment).map (·.map (fun s => (s.style, s.width, s.color, s.y))) =
      .ok [(.solid, 4, 1, 12)] := by
  refine ⟨rfl, by decide +kernel, by decide +kernel⟩

/-- Finding `collapsed-dropped-header-top-border`.  `table_layout` recomputes the top border of a
fragment (`horizontal_borders[skipped_rows] / 2`) only `if not split_cells and not has_header`, and
`has_header` means *declared*: when the `thead` does not fit and is dropped, every fragment keeps the
top border of the header's top line.  `thead` with border 0, body cells `border: 4px solid red`, header
dropped: 0 is reserved above the first row (`before`), while the line painted at the top of the first
fragment is grid line 1 (under the dropped header), 4px wide, centred on the row's top edge y = 0: half
of it lies outside the table box.  Replayed on the real code by `py/props/c10.py`
(`dropped_header_top_replay`). -/
def droppedHeaderTopFragment : BorderDraw.DrawIn :=
  let e0 : Borders.Edge := Borders.weakNull
  let red : Borders.Edge := ⟨⟨0, 4, Borders.styleRank .solid⟩, ⟨.solid, 4, 1⟩⟩
  ⟨[14, 14], [0, 14], [10], [0], 0, 0, 1, false, false,
   [[e0, e0], [red, red], [red, red]], [[e0], [red], [red], [red]]⟩

theorem dropped_header_top_border :
    (∀ skip lens hw before, SplitBorders.borderTop skip lens true hw before = .ok before) ∧
    SplitBorders.borderTop none [3] false [[0], [4], [4], [4]] 0 = .ok 0 ∧   -- what a header-less table reserves
    SplitBorders.borderTop (some (0, some (1, false))) [3] false [[0], [4], [4], [4]] 0 = .ok 2 ∧
    BorderDraw.rowNumber droppedHeaderTopFragment 0 true = 1 ∧
    ((BorderDraw.segments droppedHeaderTopFragment).map
      (·.filterMap (fun s => if s.side = .top ∧ s.y = 0 then some s.width else none))) = .ok [4] := by
  refine ⟨?_, by decide +kernel, by decide +kernel, by decide +kernel, by decide +kernel⟩
  intro skip lens hw before
  simp [SplitBorders.borderTop]

/-- Finding `collapsed-rtl-clipped-grid`.  `direction: rtl; table-layout: fixed`, first row `<td>a</td>`,
second row `<td style="border:5px solid red">b</td><td>c</td>`: the fixed layout keeps one column (the
first row has one cell), `c` is beyond the grid and not rendered.  The border grids of
`collapse_table_borders` have two columns, stored left to right: `c` on the left (1px black), `b` on the
right (5px red).  The fragment keeps the *rightmost* grid column, `draw_collapsed_borders` reads column
`x = 0`, the leftmost: `b`, laid out with used border widths 2.5 on every side, is painted with 1px lines
above, below and on its left (and `a` gets no top line).  Replayed on the real code by
`py/props/c10.py` (`rtl_clipped_replay`). -/
def clippedRtlFragment : BorderDraw.DrawIn :=
  let e0 : Borders.Edge := Borders.weakNull
  let blk : Borders.Edge := ⟨⟨0, 1, Borders.styleRank .solid⟩, ⟨.solid, 1, 1⟩⟩
  let red : Borders.Edge := ⟨⟨0, 5, Borders.styleRank .solid⟩, ⟨.solid, 5, 2⟩⟩
  ⟨[10, 10], [0, 10], [100], [0], 0, 0, 0, false, false,
   [[e0, blk, blk], [blk, red, red]], [[e0, blk], [blk, red], [blk, red]]⟩

theorem rtl_clipped_grid_wrong_column :
    (BorderDraw.segments clippedRtlFragment).map (·.map (fun s => (s.side, s.width, s.y))) =
      .ok [(.left, 1, 0), (.top, 1, 10), (.left, 1, 19 / 2), (.top, 1, 20), (.left, 5, 19 / 2)] := by
  decide +kernel

/-- Finding `rtl-column-group-negative-width`.  `direction: rtl`, three columns 20 / 30 / 42 wide,
`border-spacing: 2px`, a `<colgroup>` of the first two: `table_layout` sets
`group.width = last.position_x + last.width - first.position_x` with `first` the rightmost column (x = 78)
and `last` the one to its left (x = 46, width 30): the group box is x = 78, **width −2** — its background
is not painted over its columns (left to right the same group is x = 2, width 52).  The general statement
is `C10Columns.group_extent_rtl_nonpos`.  Replayed on the real code by `py/props/c10.py`
(`rtl_colgroup_replay`). -/
theorem rtl_column_group_negative_width :
    (TableColumns.layoutGroup (colPositions false 0 100 2 [20, 30, 42]).positions [20, 30, 42] 2 10
        (C10Columns.span 0 2)).map (·.2) = .ok ⟨78, 2, -2, 10⟩ ∧
    (TableColumns.layoutGroup (colPositions true 0 100 2 [20, 30, 42]).positions [20, 30, 42] 2 10
        (C10Columns.span 0 2)).map (·.2) = .ok ⟨2, 2, 52, 10⟩ ∧
    ¬ (∀ (x W s : Rat) (cw : List Rat) (g k : Nat), g + k < cw.length → (∀ w ∈ cw, 0 ≤ w) → 0 ≤ s →
        0 ≤ C10Columns.colX false x W s cw (g + k) + cw.getD (g + k) 0 - C10Columns.colX false x W s cw g) := by
  refine ⟨by decide +kernel, by decide +kernel, ?_⟩
  intro h
  have h1 := h 0 100 2 [20, 30, 42] 0 1 (by decide) (by intro w hw; simp at hw; rcases hw with rfl | rfl | rfl <;> norm_num)
    (by norm_num)
  have h2 := (C10Columns.group_extent_rtl_nonpos 0 100 2 [20, 30, 42] 0 1 (by decide)
    (by intro w hw; simp at hw; rcases hw with rfl | rfl | rfl <;> norm_num) (by norm_num) (by decide)).1
  rw [h2] at h1
  norm_num [sumR] at h1

end Wp.Witness.C10
