/-
C14 — negation witnesses: concrete inputs on which the *full-strength* statement is false of the
model (and, replayed by the harness, of the implementation).  Each is listed in known_findings.txt.
-/
import WpModel.Model.PdfBoxes
import WpModel.Model.PageSelectors

namespace Wp.Witness.C14
open Wp Wp.PdfBoxes Wp.PageSel

/-- `@page { size: 100px 200px; bleed-top: 40px; bleed-bottom: 4px }`, zoom 1.
The page content is drawn under `(x, y) ↦ (s·x, s·(H − y))`, so the CSS bleed area
`[0, 100] × [−40, 204]` lands on `[0, 75] × [−3, 180]` (PDF points, y up).  The MediaBox written is
`[0 −30 75 153]`: `bleed-top` is applied at the bottom edge and `bleed-bottom` at the top edge, the
upper 27pt of the bleed area (and of the crop marks) is cut off.  The unrestricted
`C14.media_box_is_bleed_area` is therefore false. -/
theorem media_box_mirrored :
    (pageBoxes 100 200 ⟨40, 0, 4, 0⟩ 1).media = ⟨0, -30, 75, 153⟩ ∧
    (pageBoxes 100 200 ⟨40, 0, 4, 0⟩ 1).media ≠
      ⟨scaleOf 1 * (-0), scaleOf 1 * (200 - (200 + 4)), scaleOf 1 * (100 + 0), scaleOf 1 * (200 - (-40))⟩ := by
  decide +kernel

/-- `@page :nth(2n+) { … }`: `tinycss2.nth.parse_nth` raises `AttributeError` on the trailing sign
(tinycss2 1.5.1) and `parse_page_selectors` lets it through: the exception aborts the whole
rendering instead of the rule being ignored like any other unsupported page selector. -/
theorem nth_oracle_exception_propagates :
    (match parsePageSelectors [.literal ":", .func "nth" [.other, .other] [.none, .none, .raised]] with
     | .raised => true
     | _ => false) = true := by decide

end Wp.Witness.C14
