/-
C14 — negation witnesses: concrete inputs on which the *full-strength* statement is false of the
model (and, replayed by the harness, of the implementation).  Each is listed in known_findings.txt.
Witnesses of repaired findings (`fixed:` lines) are kept as regression theorems stating the now-correct
behaviour on the same input.
-/
import WpModel.Model.PdfBoxes
import WpModel.Model.PageSelectors
import WpModel.Model.PageBoxes
import WpModel.Model.PageGroups
import WpModel.Model.PageState

namespace Wp.Witness.C14
open Wp Wp.PdfBoxes Wp.PageSel Wp.PageBoxes Wp.PageGroups Wp.PageState

/-- `@page { size: 100px 200px; bleed-top: 40px; bleed-bottom: 4px }`, zoom 1.
The page content is drawn under `(x, y) ↦ (s·x, s·(H − y))`, so the CSS bleed area
`[0, 100] × [−40, 204]` lands on `[0, 75] × [−3, 180]` (PDF points, y up).  The MediaBox written is
`[0 −30 75 153]`: `bleed-top` is applied at the bottom edge and `bleed-bottom` at the top edge, the
upper 27pt of the bleed area (and of the crop marks) is cut off.  The unrestricted
`C14.media_box_is_bleed_area` is therefore false. -/
theorem media_box_mirrored :
    (pageBoxes 100 200 ⟨40, 0, 4, 0⟩ 1).media = ⟨0, -30, 75, 153⟩ ∧
    (pageBoxes 100 200 ⟨40, 0, 4, 0⟩ 1).media ≠
      ⟨scaleOf 1 * (-0), scaleOf 1 * (200 - (200 + 4)), scaleOf 1 * (100 + 0), scaleOf 1 * (200 - (-40))⟩ := by
  decide +kernel

/-- Regression case of the repaired finding `page-nth-trailing-sign-crash` (9ef10c8): on `@page :nth(2n+) { … }`
`tinycss2.nth.parse_nth` raises `AttributeError` on the trailing sign (tinycss2 1.5.1);
`parse_page_selectors` now catches `AttributeError` / `ValueError` and returns `None`, so the rule is ignored
like any other unsupported page selector (before the repair the result was `.raised`: the exception aborted
the whole rendering).  The general statement is `C14.parse_raises_only_uncaught`. -/
theorem nth_oracle_exception_ignored :
    (match parsePageSelectors [.literal ":", .func "nth" [.other, .other]
        [.none, .none, .raised "AttributeError"]] with
     | .reject => true
     | _ => false) = true ∧
    (match parsePageSelectors [.literal ":", .func "nth" [.other, .other, .ws, .ident "of", .ws, .ident "a"]
        [.none, .none, .raised "AttributeError", .raised "AttributeError", .none, .none, .none]] with
     | .reject => true
     | _ => false) = true ∧
    (match parsePageSelectors [.literal ":", .func "nth" [.other] [.none, .raised "ValueError"]] with
     | .reject => true
     | _ => false) = true := by decide

/-- Regression case of the repaired finding `page-nth-lone-plus-crash` (54b52a1): on `@page :nth(+) { … }` (and
`:nth(+ of a)`) `tinycss2.nth.parse_nth` runs `next()` on the exhausted token iterator after the lone `+` and raises
`StopIteration`; `parse_page_selectors` now catches it too and returns `None`: the rule is ignored (before the repair
the result was `.raised "StopIteration"`, surfacing as `RuntimeError: generator raised StopIteration` out of the
stylesheet generator).  General statements: `C14.parse_raises_only_uncaught`, `C14.parse_total_partial`. -/
theorem nth_lone_plus_exception_ignored :
    (match parsePageSelectors [.literal ":", .func "nth" [.other] [.none, .raised "StopIteration"]] with
     | .reject => true
     | _ => false) = true ∧
    (match parsePageSelectors [.literal ":", .func "nth" [.other, .ws, .ident "of", .ws, .ident "a"]
        [.none, .raised "StopIteration", .none, .none, .none, .none]] with
     | .reject => true
     | _ => false) = true := by decide

/-- What still passes is an exception of any *other* class (none is known for tinycss2 1.5): the parser has no
catch-all, `C14.parse_raises_only_uncaught` is the strongest true statement. -/
theorem nth_other_exception_propagates :
    (match parsePageSelectors [.literal ":", .func "nth" [.other] [.none, .raised "KeyError"]] with
     | .raised "KeyError" => true
     | _ => false) = true := by decide

/-- `@top-left` and `@top-right` with unbreakable content of min-content width 80 each on a side of
100: the third flex-fit branch keeps both at their min-content size (css-page-3 §5.3.2 would shrink
them below it), A spans `[0, 80]`, C `[20, 100]`: they overlap, and the hypothesis `avail > Σ outer
min-content` of `C14.variable_dimension_two_fit` / `three_fit` cannot be dropped.  Deliberate upstream
(tests/layout/test_page.py: "Use at least minimum widths, even if boxes overlap"). -/
theorem margin_boxes_overlap :
    (match computeVariable ⟨none, 0, 0, 0, 80, 100⟩ ⟨some 0, 0, 0, 0, 0, 0⟩ ⟨none, 0, 0, 0, 80, 100⟩ false 100 with
     | .ok (ra, _, rc) => ra.inner == 80 && rc.inner == 80 && decide (ra.outer 0 + rc.outer 0 > 100)
     | .error _ => false) = true := by decide +kernel

/-- `<div>x</div><div style="page:a"> s0 | s1 | s2 | s3 </div>` (forced breaks between the four
children): pages 2–5 form the page group `a` with indexes 0, 1, 2, 3 when all pages are made in one
pass.  When a later pass of `make_all_pages` re-makes only the fourth page (its content shows
`counter(page)`), `page_groups` restarts empty and the pages before it contribute nothing: the page gets
index 0, so `@page :nth(3 of a)` no longer selects it (and `:nth(1 of a)` now does). -/
theorem page_groups_lost_on_remake :
    let wrapper : Elt := .mk "a" true true [.mk "a" true true [], .mk "a" true true [], .mk "a" true true [],
      .mk "a" true true []]
    let root : Elt := .mk "" true true [.mk "" true true [.mk "" true true [], wrapper]]
    let at1 : RA := .dict (.cons 0 (.dict (.cons 1 .none .nil)) .nil)
    let atj (j : Nat) : RA := .dict (.cons 0 (.dict (.cons 1 (.dict (.cons j .none .nil)) .nil)) .nil)
    let pages (third : Bool) (others : Bool) : List (Bool × String × RA × Bool) :=
      [(true, "", .none, others), (false, "a", at1, others), (false, "a", atj 1, others),
       (false, "a", atj 2, third), (false, "a", atj 3, others)]
    (match groupsPass root (pages true true) [] with
     | .ok [_, _, _, some [g], _] => g.index == 2
     | _ => false) = true ∧
    (match groupsPass root (pages true false) [] with
     | .ok [_, _, _, some [g], _] => g.index == 0
     | _ => false) = true := by decide

/-- `<div>x</div><div style="page:a; break-before:right">…</div>` after a right-hand first page: a blank
left page is inserted, and `remake_page` calls `_update_page_groups` for it with the request of the page
that follows: the group `a` is created on the blank page (index 0, but a blank page has no name, so no
`of a` selector can match it) and the first page that really belongs to `a` gets index 1:
`@page :nth(1 of a)` selects no page of the group at all. -/
theorem page_group_index_counts_blank_page :
    let root : Elt := .mk "" true true [.mk "" true true [.mk "" true true [], .mk "a" true true [.mk "a" true true []]]]
    let at1 : RA := .dict (.cons 0 (.dict (.cons 1 .none .nil)) .nil)
    (match updatePageGroups [] at1 false "a" root with            -- the blank page
     | .ok [g] =>
       g.index == 0 &&
       (match updatePageGroups [g] at1 false "a" root with        -- the first page of the group
        | .ok [g'] => g'.index == 1
        | _ => false)
     | _ => false) = true := by decide

/-- A document that *starts* inside `<div style="page:a"> s0 | s1 | s2 </div>`: the first page is made
with `next_page = {'break': 'any', 'page': 'a'}`, for which `_update_page_groups` returns at once — no
group.  On the second page the group is created at the child the page resumes at (`{0: {0: {1: None}}}`),
not at the element that carries `page: a`, so the third page does not include it: a new group again.
Pages 1, 2, 3 of the element get groups `()`, `(a,0)`, `(a,0)`: `@page :nth(1 of a)` misses the first
page and selects every later one. -/
theorem page_group_not_started_on_first_page :
    let wrapper : Elt := .mk "a" true true [.mk "a" true true [], .mk "a" true true [], .mk "a" true true []]
    let root : Elt := .mk "" true true [.mk "" true true [wrapper]]
    let atj (j : Nat) : RA := .dict (.cons 0 (.dict (.cons 0 (.dict (.cons j .none .nil)) .nil)) .nil)
    (match updatePageGroups [] .none true "a" root with
     | .ok [] =>
       (match updatePageGroups [] (atj 1) false "a" root with
        | .ok [g] =>
          g.index == 0 &&
          (match updatePageGroups [g] (atj 2) false "a" root with
           | .ok [g'] => g'.index == 0
           | _ => false)
        | _ => false)
     | _ => false) = true := by decide

/-- `element(h, start)` on page 2, whose first content is the running element "bb" (page 1 assigned
"aa"): the `start` test walks the first boxes of the page looking for a *`string-set`* declaration of the
name — running elements are taken out of the page tree and declare no `string-set` — so the chain is all
`false` and the value of the previous page is shown, although the page starts with the assignment. -/
theorem element_start_ignores_running_elements :
    getStringFor [(1, ["aa"]), (2, ["bb"])] 2 .start [false, false, false, false, false] = .ok (some "aa") := by
  simp [getStringFor, storeGet, searchBack]

end Wp.Witness.C14
