/-
C18 — clauses that are false of the current code, refuted on concrete inputs (mirrored by `finding:`
lines of known_findings.txt and replay functions of py/props/c18.py).
-/
import WpModel.Props.C18
import WpModel.Props.C18Pdf

namespace Wp.Witness.C18
open Wp Wp.Anchors Wp.Outline Wp.C18

/-- Regression example for the repaired defect `anchor-double-transform` (commit a37277b):
`<h1 id=a style="transform: translate(10px, 20px)">` on a 200×20 box at the origin.  The named
destination and the bookmark are both at (10, 20) — the matrix is applied once — exactly as for the
same element without a bookmark (`<div id=a>`). -/
example :
    let m : Matrix := { e := 10, f := 20 }
    (visit .other 0 0 200 20 "one" (some 1) "open" none false (some "a") (some m) {}).anchors =
      [⟨"a", ⟨10, 20, 210, 40⟩⟩] ∧
    (visit .other 0 0 200 20 "one" (some 1) "open" none false (some "a") (some m) {}).bookmarks =
      [⟨1, "one", 10, 20, "open"⟩] ∧
    (visit .other 0 0 200 20 "" none "open" none false (some "a") (some m) {}).anchors =
      [⟨"a", ⟨10, 20, 210, 40⟩⟩] := by
  simp only [visit, hasBookmark, bookmarkPos, anchorStep, bookmarkStep, linkStep, hasLink, hasAnchor,
    Matrix.transformPoint]
  refine ⟨?_, ?_, ?_⟩ <;> decide +kernel

/-- Anchor names `z` and `aé`: `sorted(pdf_names)` orders them by code point (`aé` < `z`), but the keys
written to the PDF are `(z)` = 7A and `<FEFF006100E9>`: in the byte order of ISO 32000-1 7.9.6 the
array `[aé, z]` is not sorted, so a reader that looks a destination up by binary search can miss it. -/
theorem dests_not_byte_sorted :
    sortNames [([122], 0), ([97, 233], 1)] = [([97, 233], 1), ([122], 0)] ∧
    ¬ StrictSorted ((sortNames [([122], 0), ([97, 233], 1)]).map (fun e => (keyBytes e.1, e.2))) := by
  have e : sortNames [([122], 0), ([97, 233], 1)] = [([97, 233], 1), ([122], 0)] := by decide
  refine ⟨e, ?_⟩
  rw [e]
  intro h
  have h1 : nameLt (keyBytes [97, 233]) (keyBytes [122]) = true := h.1
  revert h1
  decide

/-- `<title>a&#13;b</title>`: the ASCII string `a CR b` is written as the literal string `(a CR b)` with the
carriage return unescaped, and an unescaped end-of-line in a literal string reads as a line feed
(ISO 32000-1 7.3.4.2): the title comes back as `a LF b`.  U+0018 comes back as U+02D8 (PDFDocEncoding).
With a non-ASCII character in the same string (hexadecimal UTF-16) both survive:
`pdf_string_roundtrip_unicode`. -/
theorem pdf_string_cr :
    Wp.PdfStr.encode [97, 13, 98] = .ok [40, 97, 13, 98, 41] ∧
    Wp.PdfStr.decode [40, 97, 13, 98, 41] = some [97, 10, 98] ∧
    Wp.PdfStr.decode [40, 24, 41] = some [728] := ⟨rfl, by decide, by decide⟩

/-- Attachments `b.txt` then `a.txt`: the `/EmbeddedFiles` name array lists the keys in document order,
`(b.txt)` before `(a.txt)` — not the sorted order ISO 32000-1 7.9.6 requires of a name tree. -/
theorem embedded_files_not_sorted :
    (Wp.Attach.embeddedFiles [] 10
      [⟨some 1, some "b.txt", none, none⟩, ⟨some 1, some "a.txt", none, none⟩]).2.1 =
      some ⟨14, [("b.txt", 11), ("a.txt", 13)]⟩ ∧
    nameLt ("b.txt".toList.map Char.toNat) ("a.txt".toList.map Char.toNat) = false := ⟨by decide, by decide⟩
