/-
C18 — clauses that are false of the current code, refuted on concrete inputs (mirrored by `finding:`
lines of known_findings.txt and replay functions of py/props/c18.py).
-/
import WpModel.Props.C18

namespace Wp.Witness.C18
open Wp Wp.Anchors Wp.Outline Wp.C18

/-- Regression example for the repaired defect `anchor-double-transform` (commit a37277b):
`<h1 id=a style="transform: translate(10px, 20px)">` on a 200×20 box at the origin.  The named
destination and the bookmark are both at (10, 20) — the matrix is applied once — exactly as for the
same element without a bookmark (`<div id=a>`). -/
example :
    let m : Matrix := { e := 10, f := 20 }
    (visit .other 0 0 200 20 "one" (some 1) "open" none false (some "a") (some m) {}).anchors =
      [⟨"a", ⟨10, 20, 210, 40⟩⟩] ∧
    (visit .other 0 0 200 20 "one" (some 1) "open" none false (some "a") (some m) {}).bookmarks =
      [⟨1, "one", 10, 20, "open"⟩] ∧
    (visit .other 0 0 200 20 "" none "open" none false (some "a") (some m) {}).anchors =
      [⟨"a", ⟨10, 20, 210, 40⟩⟩] := by
  simp only [visit, hasBookmark, bookmarkPos, anchorStep, bookmarkStep, linkStep, hasLink, hasAnchor,
    Matrix.transformPoint]
  refine ⟨?_, ?_, ?_⟩ <;> decide +kernel

/-- Anchor names `z` and `aé`: `sorted(pdf_names)` orders them by code point (`aé` < `z`), but the keys
written to the PDF are `(z)` = 7A and `<FEFF006100E9>`: in the byte order of ISO 32000-1 7.9.6 the
array `[aé, z]` is not sorted, so a reader that looks a destination up by binary search can miss it. -/
theorem dests_not_byte_sorted :
    sortNames [([122], 0), ([97, 233], 1)] = [([97, 233], 1), ([122], 0)] ∧
    ¬ StrictSorted ((sortNames [([122], 0), ([97, 233], 1)]).map (fun e => (keyBytes e.1, e.2))) := by
  have e : sortNames [([122], 0), ([97, 233], 1)] = [([97, 233], 1), ([122], 0)] := by decide
  refine ⟨e, ?_⟩
  rw [e]
  intro h
  have h1 : nameLt (keyBytes [97, 233]) (keyBytes [122]) = true := h.1
  revert h1
  decide

end Wp.Witness.C18
