/-
C18 — clauses that are false of the current code, refuted on concrete inputs (mirrored by `finding:`
lines of known_findings.txt and replay functions of py/props/c18.py).
-/
import WpModel.Props.C18
import WpModel.Props.C18Pdf
import WpModel.Props.C18LinkAttr

namespace Wp.Witness.C18
open Wp Wp.Anchors Wp.Outline Wp.C18

/-- Regression example for the repaired defect `anchor-double-transform` (commit a37277b):
`<h1 id=a style="transform: translate(10px, 20px)">` on a 200×20 box at the origin.  The named
destination and the bookmark are both at (10, 20) — the matrix is applied once — exactly as for the
same element without a bookmark (`<div id=a>`). -/
example :
    let m : Matrix := { e := 10, f := 20 }
    (visit .other 0 0 200 20 "one" (some 1) "open" none false (some "a") (some m) {}).anchors =
      [⟨"a", ⟨10, 20, 210, 40⟩⟩] ∧
    (visit .other 0 0 200 20 "one" (some 1) "open" none false (some "a") (some m) {}).bookmarks =
      [⟨1, "one", 10, 20, "open"⟩] ∧
    (visit .other 0 0 200 20 "" none "open" none false (some "a") (some m) {}).anchors =
      [⟨"a", ⟨10, 20, 210, 40⟩⟩] := by
  simp only [visit, hasBookmark, bookmarkPos, anchorStep, bookmarkStep, linkStep, hasLink, hasAnchor,
    Matrix.transformPoint]
  refine ⟨?_, ?_, ?_⟩ <;> decide +kernel

/-- Regression example for the repaired defect `dests-not-byte-sorted` (commit 09da5a8): anchor names
`z` and `aé`.  `sorted(pdf_names)` used to order them by code point (`aé` < `z`) although the keys are
written `(z)` = 7A and `<FEFF006100E9>`; `sorted(pdf_names, key=key_bytes)` puts `z` first and the
array is sorted in the byte order of ISO 32000-1 7.9.6 (for every input: `C18.names_byte_sorted`). -/
example :
    sortNames [([122], 0), ([97, 233], 1)] = [([122], 0), ([97, 233], 1)] ∧
    StrictSorted ((sortNames [([122], 0), ([97, 233], 1)]).map withKey) := by
  have e : sortNames [([122], 0), ([97, 233], 1)] = [([122], 0), ([97, 233], 1)] := by decide
  refine ⟨e, ?_⟩
  rw [e]
  exact ⟨by decide, trivial⟩

/-- `<title>a&#13;b</title>`: the ASCII string `a CR b` is written as the literal string `(a CR b)` with the
carriage return unescaped, and an unescaped end-of-line in a literal string reads as a line feed
(ISO 32000-1 7.3.4.2): the title comes back as `a LF b`.  U+0018 comes back as U+02D8 (PDFDocEncoding).
With a non-ASCII character in the same string (hexadecimal UTF-16) both survive:
`pdf_string_roundtrip_unicode`. -/
theorem pdf_string_cr :
    Wp.PdfStr.encode [97, 13, 98] = .ok [40, 97, 13, 98, 41] ∧
    Wp.PdfStr.decode [40, 97, 13, 98, 41] = some [97, 10, 98] ∧
    Wp.PdfStr.decode [40, 24, 41] = some [728] := ⟨rfl, by decide, by decide⟩

/-- Regression example for the repaired defect `embedded-files-not-sorted` (commit 186e86a):
attachments `b.txt` then `a.txt` are listed `(a.txt)`, `(b.txt)` in the `/EmbeddedFiles` name array. -/
example :
    (Wp.Attach.embeddedFiles (fun s => s.toList.map Char.toNat) [] 10
      [⟨some 1, some "b.txt", none, none⟩, ⟨some 1, some "a.txt", none, none⟩]).2.1 =
      some ⟨14, [("a.txt", 13), ("b.txt", 11)]⟩ := by decide

/-- Regression example for the repaired defect `embedded-files-written-form-order` (commit e909019).
186e86a sorted by the *written form* of the keys (`pydyf.String.data`: parentheses around, `\\ ( )`
escaped): for attachments `report` and `report 2` the written forms `(report)` / `(report 2)` compare
`)` (0x29) with the space (0x20), and `report 2` was listed first although its key has `report` as a
proper prefix.  The keys are now compared as bytes: `report`, `report 2` — and `a(1)` before `aZ`
(for every input: `C18.embedded_files_key_sorted`). -/
example :
    let cpsOf := fun (s : String) => s.toList.map Char.toNat
    (Wp.Attach.embeddedFiles cpsOf [] 10
      [⟨some 1, some "report 2", none, none⟩, ⟨some 1, some "report", none, none⟩]).2.1 =
      some ⟨14, [("report", 13), ("report 2", 11)]⟩ ∧
    nameLt (Wp.Attach.fData (cpsOf "report 2")) (Wp.Attach.fData (cpsOf "report")) = true ∧
    (Wp.Attach.sortSpecs cpsOf [⟨10, 11, "aZ", "", 1, ""⟩, ⟨12, 13, "a(1)", "", 1, ""⟩]).map (·.filename) =
      ["a(1)", "aZ"] := by
  refine ⟨by decide, by decide, by decide⟩

/-- Two attachments with one name (`a.txt` twice) give two equal keys in the `/EmbeddedFiles` name tree:
a reader that looks a file up by name finds only one of them. -/
theorem embedded_files_duplicate_keys :
    (Wp.Attach.embeddedFiles (fun s => s.toList.map Char.toNat) [] 10
      [⟨some 1, some "a.txt", none, none⟩, ⟨some 2, some "a.txt", none, none⟩]).2.1 =
      some ⟨14, [("a.txt", 11), ("a.txt", 13)]⟩ := by decide

/-- `<a id=x name=y>target</a> <a href="#x">link</a>`: the element carries the id `x`, but the UA rule
`a[name] { -weasy-anchor: attr(name) }` overrides `[id] { -weasy-anchor: attr(id) }`, so the only
destination of the document is `y`; the link to `#x` has no destination (`resolve_links` logs
`No anchor #x` and drops it).  With `name=""` the element gets no destination at all. -/
theorem anchor_id_shadowed_by_name :
    let target : Wp.LinkAttr.El := { tag := "a", id := some "x".toList, name := some "y".toList }
    let link : Wp.LinkAttr.El := { tag := "a", href := some "#x".toList }
    Wp.LinkAttr.documentLinks [(0, target), (1, link)] none = ([(1, "internal", "x".toList)], ["y".toList]) ∧
    Wp.LinkAttr.anchorOf { tag := "a", id := some "x".toList, name := some [] } = none ∧
    resolveLinks [⟨[⟨"y", 0, 0⟩], [⟨"internal", "x", 0⟩]⟩] = [([], [⟨"y", 0, 0⟩])] := by
  refine ⟨by decide +kernel, by decide, by decide⟩

/-- Regression example for the repaired defect `attachment-second-write-crash` (commit a0bb005): a
document with `<link rel=attachment href="data:text/plain,hi">` used to die with `AttributeError` in the
"Embedded files" block of its second `generate_pdf` (the spent `Attachment.source`).  A second PDF —
here written from object number 31 instead of 10 — now embeds the same file under the same name
(for every document and every pair of object numbers: `C18.second_write_same_files`). -/
example :
    let atts := Wp.Attach.metaAttachments (fun _ => ⟨some 2, none, some "plain,hi", none⟩)
      [⟨some "data:text/plain,hi", none⟩]
    let cpsOf := fun (s : String) => s.toList.map Char.toNat
    (Wp.Attach.embeddedFiles cpsOf [] 10 atts).2.1 = some ⟨12, [("plain,hi", 11)]⟩ ∧
    (Wp.Attach.embeddedFiles cpsOf [] 31 atts).2.1 = some ⟨33, [("plain,hi", 32)]⟩ := by decide

end Wp.Witness.C18
