/-
C05 — floats (`Model/ShrinkFit.lean`): the two former negation witnesses
`float-explicit-width-ignores-min-max` and `float-shrink-to-fit-ignores-own-extras` were repaired in /repo
(802b9d8, 8719f13; `fixed:` lines in known_findings.txt) and are kept here as *regression* theorems stating the
now-correct behaviour on the same inputs.  Negation witness for the checker of used values
(`Model/UsedCheck.lean`): `first-line-overflow-margin-hack`, `empty-fragment-below-page-bottom`.
-/
import WpModel.Model.ShrinkFit
import WpModel.Model.UsedCheck

namespace Wp.Witness.C05Shrink
open Wp Wp.BoxModel Wp.ShrinkFit

def plain : ABox :=
  { ml := some 0, mr := some 0, pl := 0, pr := 0, bl := 0, br := 0, w := none, minW := 0, maxW := .inf,
    posX := 0, isColumn := false }

private def widthOfResult (r : Except BErr ABox) : Option Rat :=
  match r with
  | .ok b => b.w
  | .error _ => none

/-- Regression (`fixed: float-explicit-width-ignores-min-max`).  `float: left; width: 80px; max-width: 50px`:
the used width is 50, as for an inline-block with the same style (it stayed 80 while `float_layout` reached
the decorated `float_width` only for `width: auto`). -/
theorem float_honours_max_width :
    widthOfResult (floatLayoutWidth 100 30 30 { plain with w := some 80, maxW := .fin 50 }) = some 50 ∧
    widthOfResult (inlineBlockLayoutWidth 100 30 30 { plain with w := some 80, maxW := .fin 50 }) = some 50 := by
  decide +kernel

/-- …and `float: left; width: 20px; min-width: 50px` is 50 wide (it stayed 20). -/
theorem float_honours_min_width :
    widthOfResult (floatLayoutWidth 100 30 30 { plain with w := some 20, minW := 50 }) = some 50 := by
  decide +kernel

/-- Regression (`fixed: float-shrink-to-fit-ignores-own-extras`).  `float: left; padding: 0 10px` around a
long text (min-content 30, max-content 230) in a 100px containing block: `shrink_to_fit` receives the
available 80, the content box is 80 wide and the margin box 100 — the float fits, like the inline-block
(it used to get the whole 100 and overflow by its paddings). -/
theorem float_fits_with_padding :
    widthOfResult (floatLayoutWidth 100 30 230 { plain with pl := 10, pr := 10 }) = some 80 ∧
    widthOfResult (inlineBlockLayoutWidth 100 30 230 { plain with pl := 10, pr := 10 }) = some 80 := by
  decide +kernel

open Wp.UsedCheck in
/-- A box of the shape the layout produces in `empty-fragment-below-page-bottom` /
`first-line-overflow-margin-hack` (height −3) is rejected by the checker with `nonneg`: clause (a) is false
of those pages. -/
theorem negative_height_rejected :
    firstBad 0 { cx := 0, pw := 60, prtl := false }
      (.mk { x := 0, y := 63, w := 60, h := -3, ml := 0, mr := 0, mt := 0, mb := 0, pl := 0, pr := 0, pt := 0,
             pb := 0, bl := 0, br := 0, bt := 0, bb := 0, minW := 0, maxW := none, minH := 0, maxH := none,
             mlAuto := false, mrAuto := false, wAuto := true, hAuto := true, kind := .flow, rtl := false,
             whole := false } []) = some (0, "nonneg") := by
  decide +kernel

/-- A 100 × 13 auto-sized flow box at the origin. -/
def plainU : UsedCheck.UBox :=
  { x := 0, y := 0, w := 100, h := 13, ml := 0, mr := 0, mt := 0, mb := 0, pl := 0, pr := 0, pt := 0, pb := 0,
    bl := 0, br := 0, bt := 0, bb := 0, minW := 0, maxW := none, minH := 0, maxH := none, mlAuto := false,
    mrAuto := false, wAuto := true, hAuto := true, kind := .flow, rtl := false, whole := true }

open Wp.UsedCheck in
/-- `empty-first-child-above-parent`: the shape the layout produces for `<body><div></div><div style="margin-top:3px;
height:10px"></div></body>` — `<body>` at y = 3 after the margin collapsed through the empty first child, which
stayed at y = 0 — is rejected by the checker with `stack` at `<body>` (subtree 1): clause (f)(g) "children lie inside
the parent's content box" is false of that page. -/
theorem empty_first_child_rejected :
    firstBad 0 { cx := 0, pw := 100, prtl := false }
      (.mk plainU [.mk { plainU with y := 3, h := 10 }
        [.mk { plainU with h := 0 } [], .mk { plainU with mt := 3, h := 10, hAuto := false } []]]) =
      some (1, "stack") := by
  decide +kernel

end Wp.Witness.C05Shrink
