/-
C05 — negation witnesses for floats (`Model/ShrinkFit.lean`), listed in known_findings.txt:
`float-explicit-width-ignores-min-max`, `float-shrink-to-fit-ignores-own-extras`; and for the checker of
used values (`Model/UsedCheck.lean`): `first-line-overflow-margin-hack`, `empty-fragment-below-page-bottom`.
-/
import WpModel.Model.ShrinkFit
import WpModel.Model.UsedCheck

namespace Wp.Witness.C05Shrink
open Wp Wp.BoxModel Wp.ShrinkFit

def plain : ABox :=
  { ml := some 0, mr := some 0, pl := 0, pr := 0, bl := 0, br := 0, w := none, minW := 0, maxW := .inf,
    posX := 0, isColumn := false }

private def widthOfResult (r : Except BErr ABox) : Option Rat :=
  match r with
  | .ok b => b.w
  | .error _ => none

/-- `float: left; width: 80px; max-width: 50px`: the used width stays 80 — `float_layout` reaches the
decorated `float_width` only for `width: auto`, so `min-width` and `max-width` are never applied to a float with a
specified width (the same style on an inline-block gives 50). Clause (c) is false of floats. -/
theorem float_ignores_max_width :
    widthOfResult (floatLayoutWidth 100 30 30 { plain with w := some 80, maxW := .fin 50 }) = some 80 ∧
    widthOfResult (inlineBlockLayoutWidth 100 30 30 { plain with w := some 80, maxW := .fin 50 }) = some 50 := by
  decide +kernel

/-- …and `float: left; width: 20px; min-width: 50px` stays 20. -/
theorem float_ignores_min_width :
    widthOfResult (floatLayoutWidth 100 30 30 { plain with w := some 20, minW := 50 }) = some 20 := by
  decide +kernel

/-- `float: left; padding: 0 10px` around a long text (min-content 30, max-content 230) in a 100px
containing block: `shrink_to_fit` receives the containing block width 100 instead of the available 80, the
content box is 100 wide and the margin box 120: the float is wider than its containing block although its
content could wrap (the inline-block gets 80). -/
theorem float_overflows_with_padding :
    widthOfResult (floatLayoutWidth 100 30 230 { plain with pl := 10, pr := 10 }) = some 100 ∧
    widthOfResult (inlineBlockLayoutWidth 100 30 230 { plain with pl := 10, pr := 10 }) = some 80 := by
  decide +kernel

open Wp.UsedCheck in
/-- A box of the shape the layout produces in `empty-fragment-below-page-bottom` /
`first-line-overflow-margin-hack` (height −3) is rejected by the checker with `nonneg`: clause (a) is false
of those pages. -/
theorem negative_height_rejected :
    firstBad 0 { cx := 0, pw := 60, prtl := false }
      (.mk { x := 0, y := 63, w := 60, h := -3, ml := 0, mr := 0, mt := 0, mb := 0, pl := 0, pr := 0, pt := 0,
             pb := 0, bl := 0, br := 0, bt := 0, bb := 0, minW := 0, maxW := none, minH := 0, maxH := none,
             mlAuto := false, mrAuto := false, wAuto := true, hAuto := true, kind := .flow, rtl := false,
             whole := false } []) = some (0, "nonneg") := by
  decide +kernel

end Wp.Witness.C05Shrink
