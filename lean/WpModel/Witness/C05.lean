/-
C05 — negation witnesses: concrete inputs on which a *full-strength* statement is false of the model
(and, replayed by the harness on the real functions, of the implementation).  Each is listed in
known_findings.txt (`stored-margin-right`, `zero-percent-height-auto-cb`).
`rtl-minmax-shift-accumulates` (/repo 165e254) and `rtl-relayout-shift-accumulates` (/repo 7b9d21e) were
repaired: their witnesses are now regression theorems stating the correct behaviour on the same inputs.
-/
import WpModel.Model.BoxModel
import WpModel.Model.BlockTree

namespace Wp.Witness.C05
open Wp Wp.BoxModel

/-- Margin-box width of the stored used values. -/
def storedOuter (b : ABox) : Option Rat :=
  match b.ml, b.mr, b.w with
  | some l, some r, some w => some (l + b.bl + b.pl + w + b.pr + b.br + r)
  | _, _, _ => none

/-- `width: 50px; margin: 0` in a 100px containing block. -/
def overConstrained : ABox :=
  { ml := some 0, mr := some 0, pl := 0, pr := 0, bl := 0, br := 0, w := some 50, minW := 0, maxW := .inf,
    posX := 0, isColumn := false }

/-- F20 `stored-margin-right`.  The literal clause (b) "margin-left + … + margin-right equals the
containing block width for every block-level box" is false of the stored used values in the
over-constrained case: the code says "Do nothing in ltr" and leaves `margin_right = 0`
(0 + 50 + 0 ≠ 100).  The geometry is the CSS one (`C05.overconstrained_geometry`,
`C05.overconstrained_ltr_css_margin`). -/
theorem storedMarginNotRecomputed :
    ¬ (∀ (cbw : Rat) (dir : Dir) (b : ABox), storedOuter (blwCore cbw dir b) = some cbw) := by
  intro h
  have := h 100 .ltr overConstrained
  revert this
  decide +kernel

/-- `width: 200px; max-width: 50px; margin: 0` in a 100px `rtl` containing block. -/
def rtlClamped : ABox :=
  { ml := some 0, mr := some 0, pl := 0, pr := 0, bl := 0, br := 0, w := some 200, minW := 0,
    maxW := .fin 50, posX := 0, isColumn := false }

/-- The decorated `block_level_width` on `rtlClamped`: two passes, both over-constrained; the second starts
from the original `position_x` again, so only its own shift (+50) remains: the 50px-wide box ends at
x = 50, its margin-right edge at the end of the containing block (it was −50 while the shifts of the two
passes added up). -/
theorem rtlClamped_result :
    blockLevelWidthMinMax (.box 100 .rtl) rtlClamped =
      .ok { rtlClamped with w := some 50, posX := 50 } := by
  have : (match blockLevelWidthMinMax (.box 100 .rtl) rtlClamped with
      | .ok r => decide (r = { rtlClamped with w := some 50, posX := 50 })
      | .error _ => false) = true := by decide +kernel
  revert this
  cases blockLevelWidthMinMax (.box 100 .rtl) rtlClamped <;> simp

/-- Regression (`fixed: rtl-minmax-shift-accumulates`): on the former counterexample the margin-right edge
of the box is at the end of the rtl containing block: margin box [50, 100] in [0, 100].  The statement for
every input is `C05.edge_flush_minmax`. -/
theorem rtl_shift_does_not_accumulate :
    ∀ (r : ABox) (o : Rat), blockLevelWidthMinMax (.box 100 .rtl) rtlClamped = .ok r →
        storedOuter r = some o → r.posX + o = rtlClamped.posX + 100 := by
  intro r o h ho
  rw [rtlClamped_result] at h
  simp only [Except.ok.injEq] at h
  subst h
  have : storedOuter { rtlClamped with w := some 50, posX := 50 } = some 50 := by decide +kernel
  rw [this] at ho
  simp only [Option.some.injEq] at ho
  subst ho
  decide +kernel

/-- Three passes (`width: 200px; max-width: 20px; min-width: 50px`): still one shift. -/
theorem rtl_three_passes :
    (match blockLevelWidthMinMax (.box 100 .rtl) { rtlClamped with maxW := .fin 20, minW := 50 } with
      | .ok r => decide (r.w = some 50 ∧ r.posX = 50)
      | .error _ => false) = true := by decide +kernel

/-- `block_level_width` moves `position_x` relatively (`+=`), so it is not idempotent on the position
(`width: 50px; margin: 0` in a 100px rtl containing block: 50 after one call, 100 after a second call on the
shifted box).  That is why a caller that lays a box out twice must restore `position_x` first; since
/repo 7b9d21e `_in_flow_layout` does (`child.position_x = child_position_x` before the second
`block_level_layout`), as `handle_min_max_width` does between its passes.  Regression for
`fixed: rtl-relayout-shift-accumulates`: the re-layout from the restored position gives 50 again. -/
theorem relayout_from_restored_position :
    (blwCore 100 .rtl overConstrained).posX = 50 ∧
    (blwCore 100 .rtl { overConstrained with posX := (blwCore 100 .rtl overConstrained).posX }).posX = 100 ∧
    (blwCore 100 .rtl { blwCore 100 .rtl overConstrained with posX := overConstrained.posX }).posX = 50 := by
  decide +kernel

/-- `zero-percent-height-auto-cb`.  Clause (d) for an auto-height containing block ("`max-height: v%`
is treated as `none`") is false at `v = 0`: `computed_values.length` turns `0%` into `0px`
(`BlockTree.computeMax`), so `max-height: 0%` computes to the length 0 and the box is clamped to height 0,
while `max-height: 1%` is unbounded.  (`C05.resolve_auto_cb_height` states what holds for the values that
are still percentages after the computed-value step.) -/
theorem zero_percent_is_a_length :
    BlockTree.computeMax 16 (.pct 0) = .ok (.px (.fin 0)) ∧
    BlockTree.computeMax 16 (.pct 1) = .ok (.pct 1) ∧
    percentageX (.px (.fin 0)) .inf = .ok (.fin 0) ∧ percentageX (.pct 1) .inf = .ok .inf ∧
    clampHeight 30 0 (.fin 0) = .fin 0 ∧ clampHeight 30 0 .inf = .fin 30 := by
  refine ⟨rfl, ?_, rfl, ?_, by decide +kernel, by decide +kernel⟩
  · simp [BlockTree.computeMax]
  · have h : (0 : Rat) < 1 := by decide +kernel
    simp [percentageX, Ext.mulRat, Ext.div100, h]

end Wp.Witness.C05
