/-
C05 — negation witnesses: concrete inputs on which a *full-strength* statement is false of the model
(and, replayed by the harness on the real functions, of the implementation).  Each is listed in
known_findings.txt (`stored-margin-right`, `rtl-minmax-shift-accumulates`,
`rtl-relayout-shift-accumulates`, `zero-percent-height-auto-cb`).
-/
import WpModel.Model.BoxModel
import WpModel.Model.BlockTree

namespace Wp.Witness.C05
open Wp Wp.BoxModel

/-- Margin-box width of the stored used values. -/
def storedOuter (b : ABox) : Option Rat :=
  match b.ml, b.mr, b.w with
  | some l, some r, some w => some (l + b.bl + b.pl + w + b.pr + b.br + r)
  | _, _, _ => none

/-- `width: 50px; margin: 0` in a 100px containing block. -/
def overConstrained : ABox :=
  { ml := some 0, mr := some 0, pl := 0, pr := 0, bl := 0, br := 0, w := some 50, minW := 0, maxW := .inf,
    posX := 0, isColumn := false }

/-- F20 `stored-margin-right`.  The literal clause (b) "margin-left + … + margin-right equals the
containing block width for every block-level box" is false of the stored used values in the
over-constrained case: the code says "Do nothing in ltr" and leaves `margin_right = 0`
(0 + 50 + 0 ≠ 100).  The geometry is the CSS one (`C05.overconstrained_geometry`,
`C05.overconstrained_ltr_css_margin`). -/
theorem storedMarginNotRecomputed :
    ¬ (∀ (cbw : Rat) (dir : Dir) (b : ABox), storedOuter (blwCore cbw dir b) = some cbw) := by
  intro h
  have := h 100 .ltr overConstrained
  revert this
  decide +kernel

/-- `width: 200px; max-width: 50px; margin: 0` in a 100px `rtl` containing block. -/
def rtlClamped : ABox :=
  { ml := some 0, mr := some 0, pl := 0, pr := 0, bl := 0, br := 0, w := some 200, minW := 0,
    maxW := .fin 50, posX := 0, isColumn := false }

/-- The decorated `block_level_width` on `rtlClamped`: two passes, both over-constrained, both shift
`position_x` (−100, then +50): the 50px-wide box ends at x = −50. -/
theorem rtlClamped_result :
    blockLevelWidthMinMax (.box 100 .rtl) rtlClamped =
      .ok { rtlClamped with w := some 50, posX := -50 } := by
  have : (match blockLevelWidthMinMax (.box 100 .rtl) rtlClamped with
      | .ok r => decide (r = { rtlClamped with w := some 50, posX := -50 })
      | .error _ => false) = true := by decide +kernel
  revert this
  cases blockLevelWidthMinMax (.box 100 .rtl) rtlClamped <;> simp

/-- `rtl-minmax-shift-accumulates`.  The full statement "in an rtl containing block the margin-right
edge of the box is at the end of the containing block after the decorated `block_level_width`" is
false: here the margin box is [−50, 0] while the containing block is [0, 100]
(expected x = 50).  `C05.edge_flush_minmax_partial` states what is true. -/
theorem rtl_shift_accumulates :
    ¬ (∀ (b r : ABox) (o : Rat), blockLevelWidthMinMax (.box 100 .rtl) b = .ok r →
        storedOuter r = some o → r.posX + o = b.posX + 100) := by
  intro h
  have := h rtlClamped _ 50 rtlClamped_result (by decide +kernel)
  revert this
  decide +kernel

/-- `rtl-relayout-shift-accumulates`.  `block_level_width` moves `position_x` relatively (`+=`), so
it is not idempotent on the position: a second layout of the same box object (what `_in_flow_layout` does
after a border/padding page overflow: used values are re-resolved from the style, `position_x` is not
reset) shifts again.  `width: 50px; margin: 0` in a 100px rtl containing block: 50 after one layout
(correct), 100 after the re-layout. -/
theorem relayout_shifts_again :
    (blwCore 100 .rtl overConstrained).posX = 50 ∧
    (blwCore 100 .rtl { overConstrained with posX := (blwCore 100 .rtl overConstrained).posX }).posX = 100 := by
  decide +kernel

/-- `zero-percent-height-auto-cb`.  Clause (d) for an auto-height containing block ("`max-height: v%`
is treated as `none`") is false at `v = 0`: `computed_values.length` turns `0%` into `0px`
(`BlockTree.computeMax`), so `max-height: 0%` computes to the length 0 and the box is clamped to height 0,
while `max-height: 1%` is unbounded.  (`C05.resolve_auto_cb_height` states what holds for the values that
are still percentages after the computed-value step.) -/
theorem zero_percent_is_a_length :
    BlockTree.computeMax 16 (.pct 0) = .ok (.px (.fin 0)) ∧
    BlockTree.computeMax 16 (.pct 1) = .ok (.pct 1) ∧
    percentageX (.px (.fin 0)) .inf = .ok (.fin 0) ∧ percentageX (.pct 1) .inf = .ok .inf ∧
    clampHeight 30 0 (.fin 0) = .fin 0 ∧ clampHeight 30 0 .inf = .fin 30 := by
  refine ⟨rfl, ?_, rfl, ?_, by decide +kernel, by decide +kernel⟩
  · simp [BlockTree.computeMax]
  · have h : (0 : Rat) < 1 := by decide +kernel
    simp [percentageX, Ext.mulRat, Ext.div100, h]

end Wp.Witness.C05
