/-
C02 clause (a) "rendering terminates" is false in practice for four nested constructs: the cost of rendering
(function calls beyond the un-nested document, measured on /repo at depths 6 / 9 / 12, capped at 150000) is
rejected by the growth checker that accepts every polynomial cost up to degree 3.  Mirrored by the `finding:` lines
nested-flex-exponential, nested-grid-exponential, nested-columns-exponential, nested-padded-inline-exponential
(replay functions in py/harness/c02_total.py; exact outcomes in corpus/C02/growth_known.json).
-/
import WpModel.Model.C02Extra

namespace Wp.Witness.C02Growth
open Wp.C02x

/-- `<span style="padding:1px">` nested 6, 9, 12 deep: 9788, 61124, more than 150000 calls. -/
theorem nested_padded_inline_rejected : growthOk 9788 61124 150000 = false := by decide

/-- `display:grid` nested 3, 6, 9 deep around one word: 7534, 52386, 393930 calls (doubling per level). -/
theorem nested_grid_rejected : growthOk 7534 52386 393930 = false := by decide

/-- `display:flex` nested 2, 4, 6 deep: 5354, 43598, 377730 calls (x3 per level). -/
theorem nested_flex_rejected : growthOk 5354 43598 377730 = false := by decide

/-- `columns:2` nested 1, 2, 3 deep: 3475, 18224, 128252 calls (x6 per level). -/
theorem nested_columns_rejected : growthOk 3475 18224 128252 = false := by decide

/-- The same checker accepts what tables cost on the same tree (linear). -/
example : growthOk 19566 16593 23028 = true := by decide

end Wp.Witness.C02Growth
