/-
C04 — negation witnesses: concrete inputs on which the *full-strength* statement is false of the
model (and, replayed by the harness, of the implementation).  Each is listed in known_findings.txt.
-/
import WpModel.Model.Break

namespace Wp.Witness.C04
open Wp

/-- `break-after: column` on the box before and `break-before: avoid` on the box after, outside a
multi-column container: `column` forces nothing there, yet it replaces `avoid`, so the avoided
break is allowed.  (The unrestricted `avoid_wins` is therefore false.) -/
theorem column_hides_avoid :
    (∀ v ∈ [Brk.column, .avoid], forces false v = false) ∧
    (∃ v ∈ [Brk.column, .avoid], avoids false v = true) ∧
    avoids false (resolve [Brk.column, .avoid]) = false := by decide

end Wp.Witness.C04
