/-
C07 — negation witnesses: concrete inputs on which the *full-strength* statement is false of the model
(and, replayed by the harness, of the implementation).  Each is listed in known_findings.txt.

Six former witnesses were repaired in /repo and are now regression `example`s next to the theorems that became
full strength:
  var-self-cycle-recursion          (2bffab3)  Props/C07Var.lean     `resolve_var_terminates`, `var_cycle_uses_fallback`
  var-inherit-on-root-typeerror     (582f36b)  Props/C07.lean        `pending_valid_as_literal`, `select_total`
  var-shorthand-partially-applied   (f9155ce)  Props/C07Expanders    `pending_expander`, `pending_expander_all_or_nothing`
  flex-float-zero-as-basis          (6a44d73)  Props/C07Expanders    `flex_unitless_zero` (+ example)
  font-face-src-format-indexerror   (be7a07b)  Props/C07Descriptors  example after `descriptors_only_propagate`
  counter-style-system-empty-indexerror (d71ddd0) Props/C07Descriptors `descriptor_empty_dropped`
and two more in round 4:
  flex-negative-factor-accepted     (c151619)  Props/C07Numeric      `flex_factor_nonneg` (+ example)
  image-resolution-zero-division    (d011d54)  Props/C07Numeric      `image_resolution_positive`, `image_resolution_total`
-/
import WpModel.Model.Declarations
import WpModel.Model.VarSubst
import WpModel.Model.PendingC07
import WpModel.Model.ExpandersC07
import WpModel.Model.DescriptorsC07
import WpModel.Model.NumericC07
import WpModel.Model.GridLineC07
import WpModel.Model.FontFamilyC07

namespace Wp.Witness.C07
open Wp Wp.Decl Wp.Var

/-! ### `var(--f, Arial, sans-serif)`: the commas of a fallback are dropped -/

/-- `var(--f, Arial, sans-serif)` -/
def fbTok : Tk :=
  .fn "var" "var" [.ident "--f", .comma, .ws, .ident "Arial", .comma, .ws, .ident "sans-serif"]

/-- With `--f` undefined the code yields the two identifiers **without** the comma between them (one family
name `Arial sans-serif`), textual substitution keeps it (finding `var-fallback-commas-dropped`): the fallback of
`var_subst_partial` has to be read as `codeFallback`, not as text. -/
theorem var_fallback_commas_dropped :
    (match resolveVar (fun _ => []) [] 5 fbTok with
      | .ok (some [.ident "Arial", .ident "sans-serif"]) => true | _ => false) = true ∧
    (match subst (fun _ => []) 5 fbTok with
      | some [.ident "Arial", .comma, .ident "sans-serif"] => true | _ => false) = true := by
  decide

/-! ### `grid-row-start: inherit 2`: a CSS-wide keyword read as a `<custom-ident>` -/

/-- css-values-4 §4.2: the CSS-wide keywords are excluded from `<custom-ident>`; a value that mixes one with other
components is invalid.  `grid_line` takes any identifier other than `auto` / `span` as the line name:
`grid-row-start: inherit 2` and `span inherit` are kept with the name `inherit` instead of being ignored (finding
`css-wide-keyword-as-ident`); `C07.grid_line_sound_partial` therefore stops at "neither `auto` nor `span`". -/
theorem grid_line_css_wide_as_ident :
    GridLine07.gridLine [.ident "inherit" "inherit", .int 2] = some (.line false (some 2) (some "inherit")) ∧
    GridLine07.gridLine [.ident "span" "span", .ident "initial" "initial"]
      = some (.line true none (some "initial")) := by decide

/-- The same finding in `font-family`: css-fonts-4 §3.1 excludes the CSS-wide keywords from unquoted family names
(`font-family: inherit, serif` is invalid); `font_family` takes any identifier: the family `inherit` is kept
(finding `css-wide-keyword-as-ident`; `C07.font_family_one_partial` therefore only says "identifier tokens"). -/
theorem font_family_css_wide_as_ident :
    Font07.fontFamily [[.ident "inherit"], [.ident "serif"]] = some ["inherit", "serif"] := by decide

end Wp.Witness.C07
