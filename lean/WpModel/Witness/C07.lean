/-
C07 — negation witnesses: concrete inputs on which the *full-strength* statement is false of the model
(and, replayed by the harness, of the implementation).  Each is listed in known_findings.txt.
-/
import WpModel.Model.Declarations
import WpModel.Model.VarSubst
import WpModel.Model.PendingC07

namespace Wp.Witness.C07
open Wp Wp.Decl Wp.Var

/-! ### F7 — `--a: var(--a)`: no cycle guard, the recursion never ends -/

def cycEnv : Env := fun n => if n = "__a" then [.fn "var" "var" [.ident "--a"]] else []
def cycTok : Tk := .fn "var" "var" [.ident "--a"]

/-- Whatever the depth allowed to the interpreter, resolving `var(--a)` under `--a: var(--a)` exhausts it:
`resolve_var` raises `RecursionError` (finding `var-self-cycle-recursion`; also C02). -/
theorem var_self_cycle : ∀ fuel, resolveVar cycEnv fuel cycTok = .error .recursion
  | 0 => rfl
  | fuel + 1 => by
    have ih := var_self_cycle fuel
    have hc : checkVar cycTok = true := by decide
    have hp : parseArgs [Tk.ident "--a"] false = some [Tk.ident "--a"] := by rfl
    have hd : dashToUnderscore "--a" = "__a" := by decide
    have he : cycEnv "__a" = [cycTok] := by simp [cycEnv, cycTok]
    have hb : ("var" != "var") = false := by decide
    unfold cycTok at ih hc he ⊢
    simp only [resolveVar, hc, Bool.not_true, Bool.false_eq_true, if_false, hb, hp, hd, he,
      List.isEmpty_cons, List.mapM_cons, valueStep, ih]
    rfl

/-- The same token has a perfectly good meaning as soon as the custom property is not cyclic. -/
example : (match resolveVar (fun n => if n = "__a" then [.ident "red"] else []) 3 cycTok with
    | .ok (some [.ident "red"]) => true | _ => false) = true := by decide

/-! ### `var(--f, Arial, sans-serif)`: the commas of a fallback are dropped -/

/-- `var(--f, Arial, sans-serif)` -/
def fbTok : Tk :=
  .fn "var" "var" [.ident "--f", .comma, .ws, .ident "Arial", .comma, .ws, .ident "sans-serif"]

/-- With `--f` undefined the code yields the two identifiers **without** the comma between them (one family
name `Arial sans-serif`), textual substitution keeps it (finding `var-fallback-commas-dropped`): the fallback of
`var_subst_partial` has to be read as `codeFallback`, not as text. -/
theorem var_fallback_commas_dropped :
    (match resolveVar (fun _ => []) 5 fbTok with
      | .ok (some [.ident "Arial", .ident "sans-serif"]) => true | _ => false) = true ∧
    (match subst (fun _ => []) 5 fbTok with
      | some [.ident "Arial", .comma, .ident "sans-serif"] => true | _ => false) = true := by
  decide

/-! ### `html{--a:inherit; width:var(--a)}`: `inherit` out of a var() on the root element -/

/-- On the root element the literal `width: inherit` is the initial value, but the same keyword coming out of
a `var()` reaches `parent_style[key]` with no parent: `TypeError` (finding `var-inherit-on-root-typeerror`), so
`C07.pending_valid_as_literal` states its `inherit` clause with a parent only. -/
theorem var_inherit_on_root :
    Pending.select (β := Nat) "width" false .inheritKw = .ok .initial ∧
    Pending.select (β := Nat) "width" false (.pending .inheritKw) = .error .typeError := by decide

end Wp.Witness.C07
