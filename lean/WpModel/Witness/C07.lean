/-
C07 — negation witnesses: concrete inputs on which the *full-strength* statement is false of the model
(and, replayed by the harness, of the implementation).  Each is listed in known_findings.txt.

Six former witnesses were repaired in /repo and are now regression `example`s next to the theorems that became
full strength:
  var-self-cycle-recursion          (2bffab3)  Props/C07Var.lean     `resolve_var_terminates`, `var_cycle_uses_fallback`
  var-inherit-on-root-typeerror     (582f36b)  Props/C07.lean        `pending_valid_as_literal`, `select_total`
  var-shorthand-partially-applied   (f9155ce)  Props/C07Expanders    `pending_expander`, `pending_expander_all_or_nothing`
  flex-float-zero-as-basis          (6a44d73)  Props/C07Expanders    `flex_unitless_zero` (+ example)
  font-face-src-format-indexerror   (be7a07b)  Props/C07Descriptors  example after `descriptors_only_propagate`
  counter-style-system-empty-indexerror (d71ddd0) Props/C07Descriptors `descriptor_empty_dropped`
-/
import WpModel.Model.Declarations
import WpModel.Model.VarSubst
import WpModel.Model.PendingC07
import WpModel.Model.ExpandersC07
import WpModel.Model.DescriptorsC07
import WpModel.Model.NumericC07

namespace Wp.Witness.C07
open Wp Wp.Decl Wp.Var

/-! ### `var(--f, Arial, sans-serif)`: the commas of a fallback are dropped -/

/-- `var(--f, Arial, sans-serif)` -/
def fbTok : Tk :=
  .fn "var" "var" [.ident "--f", .comma, .ws, .ident "Arial", .comma, .ws, .ident "sans-serif"]

/-- With `--f` undefined the code yields the two identifiers **without** the comma between them (one family
name `Arial sans-serif`), textual substitution keeps it (finding `var-fallback-commas-dropped`): the fallback of
`var_subst_partial` has to be read as `codeFallback`, not as text. -/
theorem var_fallback_commas_dropped :
    (match resolveVar (fun _ => []) [] 5 fbTok with
      | .ok (some [.ident "Arial", .ident "sans-serif"]) => true | _ => false) = true ∧
    (match subst (fun _ => []) 5 fbTok with
      | some [.ident "Arial", .comma, .ident "sans-serif"] => true | _ => false) = true := by
  decide

/-! ### `flex-grow: -1`: a negative flex factor is not dropped -/

/-- css-flexbox-1 §7.2/7.3: "`<number [0,∞]>` … negative values are invalid".  The validator of `flex-grow` /
`flex-shrink` is `if token.type == 'number': return token.value`: `flex-grow: -1` is accepted (and overrides an
earlier valid `flex-grow: 2`) instead of being ignored (finding `flex-negative-factor-accepted`); so the range
statement of `C07.flex_factor_partial` stops at "the value is the number written". -/
theorem flex_negative_factor_accepted :
    Num07.validate "flex-grow" [{ intValue := some (-1), keyword := none, ltok := .number (-1) }]
      = some (some (.num (-1))) ∧
    Num07.validate "flex-shrink" [{ intValue := none, keyword := none, ltok := .number (-1 / 2) }]
      = some (some (.num (-1 / 2))) := by
  decide +kernel

/-! ### `image-resolution: 0dppx`: a non-positive resolution is accepted, and zero aborts rendering -/

/-- css-images-3 §5.1 / css-values: the `<resolution>` of `image-resolution` must be positive (zero and negative
values are invalid).  `get_resolution` accepts any dimension in dppx / dpi / dpcm: `image-resolution: 0dppx` is kept
and `RasterImage.get_intrinsic_size` divides by it — `ZeroDivisionError` aborts the rendering of any document with
a raster `<img>` (finding `image-resolution-zero-division`; also C02, C13); `-1dppx` gives negative intrinsic sizes. -/
theorem image_resolution_zero_division :
    Num07.getResolution (.dimension 0 "dppx" "dppx") = some 0 ∧
    Num07.rasterIntrinsicSize 20 10 0 = .error (.zeroDivision "get_intrinsic_size") ∧
    Num07.getResolution (.dimension (-1) "dppx" "dppx") = some (-1) := by
  refine ⟨by decide +kernel, by decide +kernel, by decide +kernel⟩

end Wp.Witness.C07
