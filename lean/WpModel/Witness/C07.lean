/-
C07 — negation witnesses: concrete inputs on which the *full-strength* statement is false of the model
(and, replayed by the harness, of the implementation).  Each is listed in known_findings.txt.
-/
import WpModel.Model.Declarations
import WpModel.Model.VarSubst
import WpModel.Model.PendingC07
import WpModel.Model.ExpandersC07
import WpModel.Model.DescriptorsC07

namespace Wp.Witness.C07
open Wp Wp.Decl Wp.Var

/-! ### F7 — `--a: var(--a)`: no cycle guard, the recursion never ends -/

def cycEnv : Env := fun n => if n = "__a" then [.fn "var" "var" [.ident "--a"]] else []
def cycTok : Tk := .fn "var" "var" [.ident "--a"]

/-- Whatever the depth allowed to the interpreter, resolving `var(--a)` under `--a: var(--a)` exhausts it:
`resolve_var` raises `RecursionError` (finding `var-self-cycle-recursion`; also C02). -/
theorem var_self_cycle : ∀ fuel, resolveVar cycEnv fuel cycTok = .error .recursion
  | 0 => rfl
  | fuel + 1 => by
    have ih := var_self_cycle fuel
    have hc : checkVar cycTok = true := by decide
    have hp : parseArgs [Tk.ident "--a"] false = some [Tk.ident "--a"] := by rfl
    have hd : dashToUnderscore "--a" = "__a" := by decide
    have he : cycEnv "__a" = [cycTok] := by simp [cycEnv, cycTok]
    have hb : ("var" != "var") = false := by decide
    unfold cycTok at ih hc he ⊢
    simp only [resolveVar, hc, Bool.not_true, Bool.false_eq_true, if_false, hb, hp, hd, he,
      List.isEmpty_cons, List.mapM_cons, valueStep, ih]
    rfl

/-- The same token has a perfectly good meaning as soon as the custom property is not cyclic. -/
example : (match resolveVar (fun n => if n = "__a" then [.ident "red"] else []) 3 cycTok with
    | .ok (some [.ident "red"]) => true | _ => false) = true := by decide

/-! ### `var(--f, Arial, sans-serif)`: the commas of a fallback are dropped -/

/-- `var(--f, Arial, sans-serif)` -/
def fbTok : Tk :=
  .fn "var" "var" [.ident "--f", .comma, .ws, .ident "Arial", .comma, .ws, .ident "sans-serif"]

/-- With `--f` undefined the code yields the two identifiers **without** the comma between them (one family
name `Arial sans-serif`), textual substitution keeps it (finding `var-fallback-commas-dropped`): the fallback of
`var_subst_partial` has to be read as `codeFallback`, not as text. -/
theorem var_fallback_commas_dropped :
    (match resolveVar (fun _ => []) 5 fbTok with
      | .ok (some [.ident "Arial", .ident "sans-serif"]) => true | _ => false) = true ∧
    (match subst (fun _ => []) 5 fbTok with
      | some [.ident "Arial", .comma, .ident "sans-serif"] => true | _ => false) = true := by
  decide

/-! ### `html{--a:inherit; width:var(--a)}`: `inherit` out of a var() on the root element -/

/-- On the root element the literal `width: inherit` is the initial value, but the same keyword coming out of
a `var()` reaches `parent_style[key]` with no parent: `TypeError` (finding `var-inherit-on-root-typeerror`), so
`C07.pending_valid_as_literal` states its `inherit` clause with a parent only. -/
theorem var_inherit_on_root :
    Pending.select (β := Nat) "width" false .inheritKw = .ok .initial ∧
    Pending.select (β := Nat) "width" false (.pending .inheritKw) = .error .typeError := by decide

/-! ### `margin: var(--a)` with `--a: 7px red`: a shorthand invalid after substitution is applied in part -/

/-- `expand_four_sides` on `7px red` yields `margin-top: 7px` and then raises `InvalidValues` on `red`; the
literal declaration `margin: 7px red` is dropped as a whole, but `PendingExpander.validate` returns at the first
match, so `margin-top` gets 7px while the other three sides fall back (finding
`var-shorthand-partially-applied`): `C07.pending_expander_partial` needs its hypothesis `gen.ends = none`. -/
theorem pending_expander_partial_application :
    pendingExpanderValidate "margin" { items := [("margin-top", "7px")], ends := some .invalid } "margin-top"
      = .ok "7px" ∧
    pendingExpanderValidate (β := String) "margin" { items := [("margin-top", "7px")], ends := some .invalid }
      "margin-right" = .error .invalid := by decide

/-! ### `@font-face { font-family: x; src: format("woff") }`: a descriptor validator that crashes -/

/-- The `src` validator raises `IndexError` on `format("woff")` (finding `font-face-src-format-indexerror`; the
`system` validator does the same on an empty value: `counter-style-system-empty-indexerror`): the descriptor
funnel propagates it and the valid `font-family` before it is lost with the whole stylesheet, so "no malformed
stylesheet can abort rendering" needs validators that only raise `InvalidValues`
(`C07.descriptors_only_propagate`). -/
theorem descriptor_funnel_aborts_on_validator_crash :
    let v : String → Desc → R (Option String) := fun name _ =>
      if name = "src" then .error .indexError else .ok (some "x")
    let d (n : String) (i : Nat) : Desc := { kind := .declaration, name := n, important := false, id := i }
    preprocessDescriptors "font-face" v [d "font-family" 0] = .ok [("font_family", "x")] ∧
    preprocessDescriptors "font-face" v [d "font-family" 0, d "src" 1] = .error .indexError := by decide

/-! ### `flex: 0.0`: a unitless zero that is not written as an integer -/

/-- `expand_flex` recognises the unitless zero by `token.int_value == 0`; for `0.0` (or `1e-999`) `int_value` is
`None`, the token is a valid `flex-basis` (`get_length` accepts any zero number) and is taken as the basis: the
shorthand means `1 1 0` where `flex: 0` means `0 1 0px` (finding `flex-float-zero-as-basis`). -/
theorem flex_float_zero_is_basis :
    (flexRaw false (fun q => "n:" ++ showRat q) "0px" "auto" [⟨false, true, some 0, "0.0"⟩]).items
      = [("-grow", "n:1"), ("-shrink", "n:1"), ("-basis", "0.0")] ∧
    (flexRaw false (fun q => "n:" ++ showRat q) "0px" "auto" [⟨true, true, some 0, "0"⟩]).items
      = [("-grow", "n:0"), ("-shrink", "n:1"), ("-basis", "0px")] := by decide +kernel

end Wp.Witness.C07
