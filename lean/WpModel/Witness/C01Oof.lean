/-
C01 stage 2a — negation witness: a concrete document on which the *full* conservation statement
("every line of every box, out-of-flow boxes included, is shown exactly once") is false of the model —
and, replayed by `py/harness/pm_oof_corr.py` (`corpus/C01/oof_lost_at_end.json`), of the implementation;
and regression theorems for the witnesses whose defect was repaired in /repo (cdccac3, e3ac9f0, 50ab141; round
4: 0d665d0, 1bc67ce, 24ce8bf):
the same inputs, now with the correct behaviour (their corpus documents stay in the correspondence as
regression cases).
-/
import WpModel.Model.PaginateOof

namespace Wp.PMO.Witness
open Wp Wp.PM

mutual
/-- Every line a fragment shows, out-of-flow descendants included. -/
def allLines : OFrag → List (Nat × Nat)
  | .para _ id _ _ _ _ lines => lines.map (fun l => (id, l.1))
  | .block _ _ _ _ _ kids => allLinesList kids
  | .ph _ _ _ _ => []
def allLinesList : List OFrag → List (Nat × Nat)
  | [] => []
  | f :: fs => allLines f ++ allLinesList fs
end

def st0 : PStyle where
  mt := 0
  mb := 0
  pt := 0
  pb := 0
  bt := 0
  bb := 0
  height := none
  minH := 0
  maxH := none
  brkBefore := .auto
  brkAfter := .auto
  brkInside := .auto
  clone := false
  page := ""
  orphans := 1
  widows := 1
  isRoot := false

def flow (st : PStyle) : OStyle := { toPStyle := st, pos := .static, clear := false }
def absolute (st : PStyle) : OStyle := { toPStyle := st, pos := .abs, clear := false }
def floated (st : PStyle) : OStyle := { toPStyle := st, pos := .float, clear := false }

def mkDoc (pageH : Rat) (kids : List OBox) : Doc :=
  { pageH := pageH, rootLtr := true,
    root := .block 100 (flow { st0 with isRoot := true }) [.block 99 (flow st0) kids] }

/-- What each page shows and what it registers for the next page: (all lines, [(box id, first line to
resume)]). -/
def summary (d : Doc) (fuel : Nat) : Option (List (List (Nat × Nat) × List (Nat × Nat))) :=
  (paginate d fuel).map fun ps =>
    ps.map fun p => (allLines p.root, p.broken.map fun e => (e.box.id, skipLine (subSkipOf (some e.resume))))

/-! ### out-of-flow-lost-at-document-end (known finding)

`<p>` of 2 lines, then a `position:absolute` (or `float:left;width:100%`) `<p>` of 6 lines, on 50px pages
with 10px lines: the in-flow content ends on page 1, so `make_all_pages` stops and clears
`broken_out_of_flow`: lines 3–5 of the out-of-flow paragraph are on no page. -/

def docLostAbs : Doc := mkDoc 50 [.para 1 2 10 (flow st0), .para 2 6 10 (absolute st0)]
def docLostFloat : Doc := mkDoc 50 [.para 1 2 10 (flow st0), .para 2 6 10 (floated st0)]

theorem lost_at_document_end :
    summary docLostAbs 20 = some [([(1, 0), (1, 1), (2, 0), (2, 1), (2, 2)], [(2, 3)])] ∧
    summary docLostFloat 20 = some [([(1, 0), (1, 1), (2, 0), (2, 1), (2, 2)], [(2, 3)])] :=
  ⟨by decide +kernel, by decide +kernel⟩

/-! ### wrapper-of-empty-box-opens-empty-page (new finding, round 4, filed under C03; stage-1 grammar)

`<p>` of 2 lines, then `<div><div style="margin-top:20px"></div></div>`, on 30px pages with 10px lines. The
inner empty box is collapsed through and `_in_flow_layout` exempts it from the page-overflow test; its wrapper
has an in-flow child, so it is *not* "collapsing through", its content box (at `y = 20 + 20`, height 0) is
tested against the page bottom and the wrapper is pushed to a page of its own — which shows nothing at all
(no line, no box with a height, padding or border) and was not asked for by any forced break. Without the
wrapper the same empty box stays on page 1 (`docEmptyBoxAlone`). Found by the trailing-spacer documents added
for seed C03-7; the implementation agrees with the model on it (`corpus/C01/oof_empty_wrapper_page.json`). -/

def docEmptyWrapper : Doc :=
  mkDoc 30 [.para 1 2 10 (flow st0), .block 3 (flow st0) [.block 2 (flow { st0 with mt := 20 }) []]]

def docEmptyBoxAlone : Doc :=
  mkDoc 30 [.para 1 2 10 (flow st0), .block 2 (flow { st0 with mt := 20 }) []]

theorem wrapper_of_empty_box_opens_empty_page :
    summary docEmptyWrapper 20 = some [([(1, 0), (1, 1)], []), ([], [])] ∧
    summary docEmptyBoxAlone 20 = some [([(1, 0), (1, 1)], [])] :=
  ⟨by decide +kernel, by decide +kernel⟩

/-! ### nested-out-of-flow-in-postponed-float — repaired (0d665d0), regression

Two paragraphs (5 lines), then a `float` of `height: 30px` holding a 3-line float, on 70px pages with 10px
lines: the outer float is laid out at `y = 50`; its inner float is cut after 2 lines and registered in
`context.broken_out_of_flow` when the outer float's `block_container_layout` ends. The outer float then ends at
80 > 70 and is postponed to the next page. Before the repair nobody called `remove_placeholders` on the
discarded layout: page 2 showed the "continuation" (line 2) and then the whole outer float again, line 2
twice. Now `_out_of_flow_layout` forgets what is nested in the postponed float: page 1 registers nothing and
page 2 shows the three lines once. -/

def docNestedFloat : Doc :=
  mkDoc 70 [.para 1 3 10 (flow st0), .para 6 2 10 (flow st0),
    .block 3 (floated { st0 with height := some 30 }) [.para 2 3 10 (floated st0)]]

theorem nested_float_in_postponed_float_not_duplicated :
    summary docNestedFloat 20 = some
      [([(1, 0), (1, 1), (1, 2), (6, 0), (6, 1)], []),
       ([(2, 0), (2, 1), (2, 2)], [])] := by decide +kernel

/-! ### float-fragment-duplicated in the block flow — repaired (cdccac3), regression

`<p>` of 2 lines, a 6-line full-width float, then a `<p style="break-before:avoid">`: the float is cut at the
bottom of page 1 and registered in the *local* `broken_out_of_flow` of `block_container_layout`; the next
paragraph does not fit, `find_earlier_page_break` moves the break into the first paragraph and drops the
float from the page. Before the repair the local dict was merged unconditionally: page 2 showed the
continuation (lines 3–5) and then laid the float out again from line 0, lines 3, 4, 5 twice. Now only the
entries whose float is still among `new_children` are merged (`keptBroken`): page 1 registers nothing, the
float starts on page 2 and every line is shown once. -/

def docDupFloat : Doc :=
  mkDoc 50 [.para 1 2 10 (flow st0), .para 2 6 10 (floated st0),
    .para 3 2 10 (flow { st0 with brkBefore := .avoid })]

theorem float_fragment_not_duplicated :
    summary docDupFloat 20 = some
      [([(1, 0)], []),
       ([(1, 1), (2, 0), (2, 1), (2, 2), (2, 3)], [(2, 4)]),
       ([(2, 4), (2, 5), (3, 0), (3, 1)], [])] := by decide +kernel

/-! ### absolute-placeholder-survives-abort — repaired (e3ac9f0), regression

`<p>` of 2 lines, then a `<div>` holding an absolutely positioned 6-line `<p>`, a one-line
`<p style="break-after:avoid">` and a 3-line `<p style="orphans:3">`: the last paragraph does not fit, the
`avoid` finds no earlier break, the `<div>` is cancelled (`abort`). Before the repair `remove_placeholders`
was given the *source* children only: the placeholder stayed in `absolute_boxes`, was laid out invisibly at
the end of page 1, cut and registered; page 2 showed its "continuation" and the whole `<div>` again (lines 3
and 4 twice). Now the placeholders of `new_children` are removed as well: page 1 registers nothing and page
2 shows the absolute box once, from line 0. (Its line 5 is cut by the bottom of the *last* page and lost:
that is the other, still open finding `out-of-flow-lost-at-document-end`; with a following paragraph that
makes a third page — `docAbsAbortTail` — every line of the document is shown exactly once.) -/

def docAbsAbort : Doc :=
  mkDoc 50 [.para 1 2 10 (flow st0),
    .block 5 (flow st0) [.para 2 6 10 (absolute st0), .para 3 1 10 (flow { st0 with brkAfter := .avoid }),
      .para 4 3 10 (flow { st0 with orphans := 3 })]]

theorem absolute_placeholder_removed_on_abort :
    summary docAbsAbort 20 = some
      [([(1, 0), (1, 1)], []),
       ([(2, 0), (2, 1), (2, 2), (2, 3), (2, 4), (3, 0), (4, 0), (4, 1), (4, 2)], [(2, 5)])] := by
  decide +kernel

def docAbsAbortTail : Doc :=
  mkDoc 50 [.para 1 2 10 (flow st0),
    .block 5 (flow st0) [.para 2 6 10 (absolute st0), .para 3 1 10 (flow { st0 with brkAfter := .avoid }),
      .para 4 3 10 (flow { st0 with orphans := 3 })],
    .para 6 2 10 (flow st0)]

theorem absolute_placeholder_removed_on_abort_conserved :
    summary docAbsAbortTail 20 = some
      [([(1, 0), (1, 1)], []),
       ([(2, 0), (2, 1), (2, 2), (2, 3), (2, 4), (3, 0), (4, 0), (4, 1), (4, 2), (6, 0)], [(2, 5)]),
       ([(2, 5), (6, 1)], [])] := by
  decide +kernel

/-! ### two more regression inputs of the same repairs (corpus `oof_float_dropped_by_later_float`,
`oof_nested_abs_abort`)

(1) The cut float is dropped by `find_earlier_page_break` called from `_out_of_flow_layout` (a *second*
float with `break-before: avoid` does not fit) rather than from `_in_flow_layout`. (2) The placeholder of
the cancelled block lies one level deeper (`remove_placeholders` walks `new_children` recursively). Both
showed lines 3–5 of the out-of-flow paragraph twice before the repairs; every line is shown once now. -/

def docDupFloat2 : Doc :=
  mkDoc 50 [.para 1 2 10 (flow st0), .para 2 6 10 (floated st0),
    .para 3 1 10 (floated { st0 with brkBefore := .avoid }), .para 4 1 10 (flow st0)]

theorem cut_float_dropped_by_later_float :
    summary docDupFloat2 20 = some
      [([(1, 0)], []),
       ([(1, 1), (2, 0), (2, 1), (2, 2), (2, 3)], [(2, 4)]),
       ([(2, 4), (2, 5), (3, 0), (4, 0)], [])] := by decide +kernel

def docAbsAbortNested : Doc :=
  mkDoc 50 [.para 1 2 10 (flow st0),
    .block 7 (flow st0) [.block 6 (flow st0) [.para 2 6 10 (absolute st0), .para 3 1 10 (flow st0)],
      .para 4 1 10 (flow { st0 with brkBefore := .avoid, brkAfter := .avoid }),
      .para 5 3 10 (flow { st0 with orphans := 3 })],
    .para 8 2 10 (flow st0)]

theorem nested_placeholder_removed_on_abort :
    summary docAbsAbortNested 20 = some
      [([(1, 0), (1, 1)], []),
       ([(2, 0), (2, 1), (2, 2), (2, 3), (2, 4), (3, 0), (4, 0), (5, 0), (5, 1), (5, 2)], [(2, 5)]),
       ([(2, 5), (8, 0), (8, 1)], [])] := by decide +kernel

/-! ### zero-height float — repaired (50ab141, then 1bc67ce), regression

A float whose border box is 0 high (`height:0`, no padding/border) used to be sent to `y = 0` by
`avoid_collisions`; after 50ab141 it stayed at its static position — over the floats already there; since
1bc67ce it is placed like any other float. Alone, after a 2-line paragraph, it is at `y = 20`
(`docZeroFloat`); with its static position (`y = 10`, after a 10px block) strictly inside a 3-line float it
goes below that float, to `y = 30` (`docZeroFloatInside`; it stayed at 10 before 1bc67ce). -/

def docZeroFloat : Doc :=
  mkDoc 50 [.para 1 2 10 (flow st0), .para 2 1 10 (floated { st0 with height := some 0 }), .para 3 1 10 (flow st0)]

def docZeroFloatInside : Doc :=
  mkDoc 50 [.para 1 3 10 (floated st0), .block 7 (flow { st0 with height := some 10 }) [],
    .para 2 1 10 (floated { st0 with height := some 0 })]

mutual
def fragYs : OFrag → List (Nat × Rat)
  | .para _ id _ _ _ g _ => [(id, g.y)]
  | .block _ id _ _ g kids => (id, g.y) :: fragYsList kids
  | .ph _ id _ y => [(id, y)]
def fragYsList : List OFrag → List (Nat × Rat)
  | [] => []
  | f :: fs => fragYs f ++ fragYsList fs
end

theorem zero_height_float_stays :
    (paginate docZeroFloat 20).map (fun ps => ps.map fun p => fragYs p.root) =
      some [[(100, 0), (99, 0), (1, 0), (2, 20), (3, 20)]] := by decide +kernel

theorem zero_height_float_avoids_floats :
    (paginate docZeroFloatInside 20).map (fun ps => ps.map fun p => fragYs p.root) =
      some [[(100, 0), (99, 0), (1, 0), (7, 0), (2, 30)]] := by decide +kernel

/-! ### earlier-break-keeps-bottom-decoration — repaired (24ce8bf), regression in the stage-2a grammar

A block with `padding-bottom: 5px; margin-bottom: 3px; break-after: avoid` holding a 2-line paragraph, an
absolutely positioned paragraph and a 3-line paragraph, followed by a 2-line paragraph, on 50px pages: the
last paragraph does not fit, `find_earlier_page_break` cuts the block inside its last paragraph. The cut block
used to keep padding-bottom 5 and margin-bottom 3 on page 1; it now has none (its height, 50, is still the one
of its full layout — the repair does not recompute it), and the decoration is drawn on page 2. -/

def docCutBlock : Doc :=
  mkDoc 50 [.block 5 (flow { st0 with pb := 5, mb := 3, brkAfter := .avoid })
      [.para 1 2 10 (flow st0), .para 2 1 10 (absolute st0), .para 3 3 10 (flow st0)],
    .para 4 2 10 (flow st0)]

mutual
/-- (id, y, height, padding-bottom, border-bottom, margin-bottom) of every fragment. -/
def fragGeos : OFrag → List (Nat × List Rat)
  | .para _ id _ _ _ g _ => [(id, [g.y, g.h, g.pb, g.bb, g.mb])]
  | .block _ id _ _ g kids => (id, [g.y, g.h, g.pb, g.bb, g.mb]) :: fragGeosList kids
  | .ph _ id _ y => [(id, [y])]
def fragGeosList : List OFrag → List (Nat × List Rat)
  | [] => []
  | f :: fs => fragGeos f ++ fragGeosList fs
end

theorem earlier_break_cuts_bottom_decoration :
    summary docCutBlock 20 = some
      [([(1, 0), (1, 1), (2, 0), (3, 0), (3, 1)], []), ([(3, 2), (4, 0), (4, 1)], [])] ∧
    (paginate docCutBlock 20).map (fun ps => ps.map fun p => (fragGeos p.root).filter (·.1 == 5)) =
      some [[(5, [0, 50, 0, 0, 0])], [(5, [0, 10, 5, 0, 3])]] :=
  ⟨by decide +kernel, by decide +kernel⟩

end Wp.PMO.Witness
