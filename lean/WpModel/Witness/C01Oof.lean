/-
C01 stage 2a — negation witnesses: concrete documents on which the *full* conservation statement
("every line of every box, out-of-flow boxes included, is shown exactly once") is false of the model —
and, replayed by `py/harness/pm_oof_corr.py` (`corpus/C01/oof_*.json`), of the implementation.
-/
import WpModel.Model.PaginateOof

namespace Wp.PMO.Witness
open Wp Wp.PM

mutual
/-- Every line a fragment shows, out-of-flow descendants included. -/
def allLines : OFrag → List (Nat × Nat)
  | .para _ id _ _ _ _ lines => lines.map (fun l => (id, l.1))
  | .block _ _ _ _ _ kids => allLinesList kids
  | .ph _ _ _ _ => []
def allLinesList : List OFrag → List (Nat × Nat)
  | [] => []
  | f :: fs => allLines f ++ allLinesList fs
end

def st0 : PStyle where
  mt := 0
  mb := 0
  pt := 0
  pb := 0
  bt := 0
  bb := 0
  height := none
  minH := 0
  maxH := none
  brkBefore := .auto
  brkAfter := .auto
  brkInside := .auto
  clone := false
  page := ""
  orphans := 1
  widows := 1
  isRoot := false

def flow (st : PStyle) : OStyle := { toPStyle := st, pos := .static, clear := false }
def absolute (st : PStyle) : OStyle := { toPStyle := st, pos := .abs, clear := false }
def floated (st : PStyle) : OStyle := { toPStyle := st, pos := .float, clear := false }

def mkDoc (pageH : Rat) (kids : List OBox) : Doc :=
  { pageH := pageH, rootLtr := true,
    root := .block 100 (flow { st0 with isRoot := true }) [.block 99 (flow st0) kids] }

/-- What each page shows and what it registers for the next page: (all lines, [(box id, first line to
resume)]). -/
def summary (d : Doc) (fuel : Nat) : Option (List (List (Nat × Nat) × List (Nat × Nat))) :=
  (paginate d fuel).map fun ps =>
    ps.map fun p => (allLines p.root, p.broken.map fun e => (e.box.id, skipLine (subSkipOf (some e.resume))))

/-! ### out-of-flow-lost-at-document-end (known finding)

`<p>` of 2 lines, then a `position:absolute` (or `float:left;width:100%`) `<p>` of 6 lines, on 50px pages
with 10px lines: the in-flow content ends on page 1, so `make_all_pages` stops and clears
`broken_out_of_flow`: lines 3–5 of the out-of-flow paragraph are on no page. -/

def docLostAbs : Doc := mkDoc 50 [.para 1 2 10 (flow st0), .para 2 6 10 (absolute st0)]
def docLostFloat : Doc := mkDoc 50 [.para 1 2 10 (flow st0), .para 2 6 10 (floated st0)]

theorem lost_at_document_end :
    summary docLostAbs 20 = some [([(1, 0), (1, 1), (2, 0), (2, 1), (2, 2)], [(2, 3)])] ∧
    summary docLostFloat 20 = some [([(1, 0), (1, 1), (2, 0), (2, 1), (2, 2)], [(2, 3)])] :=
  ⟨by decide +kernel, by decide +kernel⟩

/-! ### float-fragment-duplicated (known finding)

`<p>` of 2 lines, a 6-line full-width float, then a `<p style="break-before:avoid">`: the float is cut at the
bottom of page 1 and registered in the *local* `broken_out_of_flow` of `block_container_layout`; the next
paragraph does not fit, `find_earlier_page_break` moves the break into the first paragraph and drops the
float from the page — `remove_placeholders` looks for it in `context.broken_out_of_flow`, where it is not
yet, and the local dict is merged afterwards. Page 2 shows the continuation (lines 3–5) and then lays the
float out again from line 0: lines 3, 4, 5 are shown twice (pages 2 and 3). -/

def docDupFloat : Doc :=
  mkDoc 50 [.para 1 2 10 (flow st0), .para 2 6 10 (floated st0),
    .para 3 2 10 (flow { st0 with brkBefore := .avoid })]

theorem float_fragment_duplicated :
    summary docDupFloat 20 = some
      [([(1, 0)], [(2, 3)]),
       ([(2, 3), (2, 4), (2, 5), (1, 1), (2, 0)], [(2, 1)]),
       ([(2, 1), (2, 2), (2, 3), (2, 4), (2, 5), (3, 0)], []),
       ([(3, 1)], [])] := by decide +kernel

/-! ### absolute-placeholder-survives-abort (new finding)

`<p>` of 2 lines, then a `<div>` holding an absolutely positioned 6-line `<p>`, a one-line
`<p style="break-after:avoid">` and a 3-line `<p style="orphans:3">`: the last paragraph does not fit, the
`avoid` finds no earlier break, the `<div>` is cancelled (`abort`) — but `remove_placeholders` is given the
*source* children, which are never the placeholder objects: the placeholder stays in `absolute_boxes`, is
laid out at the end of page 1 (on no fragment tree: invisible), cut, and registered. Page 2 shows its
"continuation" (lines 3–5) *and* the whole `<div>` again with the absolute box from line 0: lines 3 and 4
twice on page 2; line 5, cut again on the last page, is lost. -/

def docAbsAbort : Doc :=
  mkDoc 50 [.para 1 2 10 (flow st0),
    .block 5 (flow st0) [.para 2 6 10 (absolute st0), .para 3 1 10 (flow { st0 with brkAfter := .avoid }),
      .para 4 3 10 (flow { st0 with orphans := 3 })]]

theorem absolute_placeholder_survives_abort :
    summary docAbsAbort 20 = some
      [([(1, 0), (1, 1)], [(2, 3)]),
       ([(2, 3), (2, 4), (2, 5), (2, 0), (2, 1), (2, 2), (2, 3), (2, 4), (3, 0), (4, 0), (4, 1), (4, 2)], [(2, 5)])] := by
  decide +kernel

end Wp.PMO.Witness
