/-
Witness: the C04 break checker (`BreakTrace.badObs`, which asks that the *first page showing a word* of the
box after a side-forcing break has the requested side) can raise a false alarm on a legal PM behaviour: when
that box starts with a box without lines that fills the page, the page that starts the box has the requested
side, but its first *word* is on the following page, of the other side. `C04Pm2.break_checker_accepts_pm`
therefore needs its hypothesis `FirstLine`.
-/
import WpModel.Props.C04Pm2

namespace Wp.Witness.C04Pm2
open Wp Wp.PM

/-- `a` = a one-line paragraph; `b` = a block with `break-before: right` holding an empty block with 20px top
padding and a two-line paragraph; 25px pages, first page a right page. -/
def wDoc : Doc :=
  { pageH := 25, rootLtr := true,
    root := .block 0 { C01.exStyle with isRoot := true }
      [.para 1 1 10 C01.exStyle,
       .block 2 { C01.exStyle with brkBefore := .right }
         [.block 4 { C01.exStyle with pt := 20 } [], .para 3 2 10 C01.exStyle]] }

/-- Pages (right?, blank?, lines): `a`; a blank left page; the right page that starts `b` — showing only the
padded empty block; a left page with the two lines of `b`. -/
theorem pages :
    (paginate wDoc 20).map (fun ps => ps.map (fun p => (p.type.right, p.type.blank, fragLines p.root))) =
      some [(true, false, [(1, 0)]), (false, true, []), (true, false, []), (false, false, [(3, 0), (3, 1)])] := by
  decide +kernel

/-- All other hypotheses of `break_checker_accepts_pm` hold. -/
theorem hypotheses : NoFixedHeight wDoc.root ∧ WellFormed wDoc.root ∧ UniqueParaIds wDoc.root := by
  refine ⟨?_, ?_, ?_⟩
  · simp [wDoc, NoFixedHeight, NoFixedHeightList, C01.exStyle]
  · simp [wDoc, WellFormed, WellFormedList, C01.exStyle]
  · simp [UniqueParaIds, wDoc, paras, parasList]

/-- The checker flags the observation (values `[auto, right, auto]`, last page of `a` = 0, first page with a
word of `b` = 3, a left page). -/
theorem checker_false_alarm :
    (paginate wDoc 20).map (fun ps => (obsOf wDoc ps).map (fun o => (o.values, o.pageA, o.pageB, o.rightB))) =
      some [([.auto, .right, .auto], 0, 3, false)] ∧
    (paginate wDoc 20).map (fun ps => BreakTrace.badObs (obsOf wDoc ps)) = some [0] :=
  ⟨by decide +kernel, by decide +kernel⟩

/-- …although PM did honour the break: `C04Pm2.forced_separates_pages` applies (the page after the blank
one is a right page and starts `b`). -/
theorem break_was_honoured :
    SibAt wDoc.root [] 0 (.para 1 1 10 C01.exStyle)
      (.block 2 { C01.exStyle with brkBefore := .right }
         [.block 4 { C01.exStyle with pt := 20 } [], .para 3 2 10 C01.exStyle]) := by
  simp [SibAt, wDoc]

end Wp.Witness.C04Pm2
