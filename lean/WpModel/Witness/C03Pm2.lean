/-
Witness (found while proving the refinement of the C01 "consecutive pages" checker; reproduced on the real
WeasyPrint, whose output equals the model's on these documents): **stale `next_page` from a discarded child
layout**. `_in_flow_layout` keeps the `next_page` returned by `block_level_layout(child)` even when it then
discards the child's fragment because it does not fit (`new_child = None`) and the page is broken somewhere
else (before the child, or at an earlier opportunity found by `find_earlier_page_break`). If the discarded
layout had stopped at a forced `break-before: right` *inside* the child, the page-maker receives
`next_page = {break: 'right'}` for a page break that is not that forced break: blank pages are inserted
where no break value asks for one, and the fragments of a paragraph end up on non-consecutive pages.
-/
import WpModel.Props.C01Pm2
import WpModel.Props.C03Pm2

namespace Wp.Witness.C03Pm2
open Wp Wp.PM

/-- 45px pages. `P` = paragraph of 3 lines; then `Q` = block with `break-before: avoid` holding a one-line
paragraph and a paragraph with `break-before: right`. `Q` is given the style `q`. -/
def doc (q : PStyle) : Doc :=
  { pageH := 45, rootLtr := true,
    root := .block 0 { C01.exStyle with isRoot := true }
      [.para 1 3 10 C01.exStyle,
       .block 2 q [.para 3 1 10 C01.exStyle, .para 4 1 10 { C01.exStyle with brkBefore := .right }]] }

/-- Per page: right page?, blank?, lines shown. -/
def summary (d : Doc) : Option (List (Bool × Bool × List (Nat × Nat))) :=
  (paginate d 30).map (fun ps => ps.map (fun p => (p.type.right, p.type.blank, fragLines p.root)))

/-- Per page: is the pending `next_page.break` handed to the next page `right`? -/
def pendingRight (d : Doc) : Option (List Bool) :=
  (paginate d 30).map (fun ps => ps.map (fun p => p.nextPage.brk == some .right))

/-- The sane case (`Q` fits): three pages — `P` and the first line of `Q`; the blank left page the
`break-before: right` demands; the last paragraph on a right page. -/
theorem sane : summary (doc { C01.exStyle with brkBefore := .avoid }) =
      some [(true, false, [(1, 0), (1, 1), (1, 2), (3, 0)]), (false, true, []), (true, false, [(4, 0)])] ∧
    pendingRight (doc { C01.exStyle with brkBefore := .avoid }) = some [true, true, false] :=
  ⟨by decide +kernel, by decide +kernel⟩

/-- `Q` with `height: 100px` (taller than the page): its first layout stops at the forced break inside it
(`next_page.break = right`), is discarded because the fixed-height box overflows, `break-before: avoid` sends
the break to the earlier opportunity inside `P` — and the page-maker still gets `break: right`. Seven pages,
three of them blank; the first blank page follows a page that ended *inside paragraph `P`*, between its lines
1 and 2, where nothing asks for a right page; the same stale value is produced again on pages 3 and 5. -/
theorem stale_next_page_fixed_height :
    summary (doc { C01.exStyle with brkBefore := .avoid, height := some 100 }) =
      some [(true, false, [(1, 0), (1, 1)]), (false, true, []), (true, false, [(1, 2)]), (false, true, []),
        (true, false, [(3, 0)]), (false, true, []), (true, false, [(4, 0)])] ∧
    pendingRight (doc { C01.exStyle with brkBefore := .avoid, height := some 100 }) =
      some [true, true, true, true, true, true, false] :=
  ⟨by decide +kernel, by decide +kernel⟩

/-- The same without any fixed height (so within the hypotheses of `C01.pages_conserve`): `Q` with
`box-decoration-break: clone` and `margin-bottom: -50px`, whose stretched fragment overflows. -/
def q2 : PStyle := { C01.exStyle with brkBefore := .avoid, clone := true, mb := -50 }

theorem stale_next_page :
    summary (doc q2) =
      some [(true, false, [(1, 0), (1, 1)]), (false, true, []), (true, false, [(1, 2)]), (false, true, []),
        (true, false, [(3, 0)]), (false, true, []), (true, false, [(4, 0)])] ∧
    pendingRight (doc q2) = some [true, true, true, true, true, true, false] :=
  ⟨by decide +kernel, by decide +kernel⟩

theorem stale_doc_hypotheses : NoFixedHeight (doc q2).root ∧ WellFormed (doc q2).root ∧ UniqueParaIds (doc q2).root := by
  refine ⟨?_, ?_, ?_⟩
  · simp [doc, q2, NoFixedHeight, NoFixedHeightList, C01.exStyle]
  · simp [doc, q2, WellFormed, WellFormedList, C01.exStyle]
  · simp [UniqueParaIds, doc, paras, parasList]

/-- Consequences. (1) Content is conserved (`C01.pages_conserve` applies) and the conservation checker accepts
(`C01Pm2.checker_accepts_pm`), but the *consecutive pages* checker `Trace.scatteredGroups` rejects paragraph
`P` (group 0): its fragments are on pages 0 and 2. So clause (d) of C01 ("fragments of each element on
consecutive pages") is false of the code on the PM fragment, and the C01 trace checker's rejection here is a
genuine finding, not a false alarm. (2) C03's "every page shows new content or is a blank page required by a
left/right/recto/verso break" fails for pages 1, 3: no break value meets between lines 1 and 2 of `P`. -/
theorem scattered_paragraph :
    (paginate (doc q2) 30).map (fun ps => Trace.badGroups (groupsOf (doc q2)) (pageWordsOf ps)) = some [] ∧
    (paginate (doc q2) 30).map (fun ps => Trace.scatteredGroups (groupsOf (doc q2)) (pageWordsOf ps)) = some [0] ∧
    (paginate (doc q2) 30).map (fun ps => Trace.pagesOf (paraWords (1, 3)) (pageWordsOf ps)) = some [0, 2] :=
  ⟨by decide +kernel, by decide +kernel, by decide +kernel⟩

/-- The resume position handed over by page 0 is inside paragraph `P` (line 2), and the pending break is
`right`. -/
theorem page0_state :
    (paginate (doc q2) 30).map (fun ps => ps.head?.map (fun p =>
      (skipIdxOf p.resume, skipIdxOf (subSkipOf p.resume), skipLine (subSkipOf (subSkipOf p.resume)),
        p.nextPage.brk == some .right))) = some (some (0, 0, 2, true)) := by decide +kernel

/-- The page-count bound of `C03Pm2.page_count_bound` still holds (7 ≤ 2·10 + 2). -/
theorem bound_still_holds : size (doc q2).root = 10 := by
  simp [doc, size, sizeList]

end Wp.Witness.C03Pm2
