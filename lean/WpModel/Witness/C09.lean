/-
C09 — witnesses: clauses of the property that are false of the current code, on concrete inputs
(each mirrored by a `finding:` line of known_findings.txt and a replay function of py/props/c09.py),
regression theorems for the repaired findings (the now-correct behaviour on the old witness input),
and the reason why `heuristic_transparent` needs a hypothesis on the text.
-/
import WpModel.Model.LineBreak
import WpModel.Model.InlineRun
import WpModel.Model.LineVertical
import WpModel.Model.LineFloats

namespace Wp.Witness.C09
open Wp Wp.Py Wp.Pango Wp.LB

def normalStyle (wb : WB) (ow : OW) : Style := { ws := .normal, wb := wb, ow := ow, fs := 10 }

/-- finding `break-all-hyphen-width`: `word-break: break-all`, font-size 10px, 25px available, text
`aaaaaaa`: the first line holds one character (width 10) although two fit (20 ≤ 25) — first-fit
maximality is false.  Step 5 re-wraps with WRAP_CHAR while Pango's automatic hyphens are still on,
so the width of a hyphen that is never drawn is charged at the in-word break. -/
theorem break_all_line_not_maximal :
    (splitFirstLine (normalStyle .breakAll .normal) "aaaaaaa".toList (.fin 25) true false).toOption
      = some { length := 1, resume := some 1, width := 10, text := "a".toList }
    ∧ ((2 : Rat) * 10 ≤ 25) := by
  decide +kernel

/-- the same text under `overflow-wrap: anywhere` (hyphens off) gets the two characters that fit -/
theorem anywhere_line_is_maximal :
    (splitFirstLine (normalStyle .normal .anywhere) "aaaaaaa".toList (.fin 25) true false).toOption
      = some { length := 2, resume := some 2, width := 20, text := "aa".toList } := by
  decide +kernel

/-- regression of the repaired finding `negative-width-unbroken` (fix 3c674e2): `overflow-wrap: anywhere`
with a negative available width (`text-indent` larger than the block).  `int(max_width * 1024) < 0`
meant "no width" to Pango and the whole text `aa b cc` stayed on one line (width 70); the width is now
clamped to 0 and the line is broken down to the smallest unit, one character. -/
theorem negative_width_line_broken :
    (splitFirstLine (normalStyle .normal .anywhere) "aa b cc".toList (.fin (-10)) true false).toOption
      = some { length := 1, resume := some 1, width := 10, text := "a".toList } := by
  decide +kernel

/-- … and with `overflow-wrap: normal` the same call still breaks after the first word -/
theorem negative_width_normal_breaks :
    (splitFirstLine (normalStyle .normal .normal) "aa b cc".toList (.fin (-10)) true false).toOption
      = some { length := 2, resume := some 3, width := 20, text := "aa".toList } := by
  decide +kernel

/-- the step-5 layout always has a width now: a negative available width behaves like width 0 -/
theorem step5_width_never_unconstrained (lay : Layout) (text : Text) (W : Rat) :
    (step5Layout lay text W).width ≠ none := by
  simp [step5Layout]

theorem step5_negative_width_is_zero (lay : Layout) (text : Text) (W : Rat) (h : W ≤ 0) :
    step5Layout lay text W = step5Layout lay text 0 := by
  have hm : max 0 W = max 0 (0 : Rat) := by
    rw [Rat.max_def, Rat.max_def]
    split <;> split <;> grind
  simp only [step5Layout, hm]

/-- `heuristic_transparent` is false for arbitrary texts: with a space before a preserved newline
under a collapsing `white-space` (a text `process_whitespace` never produces) the result depends on
the speed heuristic — the prefix `aaa \n` is handed to Pango and the newline is consumed
(`resume_index = 5`), the whole text is not and it is left for the next line (`resume_index = 4`). -/
theorem heuristic_not_transparent_with_space_before_newline :
    (splitFirstLineH true { ws := .normal, wb := .normal, ow := .breakWord, fs := 30 }
        "aaa \n aaaa".toList (.fin (195 / 2)) true false).toOption
      = some { length := 3, resume := some 5, width := 90, text := "aaa".toList } ∧
    (splitFirstLineH false { ws := .normal, wb := .normal, ow := .breakWord, fs := 30 }
        "aaa \n aaaa".toList (.fin (195 / 2)) true false).toOption
      = some { length := 3, resume := some 4, width := 90, text := "aaa".toList } := by
  decide +kernel

/-! ### nested inline boxes (`Model/InlineRun`) -/

def inlinePara (width : Rat) (kids : List IR.Node) : IR.Para :=
  { st := { ws := .normal, wb := .normal, ow := .normal, fs := 10 }, kids := kids, lineHeight := 10,
    cbx := 0, width := width, indent := 0,
    align := { alignAll := .start, alignLast := none, ws := .normal, rtl := false }, y := 0 }

def lineWidths (p : IR.Para) : Option (List Rat) := (IR.paragraph p).toOption.map (·.map (·.w))

/-- finding `inline-start-spacing-overflow`: `<span style="padding-left:30px">aaa bbb ccc</span>` in a
90px block: the first line (`aaa bbb`, breakable) is 100px wide. -/
theorem inline_start_spacing_overflows :
    lineWidths (inlinePara 90 [.box 30 0 true [.text "aaa bbb ccc".toList]]) = some [100, 30] := by
  decide +kernel

/-- finding `inline-end-spacing-overflow`: `<span style="padding-right:30px">aa <b>bb </b>cc</span>` in
an 80px block: everything stays on one line of 110px, the opportunity before `cc` is not used. -/
theorem inline_end_spacing_overflows :
    lineWidths (inlinePara 80 [.box 0 30 true
      [.text "aa ".toList, .box 0 0 false [.text "bb ".toList], .text "cc".toList]]) = some [110] := by
  decide +kernel

/-- finding `inline-end-spacing-reserved-early`: `<span style="padding-right:30px">xxxx x x</span>` in an
85px block: the first line is `xxxx` (40px) although `xxxx x` (60px) fits — the span continues on the
next line, so no end spacing has to be kept on the first. -/
theorem inline_end_spacing_reserved_early :
    lineWidths (inlinePara 85 [.box 0 30 true [.text "xxxx x x".toList]]) = some [40, 60] := by
  decide +kernel

/-- finding `inline-box-width-stale`: `<span>aaa bbb<span style="padding-left:10px"> ccc</span></span>` in
a 70px block: on the first line the outer span is 70px wide and its only child `aaa` is 30px wide —
the extents of the inline boxes do not add up. -/
theorem inline_box_width_stale :
    (IR.paragraph (inlinePara 70 [.box 0 0 false [.text "aaa bbb".toList,
        .box 10 0 true [.text " ccc".toList]]])).toOption.map
      (fun ls => ls.head?.map (fun l => l.kids.map (fun f => (f.marginWidth,
        match f with
        | .box _ _ _ _ _ kids => kids.map IR.Frag.marginWidth
        | _ => [])))) = some (some [(70, [30])]) := by
  decide +kernel

/-- finding `waiting-box-boundary-opportunity-unused`: `<span><i>rr </i>anin</span>sss` in a 75px block:
one line of 100px.  When `sss` overflows, `_break_waiting_children` asks `can_break_inside` of the waiting
span, which looks only *inside* its text boxes (`rr `: none, `anin`: none) and never at the boundary
between its two children, so the opportunity after `rr ` is not used … -/
theorem boundary_opportunity_in_waiting_box_unused :
    lineWidths (inlinePara 75 [.box 0 0 false [.box 0 0 false [.text "rr ".toList], .text "anin".toList],
      .text "sss".toList]) = some [100] := by
  decide +kernel

/-- … while the same text in one text box, `<span>rr anin</span>sss`, is broken after `rr`. -/
theorem same_text_in_one_box_breaks :
    lineWidths (inlinePara 75 [.box 0 0 false [.text "rr anin".toList], .text "sss".toList]) = some [20, 70] := by
  decide +kernel

/-- regression of the repaired finding `preserved-line-break-flag-stale-after-rebreak` (fix 889a2ec):
`white-space: pre-line`, 120px, `text-align-last: right`, `uuuu wwwww<span>rrrrr\nx</span> jjj`.  The
span's text ends at a preserved line break, but it overflows and `_break_waiting_children` re-breaks the
waiting text after `uuuu `: the first line `uuuu` used to be returned with the stale flag and aligned
as a last line (x = 80); it is now at the start edge, the line `wwwwwrrrrr` that really ends at the
forced break and the last line stay right-aligned … -/
theorem shortened_line_not_aligned_as_last :
    (IR.paragraph { inlinePara 120 [.text "uuuu wwwww".toList, .box 0 0 false [.text "rrrrr\nx".toList], .text " jjj".toList] with
        st := { ws := .preLine, wb := .normal, ow := .normal, fs := 10 },
        align := { alignAll := .start, alignLast := some .right, ws := .preLine, rtl := false } }).toOption.map
      (fun ls => ls.map (fun l => (l.x, l.w))) = some [(0, 40), (20, 100), (70, 50)] := by
  decide +kernel

/-- … like the same first line without the preserved line break in the span. -/
theorem shortened_line_without_newline_at_start :
    (IR.paragraph { inlinePara 120 [.text "uuuu wwwww".toList, .box 0 0 false [.text "rrrrr x".toList], .text " jjj".toList] with
        st := { ws := .preLine, wb := .normal, ow := .normal, fs := 10 },
        align := { alignAll := .start, alignLast := some .right, ws := .preLine, rtl := false } }).toOption.map
      (fun ls => ls.map (fun l => (l.x, l.w))) = some [(0, 40), (0, 120), (90, 30)] := by
  decide +kernel

/-- regression of the repaired finding `nowrap-breaks-after-collapsed-space` (fix fd6f32a):
`white-space: nowrap`, 50px, `aaa <b> </b>bbb`.  The space of `<b>` collapses with the one before it; the
emptied `<b>` carries `trailing_collapsible_space`, so `last_letter is True` when `bbb` comes; the
`white_space in ('pre', 'nowrap')` test was an `elif` of that branch and was skipped: the line was broken
(`aaa ` / `bbb`).  It is one overflowing line of 70 now … -/
theorem nowrap_does_not_break_after_collapsed_space :
    lineWidths { inlinePara 50 [.text "aaa ".toList, .flagged (.box 0 0 false []), .text "bbb".toList] with
      st := { ws := .nowrap, wb := .normal, ow := .normal, fs := 10 },
      align := { alignAll := .start, alignLast := none, ws := .nowrap, rtl := false } } = some [70] := by
  decide +kernel

/-- … while under `white-space: normal` the collapsed space is still a break opportunity … -/
theorem normal_breaks_after_collapsed_space :
    lineWidths (inlinePara 50 [.text "aaa ".toList, .flagged (.box 0 0 false []), .text "bbb".toList]) = some [40, 30] := by
  decide +kernel

/-- … and `aaa <b>x</b>bbb` under `nowrap` stays on one overflowing line, as before. -/
theorem nowrap_keeps_one_line_without_collapsed_space :
    lineWidths { inlinePara 50 [.text "aaa ".toList, .box 0 0 false [.text "x".toList], .text "bbb".toList] with
      st := { ws := .nowrap, wb := .normal, ow := .normal, fs := 10 },
      align := { alignAll := .start, alignLast := none, ws := .nowrap, rtl := false } } = some [80] := by
  decide +kernel

/-! ### vertical placement (`Model/LineVertical`) -/

def vst (fs : Rat) (va : LV.VAlign) : LV.VStyle :=
  { fs := fs, lh := .normal, va := va, bt := 0, pt := 0, pb := 0, bb := 0,
    textHeight := fs, textBaseline := fs * 4 / 5, ex := 1 / 2 }

mutual
/-- `position_y` of a box and of all its descendants, in document order -/
def allYs : LV.VBox → List Rat
  | .text y _ _ _ _ _ => [y]
  | .box y _ _ _ _ _ kids => y :: allYsL kids
def allYsL : List LV.VBox → List Rat
  | [] => []
  | k :: ks => allYs k ++ allYsL ks
end

/-- regression of the repaired finding `vertical-align-top-bottom-subtree` (fix 5152049):
`aa <span style="vertical-align:top"><b style="font-size:20px">dd</b></span>` at 10px: the line box is
`[0, 20]`; the boxes `aa`, `<span>`, `<b>`, `dd` are at y = 0, 8, 0, 0.  Before the fix the text `dd`
(20px high) was left behind at y = −8, above the line box and over the previous line: `translate_subtree`
moved the `<b>` box with its parent but not its text. -/
theorem top_aligned_grandchild_moves_with_subtree :
    (LV.layoutLine (vst 10 .baseline)
      [.text (vst 10 .baseline), .box (vst 10 .top) [.box (vst 20 .baseline) [.text (vst 20 .baseline)]]] 0).toOption.map
      (fun l => (l.y, l.height, allYsL l.kids)) = some (0, 20, [0, 8, 0, 0]) := by
  decide +kernel

/-- a `bottom` box nested in a `top` box is aligned on its own, once (it used to be moved twice):
`<span style="vertical-align:top;line-height:30px"><i style="vertical-align:bottom">x</i></span>` at 10px in
a line `[0, 30]`: the `<i>` box and its text end at the bottom of the line box (y = 20, 10 high). -/
theorem nested_bottom_in_top_aligned_once :
    (LV.layoutLine (vst 10 .baseline)
      [.box { vst 10 .top with lh := .px 30 } [.box (vst 10 .bottom) [.text (vst 10 .baseline)]]] 0).toOption.map
      (fun l => (l.y, l.height, allYsL l.kids)) = some (0, 30, [0, 20, 20]) := by
  decide +kernel

/-! ### lines next to floats -/

def floatPara (indent : Rat) : Para :=
  { st := normalStyle .normal .normal, text := "aa bbb".toList, lineHeight := 10, cbx := 0, width := 40,
    indent := indent, align := { alignAll := .start, alignLast := none, ws := .normal, rtl := false }, y := 0 }

/-- a right float `[26, 40] × [0, 40]` in a block 40 wide -/
def rightFloat : List Floats.Shape := [⟨26, 0, 14, 40, .right⟩]

def lineXYW (r : Except PyErr (List OutLine)) : Option (List (Rat × Rat × Rat)) :=
  r.toOption.map (·.map fun l => (l.x, l.y, l.w))

/-- finding `float-gap-text-indent-later-lines`: `inline_min_content_width` adds the `text-indent` of
the block to the min-content width of *every* line (`inline_line_widths` reads `style['text_indent']`,
not `linebox.text_indent`, which `iter_line_boxes` resets to 0 after the first line).  With
`text-indent: -5px` the second line `bbb` (30 wide) is believed to need 25 and is put at `y = 10` into
the gap of 26 beside the float: it spans `[0, 30]` and overlaps the float `[26, 40]`. -/
theorem float_gap_ignores_line_width_with_indent :
    lineXYW (LF.paragraph rightFloat (floatPara (-5))) = some [(0, 0, 15), (0, 10, 30)] := by
  decide +kernel

/-- … without `text-indent` the same line is moved below the float (`y = 40`) -/
theorem float_gap_respected_without_indent :
    lineXYW (LF.paragraph rightFloat (floatPara 0)) = some [(0, 0, 20), (0, 40, 30)] := by
  decide +kernel


def bandPara : Para :=
  { st := normalStyle .normal .normal, text := "aaa bbb".toList, lineHeight := 20, cbx := 0, width := 100,
    indent := 0, align := { alignAll := .right, alignLast := none, ws := .normal, rtl := false }, y := 0 }

def lineXYWH (r : Except PyErr (List OutLine)) : Option (List (Rat × Rat × Rat × Rat)) :=
  r.toOption.map (·.map fun l => (l.x, l.y, l.w, l.h))

/-- finding `float-align-width-not-of-line-box`: the width `text_align` works in comes from a
second `avoid_collisions` made with `line.height`, which at that point is the font size (10), not the
line-height (20).  A right float `[60, 100] × [12.5, 27.5]` that starts in the lower half-leading of
the first line is seen by the first placement (the text is split in 60) but not by the second: the
line `aaa` is right-aligned in the whole 100 and its box `[70, 100] × [0, 20]` lies over the float. -/
theorem float_in_half_leading_ignored_by_alignment :
    lineXYWH (LF.paragraph [⟨60, 25 / 2, 40, 15, .right⟩] bandPara) = some [(70, 0, 30, 20), (30, 20, 30, 20)] := by
  decide +kernel

/-- … a float that starts inside the font-size band is respected -/
theorem float_in_font_size_band_respected :
    lineXYWH (LF.paragraph [⟨60, 5, 40, 15, .right⟩] bandPara) = some [(30, 0, 30, 20), (70, 20, 30, 20)] := by
  decide +kernel

/-! ### hypotheses of `Props/C09` that cannot be dropped -/

/-- `max_content_fits_one_line` needs the font size to be a whole number of Pango units (`hk`): with a
glyph advance of 1/3 px the max-content width 5/3 px of `aa aa` is truncated to 1706 units by
`int(max_width * 1024)`, less than the 1706⅔ the text needs, and the line breaks.  (Real glyph
advances are whole Pango units: this is a statement about the model's domain, not a defect.) -/
theorem max_content_breaks_with_fractional_units :
    (splitFirstLine { ws := .normal, wb := .normal, ow := .normal, fs := 1 / 3 } "aa aa".toList
      (.fin (5 / 3)) true false).toOption
      = some { length := 2, resume := some 3, width := 2 / 3, text := "aa".toList } := by
  decide +kernel

end Wp.Witness.C09
