/-
C09 — witnesses: clauses of the property that are false of the current code, on concrete inputs
(each mirrored by a `finding:` line of known_findings.txt and a replay function of py/props/c09.py),
and the reason why `heuristic_transparent` needs a hypothesis on the text.
-/
import WpModel.Model.LineBreak
import WpModel.Model.InlineRun

namespace Wp.Witness.C09
open Wp Wp.Py Wp.Pango Wp.LB

def normalStyle (wb : WB) (ow : OW) : Style := { ws := .normal, wb := wb, ow := ow, fs := 10 }

/-- finding `break-all-hyphen-width`: `word-break: break-all`, font-size 10px, 25px available, text
`aaaaaaa`: the first line holds one character (width 10) although two fit (20 ≤ 25) — first-fit
maximality is false.  Step 5 re-wraps with WRAP_CHAR while Pango's automatic hyphens are still on,
so the width of a hyphen that is never drawn is charged at the in-word break. -/
theorem break_all_line_not_maximal :
    (splitFirstLine (normalStyle .breakAll .normal) "aaaaaaa".toList (.fin 25) true false).toOption
      = some { length := 1, resume := some 1, width := 10, text := "a".toList }
    ∧ ((2 : Rat) * 10 ≤ 25) := by
  decide +kernel

/-- the same text under `overflow-wrap: anywhere` (hyphens off) gets the two characters that fit -/
theorem anywhere_line_is_maximal :
    (splitFirstLine (normalStyle .normal .anywhere) "aaaaaaa".toList (.fin 25) true false).toOption
      = some { length := 2, resume := some 2, width := 20, text := "aa".toList } := by
  decide +kernel

/-- finding `negative-width-unbroken`: `overflow-wrap: anywhere` with a negative available width
(`text-indent` larger than the block): `int(max_width * 1024) < 0` means "no width" to Pango, the
whole text `aa b cc` stays on one line (width 70), although it could break after `aa`. -/
theorem negative_width_line_unbroken :
    (splitFirstLine (normalStyle .normal .anywhere) "aa b cc".toList (.fin (-10)) true false).toOption
      = some { length := 7, resume := none, width := 70, text := "aa b cc".toList } := by
  decide +kernel

/-- … while with `overflow-wrap: normal` the same call breaks after the first word -/
theorem negative_width_normal_breaks :
    (splitFirstLine (normalStyle .normal .normal) "aa b cc".toList (.fin (-10)) true false).toOption
      = some { length := 2, resume := some 3, width := 20, text := "aa".toList } := by
  decide +kernel

/-- `heuristic_transparent` is false for arbitrary texts: with a space before a preserved newline
under a collapsing `white-space` (a text `process_whitespace` never produces) the result depends on
the speed heuristic — the prefix `aaa \n` is handed to Pango and the newline is consumed
(`resume_index = 5`), the whole text is not and it is left for the next line (`resume_index = 4`). -/
theorem heuristic_not_transparent_with_space_before_newline :
    (splitFirstLineH true { ws := .normal, wb := .normal, ow := .breakWord, fs := 30 }
        "aaa \n aaaa".toList (.fin (195 / 2)) true false).toOption
      = some { length := 3, resume := some 5, width := 90, text := "aaa".toList } ∧
    (splitFirstLineH false { ws := .normal, wb := .normal, ow := .breakWord, fs := 30 }
        "aaa \n aaaa".toList (.fin (195 / 2)) true false).toOption
      = some { length := 3, resume := some 4, width := 90, text := "aaa".toList } := by
  decide +kernel

/-! ### nested inline boxes (`Model/InlineRun`) -/

def inlinePara (width : Rat) (kids : List IR.Node) : IR.Para :=
  { st := { ws := .normal, wb := .normal, ow := .normal, fs := 10 }, kids := kids, lineHeight := 10,
    cbx := 0, width := width, indent := 0,
    align := { alignAll := .start, alignLast := none, ws := .normal, rtl := false }, y := 0 }

def lineWidths (p : IR.Para) : Option (List Rat) := (IR.paragraph p).toOption.map (·.map (·.w))

/-- finding `inline-start-spacing-overflow`: `<span style="padding-left:30px">aaa bbb ccc</span>` in a
90px block: the first line (`aaa bbb`, breakable) is 100px wide. -/
theorem inline_start_spacing_overflows :
    lineWidths (inlinePara 90 [.box 30 0 true [.text "aaa bbb ccc".toList]]) = some [100, 30] := by
  decide +kernel

/-- finding `inline-end-spacing-overflow`: `<span style="padding-right:30px">aa <b>bb </b>cc</span>` in
an 80px block: everything stays on one line of 110px, the opportunity before `cc` is not used. -/
theorem inline_end_spacing_overflows :
    lineWidths (inlinePara 80 [.box 0 30 true
      [.text "aa ".toList, .box 0 0 false [.text "bb ".toList], .text "cc".toList]]) = some [110] := by
  decide +kernel

/-- finding `inline-end-spacing-reserved-early`: `<span style="padding-right:30px">xxxx x x</span>` in an
85px block: the first line is `xxxx` (40px) although `xxxx x` (60px) fits — the span continues on the
next line, so no end spacing has to be kept on the first. -/
theorem inline_end_spacing_reserved_early :
    lineWidths (inlinePara 85 [.box 0 30 true [.text "xxxx x x".toList]]) = some [40, 60] := by
  decide +kernel

/-- finding `inline-box-width-stale`: `<span>aaa bbb<span style="padding-left:10px"> ccc</span></span>` in
a 70px block: on the first line the outer span is 70px wide and its only child `aaa` is 30px wide —
the extents of the inline boxes do not add up. -/
theorem inline_box_width_stale :
    (IR.paragraph (inlinePara 70 [.box 0 0 false [.text "aaa bbb".toList,
        .box 10 0 true [.text " ccc".toList]]])).toOption.map
      (fun ls => ls.head?.map (fun l => l.kids.map (fun f => (f.marginWidth,
        match f with
        | .box _ _ _ _ _ kids => kids.map IR.Frag.marginWidth
        | _ => [])))) = some (some [(70, [30])]) := by
  decide +kernel

end Wp.Witness.C09
