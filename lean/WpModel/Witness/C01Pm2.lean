/-
Witness: full conservation (`C01.pages_conserve`) is false as soon as a box has a fixed `height`
(known finding `fixed-height-forgets-overflow`): `forgetIfFixed` drops the resume position of a fixed-height
box whose content position has passed the bottom of the box.
-/
import WpModel.Props.C01Pm2

namespace Wp.Witness.C01Pm2
open Wp Wp.PM

/-- A 5-line paragraph (line height 10) with `height: 10px`, followed by a 3-line paragraph, on 25px pages.
Page 1 shows lines 0–1 of the first paragraph; the paragraph stops before line 2, but since its content
position (20) is below the bottom of its fixed-height box (10) the resume position is forgotten: lines 2, 3, 4
are never shown, and the second paragraph starts on the same page (at y = 10, over line 1). -/
def lossDoc : Doc := _root_.Wp.C01Pm2.lossDoc

theorem fixed_height_loses_lines :
    (paginate lossDoc 20).map (fun ps => (ps.map (fun p => fragLines p.root)).flatten) =
      some [(1, 0), (1, 1), (2, 0), (2, 1), (2, 2)] ∧
    linesFrom lossDoc.root none = [(1, 0), (1, 1), (1, 2), (1, 3), (1, 4), (2, 0), (2, 1), (2, 2)] :=
  ⟨by decide +kernel, by decide +kernel⟩

/-- Hence `C01.pages_conserve` cannot drop its hypothesis `NoFixedHeight`. -/
theorem pages_conserve_needs_no_fixed_height :
    ¬ ∀ (d : Doc), WellFormed d.root → ∀ fuel pages, paginate d fuel = some pages →
      (pages.map (fun p => fragLines p.root)).flatten = linesFrom d.root none := by
  intro h
  have hw : WellFormed lossDoc.root := by
    simp [lossDoc, _root_.Wp.C01Pm2.lossDoc, WellFormed, WellFormedList, C01.exStyle]
  cases hp : paginate lossDoc 20 with
  | none =>
    have := fixed_height_loses_lines.1
    rw [hp] at this; cases this
  | some pages =>
    have h1 := h lossDoc hw 20 pages hp
    have h2 := fixed_height_loses_lines
    rw [hp] at h2
    simp only [Option.map_some, Option.some.injEq] at h2
    rw [h2.1, h2.2] at h1
    exact absurd h1 (by decide)

/-- The lost lines are exactly lines of the fixed-height paragraph (`Wp.C01Pm2.lost_only_under_fixed_height`). -/
theorem lost_lines_are_fixed :
    _root_.Wp.C01Pm2.fixedLines lossDoc.root = [(1, 0), (1, 1), (1, 2), (1, 3), (1, 4)] := by decide +kernel

/-- The same with a fixed-height *block*: its children that do not fit on the page where it starts are lost
(whole paragraphs 4 and 5). -/
def lossDoc2 : Doc :=
  { pageH := 25, rootLtr := true,
    root := .block 0 { C01.exStyle with isRoot := true }
      [.block 3 { C01.exStyle with height := some 10 }
        [.para 1 2 10 C01.exStyle, .para 4 2 10 C01.exStyle, .para 5 1 10 C01.exStyle],
       .para 2 3 10 C01.exStyle] }

theorem fixed_height_block_loses_children :
    (paginate lossDoc2 20).map (fun ps => (ps.map (fun p => fragLines p.root)).flatten) =
      some [(1, 0), (1, 1), (2, 0), (2, 1), (2, 2)] ∧
    linesFrom lossDoc2.root none = [(1, 0), (1, 1), (4, 0), (4, 1), (5, 0), (2, 0), (2, 1), (2, 2)] :=
  ⟨by decide +kernel, by decide +kernel⟩

/-- Why `C01Pm2.checker_accepts_pm` asks for pairwise distinct paragraph ids (the harness numbers the boxes):
with two paragraphs carrying the same id the words coincide and the trace checker — rightly, on what it is
shown — reports both groups, although PM conserved every line. -/
def dupDoc : Doc :=
  { pageH := 25, rootLtr := true,
    root := .block 0 { C01.exStyle with isRoot := true } [.para 7 1 10 C01.exStyle, .para 7 1 10 C01.exStyle] }

theorem duplicate_ids_are_flagged :
    (paginate dupDoc 10).map (fun ps => Trace.badGroups (groupsOf dupDoc) (pageWordsOf ps)) = some [0, 1] ∧
    (paginate dupDoc 10).map (fun ps => (ps.map (fun p => fragLines p.root)).flatten) =
      some (linesFrom dupDoc.root none) :=
  ⟨by decide +kernel, by decide +kernel⟩

end Wp.Witness.C01Pm2
