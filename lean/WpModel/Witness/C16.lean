/-
C16 — witnesses: clauses that are false of the current code, refuted on a concrete input of the model
(mirrored by a `finding:` line in known_findings.txt and a replay on the real implementation in py/props/c16.py):
`objr_not_in_structure_tree`; and regression theorems for the repaired findings (`fixed:` lines), stating the now-correct
behaviour on the input that used to refute the clause: `alpha_state_cache_regression`, `dests_names_sorted_regression`,
`none_component_regression`, `embedded_files_sorted_regression`.
-/
import WpModel.Model.PdfStream
import WpModel.Model.PdfNames
import WpModel.Model.PdfUaLinks

namespace Wp.C16.Witness
open Wp Wp.Pdf

/-- Painting operators with the graphics state they are executed under, of a run (empty on a Python exception). -/
def paintsOf (x : Except PyErr (SState × Res)) : List (Op × GS) :=
  match x with
  | .ok p => paints p.1.rops
  | .error _ => []

/-- What `draw_text` + `set_mask_border` do for two texts of the same translucent colour, the second one in a box with
a mask border: `set_alpha(0.5)`, paint, `set_alpha_state(…)` (an ExtGState with `ca 1`; as repaired it also forgets
`_current_alpha`), `set_alpha(0.5)`, paint. -/
def staleAlphaCalls : List Call :=
  [.setAlpha (.flt (1/2)) false none, .raw .fill [] false "-",
   .softMaskState,
   .setAlpha (.flt (1/2)) false none, .raw .fill [] false "-"]

/-- Regression of the fixed finding `alpha-state-stale-cache` (commit acee745): on the input that refuted `cache_sound`,
the cached emission now executes both fills under what the cache-free reference emission executes them under … -/
theorem alpha_state_cache_regression :
    paintsOf (runS {} {} staleAlphaCalls) = paintsOf (runNaive {} {} staleAlphaCalls) := by decide +kernel

/-- … namely the second fill under the requested `ca = 0.5` (it was `1` before the repair), in both emissions. -/
theorem alpha_state_cache_regression_values :
    ((paintsOf (runS {} {} staleAlphaCalls)).head?.map (·.2.ca) = some (some (.flt (1/2)))) ∧
    ((paintsOf (runNaive {} {} staleAlphaCalls)).head?.map (·.2.ca) = some (some (.flt (1/2)))) := by
  decide +kernel

/-- What the repair prevents: the same calls with a bare `set_state` carrying `ca 1` (the code before the repair) are
executed under `ca = 1` — the remaining hypothesis `Call.cacheSafe` of `cache_sound` is needed. -/
theorem bare_set_state_still_stale :
    paintsOf (runS {} {} [.setAlpha (.flt (1/2)) false none, .setState softMaskDict,
      .setAlpha (.flt (1/2)) false none, .raw .fill [] false "-"]) ≠
    paintsOf (runNaive {} {} [.setAlpha (.flt (1/2)) false none, .setState softMaskDict,
      .setAlpha (.flt (1/2)) false none, .raw .fill [] false "-"]) := by decide +kernel

/-- Regression of the fixed finding `dests-names-unsorted` (commit 09da5a8): anchors named `aé` and `b`.  The key of
`aé` is written as `<FEFF 0061 00E9>` whose first byte `FE` is above `b` (`62`); the array is now ordered by these
bytes (`b` first) and sorted; the old `sorted(pdf_names)` order (code points: `aé` first) was not. -/
theorem dests_names_sorted_regression :
    PdfNames.destKeys [[98], [97, 233]] = [[98], [0xFE, 0xFF, 0, 97, 0, 233]] ∧
    PdfNames.sortedBy PdfNames.lexLe (PdfNames.destKeys [[98], [97, 233]]) = true ∧
    PdfNames.sortedBy PdfNames.lexLe (PdfNames.destKeysStrOrder [[98], [97, 233]]) = false := by decide

/-- Regression of the fixed finding `none-component-unsupported-space` (commit 57f3ce9): `color(display-p3 none 0 1)`
is written `0 0 1 rg`, not `None 0 1 rg`. -/
theorem none_component_regression :
    (colourOps ⟨"display-p3", .none, .int 0, .int 1, .int 1, .none, .int 0, .int 1⟩ false).map Op.render =
      ["0_0_1_rg"] := by decide +kernel

/-- Regression of the fixed finding `embedded-files-sorted-by-serialised-key` (commit e909019): attachments named `a`
and `a b`, and `a(` and `aA`.  The array is now ordered by the bytes of the names (`a` before `a b`, `a(` before `aA`) and
sorted; the old order by the written forms `(a)` / `(a b)` / `(a\()` was not. -/
theorem embedded_files_sorted_regression :
    PdfNames.embeddedKeys [[97, 32, 98], [97]] = [[97], [97, 32, 98]] ∧
    PdfNames.sortedBy PdfNames.lexLe (PdfNames.embeddedKeys [[97, 32, 98], [97]]) = true ∧
    PdfNames.sortedBy PdfNames.lexLe (PdfNames.embeddedKeys [[97, 65], [97, 40]]) = true ∧
    PdfNames.sortedBy PdfNames.lexLe (PdfNames.embeddedKeysWrittenOrder [[97], [97, 32, 98]]) = false ∧
    PdfNames.sortedBy PdfNames.lexLe (PdfNames.embeddedKeysWrittenOrder [[97, 40], [97, 65]]) = false := by decide

/-- **The object reference of a link annotation is not in the structure tree** (false of the current code; finding
`objr-not-in-structure-tree`): a page whose marked content is a paragraph and a link to annotation 7.  `pdfua` creates
the object reference but builds the `/Link` element with `K = [mcid]` only: the reference is a kid of no structure
element (ISO 32000-1 14.7.4.3), and the `/ParentTree` entry of the annotation's `/StructParent` (1) is that object
reference itself, not the parent structure element (14.7.4.4). -/
theorem objr_not_in_structure_tree :
    (PdfUa.pdfuaLinks [[⟨"P", 0⟩, ⟨"Link", 7⟩]]).objrs = [7] ∧
    PdfUa.objrIsKid (PdfUa.pdfuaLinks [[⟨"P", 0⟩, ⟨"Link", 7⟩]]) 0 = false ∧
    (PdfUa.pdfuaLinks [[⟨"P", 0⟩, ⟨"Link", 7⟩]]).nums = [(0, .page), (1, .objr 0)] ∧
    ((PdfUa.pdfuaLinks [[⟨"P", 0⟩, ⟨"Link", 7⟩]]).nums.all (fun e => e.1 != 1 || PdfUa.entryIsElem e.2)) = false := by
  decide

end Wp.C16.Witness
