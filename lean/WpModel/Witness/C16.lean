/-
C16 — witnesses: clauses that are false of the current code, refuted on a concrete input of the model
(mirrored by a `finding:` line in known_findings.txt and a replay on the real implementation in py/props/c16.py).
-/
import WpModel.Model.PdfStream
import WpModel.Model.PdfNames

namespace Wp.C16.Witness
open Wp Wp.Pdf

/-- Painting operators with the graphics state they are executed under, of a run (empty on a Python exception). -/
def paintsOf (x : Except PyErr (SState × Res)) : List (Op × GS) :=
  match x with
  | .ok p => paints p.1.rops
  | .error _ => []

/-- What `draw_text` + `set_mask_border` do for two texts of the same translucent colour, the second one in a box with
a mask border: `set_alpha(0.5)`, paint, `set_alpha_state(…)` (an ExtGState with `ca 1`), `set_alpha(0.5)`, paint. -/
def staleAlphaCalls : List Call :=
  [.setAlpha (.flt (1/2)) false none, .raw .fill [] false "-",
   .setState { ca := some (.int 1), kind := "smask" },
   .setAlpha (.flt (1/2)) false none, .raw .fill [] false "-"]

/-- **cache_sound is false of the current code**: `Stream.set_alpha_state` writes an ExtGState that sets `ca` but leaves
`_current_alpha`, so the next `set_alpha` with the cached value is skipped and the second fill is executed under
`ca = 1` instead of the requested `0.5` (the cache-free emission executes it under `0.5`). -/
theorem alpha_state_stale_cache :
    paintsOf (runS {} {} staleAlphaCalls) ≠ paintsOf (runNaive {} {} staleAlphaCalls) := by decide +kernel

/-- The fill alpha under which the second fill is executed: cached emission `1`, reference emission `0.5`. -/
theorem alpha_state_stale_cache_values :
    ((paintsOf (runS {} {} staleAlphaCalls)).head?.map (·.2.ca) = some (some (.int 1))) ∧
    ((paintsOf (runNaive {} {} staleAlphaCalls)).head?.map (·.2.ca) = some (some (.flt (1/2)))) := by
  decide +kernel

/-- **names_sorted is false of the current code**: anchors named `aé` and `b`.  `sorted()` puts `aé` first (code points
`a` < `b`), but its key is written as `<FEFF 0061 00E9>` whose first byte `FE` is above `b` (`62`): the keys of the
`/Dests` name array are not in lexical byte order. -/
theorem dests_names_unsorted :
    PdfNames.sortedBy PdfNames.lexLe (PdfNames.destKeys [[98], [97, 233]]) = false ∧
    PdfNames.destKeys [[98], [97, 233]] = [[0xFE, 0xFF, 0, 97, 0, 233], [98]] := by decide

end Wp.C16.Witness
