/-
C03 — witnesses: statements about "content stays above the page bottom" that are false of the layout.
-/
import WpModel.Lemmas.Geometry

namespace Wp.C03Witness
open Wp Wp.PM

/-- **The exemption of the first line is necessary**: a 60px line on 55px pages is placed (bottom at 60,
after the tall-first-line rule removed the 4px top margin) — the layout accepts it to make progress. -/
def tallDoc : Doc :=
  { pageH := 55, rootLtr := true,
    root := .block 0 { plainSt with isRoot := true } [.para 1 2 60 { plainSt with mt := 4 }] }

theorem first_line_may_overflow :
    (paginate tallDoc 10).map (fun ps => ps.map (fun p =>
      (placedLines p.root true (pageSource tallDoc p)).map (fun l => (l.exempt, l.line, l.y + l.lineH)))) =
    some [[(true, 0, 60)], [(true, 1, 60)]] := by decide +kernel

/-- **`box-decoration-break: clone` with a negative bottom margin lets lines cross the page bottom**
(`DecoOk` is necessary in `C03Geo.remakePage_line_fits`): `block_container_layout` does
`bottom_space += padding_bottom + border_bottom_width + margin_bottom` for cloned decorations; with
`margin-bottom: -50px` the bottom space becomes −50 and, on a 100px page, 15 lines of 10px are placed: the
lines 10–14 end at 110 … 150, below the page bottom, and are not the first line of the page.
Reproduced on WeasyPrint itself:
`<div style="box-decoration-break:clone;margin-bottom:-50px">` with 20 lines of 10px on a 100px page shows
15 lines on page 1 (5 of them outside the page) and 5 on page 2. -/
def cloneNegDoc : Doc :=
  { pageH := 100, rootLtr := true,
    root := .block 0 { plainSt with isRoot := true }
      [.block 1 { plainSt with clone := true, mb := -50 } [.para 2 20 10 plainSt]] }

theorem clone_negative_margin_overflows :
    (paginate cloneNegDoc 10).map (fun ps => ps.map (fun p =>
      ((placedLines p.root true (pageSource cloneNegDoc p)).filter
        (fun l => !l.exempt && decide (l.y + l.lineH > 100 * (1 + 1 / 1000000000)))).map
          (fun l => (l.line, l.y + l.lineH)))) =
    some [[(10, 110), (11, 120), (12, 130), (13, 140), (14, 150)], []] := by decide +kernel

theorem cloneNegDoc_not_decoOk : ¬ DecoOk cloneNegDoc.root := by
  simp only [cloneNegDoc, DecoOk, DecoOkList, PStyle.DecoOk, plainSt]
  decide +kernel

/-- **Regression (repaired by 24ce8bf; was the finding `earlier-break-keeps-bottom-decoration`)**: the box cut by
`find_earlier_page_break` loses its bottom decoration. 50px pages; a block with `padding-bottom: 5px` and
`break-after: avoid-page` holding five 10px lines, then a one-line paragraph. The block is first laid out whole,
the next paragraph does not fit, the break before it is avoided, `find_earlier_page_break` cuts the block's
paragraph after line 3 and rebuilds the block with `child.copy_with_children(...)`; before the repair the copy kept
`padding_bottom = 5` and its border box ended at 55, below the page bottom. Now `remove_decoration(end=True)`
removes the padding: the border box ends at 50. (The height 50 of the five-line layout is still kept - it
happens to fill the page.) Same numbers on WeasyPrint itself: `py/props/c03.py::earlier_break_keeps_decoration`
returns False. -/
def earlierDecoDoc : Doc :=
  { pageH := 50, rootLtr := true,
    root := .block 0 { plainSt with isRoot := true }
      [.block 1 plainSt
        [.block 2 { plainSt with pb := 5, brkAfter := .avoidPage } [.para 3 5 10 plainSt],
         .para 4 1 10 plainSt]] }

/-- For each fragment of box 2, in page order: (lines shown, padding-bottom kept, height, bottom of the border
box, is the document continued on the next page). -/
def box2Fragments (d : Doc) : Option (List (List Nat × Rat × Rat × Rat × Bool)) :=
  (paginate d 10).map (fun ps => (ps.map (fun p =>
    match p.root with
    | .block _ _ _ _ [.block _ _ _ _ kids] =>
      kids.filterMap (fun k => match k with
        | .block 2 _ _ g [.para _ _ _ _ _ lines] =>
          some (lines.map Prod.fst, g.pb, g.h, g.borderBoxY + g.borderHeight, p.resume.isSome)
        | _ => none)
    | _ => [])).flatten)

theorem earlier_break_removes_bottom_decoration :
    box2Fragments earlierDecoDoc = some [([0, 1, 2, 3], 0, 50, 50, true), ([4], 5, 10, 15, false)] := by
  decide +kernel

/-- For every fragment: what `remove_decoration(start=False, end=True)` does to the box rebuilt by
`find_earlier_page_break` — bottom margin, padding and border become 0 (unless `box-decoration-break: clone`),
position, top decoration and *height* are kept. -/
theorem cutEnd_geo (f : Frag) (h : f.st.clone = false) :
    f.cutEnd.geo.mb = 0 ∧ f.cutEnd.geo.pb = 0 ∧ f.cutEnd.geo.bb = 0 ∧ f.cutEnd.geo.h = f.geo.h ∧
    f.cutEnd.geo.contentBoxY = f.geo.contentBoxY ∧ f.cutEnd.st = f.st := by
  cases f <;> simp_all [Frag.cutEnd, Geo.cutBottom, Frag.geo, Frag.st, Geo.contentBoxY]

theorem cutEnd_clone (f : Frag) (h : f.st.clone = true) : f.cutEnd = f := by
  cases f <;> simp_all [Frag.cutEnd, Geo.cutBottom, Frag.st]

/-- Hence the border box of a cut box ends where its content box ends. -/
theorem cutEnd_border_bottom (f : Frag) (h : f.st.clone = false) :
    f.cutEnd.geo.borderBoxY + f.cutEnd.geo.borderHeight = f.geo.contentBoxY + f.geo.h := by
  cases f <;> simp_all [Frag.cutEnd, Geo.cutBottom, Frag.geo, Frag.st, Geo.contentBoxY, Geo.borderBoxY,
    Geo.borderHeight] <;> grind

/-- The document is within the hypotheses of the line theorems (`DecoOk`). -/
theorem earlierDecoDoc_decoOk : DecoOk earlierDecoDoc.root := by
  simp only [earlierDecoDoc, DecoOk, DecoOkList, PStyle.DecoOk, plainSt]
  decide +kernel

end Wp.C03Witness
