/-
C03 — witnesses: statements about "content stays above the page bottom" that are false of the layout.
-/
import WpModel.Lemmas.Geometry

namespace Wp.C03Witness
open Wp Wp.PM

/-- **The exemption of the first line is necessary**: a 60px line on 55px pages is placed (bottom at 60,
after the tall-first-line rule removed the 4px top margin) — the layout accepts it to make progress. -/
def tallDoc : Doc :=
  { pageH := 55, rootLtr := true,
    root := .block 0 { plainSt with isRoot := true } [.para 1 2 60 { plainSt with mt := 4 }] }

theorem first_line_may_overflow :
    (paginate tallDoc 10).map (fun ps => ps.map (fun p =>
      (placedLines p.root true (pageSource tallDoc p)).map (fun l => (l.exempt, l.line, l.y + l.lineH)))) =
    some [[(true, 0, 60)], [(true, 1, 60)]] := by decide +kernel

/-- **`box-decoration-break: clone` with a negative bottom margin lets lines cross the page bottom**
(`DecoOk` is necessary in `C03Geo.remakePage_line_fits`): `block_container_layout` does
`bottom_space += padding_bottom + border_bottom_width + margin_bottom` for cloned decorations; with
`margin-bottom: -50px` the bottom space becomes −50 and, on a 100px page, 15 lines of 10px are placed: the
lines 10–14 end at 110 … 150, below the page bottom, and are not the first line of the page.
Reproduced on WeasyPrint itself:
`<div style="box-decoration-break:clone;margin-bottom:-50px">` with 20 lines of 10px on a 100px page shows
15 lines on page 1 (5 of them outside the page) and 5 on page 2. -/
def cloneNegDoc : Doc :=
  { pageH := 100, rootLtr := true,
    root := .block 0 { plainSt with isRoot := true }
      [.block 1 { plainSt with clone := true, mb := -50 } [.para 2 20 10 plainSt]] }

theorem clone_negative_margin_overflows :
    (paginate cloneNegDoc 10).map (fun ps => ps.map (fun p =>
      ((placedLines p.root true (pageSource cloneNegDoc p)).filter
        (fun l => !l.exempt && decide (l.y + l.lineH > 100 * (1 + 1 / 1000000000)))).map
          (fun l => (l.line, l.y + l.lineH)))) =
    some [[(10, 110), (11, 120), (12, 130), (13, 140), (14, 150)], []] := by decide +kernel

theorem cloneNegDoc_not_decoOk : ¬ DecoOk cloneNegDoc.root := by
  simp only [cloneNegDoc, DecoOk, DecoOkList, PStyle.DecoOk, plainSt]
  decide +kernel

/-- **`find_earlier_page_break` keeps the bottom decoration and the stale height of the box it cuts**
(clause "a fragmented box's own bottom padding/border also fits" is false of the layout, with
`box-decoration-break: slice` and only non-negative lengths). 50px pages; a block with `padding-bottom: 5px` and
`break-after: avoid-page` holding five 10px lines, then a one-line paragraph. The block is first laid out
whole (its five lines fit, its padding does not: second layout with `bottom_space = 5`, four lines, fragment
stretched); the next paragraph does not fit, the break before it is avoided, `find_earlier_page_break` cuts the
block's paragraph after line 3 and rebuilds the block with `child.copy_with_children(...)`: the copy keeps
`padding_bottom = 5` (a fragment that is continued must lose it) and the height 50 of the five-line layout, so
its border box ends at 55, below the page bottom, and the box is continued on the next page.
Reproduced on WeasyPrint itself (same numbers): `py/props/c03.py::earlier_break_keeps_decoration`. -/
def earlierDecoDoc : Doc :=
  { pageH := 50, rootLtr := true,
    root := .block 0 { plainSt with isRoot := true }
      [.block 1 plainSt
        [.block 2 { plainSt with pb := 5, brkAfter := .avoidPage } [.para 3 5 10 plainSt],
         .para 4 1 10 plainSt]] }

/-- For each fragment of box 2, in page order: (lines shown, padding-bottom kept, height, bottom of the border
box, is the document continued on the next page). -/
def box2Fragments (d : Doc) : Option (List (List Nat × Rat × Rat × Rat × Bool)) :=
  (paginate d 10).map (fun ps => (ps.map (fun p =>
    match p.root with
    | .block _ _ _ _ [.block _ _ _ _ kids] =>
      kids.filterMap (fun k => match k with
        | .block 2 _ _ g [.para _ _ _ _ _ lines] =>
          some (lines.map Prod.fst, g.pb, g.h, g.borderBoxY + g.borderHeight, p.resume.isSome)
        | _ => none)
    | _ => [])).flatten)

theorem earlier_break_keeps_bottom_decoration :
    box2Fragments earlierDecoDoc = some [([0, 1, 2, 3], 5, 50, 55, true), ([4], 5, 10, 15, false)] := by
  decide +kernel

/-- The cause, for every fragment: the box rebuilt by `find_earlier_page_break`
(`child.copy_with_children(new_grand_children)`) keeps the whole used geometry of the box it replaces — position,
margins, paddings, borders *and height* — although it now holds fewer lines and is continued on the next page. -/
theorem earlier_break_keeps_geometry (x x' : Frag) (r : Resume) (h : findEarlierFrag x = some (x', r)) :
    x'.geo = x.geo ∧ x'.st = x.st := by
  cases x with
  | para id idx st n g lines =>
    simp only [findEarlierFrag] at h
    unfold findEarlierPara at h
    split at h
    · cases h
    · dsimp only at h
      split at h
      · cases h
      · split at h
        · simp only [Option.some.injEq, Prod.mk.injEq] at h
          obtain ⟨rfl, _⟩ := h
          exact ⟨rfl, rfl⟩
        · cases h
  | block id idx st g kids =>
    simp only [findEarlierFrag] at h
    split at h
    · simp only [Option.some.injEq, Prod.mk.injEq] at h
      obtain ⟨rfl, _⟩ := h
      exact ⟨rfl, rfl⟩
    · cases h

/-- The hypotheses of the line theorem hold here (`DecoOk`): the lines themselves fit; it is the box's own
decoration that does not. -/
theorem earlierDecoDoc_decoOk : DecoOk earlierDecoDoc.root := by
  simp only [earlierDecoDoc, DecoOk, DecoOkList, PStyle.DecoOk, plainSt]
  decide +kernel

end Wp.C03Witness
