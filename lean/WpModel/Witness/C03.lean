/-
C03 — witnesses: statements about "content stays above the page bottom" that are false of the layout.
-/
import WpModel.Lemmas.Geometry

namespace Wp.C03Witness
open Wp Wp.PM

/-- **The exemption of the first line is necessary**: a 60px line on 55px pages is placed (bottom at 60,
after the tall-first-line rule removed the 4px top margin) — the layout accepts it to make progress. -/
def tallDoc : Doc :=
  { pageH := 55, rootLtr := true,
    root := .block 0 { plainSt with isRoot := true } [.para 1 2 60 { plainSt with mt := 4 }] }

theorem first_line_may_overflow :
    (paginate tallDoc 10).map (fun ps => ps.map (fun p =>
      (placedLines p.root true (pageSource tallDoc p)).map (fun l => (l.exempt, l.line, l.y + l.lineH)))) =
    some [[(true, 0, 60)], [(true, 1, 60)]] := by decide +kernel

/-- **`box-decoration-break: clone` with a negative bottom margin lets lines cross the page bottom**
(`DecoOk` is necessary in `C03Geo.remakePage_line_fits`): `block_container_layout` does
`bottom_space += padding_bottom + border_bottom_width + margin_bottom` for cloned decorations; with
`margin-bottom: -50px` the bottom space becomes −50 and, on a 100px page, 15 lines of 10px are placed: the
lines 10–14 end at 110 … 150, below the page bottom, and are not the first line of the page.
Reproduced on WeasyPrint itself:
`<div style="box-decoration-break:clone;margin-bottom:-50px">` with 20 lines of 10px on a 100px page shows
15 lines on page 1 (5 of them outside the page) and 5 on page 2. -/
def cloneNegDoc : Doc :=
  { pageH := 100, rootLtr := true,
    root := .block 0 { plainSt with isRoot := true }
      [.block 1 { plainSt with clone := true, mb := -50 } [.para 2 20 10 plainSt]] }

theorem clone_negative_margin_overflows :
    (paginate cloneNegDoc 10).map (fun ps => ps.map (fun p =>
      ((placedLines p.root true (pageSource cloneNegDoc p)).filter
        (fun l => !l.exempt && decide (l.y + l.lineH > 100 * (1 + 1 / 1000000000)))).map
          (fun l => (l.line, l.y + l.lineH)))) =
    some [[(10, 110), (11, 120), (12, 130), (13, 140), (14, 150)], []] := by decide +kernel

theorem cloneNegDoc_not_decoOk : ¬ DecoOk cloneNegDoc.root := by
  simp only [cloneNegDoc, DecoOk, DecoOkList, PStyle.DecoOk, plainSt]
  decide +kernel

end Wp.C03Witness
