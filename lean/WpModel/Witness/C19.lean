/-
C19 — negation witnesses: concrete inputs on which a *full-strength* statement is false of the model (and, replayed
by the harness, of the implementation).  Each is listed in known_findings.txt.
-/
import WpModel.Model.PdfZoom
import WpModel.Model.ImageCache
import WpModel.Model.DiskCache
import WpModel.Model.WriteState

namespace Wp.Witness.C19
open Wp Wp.CopyPages Wp.PdfZoom

def page20 : Page := ⟨100, 100, ⟨20, 20, 20, 20⟩, [], [], []⟩

/-- `@page { size: 100px; bleed: 20px }`: the bleed is 15 pt at zoom 1 and 30 pt at zoom 2, both above the 10 pt cap
of `generate_pdf`, so the BleedBox is `[-10 -10 85 85]` at zoom 1 and `[-10 -10 160 160]` at zoom 2 — not
`2 × [-10 -10 85 85]`.  (The unrestricted `zoom_linear` for the BleedBox is therefore false; MediaBox and TrimBox do
scale.) -/
theorem bleedbox_cap_not_linear :
    bleedBox (scale 1) page20 = ⟨-10, -10, 85, 85⟩ ∧ bleedBox (scale 2) page20 = ⟨-10, -10, 160, 160⟩ ∧
    mediaBox (scale 2) page20 = ⟨-30, -30, 180, 180⟩ ∧ trimBox (scale 2) page20 = ⟨0, 0, 150, 150⟩ := by
  decide +kernel

section cache
open Wp.ImageCache

def jpegFetcher : Fetcher := fun _ => .ok (some "image/jpeg") none ⟨1, false, some ⟨.jpeg, false⟩⟩
def lowQuality : Opts := ⟨false, some 5, none⟩
def defaults : Opts := ⟨false, none, none⟩

/-- The image key does not contain the options the stored bytes depend on: a cache filled by a render with
`jpeg_quality=5` makes a later render with default options embed the quality-5 re-encoding, whereas on a cold cache
it embeds the original JPEG bytes.  (`cache_transparent` is therefore stated for fixed options.) -/
theorem cache_ignores_options :
    let warm := (getImage jpegFetcher lowQuality [] "u" "" .none).cache
    let k := dataKey (imageId (keyStr "u" .none)) none
    (getImage jpegFetcher defaults warm "u" "" .none).fetched = [] ∧
    lookup (getImage jpegFetcher defaults warm "u" "" .none).cache k =
      some (.bytes (.reenc 1 .none .jpeg false (some 5))) ∧
    lookup (getImage jpegFetcher defaults [] "u" "" .none).cache k = some (.bytes (.orig 1)) := by
  decide

end cache

section state
open Wp.WriteState Wp.CopyPages

/-- Page 1 links to an anchor `b` that sits on page 2.  Writing the whole document (PDF 1) stores an annotation on
the link's box; writing then the copy of page 1 alone (PDF 2: `b` is not anchored, `resolve_links` drops the link)
still tags the box as `Link`, with the annotation object of PDF 1.  Writing the copy first tags nothing.  (The
unrestricted `write_tags_current` is therefore false: known finding `stale-link-annotation`.) -/
theorem stale_annotation_after_full_write :
    let page1 := [(⟨7, .internal, "b"⟩ : BoxLink)]
    let full := write 1 ["b"] page1 []
    (write 2 [] page1 full.2).1 = [(7, 1)] ∧ (write 2 [] page1 []).1 = [] := by decide

/-- An image of 64 × 32 embedded twice at 32 × 16 (`dpi`): the second call re-encodes the thumbnail stored by the
first (generation 2 instead of 1); used afterwards at ratio 1 the object declares 64 × 32 with 32 × 16 data.  A fresh
image gives generation 1 / original data.  (Known finding `dpi-thumbnail-replaces-source`.) -/
theorem thumbnail_replaces_source :
    (getXObjects (fresh 64 32) [some (32, 16), some (32, 16), none]).map (fun x => (x.width, x.height, x.data)) =
      [(32, 16, ⟨1, 32, 16⟩), (32, 16, ⟨2, 32, 16⟩), (64, 32, ⟨2, 32, 16⟩)] ∧
    (getXObjects (fresh 64 32) [none]).map (fun x => (x.width, x.height, x.data)) = [(64, 32, ⟨0, 64, 32⟩)] := by
  decide

end state

section disk
open Wp.ImageCache Wp.DiskCache

/-- The discipline hypothesis of `C19.disk_refines_dict` is necessary: an object stored under `k`, then bytes under the
same `k` — a dict answers the bytes, `DiskCache.__getitem__` still answers the object (memory is looked up first).
Not reachable through `get_image_from_uri` (`C19.getImage_stores`), hence not a finding; replayed on the real class by
the `disk-cache` correspondence (`mixed-kinds` cases). -/
theorem diskcache_stale_object :
    let ops : List (String × Entry) := [("k", .image none), ("k", .bytes (.orig 1))]
    (getItem (ops.foldl (fun d e => setItem d e.1 e.2) DiskCache.empty) "k").toOption = some (.image none) ∧
    lookup (ops.foldl (fun c e => ImageCache.insert c e.1 e.2) []) "k" = some (.bytes (.orig 1)) := by decide

end disk

end Wp.Witness.C19
