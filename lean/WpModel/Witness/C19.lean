/-
C19 — negation witnesses: concrete inputs on which a *full-strength* statement is false of the model (and, replayed
by the harness, of the implementation); each is listed in known_findings.txt as a `finding:`.  For the findings that
were repaired in /repo (`fixed:` lines) the witness became a `…_regression` theorem stating the now-correct behaviour
on the same input.
-/
import WpModel.Model.PdfZoom
import WpModel.Model.ImageCache
import WpModel.Model.DiskCache
import WpModel.Model.WriteState
import WpModel.Model.AttachDates

namespace Wp.Witness.C19
open Wp Wp.CopyPages Wp.PdfZoom

def page20 : Page := ⟨100, 100, ⟨20, 20, 20, 20⟩, [], [], []⟩

/-- Regression for the repaired `bleedbox-cap-not-zoomed` (d924a7c; this was the witness `bleedbox_cap_not_linear`
refuting `zoom_linear` for the BleedBox).  `@page { size: 100px; bleed: 20px }`: the bleed is 15 pt at zoom 1 and 30 pt
at zoom 2, both above the cap (10 pt × zoom); the BleedBox is `[-10 -10 85 85]` at zoom 1 and now
`[-20 -20 170 170]` at zoom 2 — exactly `2 ×` (it was `[-10 -10 160 160]`).  The general statement is
`C19.bleedBox_zoom` / `C19.zoom_linear`. -/
theorem bleedbox_cap_linear_regression :
    bleedBox 1 page20 = ⟨-10, -10, 85, 85⟩ ∧ bleedBox 2 page20 = ⟨-20, -20, 170, 170⟩ ∧
    mediaBox (scale 2) page20 = ⟨-30, -30, 180, 180⟩ ∧ trimBox (scale 2) page20 = ⟨0, 0, 150, 150⟩ := by
  decide +kernel

section cache
open Wp.ImageCache

def jpegFetcher : Fetcher := fun _ => .ok (some "image/jpeg") none ⟨1, false, some ⟨.jpeg, false, true⟩⟩
def lowQuality : Opts := ⟨false, some 5, none⟩
def defaults : Opts := ⟨false, none, none⟩

/-- Regression for the repaired `image-cache-ignores-options` (bca20a5; this was the witness `cache_ignores_options`).
The image key now contains the options the stored bytes depend on: a cache filled by a render with `jpeg_quality=5`
no longer answers a render with default options — that one fetches again and embeds the original JPEG bytes, exactly
as on a cold cache.  The general statement is `C19.cache_transparent` (options may change from call to call) and
`C19.payload_transparent`. -/
theorem cache_honours_options_regression :
    let warm := (getImage jpegFetcher lowQuality [] "u" "" .none).cache
    let k := dataKey (imageId (keyStr "u" .none defaults)) none
    (getImage jpegFetcher defaults warm "u" "" .none).fetched = ["u"] ∧
    lookup (getImage jpegFetcher defaults warm "u" "" .none).cache k = some (.bytes (.orig 1)) ∧
    lookup (getImage jpegFetcher defaults [] "u" "" .none).cache k = some (.bytes (.orig 1)) := by
  decide

end cache

section state
open Wp.WriteState Wp.CopyPages

/-- Regression for the repaired `stale-link-annotation` (974ea74; this was the witness
`stale_annotation_after_full_write`).  Page 1 links to an anchor `b` that sits on page 2.  Writing the whole document
(PDF 1) stores an annotation on the link's box; writing then the copy of page 1 alone (PDF 2: `b` is not anchored,
`resolve_links` drops the link) no longer tags the box: `generate_pdf` resets the boxes of its page list first.
The general statement is `C19.write_tags_current` / `C19.write_history_independent`. -/
theorem no_stale_annotation_regression :
    let page1 := [(⟨7, .internal, "b"⟩ : BoxLink)]
    let full := write 1 ["b"] page1 []
    full.1 = [(7, 1)] ∧ (write 2 [] page1 full.2).1 = [] ∧ (write 2 [] page1 []).1 = [] := by decide

/-- An image of 64 × 32 embedded twice at 32 × 16 (`dpi`): the second call re-encodes the thumbnail stored by the
first (generation 2 instead of 1); used afterwards at ratio 1 the object declares 64 × 32 with 32 × 16 data.  A fresh
image gives generation 1 / original data.  (Known finding `dpi-thumbnail-replaces-source`.) -/
theorem thumbnail_replaces_source :
    (getXObjects (fresh 64 32) [some (32, 16), some (32, 16), none]).map (fun x => (x.width, x.height, x.data)) =
      [(32, 16, ⟨1, 32, 16⟩), (32, 16, ⟨2, 32, 16⟩), (64, 32, ⟨2, 32, 16⟩)] ∧
    (getXObjects (fresh 64 32) [none]).map (fun x => (x.width, x.height, x.data)) = [(64, 32, ⟨0, 64, 32⟩)] := by
  decide

end state

section disk
open Wp.ImageCache Wp.DiskCache

/-- The discipline hypothesis of `C19.disk_refines_dict` is necessary: an object stored under `k`, then bytes under the
same `k` — a dict answers the bytes, `DiskCache.__getitem__` still answers the object (memory is looked up first).
Not reachable through `get_image_from_uri` (`C19.getImage_stores`), hence not a finding; replayed on the real class by
the `disk-cache` correspondence (`mixed-kinds` cases). -/
theorem diskcache_stale_object :
    let ops : List (String × Entry) := [("k", .image none), ("k", .bytes (.orig 1))]
    (getItem (ops.foldl (fun d e => setItem d e.1 e.2) DiskCache.empty) "k").toOption = some (.image none) ∧
    lookup (ops.foldl (fun c e => ImageCache.insert c e.1 e.2) []) "k" = some (.bytes (.orig 1)) := by decide

end disk

section attachments
open Wp.AttachDates

/-- An attachment embedded from a URL (`<link rel=attachment>`, `<a rel=attachment>`: no dates, no file name): the same
input, the same `SOURCE_DATE_EPOCH`, rendered one second later — the `/CreationDate` and `/ModDate` of the embedded
file differ, hence the PDF bytes.  (The unrestricted `C19.attachment_dates_reproducible` is therefore false: known
finding `attachment-dates-from-wall-clock`.) -/
theorem attachment_dates_follow_the_clock :
    dates ⟨none, none, none, "D:20260930173740Z", some "1600000000"⟩ ≠
      dates ⟨none, none, none, "D:20260930173741Z", some "1600000000"⟩ := by decide

end attachments

end Wp.Witness.C19
