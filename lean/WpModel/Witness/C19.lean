/-
C19 — negation witnesses: concrete inputs on which a *full-strength* statement is false of the model (and, replayed
by the harness, of the implementation).  Each is listed in known_findings.txt.
-/
import WpModel.Model.PdfZoom
import WpModel.Model.ImageCache

namespace Wp.Witness.C19
open Wp Wp.CopyPages Wp.PdfZoom

def page20 : Page := ⟨100, 100, ⟨20, 20, 20, 20⟩, [], [], []⟩

/-- `@page { size: 100px; bleed: 20px }`: the bleed is 15 pt at zoom 1 and 30 pt at zoom 2, both above the 10 pt cap
of `generate_pdf`, so the BleedBox is `[-10 -10 85 85]` at zoom 1 and `[-10 -10 160 160]` at zoom 2 — not
`2 × [-10 -10 85 85]`.  (The unrestricted `zoom_linear` for the BleedBox is therefore false; MediaBox and TrimBox do
scale.) -/
theorem bleedbox_cap_not_linear :
    bleedBox (scale 1) page20 = ⟨-10, -10, 85, 85⟩ ∧ bleedBox (scale 2) page20 = ⟨-10, -10, 160, 160⟩ ∧
    mediaBox (scale 2) page20 = ⟨-30, -30, 180, 180⟩ ∧ trimBox (scale 2) page20 = ⟨0, 0, 150, 150⟩ := by
  decide +kernel

section cache
open Wp.ImageCache

def jpegFetcher : Fetcher := fun _ => .ok (some "image/jpeg") none ⟨1, false, some ⟨.jpeg, false⟩⟩
def lowQuality : Opts := ⟨false, some 5, none⟩
def defaults : Opts := ⟨false, none, none⟩

/-- The image key does not contain the options the stored bytes depend on: a cache filled by a render with
`jpeg_quality=5` makes a later render with default options embed the quality-5 re-encoding, whereas on a cold cache
it embeds the original JPEG bytes.  (`cache_transparent` is therefore stated for fixed options.) -/
theorem cache_ignores_options :
    let warm := (getImage jpegFetcher lowQuality [] "u" "" .none).cache
    let k := dataKey (imageId (keyStr "u" .none)) none
    (getImage jpegFetcher defaults warm "u" "" .none).fetched = [] ∧
    lookup (getImage jpegFetcher defaults warm "u" "" .none).cache k =
      some (.bytes (.reenc 1 .none .jpeg false (some 5))) ∧
    lookup (getImage jpegFetcher defaults [] "u" "" .none).cache k = some (.bytes (.orig 1)) := by
  decide

end cache

end Wp.Witness.C19
