/-
C06 — negation witnesses: concrete inputs on which the *full-strength* statement is false of the
model (and, replayed by the harness, of the implementation).  Each is listed in known_findings.txt.
-/
import WpModel.Model.StyleDoc
import WpModel.Model.StyleMemo

namespace Wp.Witness.C06
open Wp Wp.Cascade Wp.Computed Wp.Style Wp.StyleMemo

def isOk (r : Except CErr Val) (v : Val) : Bool :=
  match r with
  | .ok w => w == v
  | .error _ => false

def isTypeError {β : Type} (r : Except CErr β) : Bool :=
  match r with
  | .error (.typeError _) => true
  | _ => false

/-- `<html style="--x:inherit; width:var(--x)">`: the declaration is a `Pending` value whose
solution is the keyword `inherit`.  `__missing__` maps `inherit` to `initial` on the root only
*before* pending values are solved, so `parent_style[key]` is evaluated with `parent_style = None`
(`TypeError`), whereas a directly cascaded `inherit` gives the initial value `auto`.
(`C06.pending_valid_partial` therefore carries the hypothesis "not `inherit`, or not the root".) -/
theorem var_inherit_on_root :
    isTypeError (specified ⟨[("width", .pending (some (.kw "inherit")))], none, []⟩ none "width") = true ∧
    (specified ⟨[("width", .val (.kw "inherit"))], none, []⟩ none "width").toOption
      = some (.kw "auto", true) := by
  decide

/-- `<div style="border-top: 5px solid"><p style="border-top-width: inherit">`: the inherited value
is stored as the computed value without calling the computing function, so the `<p>`, whose own
`border-top-style` is `none`, gets a 5px border width instead of 0 (CSS 2.1 §8.5.1: the computed
width is 0 when the style is none).  The same shortcut keeps `display: inherit` inline on a floated
box (CSS 2.1 §9.7), on which `float_layout` then fails an assertion. -/
theorem inherit_skips_computing :
    let parent : Elem := ⟨[("border_top_style", .val (.kw "solid")),
                           ("border_top_width", .val (.dim 5 "px"))], none, []⟩
    let child : Elem := ⟨[("border_top_width", .val (.kw "inherit"))], none, []⟩
    isOk (styleAt (1 / 2) (1 / 2) [child, parent] "border_top_style") (.kw "none") = true ∧
    isOk (styleAt (1 / 2) (1 / 2) [child, parent] "border_top_width") (.num 5) = true := by
  decide +kernel

theorem inherit_skips_blockification :
    let parent : Elem := ⟨[("display", .val (.strs ["inline", "flow"]))], none, []⟩
    let root : Elem := ⟨[("display", .val (.strs ["block", "flow"]))], none, []⟩
    let child : Elem := ⟨[("display", .val (.kw "inherit")), ("float", .val (.kw "left"))], none, []⟩
    isOk (styleAt (1 / 2) (1 / 2) [child, parent, root] "float") (.kw "left") = true ∧
    isOk (styleAt (1 / 2) (1 / 2) [child, parent, root] "display") (.strs ["inline", "flow"]) = true := by
  decide +kernel

/-- A style whose parent cannot deliver `page` (in the real code: an ancestor chain ending in a root
with `page: var(--x)` solved to `inherit`, see `var_inherit_on_root`) and whose own `page` is a
failed `var()`: the first read of `page` stores the initial value `auto`, then raises while asking
the parent; the dict keeps `auto`, and the second read returns it although the memoised function
still fails.  So `C06.lazy_eq_eager` needs its `NoStale` hypothesis. -/
theorem stale_after_exception :
    let c : Ctx := ⟨⟨[("page", .pending none)], none, []⟩,
                    some (fun _ => .error (.typeError "parent_style[key]")), fun _ => .ok 16, 1 / 2, 1 / 2⟩
    (readSeq c [] ["page", "page"]).map okVal = [none, some (.kw "auto")] ∧
    okVal (pure' c "page") = none ∧
    staleAfterFailure c.e c.parent "page" = some (.kw "auto") := by
  decide


/-- `border-image-width: 2em`: `computed_values.border_image_width` returns a length item as it is
(`number if unit is None else value`), so the relative unit is never computed against the font size
(`border_image_outset`, two lines below in the source, does call `length`).  Drawing the border image
then fails `assert dimension.unit == 'px'`. -/
theorem border_image_width_not_computed :
    (borderImageWidth (.tup [.dim 2 "em"])).toOption = some (.tup [.dim 2 "em", .dim 2 "em", .dim 2 "em", .dim 2 "em"]) := by
  decide

end Wp.Witness.C06
