/-
C06 — negation witnesses: concrete inputs on which the *full-strength* statement is false of the
model (and, replayed by the harness, of the implementation).  Each is listed in known_findings.txt.
-/
import WpModel.Model.StyleDoc
import WpModel.Model.StyleMemo
import WpModel.Model.CssSpec

namespace Wp.Witness.C06
open Wp Wp.Cascade Wp.Computed Wp.Style Wp.StyleMemo

def isOk (r : Except CErr Val) (v : Val) : Bool :=
  match r with
  | .ok w => w == v
  | .error _ => false

def isTypeError {β : Type} (r : Except CErr β) : Bool :=
  match r with
  | .error (.typeError _) => true
  | _ => false

/-- Regression for the repaired finding `var-inherit-on-root` (commit 582f36b).
`<html style="--x:inherit; width:var(--x)">`: the declaration is a `Pending` value whose solution is
the keyword `inherit`.  `__missing__` used to map `inherit` to `initial` on the root only *before*
pending values were solved, so `parent_style[key]` was evaluated with `parent_style = None`
(`TypeError`).  The root test now comes after the substitution: the solved `inherit` gives the
initial value `auto`, exactly like a directly cascaded `inherit`
(`C06.pending_valid` is the full-strength theorem). -/
theorem var_inherit_on_root_fixed :
    (specified ⟨[("width", .pending (some (.kw "inherit")))], none, [], none⟩ none "width").toOption
      = some (.kw "auto", true) ∧
    (specified ⟨[("width", .val (.kw "inherit"))], none, [], none⟩ none "width").toOption
      = some (.kw "auto", true) ∧
    isTypeError (specified ⟨[("width", .pending (some (.kw "inherit")))], none, [], none⟩ none "width") = false := by
  decide

/-- `<div style="border-top: 5px solid"><p style="border-top-width: inherit">`: the inherited value
is stored as the computed value without calling the computing function, so the `<p>`, whose own
`border-top-style` is `none`, gets a 5px border width instead of 0 (CSS 2.1 §8.5.1: the computed
width is 0 when the style is none).  The same shortcut keeps `display: inherit` inline on a floated
box (CSS 2.1 §9.7), on which `float_layout` then fails an assertion. -/
theorem inherit_skips_computing :
    let parent : Elem := ⟨[("border_top_style", .val (.kw "solid")),
                           ("border_top_width", .val (.dim 5 "px"))], none, [], none⟩
    let child : Elem := ⟨[("border_top_width", .val (.kw "inherit"))], none, [], none⟩
    isOk (styleAt (1 / 2) (1 / 2) [child, parent] "border_top_style") (.kw "none") = true ∧
    isOk (styleAt (1 / 2) (1 / 2) [child, parent] "border_top_width") (.num 5) = true := by
  decide +kernel

theorem inherit_skips_blockification :
    let parent : Elem := ⟨[("display", .val (.strs ["inline", "flow"]))], none, [], none⟩
    let root : Elem := ⟨[("display", .val (.strs ["block", "flow"]))], none, [], none⟩
    let child : Elem := ⟨[("display", .val (.kw "inherit")), ("float", .val (.kw "left"))], none, [], none⟩
    isOk (styleAt (1 / 2) (1 / 2) [child, parent, root] "float") (.kw "left") = true ∧
    isOk (styleAt (1 / 2) (1 / 2) [child, parent, root] "display") (.strs ["inline", "flow"]) = true := by
  decide +kernel

/-- The same with `position: absolute`: the box stays inline, and `absolute_layout` then raises
`UnboundLocalError` (`<span>x<span style="position:absolute;display:inherit">a</span></span>`). -/
theorem inherit_skips_blockification_absolute :
    let parent : Elem := ⟨[("display", .val (.strs ["inline", "flow"]))], none, [], none⟩
    let root : Elem := ⟨[("display", .val (.strs ["block", "flow"]))], none, [], none⟩
    let child : Elem := ⟨[("display", .val (.kw "inherit")), ("position", .val (.kw "absolute"))], none, [], none⟩
    let plain : Elem := ⟨[("display", .val (.strs ["inline", "flow"])), ("position", .val (.kw "absolute"))], none, [], none⟩
    isOk (styleAt (1 / 2) (1 / 2) [child, parent, root] "display") (.strs ["inline", "flow"]) = true ∧
    isOk (styleAt (1 / 2) (1 / 2) [plain, parent, root] "display") (.strs ["block", "flow"]) = true := by
  decide +kernel

/-- Regression for the repaired finding `image-orientation-not-inherited` (commit 8f3706e):
`image-orientation` is "Inherited: yes" (css-images-3) and was missing from `INHERITED`, so
`<div style="image-orientation: 90deg"><img …></div>` left the image unrotated (`from-image`).
The `<img>` now takes its parent's computed value `(90, False)`
(`C06.inherited_is_css` is the full-strength theorem over every property). -/
theorem image_orientation_inherited :
    let parent : Elem := ⟨[("image_orientation", .val (.tup [.num (pyPi / 2), .kw "False"]))], none, [], none⟩
    let child : Elem := ⟨[("width", .val (.kw "auto"))], none, [], none⟩
    CssSpec.specInherits "image_orientation" = true ∧ isInherited "image_orientation" = true ∧
    isOk (styleAt (1 / 2) (1 / 2) [parent] "image_orientation") (.tup [.num 90, .kw "False"]) = true ∧
    isOk (styleAt (1 / 2) (1 / 2) [child, parent] "image_orientation") (.tup [.num 90, .kw "False"]) = true ∧
    isOk (styleAt (1 / 2) (1 / 2) [⟨[], none, [], none⟩, parent] "image_orientation") (.tup [.num 90, .kw "False"]) = true := by
  decide +kernel

/-- A style whose parent cannot deliver `page` and whose own `page` is a failed `var()`: the first
read of `page` stores the initial value `auto`, then raises while asking the parent; the dict keeps
`auto`, and the second read returns it although the memoised function still fails.  So
`C06.lazy_eq_eager` needs its `NoStale` hypothesis.  (Until commit 582f36b a real document reached
this state through an ancestor chain ending in a root with `page: var(--x)` solved to `inherit`;
since that repair the harness reaches it only with a parent style that raises, see the
`style-memo` section.) -/
theorem stale_after_exception :
    let c : Ctx := ⟨⟨[("page", .pending none)], none, [], none⟩,
                    some (fun _ => .error (.typeError "parent_style[key]")), fun _ => .ok 16, 1 / 2, 1 / 2⟩
    (readSeq c [] ["page", "page"]).map okVal = [none, some (.kw "auto")] ∧
    okVal (pure' c "page") = none ∧
    staleAfterFailure c.e c.parent "page" = some (.kw "auto") := by
  decide


/-- The same on a chain of two elements, as the `style-memo` section replays it on the real code
(case 0): the root holds the *string* `underline` for `text-decoration-line` (a value the validator
never produces: it gives a set), the child says `inherit`.  The first read stores the inherited
value, then `value | parent_value` raises `TypeError`; the second read returns the stored string. -/
theorem stale_after_exception_chain :
    let root : Elem := ⟨[("text_decoration_line", .val (.kw "underline"))], none, [], none⟩
    let child : Elem := ⟨[("text_decoration_line", .val (.kw "inherit"))], none, [], none⟩
    (ctxOf (1 / 2) (1 / 2) [child, root]).map
        (fun c => (readSeq c [] ["text_decoration_line", "text_decoration_line"]).map okVal)
      = some [none, some (.kw "underline")] := by
  decide +kernel

/-- Regression for the repaired finding `border-image-width-not-computed` (commit 26138d1).
`border-image-width: 2em` with a font size of 10px: `computed_values.border_image_width` used to
return a length item as it is (`number if unit is None else value`), so the relative unit was never
computed and drawing the border image failed `assert dimension.unit == 'px'`.  The item now goes
through `length`: 20px on the four sides; numbers, percentages and `auto` are kept. -/
def envFs (fs : Rat) : Env :=
  { fontSize := fun _ => .ok fs, rootFontSize := fun _ => .ok 16, parentFontSize := none,
    parentFontWeight := none, exRatio := 1 / 2, chRatio := 1 / 2,
    get := fun _ => .error (.keyError "style[key]"), specified := fun _ => .error (.keyError "specified[key]"),
    isRoot := true, pseudo := false }

theorem border_image_width_computed :
    (borderImageWidth (envFs 10) (.tup [.dim 2 "em"])).toOption
      = some (.tup [.dim 20 "px", .dim 20 "px", .dim 20 "px", .dim 20 "px"]) ∧
    (borderImageWidth (envFs 10) (.tup [.dim 3 "none", .kw "auto", .dim 50 "%"])).toOption
      = some (.tup [.num 3, .kw "auto", .dim 50 "%", .kw "auto"]) := by
  decide +kernel

end Wp.Witness.C06
