/-
C12 — negation witnesses: concrete inputs on which the *full-strength* clause of the property is
false of the model (and, replayed by the harness on every run, of the implementation).  Each is
listed in known_findings.txt under the id given in its docstring.  All are closed computations
(`decide +kernel`: no axioms).

Regressions: the theorems named `…_fixed` are the former witnesses of the twelve findings repaired in
/repo (`fixed:` lines of known_findings.txt with the commit); they now state the *correct* behaviour on
the same input, so a model (and, through the correspondence and the corpus replays, a code) that goes
back to the defect no longer builds / is reported.
-/
import WpModel.Model.Flex
import WpModel.Model.Grid

namespace Wp.Witness.C12
open Wp

/-! ## Flex -/

section Flex
open Wp.Flex

/-- an empty block item: `flex: 0 1 auto`, everything else initial -/
def item : Item :=
  { id := 0, order := 0, grow := 0, shrink := 1, basis := .auto, sWidth := none, sHeight := none,
    sMinW := none, sMaxW := none, sMinH := none, sMaxH := none, ml := some 0, mr := some 0,
    mt := some 0, mb := some 0, pl := 0, pr := 0, pt := 0, pb := 0, bl := 0, br := 0, bt := 0,
    bb := 0, alignSelf := .auto }

/-- `flex: 1 1 0` -/
def flex110 : Item := { item with grow := 1, shrink := 1, basis := .px 0 }

/-- `display: flex; width: 100px` -/
def rowC : Container :=
  { row := true, reverse := false, wrap := .nowrap, width := 100, height := none, mainGap := 0,
    crossGap := 0, justify := .normal, alignItems := .normal, alignContent := .normal }

/-- `display: flex; flex-direction: column; width: 100px; height: 100px` -/
def colC : Container := { rowC with row := false, height := some 100 }

/-- border boxes `(x, y, w, h)` of the laid-out items -/
def rects (r : Except PyErr Result) : Option (List (Rat × Rat × Rat × Rat)) :=
  match r with
  | .ok r => some (r.rects.map fun q => (q.x, q.y, q.w, q.h))
  | .error _ => none

/-- fixed id=flex-clamp-no-redistribute (F5, 9739d52).  `flex:1 1 0; max-width:10px` + `flex:1 1 0` in
100px: the first item is frozen at its maximum by 9.7.5.d–e and the second pass gives the 90px that are
left to the second one (was 10 + 50). -/
theorem clamp_redistributes_fixed :
    rects (layout rowC [{ flex110 with sMaxW := some 10 }, { flex110 with id := 1 }]) =
      some [(0, 0, 10, 0), (10, 0, 90, 0)] := by decide +kernel

/-- fixed id=flex-padding-not-counted (b901ca9).  Two `flex:1 1 0; padding:0 10px` items in 100px are 50px
wide each, paddings included (was 70 + 70). -/
theorem padding_counted_fixed :
    rects (layout rowC [{ flex110 with pl := 10, pr := 10 }, { flex110 with id := 1, pl := 10, pr := 10 }]) =
      some [(0, 0, 50, 0), (50, 0, 50, 0)] := by decide +kernel

/-- id=flex-vertical-auto-margins-zeroed.  `margin-top:auto` on a 10px item of a 100px column
container: the item stays at y = 0 (90 expected). -/
theorem vertical_auto_margins_zeroed :
    rects (layout colC [{ item with sHeight := some 10, mt := none }]) = some [(0, 0, 100, 10)] := by
  decide +kernel

/-- fixed id=flex-negative-auto-margin (b27af5f).  `flex:none; width:120px; margin-left:auto` in 100px:
the auto margin is 0 and the item starts at x = 0 (was −20: auto margins only absorb positive free space). -/
theorem negative_auto_margin_fixed :
    rects (layout rowC [{ item with shrink := 0, sWidth := some 120, sHeight := some 10, ml := none }]) =
      some [(0, 0, 120, 10)] := by decide +kernel

/-- fixed id=flex-cross-auto-margin-not-positioned (4ac1c09).  Wrapping column container, second column
holds an item with `margin-left:auto`: it is laid out in its own column, at x = 30 (was x = 0, on top of the
first column). -/
theorem cross_auto_margin_positioned_fixed :
    rects (layout { colC with wrap := .wrap, height := some 50, alignContent := .flexStart }
      [{ item with sHeight := some 40, sWidth := some 30 },
       { item with id := 1, sHeight := some 40, sWidth := some 20, ml := none }]) =
      some [(0, 0, 30, 40), (30, 0, 20, 40)] := by decide +kernel

/-- fixed id=flex-align-content-last-item (10a14ee).  Two lines, `align-content:center`, the second line
holds a `flex-start` item (30px high) and a `flex-end` item (10px): the flex-start item is at the top of
its line, y = 40, the flex-end one at y = 60 (both were at y = 60). -/
theorem align_content_own_offset_fixed :
    rects (layout { rowC with wrap := .wrap, height := some 100, alignContent := .center }
      [{ item with sWidth := some 60, sHeight := some 10 },
       { item with id := 1, sWidth := some 60, sHeight := some 30, alignSelf := .flexStart },
       { item with id := 2, sWidth := some 30, sHeight := some 10, alignSelf := .flexEnd }]) =
      some [(0, 30, 60, 10), (0, 40, 60, 30), (60, 60, 30, 10)] := by decide +kernel

/-- fixed id=flex-column-clamps-by-width (9739d52: the clamp of 9.7.5.d uses the main-axis min / max).
Column container of 100px: `flex:1 1 0; max-width:10px` keeps its share of the *height* (50 + 50; was 10 + 50),
the max-width only limits its width. -/
theorem column_clamps_by_height_fixed :
    rects (layout colC [{ flex110 with sMaxW := some 10 }, { flex110 with id := 1 }]) =
      some [(0, 0, 10, 50), (0, 50, 100, 50)] := by decide +kernel

/-- id=flex-fractional-factor-sum.  `flex:0.5 1 0` alone in 80px takes 80px (css-flexbox 9.7.4.b:
40px): `int(log10 40) = int(log10 80)`, so the scaled free space is not used. -/
theorem fractional_factor_sum :
    rects (layout { rowC with width := 80 } [{ flex110 with grow := 1/2, sHeight := some 10 }]) =
      some [(0, 0, 80, 10)] := by decide +kernel

/-- id=flex-content-base-clamped.  `flex:1 1 auto; min-width:20px` (no width: content-sized) next to
`flex:1 1 auto; width:20px` in 100px: the content flex base size (0) is already clamped to 20 by
`max_content_width`, so the free space is 60 instead of 80 and the items get 50 + 50 (40 + 60 expected). -/
theorem content_base_clamped :
    rects (layout rowC [{ item with grow := 1, sMinW := some 20, sHeight := some 5 },
                        { item with id := 1, grow := 1, sWidth := some 20, sHeight := some 5 }]) =
      some [(0, 0, 50, 5), (50, 0, 50, 5)] := by decide +kernel

/-- fixed id=flex-negative-factor-accepted (c151619).  `flex:1 1 0` next to `flex-grow:-1; flex-basis:0` in 100px:
the validator rejects the negative factor, the declaration is ignored (`computedFactor (-1) 0 = 0`) and the first
item takes the whole width (was 0px: the factors summed to 0 and nothing was distributed). -/
theorem negative_factor_rejected_fixed :
    computedFactor (-1) 0 = 0 ∧ computedFactor (-1/2) 1 = 1 ∧
    rects (layout rowC [{ flex110 with sHeight := some 5 },
                        { item with id := 1, grow := computedFactor (-1) 0, basis := .px 0, sHeight := some 5 }]) =
      some [(0, 0, 100, 5), (100, 0, 0, 5)] := by decide +kernel

end Flex

/-! ## Grid -/

section Grid
open Wp.Grid

/-- an empty block item, 5px high, placed automatically -/
def gitem : GItem :=
  { id := 0, order := 0, rowStart := .auto, rowEnd := .auto, colStart := .auto, colEnd := .auto,
    sWidth := none, sHeight := some 5, ml := some 0, mr := some 0, mt := some 0, mb := some 0,
    pl := 0, pr := 0, pt := 0, pb := 0, bl := 0, br := 0, bt := 0, bb := 0,
    justifySelf := .auto, alignSelf := .auto }

/-- `display: grid; width: 100px` -/
def gridC : GContainer :=
  { templateRows := none, templateCols := none, autoRows := [.one .auto], autoCols := [.one .auto],
    flowColumn := false, dense := false, areas := none, colGap := 0, rowGap := 0, width := 100,
    height := none, justifyContent := .normal, alignContent := .normal, justifyItems := .normal,
    alignItems := .normal }

/-- `grid-template-columns: a px b px …` -/
def pxCols (l : List Rat) : Option (List TElem) :=
  some ((l.map fun q => [TElem.names [], TElem.size (.one (.px q))]).flatten ++ [TElem.names []])

def grects (r : Except GErr Result) : Option (List (Rat × Rat × Rat × Rat)) :=
  match r with
  | .ok r => some (r.rects.map fun q => (q.x, q.y, q.w, q.h))
  | .error _ => none

def gareas (r : Except GErr Result) : Option (List (Nat × Area)) :=
  match r with
  | .ok r => some r.positions
  | .error _ => none

def gerr (r : Except GErr Result) : Option GErr :=
  match r with
  | .ok _ => none
  | .error e => some e

/-- fixed id=grid-justify-ignores-gap (0e77b99).  Two 20px columns, `column-gap:10px;
justify-content:center` in 100px: the columns start at 25 and 55 (were 30 and 60). -/
theorem justify_counts_gap_fixed :
    grects (layout { gridC with templateCols := pxCols [20, 20], colGap := 10, justifyContent := .center }
      [gitem, { gitem with id := 1 }]) = some [(25, 0, 20, 5), (55, 0, 20, 5)] := by decide +kernel

/-- fixed id=grid-locked-skips-first-track (e5d53d3).  `grid-row: 1` alone: the item is put in the first
column (was the second). -/
theorem locked_first_track_fixed :
    gareas (layout { gridC with templateCols := pxCols [20, 30] } [{ gitem with rowStart := lineNo 1 }]) =
      some [(0, (0, 0, 1, 1))] := by decide +kernel

/-- fixed id=grid-span-first-axis-crash (cd18f00).  `grid-row: span 2; grid-column: 2`: the item spans the
rows 0 and 1 of column 1 (was `UnboundLocalError`). -/
theorem span_first_axis_fixed :
    gareas (layout { gridC with templateCols := pxCols [20, 30] }
      [{ gitem with rowStart := .mk true (some 2) none, colStart := lineNo 2 }]) =
      some [(0, (1, 0, 1, 2))] := by decide +kernel

/-- id=grid-named-span-hang.  `grid-row: 1; grid-column: span foo` with no line called `foo`: the
`count()` loop of `_get_second_placement` never finds a placement (the bound of the model is hit). -/
theorem named_span_hang :
    gerr (layout gridC [{ gitem with rowStart := lineNo 1, colStart := .mk true none (some "foo") }]) =
      some (.nonTermination "_get_second_placement.sparse") := by decide +kernel

/-- id=grid-negative-line-numbers.  `grid-column: -2 / -1` on three columns (four lines): css-grid
counts from the end, i.e. `(2, 1)`; `_get_placement` answers `(-3, 1)`
(`placement_numeric` without the positivity hypothesis is false). -/
theorem negative_line_numbers :
    (getPlacement (lineNo (-2)) (lineNo (-1)) [[], [], [], []]).toOption = some (some (-3, 1)) := by
  decide +kernel

/-- fixed id=grid-column-flow-implicit-start (34cd729).  `grid-auto-flow: column`, one item with
`grid-row-end: 1` (a row before the explicit grid) and one automatic item: the columns are sized from their
own implicit start, no `IndexError` any more; both items are placed in column 0, rows −1 and 0. -/
theorem column_flow_implicit_start_fixed :
    gerr (layout { gridC with flowColumn := true } [{ gitem with rowEnd := lineNo 1 }, { gitem with id := 1 }]) = none ∧
    gareas (layout { gridC with flowColumn := true } [{ gitem with rowEnd := lineNo 1 }, { gitem with id := 1 }]) =
      some [(0, (0, -1, 1, 1)), (1, (0, 0, 1, 1))] := by decide +kernel

/-- id=grid-leading-implicit-tracks-misindexed.  `grid-column-end: 1` (a column before the explicit
grid) + one automatic item in 100px: the first item lands at x = 50 with width 0, the second at
x = 0 (expected 0 / 50, 50px wide each): step 4 indexes the tracks with the raw, negative coordinate. -/
theorem leading_implicit_tracks_misindexed :
    grects (layout gridC [{ gitem with colEnd := lineNo 1 }, { gitem with id := 1 }]) =
      some [(50, 0, 0, 5), (0, 0, 50, 5)] := by decide +kernel

/-- id=grid-inflexible-fr-no-restart.  `grid-template-columns: minmax(20px, 0.5fr) 3fr` in 64px: the first track is
made inflexible (its share, 64/3.5 × 0.5, is below its 20px minimum) but the fr size is not computed again without it:
the second track takes 3 × 64/3.5 = 384/7 and the tracks overflow the container (20 + 44 expected). -/
theorem inflexible_fr_no_restart :
    (resolveTracks [(.px 20, .fr (1/2)), (.auto, .fr 3)] (some 64) [] 0 true 0 false).toOption.map
      (List.map (·.base)) = some [20, 384/7] := by decide +kernel

/-- id=grid-maximize-no-redistribution.  `grid-template-columns: minmax(0, 50px) 5px` in 100px:
the 95px of free space are split in two shares of 47.5; the second track is already at its limit and
its share is lost, the first track ends at 47.5px (50px expected: there is room for every maximum). -/
theorem maximize_no_redistribution :
    (resolveTracks [(.px 0, .px 50), (.px 5, .px 5)] (some 100) [] 0 true 0 false).toOption.map
      (List.map (·.base)) = some [95/2, 5] := by decide +kernel

/-- fixed id=grid-named-line-nth-ignored (c8a4ac7).  `grid-column-start: 2 foo` on lines
`[foo] [foo] [foo] []`: the second line called `foo`, line 1 (0-based) (was the first one, 0). The general
statement is `C12.getLine_nth_named`. -/
theorem named_line_nth_fixed :
    (getLine false (some 2) (some "foo") [["foo"], ["foo"], ["foo"], []] "start").toOption.map (·.coord) =
      some (some 1) := by decide +kernel

/-- fixed id=grid-justify-self-outer-width (ca85a65).  `justify-self: start; width: 20px; padding: 0 5px` in
a 100px area: the border box is 30px wide (was 40: the outer max-content width was used as content width). -/
theorem justify_self_content_width_fixed :
    grects (layout gridC [{ gitem with sWidth := some 20, pl := 5, pr := 5, justifySelf := .other }]) =
      some [(0, 0, 30, 5)] := by decide +kernel

/-- fixed id=grid-named-span-from-last-line (cec57c9).  `grid-column: 3 / span 2 foo` on two columns (three lines,
none called `foo`): the two implicit lines after the grid are assumed to be called `foo`, the item spans 2 tracks,
`(2, 2)` (was `(2, 4)`: the span was doubled when `lines[coord+1:]` is empty). -/
theorem named_span_from_last_line_fixed :
    (getPlacement (lineNo 3) (.mk true (some 2) (some "foo")) [[], [], []]).toOption = some (some (2, 2)) := by
  decide +kernel

/-- the same span from the line before is right: `2 / span 2 foo` ends on the second implicit line, `(1, 3)`. -/
example : (getPlacement (lineNo 2) (.mk true (some 2) (some "foo")) [[], [], []]).toOption = some (some (1, 3)) := by
  decide +kernel

/-- fixed id=grid-backward-named-span-count (5e11506).  `grid-column: span foo / 4` on lines `[foo] [foo] [foo] []`:
the `foo` line before line 4 is line 3, i.e. `(2, 1)` (was `(-1, 4)`: the integer of the *end* line was used as the
count); `span 2 foo / 4` goes back two `foo` lines, `(1, 2)`. -/
theorem backward_named_span_count_fixed :
    (getPlacement (.mk true none (some "foo")) (lineNo 4) [["foo"], ["foo"], ["foo"], []]).toOption =
      some (some (2, 1)) ∧
    (getPlacement (.mk true (some 2) (some "foo")) (lineNo 4) [["foo"], ["foo"], ["foo"], []]).toOption =
      some (some (1, 2)) := by decide +kernel

/-- with an end line given by name only the count is the span's: `span foo / bar` is right, `(1, 2)`. -/
example : (getPlacement (.mk true none (some "foo")) (.mk false none (some "bar"))
    [["foo"], ["foo"], [], ["bar", "foo"]]).toOption = some (some (1, 2)) := by decide +kernel

end Grid

end Wp.Witness.C12
