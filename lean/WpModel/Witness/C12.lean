/-
C12 — negation witnesses: concrete inputs on which the *full-strength* clause of the property is
false of the model (and, replayed by the harness on every run, of the implementation).  Each is
listed in known_findings.txt under the id given in its docstring.  All are closed computations
(`decide +kernel`: no axioms).
-/
import WpModel.Model.Flex
import WpModel.Model.Grid

namespace Wp.Witness.C12
open Wp

/-! ## Flex -/

section Flex
open Wp.Flex

/-- an empty block item: `flex: 0 1 auto`, everything else initial -/
def item : Item :=
  { id := 0, order := 0, grow := 0, shrink := 1, basis := .auto, sWidth := none, sHeight := none,
    sMinW := none, sMaxW := none, sMinH := none, sMaxH := none, ml := some 0, mr := some 0,
    mt := some 0, mb := some 0, pl := 0, pr := 0, pt := 0, pb := 0, bl := 0, br := 0, bt := 0,
    bb := 0, alignSelf := .auto }

/-- `flex: 1 1 0` -/
def flex110 : Item := { item with grow := 1, shrink := 1, basis := .px 0 }

/-- `display: flex; width: 100px` -/
def rowC : Container :=
  { row := true, reverse := false, wrap := .nowrap, width := 100, height := none, mainGap := 0,
    crossGap := 0, justify := .normal, alignItems := .normal, alignContent := .normal }

/-- `display: flex; flex-direction: column; width: 100px; height: 100px` -/
def colC : Container := { rowC with row := false, height := some 100 }

/-- border boxes `(x, y, w, h)` of the laid-out items -/
def rects (r : Except PyErr Result) : Option (List (Rat × Rat × Rat × Rat)) :=
  match r with
  | .ok r => some (r.rects.map fun q => (q.x, q.y, q.w, q.h))
  | .error _ => none

/-- id=flex-clamp-no-redistribute (F5).  `flex:1 1 0; max-width:10px` + `flex:1 1 0` in 100px:
the second item could take the 90px that are left, it gets 50 (`flex_fill` without the
"not clamped" hypothesis is false). -/
theorem clamp_no_redistribute :
    rects (layout rowC [{ flex110 with sMaxW := some 10 }, { flex110 with id := 1 }]) =
      some [(0, 0, 10, 0), (10, 0, 50, 0)] := by decide +kernel

/-- id=flex-padding-not-counted.  Two `flex:1 1 0; padding:0 10px` items in 100px are 70px wide each. -/
theorem padding_not_counted :
    rects (layout rowC [{ flex110 with pl := 10, pr := 10 }, { flex110 with id := 1, pl := 10, pr := 10 }]) =
      some [(0, 0, 70, 0), (70, 0, 70, 0)] := by decide +kernel

/-- id=flex-vertical-auto-margins-zeroed.  `margin-top:auto` on a 10px item of a 100px column
container: the item stays at y = 0 (90 expected). -/
theorem vertical_auto_margins_zeroed :
    rects (layout colC [{ item with sHeight := some 10, mt := none }]) = some [(0, 0, 100, 10)] := by
  decide +kernel

/-- id=flex-negative-auto-margin.  `flex:none; width:120px; margin-left:auto` in 100px: the auto
margin becomes −20px (0 expected: auto margins only absorb positive free space). -/
theorem negative_auto_margin :
    rects (layout rowC [{ item with shrink := 0, sWidth := some 120, sHeight := some 10, ml := none }]) =
      some [(-20, 0, 120, 10)] := by decide +kernel

/-- id=flex-cross-auto-margin-not-positioned.  Wrapping column container, second column holds an
item with `margin-left:auto`: it is laid out at x = 0, on top of the first column (x ≥ 30 expected). -/
theorem cross_auto_margin_not_positioned :
    rects (layout { colC with wrap := .wrap, height := some 50, alignContent := .flexStart }
      [{ item with sHeight := some 40, sWidth := some 30 },
       { item with id := 1, sHeight := some 40, sWidth := some 20, ml := none }]) =
      some [(0, 0, 30, 40), (0, 0, 20, 40)] := by decide +kernel

/-- id=flex-align-content-last-item.  Two lines, `align-content:center`, the second line holds a
`flex-start` item (30px high) and a `flex-end` item (10px): both get y = 60, the position of the
last one (the flex-start item belongs at y = 40). -/
theorem align_content_last_item :
    rects (layout { rowC with wrap := .wrap, height := some 100, alignContent := .center }
      [{ item with sWidth := some 60, sHeight := some 10 },
       { item with id := 1, sWidth := some 60, sHeight := some 30, alignSelf := .flexStart },
       { item with id := 2, sWidth := some 30, sHeight := some 10, alignSelf := .flexEnd }]) =
      some [(0, 30, 60, 10), (0, 60, 60, 30), (60, 60, 30, 10)] := by decide +kernel

/-- id=flex-column-clamps-by-width.  Column container of 100px: `flex:1 1 0; max-width:10px` has
its *height* limited to 10px, and the second item gets 50 (not 90). -/
theorem column_clamps_by_width :
    rects (layout colC [{ flex110 with sMaxW := some 10 }, { flex110 with id := 1 }]) =
      some [(0, 0, 10, 10), (0, 10, 100, 50)] := by decide +kernel

/-- id=flex-fractional-factor-sum.  `flex:0.5 1 0` alone in 80px takes 80px (css-flexbox 9.7.4.b:
40px): `int(log10 40) = int(log10 80)`, so the scaled free space is not used. -/
theorem fractional_factor_sum :
    rects (layout { rowC with width := 80 } [{ flex110 with grow := 1/2, sHeight := some 10 }]) =
      some [(0, 0, 80, 10)] := by decide +kernel

/-- id=flex-content-base-clamped.  `flex:1 1 auto; min-width:20px` (no width: content-sized) next to
`flex:1 1 auto; width:20px` in 100px: the content flex base size (0) is already clamped to 20 by
`max_content_width`, so the free space is 60 instead of 80 and the items get 50 + 50 (40 + 60 expected). -/
theorem content_base_clamped :
    rects (layout rowC [{ item with grow := 1, sMinW := some 20, sHeight := some 5 },
                        { item with id := 1, grow := 1, sWidth := some 20, sHeight := some 5 }]) =
      some [(0, 0, 50, 5), (50, 0, 50, 5)] := by decide +kernel

end Flex

/-! ## Grid -/

section Grid
open Wp.Grid

/-- an empty block item, 5px high, placed automatically -/
def gitem : GItem :=
  { id := 0, order := 0, rowStart := .auto, rowEnd := .auto, colStart := .auto, colEnd := .auto,
    sWidth := none, sHeight := some 5, ml := some 0, mr := some 0, mt := some 0, mb := some 0,
    pl := 0, pr := 0, pt := 0, pb := 0, bl := 0, br := 0, bt := 0, bb := 0,
    justifySelf := .auto, alignSelf := .auto }

/-- `display: grid; width: 100px` -/
def gridC : GContainer :=
  { templateRows := none, templateCols := none, autoRows := [.one .auto], autoCols := [.one .auto],
    flowColumn := false, dense := false, areas := none, colGap := 0, rowGap := 0, width := 100,
    height := none, justifyContent := .normal, alignContent := .normal, justifyItems := .normal,
    alignItems := .normal }

/-- `grid-template-columns: a px b px …` -/
def pxCols (l : List Rat) : Option (List TElem) :=
  some ((l.map fun q => [TElem.names [], TElem.size (.one (.px q))]).flatten ++ [TElem.names []])

def grects (r : Except GErr Result) : Option (List (Rat × Rat × Rat × Rat)) :=
  match r with
  | .ok r => some (r.rects.map fun q => (q.x, q.y, q.w, q.h))
  | .error _ => none

def gareas (r : Except GErr Result) : Option (List (Nat × Area)) :=
  match r with
  | .ok r => some r.positions
  | .error _ => none

def gerr (r : Except GErr Result) : Option GErr :=
  match r with
  | .ok _ => none
  | .error e => some e

/-- id=grid-justify-ignores-gap.  Two 20px columns, `column-gap:10px; justify-content:center` in
100px: the columns start at 30 and 60 (25 and 55 expected: the free width is computed without the gap). -/
theorem justify_ignores_gap :
    grects (layout { gridC with templateCols := pxCols [20, 20], colGap := 10, justifyContent := .center }
      [gitem, { gitem with id := 1 }]) = some [(30, 0, 20, 5), (60, 0, 20, 5)] := by decide +kernel

/-- id=grid-locked-skips-first-track.  `grid-row: 1` alone: the item is put in the *second* column. -/
theorem locked_skips_first_track :
    gareas (layout { gridC with templateCols := pxCols [20, 30] } [{ gitem with rowStart := lineNo 1 }]) =
      some [(0, (1, 0, 1, 1))] := by decide +kernel

/-- id=grid-span-first-axis-crash.  `grid-row: span 2; grid-column: 2`: `first_i` is read before
assignment. -/
theorem span_first_axis_crash :
    gerr (layout { gridC with templateCols := pxCols [20, 30] }
      [{ gitem with rowStart := .mk true (some 2) none, colStart := lineNo 2 }]) =
      some (.unboundLocal "grid_layout.first_i") := by decide +kernel

/-- id=grid-named-span-hang.  `grid-row: 1; grid-column: span foo` with no line called `foo`: the
`count()` loop of `_get_second_placement` never finds a placement (the bound of the model is hit). -/
theorem named_span_hang :
    gerr (layout gridC [{ gitem with rowStart := lineNo 1, colStart := .mk true none (some "foo") }]) =
      some (.nonTermination "_get_second_placement.sparse") := by decide +kernel

/-- id=grid-negative-line-numbers.  `grid-column: -2 / -1` on three columns (four lines): css-grid
counts from the end, i.e. `(2, 1)`; `_get_placement` answers `(-3, 1)`
(`placement_numeric` without the positivity hypothesis is false). -/
theorem negative_line_numbers :
    (getPlacement (lineNo (-2)) (lineNo (-1)) [[], [], [], []]).toOption = some (some (-3, 1)) := by
  decide +kernel

/-- id=grid-column-flow-implicit-start.  `grid-auto-flow: column`, one item with `grid-row-end: 1`
(a row before the explicit grid) and one automatic item: the column sizing indexes its tracks with
the implicit start of the *rows* and raises `IndexError`. -/
theorem column_flow_implicit_start :
    gerr (layout { gridC with flowColumn := true } [{ gitem with rowEnd := lineNo 1 }, { gitem with id := 1 }]) =
      some (.indexError "tracks_children") := by decide +kernel

/-- id=grid-leading-implicit-tracks-misindexed.  `grid-column-end: 1` (a column before the explicit
grid) + one automatic item in 100px: the first item lands at x = 50 with width 0, the second at
x = 0 (expected 0 / 50, 50px wide each): step 4 indexes the tracks with the raw, negative coordinate. -/
theorem leading_implicit_tracks_misindexed :
    grects (layout gridC [{ gitem with colEnd := lineNo 1 }, { gitem with id := 1 }]) =
      some [(50, 0, 0, 5), (0, 0, 50, 5)] := by decide +kernel

/-- id=grid-maximize-no-redistribution.  `grid-template-columns: minmax(0, 50px) 5px` in 100px:
the 95px of free space are split in two shares of 47.5; the second track is already at its limit and
its share is lost, the first track ends at 47.5px (50px expected: there is room for every maximum). -/
theorem maximize_no_redistribution :
    (resolveTracks [(.px 0, .px 50), (.px 5, .px 5)] (some 100) [] 0 true 0 false).toOption.map
      (List.map (·.base)) = some [95/2, 5] := by decide +kernel

/-- id=grid-named-line-nth-ignored.  `grid-column-start: 2 foo` on lines `[foo] [foo] [foo] []`:
the second line called `foo` is line 1 (0-based); `_get_line` stops at the first one and answers 0. -/
theorem named_line_nth_ignored :
    (getLine false (some 2) (some "foo") [["foo"], ["foo"], ["foo"], []] "start").toOption.map (·.coord) =
      some (some 0) := by decide +kernel

/-- id=grid-justify-self-outer-width.  `justify-self: start; width: 20px; padding: 0 5px` in a 100px
area: the content width is set to the *outer* max-content width (30), the border box is 40px wide (30 expected). -/
theorem justify_self_outer_width :
    grects (layout gridC [{ gitem with sWidth := some 20, pl := 5, pr := 5, justifySelf := .other }]) =
      some [(0, 0, 40, 5)] := by decide +kernel

end Grid

end Wp.Witness.C12
