/-
C05 (pagination model) — witnesses: natural statements about block stacking / heights that are false of the
layout.
-/
import WpModel.Lemmas.Stacking

namespace Wp.C05PmWitness
open Wp Wp.PM

/-- **An empty block with a negative top margin gets a positive height.** A box that collapses through
keeps `position_y` where its parent handed it while its own `position_y` is moved by the collapsed margin;
`height: auto` is then `position_y − content_box_y = −collapse_margin(adjoining margins)`, and only
`min-height` clamps it from below: with `margin-top: -10px` the empty `<div>` is 10px high (CSS: 0) and
its border box covers the preceding paragraph (a background would be painted over it).
Reproduced on WeasyPrint itself: `<p>a</p><div style="margin-top:-10px"></div><p>b</p>` (10px lines) gives
the div `position_y = 10, margin_top = -10, height = 10`. -/
def negDoc : Doc :=
  { pageH := 100, rootLtr := true,
    root := .block 0 { plainSt with isRoot := true }
      [.para 1 1 10 plainSt, .block 2 { plainSt with mt := -10 } [], .para 3 1 10 plainSt] }

theorem empty_block_negative_margin_height :
    (paginate negDoc 10).map (fun ps => ps.map (fun p =>
      p.root.kids.map (fun k => (k.isEmpty, k.geo.borderBoxY, k.geo.h)))) =
    some [[(false, 0, 10), (true, 0, 10), (false, 0, 10)]] := by decide +kernel

/-- **With a negative collapsed margin placed children overlap** (the hypothesis of
`C05Pm.no_overlap_partial` is necessary; this is what CSS asks for): in the same document the second
paragraph is pulled up by the −10px margin onto the first one — both border boxes are [0, 10]. -/
theorem negative_margin_overlap :
    (paginate negDoc 10).map (fun ps => ps.map (fun p =>
      p.root.kids.map (fun k => (k.geo.borderBoxY, k.geo.borderBottom)))) =
    some [[(0, 10), (0, 10), (0, 10)]] ∧ ¬ NonNegMargins negDoc.root := by
  refine ⟨by decide +kernel, ?_⟩
  simp only [negDoc, NonNegMargins, NonNegMarginsList, plainSt]
  decide +kernel

/-- **The `auto` height before clamping can be negative even with non-negative margins**: an empty block
with `margin-top: 10px` has `position_y − content_box_y = −10`; `min-height: 0` makes the used height 0
(`tailH0` is the height before clamping, see `C05Pm.unfragmented_height`). -/
theorem auto_height_before_clamp_negative :
    tailH0 { plainSt with mt := 10 } { y := 10, mt := 10, mb := 0, pt := 0, pb := 0, bt := 0, bb := 0 } true 10
      [0, 10] [0, 10] false = -10 ∧
    (finishTail { pageBottom := 100, currentPage := 1, forcedBreak := false } { plainSt with mt := 10 }
      { y := 10, mt := 10, mb := 0, pt := 0, pb := 0, bt := 0, bb := 0 } 0 true false none 10
      [0, 10] [0, 10] true false).geo.h = 0 := by decide +kernel

end Wp.C05PmWitness
