/-
C11 — negation witnesses: concrete inputs on which the *full-strength* statement is false of the
model (and, replayed by the harness, of the implementation).  Each is listed in known_findings.txt.
-/
import WpModel.Props.C11
import WpModel.Props.C11Flow

namespace Wp.Witness.C11
open Wp Wp.Floats Wp.Absolute Wp.C11

/-- `left:0; right:0; width:50px; margin-left:auto; margin-right:10px` in a 100-px containing block:
`absolute_width` sets `margin-left = cb_width − (left + right + width + paddings + borders) = 50`
without subtracting `margin-right`, so the margin box is 110 px wide and the border box ends at the
containing block's right edge instead of 10 px before it.  The unrestricted equation
`abs_equation_h` is therefore false. -/
theorem abs_auto_margin_ignores_opposite_margin :
    let b : HBox := ⟨some 0, some 0, some 50, none, some 10, 0, 0, 0, 0, 0, none, 0, 0, 0⟩
    let u := usedH b true 0 100
    MarginDefectH b true ∧ u.ml = 50 ∧ u.x + u.ml + b.pb + u.w + u.mr ≠ 0 + 100 - 0 := by
  refine ⟨by simp [MarginDefectH], by decide +kernel, by decide +kernel⟩

/-- The same vertically: `top:0; bottom:0; height:10px; margin-top:auto; margin-bottom:10px` in a
100-px-high containing block gives `margin-top = 90`, not 80. -/
theorem abs_auto_margin_top_ignores_margin_bottom :
    let b : VBox := ⟨some 0, some 0, some 10, none, some 10, 0, 0, 0, 0, 0⟩
    let u := usedV b 0 100 0
    MarginDefectV b ∧ u.mt = 90 ∧ u.y + u.mt + b.pb + u.h + u.mb ≠ 0 + 100 - 0 := by
  refine ⟨by simp [MarginDefectV], by decide +kernel, by decide +kernel⟩

/-- And for replaced boxes: `left:0; right:0; margin-left:auto; margin-right:10px` on a 50-px-wide
image in a 100-px containing block gives `margin-left = 50`: the equation sums to 110. -/
theorem abs_replaced_auto_margin_ignores_opposite_margin :
    let b : RBox := ⟨some 0, some 0, some 0, none, none, some 10, some 0, some 0, 50, 10,
      0, 0, 0, 0, 0, 0, 0, 0, 0, 0⟩
    let r := absoluteReplacedH b true 0 100
    ReplacedDefectH b ∧ r.ml = some 50 ∧ r.left = some 0 ∧ r.right = some 0 ∧
      (0 : Rat) + 50 + b.borderWidth + 10 + 0 ≠ 100 := by
  refine ⟨by simp [ReplacedDefectH], by decide +kernel, by decide +kernel, by decide +kernel, by decide +kernel⟩

/-- A float whose border box has height 0 (`height:0` with overflowing content, or an empty float
with margins) is not placed at all: `avoid_collisions` returns `(0, 0, cb_width)` and
`find_float_position` moves the box to the *page origin* — outside its containing block, above its
static position and above earlier floats.  `float_rules` therefore needs `border_height ≠ 0`. -/
theorem zero_height_float_goes_to_page_origin :
    let shapes : List Shape := [⟨50, 70, 20, 20, .left⟩]
    let b : ABox := ⟨70, 70, 5, 5, 5, 5, 10, 0, .left, .none, .bfc⟩
    let cb : CB := ⟨50, 100, false⟩
    (findFloatPosition shapes b cb).toOption = some (0, 0) ∧
    ¬ (b.py ≤ 0) ∧ ¬ (cb.cx ≤ 0) := by
  refine ⟨by decide +kernel, by decide +kernel, by decide +kernel⟩

/-- Zero-height *shapes* make the collision test a closed-interval test (boundary behaviour of
`collide_iff`): a box that only touches a zero-height float with its bottom edge is treated as
colliding, so `as_high_as_possible` needs shapes of positive height. -/
theorem zero_height_shape_blocks_a_position_that_fits :
    let shapes : List Shape := [⟨0, 10, 60, 0, .left⟩]
    -- a 50-wide, 10-high box requested at y = 0 in a 100-wide container: it touches the shape
    -- only along its bottom edge, yet the left bound becomes 60 and it is "blocked"
    blockedAt shapes 50 10 0 100 0 = true ∧ ¬ Overlaps 0 0 50 10 ⟨0, 10, 60, 0, .left⟩ := by
  refine ⟨by decide +kernel, ?_⟩
  simp [Overlaps]
  intro _ _
  decide +kernel

/-- `float_width` offers `shrink_to_fit` the whole width of the containing block: an auto-width float with
`padding: 0 10px; margin-left: 5px` whose content could take 300px gets a 100px content box in a 100px
container, so its margin box (125px) does not fit where a CSS 2.1 §10.3.5 float (75px of content) would. -/
theorem float_shrink_to_fit_ignores_margins_paddings :
    let f : FloatSpec := ⟨.left, .none, .auto, none, .px 5, .px 0, .px 0, .px 0, .px 10, .px 10, .px 0, .px 0,
      0, 0, 0, 0, .auto, .auto, 40, 300, 10, 30⟩
    (floatResolve f 100).marginWidth = 125 ∧ ¬ ((floatResolve f 100).marginWidth ≤ 100) := by
  refine ⟨by decide +kernel, by decide +kernel⟩

/-- `float_layout` only calls `float_width` (and with it the min/max wrapper) for an auto width:
`width: 200px; max-width: 100px` stays 200px wide, although `floatWidthAuto` would respect the maximum. -/
theorem float_width_ignores_min_max :
    let f : FloatSpec := ⟨.left, .none, .px 200, some 10, .px 0, .px 0, .px 0, .px 0, .px 0, .px 0, .px 0, .px 0,
      0, 0, 0, 0, .auto, .px 100, 0, 0, 0, 0⟩
    (floatResolve f 100).bw = 200 ∧ floatWidthAuto 0 (some 100) 0 300 100 = 100 := by
  refine ⟨by decide +kernel, by decide +kernel⟩

/-- A right-aligned line taller than the strut is positioned with the room measured on the strut band: a 30x12
inline-block (strut 8) next to a left float 10x9 and a right float 60x30 that starts 9px lower ends at
x = 70..100, over the right float (40..100 from y = 9): `placed_box_no_overlap` does not extend to the line
position that `get_next_linebox` computes for alignments other than start. -/
theorem tall_line_aligned_in_strut_band :
    let shapes : List Shape := [⟨0, 0, 10, 9, .left⟩, ⟨40, 9, 60, 30, .right⟩]
    (nextLinebox ⟨0, 100, false⟩ 8 .right shapes ⟨0, 30, 12, []⟩ 0).toOption.map (fun t => (t.x, t.y)) = some (70, 0) ∧
    Overlaps 70 0 30 12 ⟨40, 9, 60, 30, .right⟩ := by
  refine ⟨by decide +kernel, ?_⟩
  simp [Overlaps]
  decide +kernel

/-- A fixed box collected too late (its outermost positioned ancestor is absolutely positioned) is laid out on
its own page only: `fixed_on_every_page` needs `late = false`. -/
theorem fixed_in_absolute_not_repeated :
    Positioned.collectedLate [.static, .absolute] = true ∧
    Positioned.pageFixed [[⟨1, 0, 0, true⟩], []] 1 = [] ∧ Positioned.pageFixed [[⟨1, 0, 0, true⟩], []] 0 ≠ [] := by
  decide +kernel

/-- A float kept on its line is moved to the line's top whatever `find_float_position` decided: a `clear:left`
5x10 float met in a line next to an 80x30 left float ends at the line's top, over that float. -/
theorem inline_float_snapped_to_line_top :
    let shapes : List Shape := [⟨0, 0, 80, 30, .left⟩]
    let l : LineSpec := ⟨10, 10, 10, [⟨0, 0, 0, 0, 0, 0, 5, 10, .left, .left, .bfc⟩]⟩
    ((layoutLines ⟨0, 100, false⟩ 10 .start shapes [l] 0).toOption.map (fun r => r.2.1.map (fun p => p.floats)))
      = some [[(0, 0, 5, 10)]] ∧ Overlaps 0 0 5 10 ⟨0, 0, 80, 30, .left⟩ := by
  refine ⟨by decide +kernel, ?_⟩
  simp [Overlaps]
  decide +kernel

end Wp.Witness.C11
