/-
C11 — negation witnesses: concrete inputs on which the *full-strength* statement is false of the
model (and, replayed by the harness, of the implementation); each is listed in known_findings.txt as `finding:`.
Regression theorems: the inputs of findings that were repaired in /repo (`fixed:` lines), stating the now-correct
behaviour.
-/
import WpModel.Props.C11
import WpModel.Props.C11Flow
import WpModel.Model.FixedPages

namespace Wp.Witness.C11
open Wp Wp.Floats Wp.Absolute Wp.C11

/-! ### Regressions: inputs of former findings, repaired in /repo (`fixed:` lines of known_findings.txt).
Each states the now-correct behaviour on the input that used to refute the clause. -/

/-- `left:0; right:0; width:50px; margin-left:auto; margin-right:10px` in a 100-px containing block
(former finding abs-auto-margin-ignores-opposite-margin, repaired in 7752e9b): `margin-left = 100 − 50 − 10 = 40`,
the margin box fills the containing block and the border box ends 10 px before its right edge. -/
theorem abs_auto_margin_takes_the_rest :
    let b : HBox := ⟨some 0, some 0, some 50, none, some 10, 0, 0, 0, 0, 0, none, 0, 0, 0⟩
    let u := usedH b true 0 100
    u.ml = 40 ∧ u.x + u.ml + b.pb + u.w + u.mr = 0 + 100 - 0 := by
  refine ⟨by decide +kernel, by decide +kernel⟩

/-- The same vertically: `top:0; bottom:0; height:10px; margin-top:auto; margin-bottom:10px` in a
100-px-high containing block gives `margin-top = 80`. -/
theorem abs_auto_margin_top_takes_the_rest :
    let b : VBox := ⟨some 0, some 0, some 10, none, some 10, 0, 0, 0, 0, 0⟩
    let u := usedV b 0 100 0
    u.mt = 80 ∧ u.y + u.mt + b.pb + u.h + u.mb = 0 + 100 - 0 := by
  refine ⟨by decide +kernel, by decide +kernel⟩

/-- And for replaced boxes: `left:0; right:0; margin-left:auto; margin-right:10px` on a 50-px-wide
image in a 100-px containing block gives `margin-left = 40`: the equation sums to 100. -/
theorem abs_replaced_auto_margin_takes_the_rest :
    let b : RBox := ⟨some 0, some 0, some 0, none, none, some 10, some 0, some 0, 50, 10,
      0, 0, 0, 0, 0, 0, 0, 0, 0, 0⟩
    let r := absoluteReplacedH b true 0 100
    r.ml = some 40 ∧ r.left = some 0 ∧ r.right = some 0 ∧
      (0 : Rat) + 40 + b.borderWidth + 10 + 0 = 100 := by
  refine ⟨by decide +kernel, by decide +kernel, by decide +kernel, by decide +kernel⟩

/-- A float whose border box has height 0 (former finding zero-height-float-at-page-origin, repaired in 50ab141)
stays at its static position against the left edge of its containing block instead of going to the page origin
(the same input as the former witness, with the earlier float moved out of the way). -/
theorem zero_height_float_keeps_static_position :
    let shapes : List Shape := [⟨50, 40, 20, 20, .left⟩]
    let b : ABox := ⟨70, 70, 5, 5, 5, 5, 10, 0, .left, .none, .bfc⟩
    let cb : CB := ⟨50, 100, false⟩
    (findFloatPosition shapes b cb).toOption = some (50, 70) := by
  decide +kernel

/-- Regression (former finding zero-height-float-ignores-other-floats, repaired in 1bc67ce): a float with an empty
border box but vertical margins (margin box 20×10) next to the 20×20 left float that is already there goes beside
it (x = 70), like any other float, and does not overlap it. -/
theorem zero_height_float_avoids_earlier_float :
    let shapes : List Shape := [⟨50, 70, 20, 20, .left⟩]
    let b : ABox := ⟨50, 70, 5, 5, 5, 5, 10, 0, .left, .none, .bfc⟩
    let cb : CB := ⟨50, 100, false⟩
    (findFloatPosition shapes b cb).toOption = some (70, 70) ∧
    ¬ Overlaps 70 70 b.marginWidth b.marginHeight ⟨50, 70, 20, 20, .left⟩ := by
  refine ⟨by decide +kernel, ?_⟩
  simp [Overlaps, ABox.marginWidth, ABox.marginHeight]
  intro h
  exact absurd h (by decide +kernel)

/-! ### Witnesses: clauses false of the current code (`finding:` lines of known_findings.txt) -/

/-- `bottom: 0` in a `position: relative` container whose height (0) comes from `min-height: 100px`: the
container's absolute children are laid out inside `block_container_layout`, before the clamp, so the containing
block is 0 high and the 10px box ends at the container's *top* edge (y = −10..0) instead of its bottom edge
(y = 90..100): `cb_height_of_relative_box` needs the hypothesis that min/max-height do not change the height
(finding abs-cb-height-before-min-max). -/
theorem abs_cb_height_before_min_max :
    let c : CBHeights := ⟨0, 100, none⟩
    cbHeightAtLayout true c = 0 ∧ c.used = 100 ∧
    (usedV ⟨none, some 0, some 10, some 0, some 0, 0, 0, 0, 0, 0⟩ 0 (cbHeightAtLayout true c) 10).y = -10 ∧
    (usedV ⟨none, some 0, some 10, some 0, some 0, 0, 0, 0, 0, 0⟩ 0 c.used 10).y = 90 := by
  refine ⟨by decide +kernel, by decide +kernel, by decide +kernel, by decide +kernel⟩

/-- `position: fixed; bottom: 0; height: 10px` holding two 10px blocks, declared at the top of a 320px page with
16px margins: on its own page `make_page` lays it out with `bottom_space = 0 + translate_y = 278`, the content is
laid out at the static position (y = 16) and the second block ends at 36 > 304 − 278: it is cut (and continued on
the next page); on every other page `layout_fixed_boxes` uses `bottom_space = -inf` and both blocks are drawn.
`fixed_same_content` needs the hypothesis that the content ends above `page_bottom − bottom_space`
(finding fixed-box-fragmented-on-own-page). -/
theorem fixed_box_fragmented_on_own_page :
    let vb : VBox := ⟨none, some 0, some 10, some 0, some 0, 0, 0, 0, 0, 16⟩
    Positioned.fixedKept (some 0) 304 vb 16 288 [10, 10] = 1 ∧ Positioned.fixedKept none 304 vb 16 288 [10, 10] = 2 := by
  decide +kernel

/-- `top: 0; bottom: 0; height: 200px; max-height: 100px; margin: auto 0` in a 300px-high containing block:
`absolute_height` solves the equation with the specified height (both margins 50), `block_container_layout` then
clamps the height to 100 and nothing is solved again (horizontally `absolute_width` is re-run by
`handle_min_max_width`): the border box lies at 50..150 from the top instead of being centred at 100..200, and
`top + margin box + bottom = 200 ≠ 300`.  `abs_block_equation_v_partial` therefore needs the hypothesis that
min-height / max-height did not change a specified or solved height (finding abs-height-min-max-not-resolved). -/
theorem abs_height_min_max_not_resolved :
    let st : Absolute.AbsStyle := ⟨.px 0, .auto, .px 0, .px 0, .px 50, .px 200, .px 0, .px 0, .auto, .auto,
      .px 0, .px 0, .px 0, .px 0, 0, 0, 0, 0, .auto, .auto, .auto, .px 100⟩
    (absoluteBlock st ⟨20, 20, 100, 300⟩ true 20 20 0 0 0 0).toOption.map
      (fun r => (r.y, r.height, r.mt, r.mb, r.y + r.mh + 0)) = some (20, 100, 50, 50, 220) ∧
    (220 : Rat) ≠ 20 + 300 := by
  refine ⟨by decide +kernel, by decide +kernel⟩

/-- Zero-height *shapes* make the collision test a closed-interval test (boundary behaviour of
`collide_iff`): a box that only touches a zero-height float with its bottom edge is treated as
colliding, so `as_high_as_possible` needs shapes of positive height. -/
theorem zero_height_shape_blocks_a_position_that_fits :
    let shapes : List Shape := [⟨0, 10, 60, 0, .left⟩]
    -- a 50-wide, 10-high box requested at y = 0 in a 100-wide container: it touches the shape
    -- only along its bottom edge, yet the left bound becomes 60 and it is "blocked"
    blockedAt shapes 50 10 0 100 0 = true ∧ ¬ Overlaps 0 0 50 10 ⟨0, 10, 60, 0, .left⟩ := by
  refine ⟨by decide +kernel, ?_⟩
  simp [Overlaps]
  intro _ _
  decide +kernel

/-- Regression (former finding float-shrink-to-fit-ignores-margins-paddings, repaired in 8719f13): an auto-width
float with `padding: 0 10px; margin-left: 5px` whose content could take 300px gets a 75px content box in a 100px
container: its margin box is exactly 100px wide and fits. -/
theorem float_shrink_to_fit_leaves_room_for_margins_paddings :
    let f : FloatSpec := ⟨.left, .none, .auto, none, .px 5, .px 0, .px 0, .px 0, .px 10, .px 10, .px 0, .px 0,
      0, 0, 0, 0, .auto, .auto, 40, 300, 10, 30⟩
    (floatResolve f 100).marginWidth = 100 := by
  decide +kernel

/-- Regression (former finding float-width-ignores-min-max, repaired in 802b9d8): `width: 200px; max-width: 100px`
is 100px wide, and `width: 20px; min-width: 50px` is 50px wide. -/
theorem float_width_respects_min_max :
    let f : FloatSpec := ⟨.left, .none, .px 200, some 10, .px 0, .px 0, .px 0, .px 0, .px 0, .px 0, .px 0, .px 0,
      0, 0, 0, 0, .auto, .px 100, 0, 0, 0, 0⟩
    let g : FloatSpec := { f with width := .px 20, minW := .px 50, maxW := .auto }
    (floatResolve f 100).bw = 100 ∧ (floatResolve g 100).bw = 50 := by
  refine ⟨by decide +kernel, by decide +kernel⟩

/-- A right-aligned line taller than the strut is positioned with the room measured on the strut band: a 30x12
inline-block (strut 8) next to a left float 10x9 and a right float 60x30 that starts 9px lower ends at
x = 70..100, over the right float (40..100 from y = 9): `placed_box_no_overlap` does not extend to the line
position that `get_next_linebox` computes for alignments other than start. -/
theorem tall_line_aligned_in_strut_band :
    let shapes : List Shape := [⟨0, 0, 10, 9, .left⟩, ⟨40, 9, 60, 30, .right⟩]
    (nextLinebox ⟨0, 100, false⟩ 8 .right shapes ⟨0, 30, 12, []⟩ 0).toOption.map (fun t => (t.x, t.y)) = some (70, 0) ∧
    Overlaps 70 0 30 12 ⟨40, 9, 60, 30, .right⟩ := by
  refine ⟨by decide +kernel, ?_⟩
  simp [Overlaps]
  decide +kernel

/-- A fixed box collected too late (its outermost positioned ancestor is absolutely positioned) is laid out on
its own page only: `fixed_on_every_page` needs `late = false`. -/
theorem fixed_in_absolute_not_repeated :
    Positioned.collectedLate [.static, .absolute] = true ∧
    Positioned.pageFixed [[⟨1, 0, 0, true⟩], []] 1 = [] ∧ Positioned.pageFixed [[⟨1, 0, 0, true⟩], []] 0 ≠ [] := by
  decide +kernel

/-- Regression (former finding inline-float-snapped-to-line-top, repaired in 330f66c): a `clear:left` 5x10 float met
in a line next to an 80x30 left float stays where `float_layout` put it, below that float, and overlaps nothing. -/
theorem inline_float_keeps_its_position :
    let shapes : List Shape := [⟨0, 0, 80, 30, .left⟩]
    let l : LineSpec := ⟨10, 10, 10, [⟨0, 0, 0, 0, 0, 0, 5, 10, .left, .left, .bfc⟩]⟩
    ((layoutLines ⟨0, 100, false⟩ 10 .start shapes [l] 0).toOption.map (fun r => r.2.1.map (fun p => p.floats)))
      = some [[(0, 30, 5, 10)]] ∧ ¬ Overlaps 0 30 5 10 ⟨0, 0, 80, 30, .left⟩ := by
  refine ⟨by decide +kernel, ?_⟩
  simp [Overlaps]
  intro _ _ h
  exact absurd h (by decide +kernel)

/-- Regression (former findings rtl-inline-float-displaced, repaired in 330f66c, and inline-float-laid-out-twice,
repaired in 58d1f9d): in an rtl container starting at x = 20 without earlier floats — every first line is started
again there — a 20x10 left float met in a line after a 20px word is laid out against the container's left edge
(x = 20), once: the float list holds exactly that float. -/
theorem rtl_inline_float_at_the_edge_once :
    let l : LineSpec := ⟨20, 20, 10, [⟨0, 0, 0, 0, 0, 0, 20, 10, .left, .none, .bfc⟩]⟩
    let r := (layoutLines ⟨20, 100, true⟩ 10 .start [] [l] 20).toOption
    r.map (fun r => r.2.1.map (fun p => p.floats)) = some [[(20, 20, 20, 10)]] ∧
    r.map (fun r => r.1) = some [⟨20, 20, 20, 10, .left⟩] := by
  refine ⟨by decide +kernel, by decide +kernel⟩

end Wp.Witness.C11
