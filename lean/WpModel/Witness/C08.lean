/-
C08 — clauses that are false of the current code, refuted on concrete inputs.  Each is mirrored by
a `finding:` line of known_findings.txt and a replay function in py/props/c08.py.
-/
import WpModel.Model.BoxGen
import WpModel.Lemmas.Grid
import WpModel.Lemmas.Boxes

namespace Wp.Witness.C08
open Wp Wp.Bx Wp.TableGrid

/-- `<tr><td>a<td rowspan=2>b <tr><td colspan=2>c`: the second row's cell starts in the free
column 0 and extends over column 1, which `b` occupies in that row: slot (1, 1) has two owners.
Refutes the unrestricted slot-disjointness statement. -/
theorem colspan_overlaps_rowspan :
    placeGroup [[⟨1, 1⟩, ⟨1, 2⟩], [⟨2, 1⟩]] 0 = .ok ([[⟨0, 1, 1⟩, ⟨1, 1, 2⟩], [⟨0, 2, 1⟩]], 2) ∧
    Covers (0, ⟨1, 1, 2⟩) 1 1 ∧ Covers (1, ⟨0, 2, 1⟩) 1 1 ∧
    ¬ NoOverhang [[⟨1, 1⟩, ⟨1, 2⟩], [⟨2, 1⟩]] [[], []] 0 :=
  ⟨by rfl, by decide, by decide, by decide⟩

/-- A floated `display: inline-flex` computes to `block flow` (a `BlockBox`), not `block flex`:
`computed_values.display` compares with `('inline-table',)`, a value the validator never produces,
and then treats every `inline …` value as `inline flow`. -/
theorem blockify_inline_flex :
    blockify ["inline", "flex"] "left" "static" false = ["block", "flow"] ∧
    boxTypeFromDisplay (blockify ["inline", "flex"] "left" "static" false) = some .BlockBox ∧
    boxTypeFromDisplay ["block", "flex"] = some .FlexBox := by
  decide +kernel

theorem blockify_inline_table :
    boxTypeFromDisplay (blockify ["inline", "table"] "none" "absolute" false) = some .BlockBox ∧
    boxTypeFromDisplay ["block", "table"] = some .TableBox := by
  decide +kernel


private def tx (s : List Nat) : KBox := .mk .TextBox {} {} {} s [] []
private def bx (k : BoxKind) (kids : List KBox) : KBox := .mk k {} {} {} [] kids []

/-- `<div style="display:table-row; position:running(x)">a</div>`: `anonymous_table_boxes` returns a
running box untouched, so the row keeps its text child; its parent still wraps the row in a table and
`wrap_table` reads `cell.colspan` on the text box: AttributeError (the whole render fails). -/
theorem running_row_not_fixed :
    (match atb (.mk .TableRowBox { run := true } {} {} [] [tx [97]] []) with
      | .ok r => r.kids.map (fun (c : KBox) => c.kind) | .error _ => []) = [.TextBox] ∧
    (match createAnonymousBoxes (bx .BlockBox [.mk .TableRowBox { run := true } {} {} [] [tx [97]] []]) with
      | .ok _ => none | .error e => some e) = some .attributeError := by
  constructor <;> rfl

/-- `<div style="display:flex"><div style="display:inline-table">…`: `flex_children` replaces the
inline-block table wrapper by a plain anonymous block: the table is no longer in a table wrapper. -/
theorem inline_table_item_loses_wrapper :
    (match createAnonymousBoxes (bx .FlexBox [bx .InlineTableBox []]) with
      | .ok r => r.kids.map (fun (w : KBox) => (w.kind, w.inst.wrapper, w.kids.map (fun (t : KBox) => t.kind)))
      | .error _ => []) = [(.BlockBox, false, [.InlineTableBox])] := by
  decide +kernel

/-- A no-break space between two rows is not CSS white space, yet rule 1.4 deletes it (`\S`). -/
theorem nbsp_between_rows_dropped :
    (match atb (bx .TableBox [bx .TableRowBox [], tx [160], bx .TableRowBox []]) with
      | .ok r => leafText r | .error _ => [0]) = [] ∧
    leafText (bx .TableBox [bx .TableRowBox [], tx [160], bx .TableRowBox []]) = [160] := by
  constructor <;> rfl

/-- `li::marker { display: none }`: `marker_to_box` calls `make_box` before it tests the display, and
`BOX_TYPE_FROM_DISPLAY` has no entry for `('none',)`: KeyError, the whole document fails. -/
theorem marker_display_none_crash :
    (match markerToBox ⟨{ display := ["none"] }, .inhibit, some [8226, 32]⟩ {} true 0 with
      | .ok _ => none | .error e => some e) = some .keyError := by
  decide +kernel

end Wp.Witness.C08
