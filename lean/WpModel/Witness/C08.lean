/-
C08 — clauses that are false of the current code, refuted on concrete inputs.  Each is mirrored by
a `finding:` line of known_findings.txt and a replay function in py/props/c08.py.  At the end: the
inputs of repaired findings, kept as regression statements of the now-correct behaviour.
-/
import WpModel.Model.BoxGen
import WpModel.Lemmas.Grid
import WpModel.Lemmas.Whitespace
import WpModel.Lemmas.Boxes

namespace Wp.Witness.C08
open Wp Wp.Bx Wp.TableGrid

/-- `<tr><td>a<td rowspan=2>b <tr><td colspan=2>c`: the second row's cell starts in the free
column 0 and extends over column 1, which `b` occupies in that row: slot (1, 1) has two owners.
Refutes the unrestricted slot-disjointness statement. -/
theorem colspan_overlaps_rowspan :
    placeGroup [[⟨1, 1⟩, ⟨1, 2⟩], [⟨2, 1⟩]] 0 = .ok ([[⟨0, 1, 1⟩, ⟨1, 1, 2⟩], [⟨0, 2, 1⟩]], 2) ∧
    Covers (0, ⟨1, 1, 2⟩) 1 1 ∧ Covers (1, ⟨0, 2, 1⟩) 1 1 ∧
    ¬ NoOverhang [[⟨1, 1⟩, ⟨1, 2⟩], [⟨2, 1⟩]] [[], []] 0 :=
  ⟨by rfl, by decide, by decide, by decide⟩

/-- A floated `display: inline-flex` computes to `block flow` (a `BlockBox`), not `block flex`:
`computed_values.display` compares with `('inline-table',)`, a value the validator never produces,
and then treats every `inline …` value as `inline flow`. -/
theorem blockify_inline_flex :
    blockify ["inline", "flex"] "left" "static" false = ["block", "flow"] ∧
    boxTypeFromDisplay (blockify ["inline", "flex"] "left" "static" false) = some .BlockBox ∧
    boxTypeFromDisplay ["block", "flex"] = some .FlexBox := by
  decide +kernel

theorem blockify_inline_table :
    boxTypeFromDisplay (blockify ["inline", "table"] "none" "absolute" false) = some .BlockBox ∧
    boxTypeFromDisplay ["block", "table"] = some .TableBox := by
  decide +kernel


private def tx (s : List Nat) : KBox := .mk .TextBox {} {} {} s [] []
private def bx (k : BoxKind) (kids : List KBox) : KBox := .mk k {} {} {} [] kids []

/-- `<div style="display:table-row; position:running(x)">a</div>`: `anonymous_table_boxes` returns a
running box untouched, so the row keeps its text child; its parent still wraps the row in a table and
`wrap_table` reads `cell.colspan` on the text box: AttributeError (the whole render fails). -/
theorem running_row_not_fixed :
    (match atb (.mk .TableRowBox { run := true } {} {} [] [tx [97]] []) with
      | .ok r => r.kids.map (fun (c : KBox) => c.kind) | .error _ => []) = [.TextBox] ∧
    (match createAnonymousBoxes (bx .BlockBox [.mk .TableRowBox { run := true } {} {} [] [tx [97]] []]) with
      | .ok _ => none | .error e => some e) = some .attributeError := by
  constructor <;> rfl

/-! ## Regression cases of repaired findings (`fixed:` lines of known_findings.txt)

The inputs below were witnesses of defects; the code has been repaired and the statements now
say what the repaired code does on the same inputs.  The general theorems are in `Props/C08.lean`
(`flex_grid_keeps_wrappers`, `is_whitespace_is_css_white_space`, `marker_display_none`). -/

/-- `<div style="display:flex"><div style="display:inline-table">…` (fixed by 97f25f2): `flex_children`
replaces the inline-block table wrapper by an anonymous block *that is still a table wrapper*. -/
theorem inline_table_item_keeps_wrapper :
    (match createAnonymousBoxes (bx .FlexBox [bx .InlineTableBox []]) with
      | .ok r => r.kids.map (fun (w : KBox) => (w.kind, w.inst.wrapper, w.kids.map (fun (t : KBox) => t.kind)))
      | .error _ => []) = [(.BlockBox, true, [.InlineTableBox])] ∧
    (match createAnonymousBoxes (bx .GridBox [bx .InlineTableBox []]) with
      | .ok r => r.kids.map (fun (w : KBox) => (w.kind, w.inst.wrapper, w.kids.map (fun (t : KBox) => t.kind)))
      | .error _ => []) = [(.BlockBox, true, [.InlineTableBox])] := by
  constructor <;> decide +kernel

/-- A no-break space between two rows is not CSS white space (fixed by f280b41): rule 1.4 keeps it; it
ends up in an anonymous row (and cell) of its own between the two rows. -/
theorem nbsp_between_rows_kept :
    (match atb (bx .TableBox [bx .TableRowBox [], tx [160], bx .TableRowBox []]) with
      | .ok r => leafText r | .error _ => [0]) = [160] ∧
    (match atb (bx .TableBox [bx .TableRowBox [], tx [32, 10], bx .TableRowBox []]) with
      | .ok r => leafText r | .error _ => [0]) = [] := by
  constructor <;> decide +kernel

/-- `li::marker { display: none }` (fixed by 848642f): `marker_to_box` tests the display before
`make_box`; no marker box, no failure, the quote depth is untouched. -/
theorem marker_display_none_no_box :
    markerToBox ⟨{ display := ["none"] }, .inhibit, some [8226, 32]⟩ {} true 3 = .ok ([], 3) := by
  rfl

/-- `<div style="float:left">a <span> b</span></div>` (fixed by b7d94f7): the state "a collapsible space
precedes" goes from child to child inside a floated / absolutely positioned box as in normal flow: `a b`, one
space.  General statement: `C08.whitespace_across_boxes_any_container`. -/
theorem out_of_flow_container_spaces_collapsed :
    leafText (pw (.mk .BlockBox { flt := true } {} {} [] [tx [97, 32], bx .InlineBox [tx [32, 98]]] []) false).1
      = [97, 32, 98] ∧
    leafText (pw (.mk .BlockBox { abs := true } {} {} [] [tx [97, 32], tx [32, 98]] []) false).1
      = [97, 32, 98] ∧
    leafText (pw (bx .BlockBox [tx [97, 32], bx .InlineBox [tx [32, 98]]]) false).1 = [97, 32, 98] ∧
    noDoubleSp [97, 32, 98] = true := by
  refine ⟨by rfl, by rfl, by rfl, by rfl⟩

end Wp.Witness.C08
