import WpModel.Drive.Loop
import WpModel.Drive.Paginate
import WpModel.Drive.PaginateOof

def main : IO Unit := Wp.Drive.runDriver [Wp.Drive.PaginateOof.handle, Wp.Drive.Paginate.handle]
