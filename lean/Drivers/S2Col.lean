import WpModel.Drive.Loop
import WpModel.Drive.PaginateCol

def main : IO Unit := Wp.Drive.runDriver [Wp.Drive.PaginateCol.handle]
