import WpModel.Drive.Loop
import WpModel.Drive.Resources
import WpModel.Drive.ResourcesBg
import WpModel.Drive.ResourcesSvg
import WpModel.Drive.ResourcesPaint
import WpModel.Drive.ResourcesSource

def main : IO Unit :=
  Wp.Drive.runDriver [Wp.Drive.Resources.handle, Wp.Drive.ResourcesBg.handle, Wp.Drive.ResourcesSvg.handle,
    Wp.Drive.ResourcesPaint.handle, Wp.Drive.ResourcesSource.handle]
