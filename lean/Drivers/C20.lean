import WpModel.Drive.Loop
import WpModel.Drive.Resources

def main : IO Unit := Wp.Drive.runDriver [Wp.Drive.Resources.handle]
