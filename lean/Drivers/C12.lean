import WpModel.Drive.Loop
import WpModel.Drive.Flex
import WpModel.Drive.Grid

def main : IO Unit := Wp.Drive.runDriver [Wp.Drive.Flex.handle, Wp.Drive.Grid.handle]
