import WpModel.Drive.Loop
import WpModel.Drive.Flex
import WpModel.Drive.Grid
import WpModel.Drive.C12Tags

def main : IO Unit :=
  Wp.Drive.runDriver [Wp.Drive.Flex.handle, Wp.Drive.Grid.handle, Wp.Drive.C12Tags.handle]
