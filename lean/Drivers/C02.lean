import WpModel.Drive.Loop
import WpModel.Drive.Paginate
import WpModel.Drive.PaginateOof
import WpModel.Drive.PaginateFoot
import WpModel.Drive.PaginateCol
import WpModel.Drive.Total
import WpModel.Drive.C02Extra

def main : IO Unit := Wp.Drive.runDriver [Wp.Drive.Paginate.handle, Wp.Drive.PaginateOof.handle, Wp.Drive.PaginateFoot.handle, Wp.Drive.PaginateCol.handle, Wp.Drive.Total.handle, Wp.Drive.C02Extra.handle]
