import WpModel.Drive.Loop
import WpModel.Drive.Paginate
import WpModel.Drive.PaginateFoot

def main : IO Unit := Wp.Drive.runDriver [Wp.Drive.PaginateFoot.handle, Wp.Drive.Paginate.handle]
