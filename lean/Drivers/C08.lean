import WpModel.Drive.Loop
import WpModel.Drive.BoxTree

def main : IO Unit := Wp.Drive.runDriver [Wp.Drive.BoxTree.handle]
