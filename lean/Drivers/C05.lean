import WpModel.Drive.Loop
import WpModel.Drive.BoxModel
import WpModel.Drive.BoxEdges
import WpModel.Drive.Paginate
import WpModel.Drive.UsedCheck
import WpModel.Drive.ShrinkFit
import WpModel.Drive.BlockTreeV
import WpModel.Drive.UsedShift
import WpModel.Drive.BoxDeco

def main : IO Unit :=
  Wp.Drive.runDriver [Wp.Drive.BoxModel.handle, Wp.Drive.BoxEdges.handle, Wp.Drive.Paginate.handle,
    Wp.Drive.UsedCheck.handle, Wp.Drive.ShrinkFit.handle, Wp.Drive.BlockTreeV.handle,
    Wp.Drive.UsedShift.handle, Wp.Drive.BoxDeco.handle]
