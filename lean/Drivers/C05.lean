import WpModel.Drive.Loop
import WpModel.Drive.BoxModel
import WpModel.Drive.BoxEdges
import WpModel.Drive.Paginate

def main : IO Unit :=
  Wp.Drive.runDriver [Wp.Drive.BoxModel.handle, Wp.Drive.BoxEdges.handle, Wp.Drive.Paginate.handle]
