import WpModel.Drive.Loop
import WpModel.Drive.Counters
import WpModel.Drive.CounterScope
import WpModel.Drive.Repaginate
import WpModel.Drive.PageCounters
import WpModel.Drive.TargetText
import WpModel.Drive.CounterDescriptors
import WpModel.Drive.ListHints
import WpModel.Drive.ContentFns
import WpModel.Drive.ListStyleType
import WpModel.Drive.MarginCounters
import WpModel.Drive.PageStd

def main : IO Unit := Wp.Drive.runDriver
  [Wp.Drive.Counters.handle, Wp.Drive.CounterScope.handle, Wp.Drive.Repaginate.handle,
   Wp.Drive.PageCounters.handle, Wp.Drive.TargetText.handle, Wp.Drive.CounterDescriptors.handle,
   Wp.Drive.ListHints.handle, Wp.Drive.ContentFns.handle,
   Wp.Drive.ListStyleType.handle, Wp.Drive.MarginCounters.handle,
   Wp.Drive.PageStd.handle]
