import WpModel.Drive.Loop
import WpModel.Drive.Counters
import WpModel.Drive.CounterScope
import WpModel.Drive.Repaginate

def main : IO Unit := Wp.Drive.runDriver
  [Wp.Drive.Counters.handle, Wp.Drive.CounterScope.handle, Wp.Drive.Repaginate.handle]
