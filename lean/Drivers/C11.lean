import WpModel.Drive.Loop
import WpModel.Drive.Floats
import WpModel.Drive.Absolute
import WpModel.Drive.Positioned
import WpModel.Drive.C11Regress

def main : IO Unit :=
  Wp.Drive.runDriver [Wp.Drive.Floats.handle, Wp.Drive.Absolute.handle, Wp.Drive.Positioned.handle,
    Wp.Drive.C11Regress.handle]
