import WpModel.Drive.Loop
import WpModel.Drive.C14
import WpModel.Drive.C14Tags
import WpModel.Drive.C14Groups
import WpModel.Drive.C14Percent
import WpModel.Drive.C14Sheet
import WpModel.Drive.C14Marks

def main : IO Unit :=
  Wp.Drive.runDriver [Wp.Drive.C14.handle, Wp.Drive.C14Tags.handle, Wp.Drive.C14Groups.handle,
    Wp.Drive.C14Percent.handle, Wp.Drive.C14Sheet.handle,
    Wp.Drive.C14Marks.handle]
