import WpModel.Drive.Loop
import WpModel.Drive.C14

def main : IO Unit := Wp.Drive.runDriver [Wp.Drive.C14.handle]
