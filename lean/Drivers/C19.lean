import WpModel.Drive.Loop
import WpModel.Drive.C19

def main : IO Unit := Wp.Drive.runDriver [Wp.Drive.C19.handle]
