import WpModel.Drive.Loop
import WpModel.Drive.Stacking

def main : IO Unit := Wp.Drive.runDriver [Wp.Drive.Stacking.handle]
