import WpModel.Drive.Loop
import WpModel.Drive.Stacking
import WpModel.Drive.Rounded
import WpModel.Drive.PaintGeo
import WpModel.Drive.ToUnicode
import WpModel.Drive.Transform

def main : IO Unit :=
  Wp.Drive.runDriver [Wp.Drive.Stacking.handle, Wp.Drive.Rounded.handle, Wp.Drive.PaintGeo.handle,
    Wp.Drive.ToUnicode.handle, Wp.Drive.Transform.handle]
