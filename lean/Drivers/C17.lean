import WpModel.Drive.Loop
import WpModel.Drive.Stacking
import WpModel.Drive.Rounded

def main : IO Unit := Wp.Drive.runDriver [Wp.Drive.Stacking.handle, Wp.Drive.Rounded.handle]
