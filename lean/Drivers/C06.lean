import WpModel.Drive.Loop
import WpModel.Drive.Cascade

def main : IO Unit := Wp.Drive.runDriver [Wp.Drive.Cascade.handle]
