import WpModel.Drive.Loop
import WpModel.Drive.C07

def main : IO Unit := Wp.Drive.runDriver [Wp.Drive.C07.handle]
