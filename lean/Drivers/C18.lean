import WpModel.Drive.Loop
import WpModel.Drive.Outline

def main : IO Unit := Wp.Drive.runDriver [Wp.Drive.Outline.handle, Wp.Drive.Outline.handleDoc, Wp.Drive.Outline.handleAttach]
