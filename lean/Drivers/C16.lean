import WpModel.Drive.Loop
import WpModel.Drive.PdfStream
import WpModel.Drive.ContentCheck
import WpModel.Drive.PdfPages
import WpModel.Drive.DrawSkeleton
import WpModel.Drive.PdfFile
import WpModel.Drive.PdfFonts
import WpModel.Drive.GradientDraw
import WpModel.Drive.PdfUaLinks

def main : IO Unit := Wp.Drive.runDriver
  [Wp.Drive.PdfStream.handle, Wp.Drive.ContentCheck.handle, Wp.Drive.PdfPages.handle, Wp.Drive.DrawSkeleton.handle,
   Wp.Drive.PdfFile.handle, Wp.Drive.PdfFonts.handle, Wp.Drive.GradientDraw.handle, Wp.Drive.PdfUaLinks.handle]
