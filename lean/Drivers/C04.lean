import WpModel.Drive.Loop
import WpModel.Drive.Break
import WpModel.Drive.Paginate
import WpModel.Drive.BreakTrace
import WpModel.Drive.C04Extra

def main : IO Unit := Wp.Drive.runDriver [Wp.Drive.Break.handle, Wp.Drive.Paginate.handle, Wp.Drive.BreakTrace.handle, Wp.Drive.C04Extra.handle]
