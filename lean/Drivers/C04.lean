import WpModel.Drive.Loop
import WpModel.Drive.Break
import WpModel.Drive.Paginate

def main : IO Unit := Wp.Drive.runDriver [Wp.Drive.Break.handle, Wp.Drive.Paginate.handle]
