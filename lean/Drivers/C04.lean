import WpModel.Drive.Loop
import WpModel.Drive.Break

def main : IO Unit := Wp.Drive.runDriver [Wp.Drive.Break.handle]
