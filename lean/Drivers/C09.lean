import WpModel.Drive.Loop
import WpModel.Drive.LineBreak
import WpModel.Drive.InlineRun
import WpModel.Drive.Hyphenate

def main : IO Unit :=
  Wp.Drive.runDriver [Wp.Drive.LineBreak.handle, Wp.Drive.InlineRun.handle, Wp.Drive.Hyphenate.handle]
