import WpModel.Drive.Loop
import WpModel.Drive.LineBreak
import WpModel.Drive.InlineRun
import WpModel.Drive.Hyphenate
import WpModel.Drive.LineVertical
import WpModel.Drive.LineFloats

def main : IO Unit :=
  Wp.Drive.runDriver [Wp.Drive.LineBreak.handle, Wp.Drive.InlineRun.handle, Wp.Drive.Hyphenate.handle,
    Wp.Drive.LineVertical.handle, Wp.Drive.LineFloats.handle]
