import WpModel.Drive.Loop
import WpModel.Drive.LineBreak

def main : IO Unit := Wp.Drive.runDriver [Wp.Drive.LineBreak.handle]
