import WpModel.Drive.Loop
import WpModel.Drive.Paginate

def main : IO Unit := Wp.Drive.runDriver [Wp.Drive.Paginate.handle]
