import WpModel.Drive.Loop
import WpModel.Drive.Table
import WpModel.Drive.Borders
import WpModel.Drive.TableRows

def main : IO Unit := Wp.Drive.runDriver [Wp.Drive.Table.handle, Wp.Drive.Borders.handle, Wp.Drive.TableRows.handle]
