import WpModel.Drive.Loop
import WpModel.Drive.Table
import WpModel.Drive.Borders
import WpModel.Drive.TableRows
import WpModel.Drive.TablePages
import WpModel.Drive.TablePreferred
import WpModel.Drive.TableRowHeights

def main : IO Unit := Wp.Drive.runDriver
  [Wp.Drive.Table.handle, Wp.Drive.Borders.handle, Wp.Drive.TableRows.handle, Wp.Drive.TablePages.handle,
   Wp.Drive.TablePref.handle, Wp.Drive.RowHeights.handle]
