import WpModel.Drive.Loop
import WpModel.Drive.Table
import WpModel.Drive.Borders
import WpModel.Drive.TableRows
import WpModel.Drive.TablePages
import WpModel.Drive.TablePreferred
import WpModel.Drive.TableRowHeights
import WpModel.Drive.TableCellSplit
import WpModel.Drive.TableCellWidth
import WpModel.Drive.TableBorderDraw
import WpModel.Drive.TableSplitBorders
import WpModel.Drive.TableGroupOrder
import WpModel.Drive.TableColumns

def main : IO Unit := Wp.Drive.runDriver
  [Wp.Drive.Table.handle, Wp.Drive.Borders.handle, Wp.Drive.TableRows.handle, Wp.Drive.TablePages.handle,
   Wp.Drive.TablePref.handle, Wp.Drive.RowHeights.handle, Wp.Drive.TableCellSplit.handle,
   Wp.Drive.TableCellWidth.handle, Wp.Drive.BorderDraw.handle,
   Wp.Drive.SplitBorders.handle, Wp.Drive.TableGroupOrder.handle,
   Wp.Drive.TableColumns.handle]
