import WpModel.Drive.Loop
import WpModel.Drive.Replaced

def main : IO Unit := Wp.Drive.runDriver [Wp.Drive.Replaced.handle]
