import WpModel.Drive.Loop
import WpModel.Drive.Paginate
import WpModel.Drive.Total
import WpModel.Drive.Trace

def main : IO Unit := Wp.Drive.runDriver [Wp.Drive.Paginate.handle, Wp.Drive.Total.handle, Wp.Drive.Trace.handle]
