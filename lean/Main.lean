/-
Line-protocol driver: one command per input line, one result line per command.
  <cmd> <sx> <sx> …   →  result | `bad-op` (unparsable or unknown: never defaulted)
Imports only Model/, Gen/ and Drive/ (no Mathlib), so that it links as an executable.
-/
import WpModel.Model.Wire
import WpModel.Drive.Break

open Wp

def handlers : List (String → List Sx → Option String) :=
  [ Drive.Break.handle ]

def dispatch (line : String) : String :=
  match Sx.parseLine line with
  | some (.atom cmd :: args) =>
    match handlers.findSome? (fun h => h cmd args) with
    | some out => out
    | none => "bad-op"
  | _ => "bad-op"

partial def loop (h : IO.FS.Stream) (out : IO.FS.Stream) : IO Unit := do
  let line ← h.getLine
  if line.isEmpty then return ()
  out.putStrLn (dispatch line)
  loop h out

def main : IO Unit := do
  let stdin ← IO.getStdin
  let stdout ← IO.getStdout
  loop stdin stdout
