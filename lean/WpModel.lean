-- Root of the `WpModel` library: every module that must be built by `lake build WpModel`.
import WpModel.Model.Wire
import WpModel.Drive.Loop
import WpModel.Model.BreakTypes
import WpModel.Gen.BreakTable
import WpModel.Model.Break
import WpModel.Model.Paginate
import WpModel.Lemmas.ParaLines
import WpModel.Drive.Break
import WpModel.Drive.Paginate
import WpModel.Drive.Total
import WpModel.Props.C01
import WpModel.Props.C02
import WpModel.Props.C03
import WpModel.Props.C04
import WpModel.Witness.C04
