"""C20 — resources go through the caller's URL fetcher; fetch failures degrade gracefully."""
import functools
import io
import itertools
import shutil
import tempfile
from pathlib import Path
from urllib.parse import urljoin, urlparse
from urllib.request import url2pathname

from extract import fetch_sites, url_tables
from harness import c20_bg, c20_doc, c20_paint, c20_source, c20_svg, docs
from harness import c20_res as R
from harness.c20_res import Spec, enc
from vlib import sx
from vlib.framework import PropCheck

IMAGE_NAMES = ['png', 'png_rgba', 'png_l', 'png_la', 'png_p', 'png_p_transp', 'png_1', 'png_i', 'png_exif', 'jpeg',
               'jpeg_l', 'jpeg_cmyk', 'jpeg_exif6', 'jpeg_exif1', 'gif', 'bmp', 'tiff', 'webp', 'svg', 'mpo',
               'tiff_cmyk', 'tiff_f']     # the last two: Pillow opens them but cannot write them as PNG
BAD_IMAGE_NAMES = ['svg_import', 'xhtml', 'html', 'css', 'empty', 'garbage', 'png_cut8', 'png_cut20', 'png_cut40',
                   'png_cut_tail', 'jpeg_cut30', 'jpeg_cut_half', 'svg_cut', 'otf']
FONT_NAMES = ['otf', 'otf', 'woff', 'woff2', 'otf_cut', 'woff_bad', 'woff2_bad', 'wof_other', 'empty', 'garbage',
              'html', 'png']


def font_names(rng):
    """Payloads for a font URL: valid fonts, plain failures, and the damaged-but-plausible family (real OTF / WOFF /
    WOFF2 bytes truncated at many offsets, with an inverted byte, with a wrong or swapped magic number)."""
    return FONT_NAMES if rng.random() < 0.45 else R.damaged_names('font')


def image_names(rng):
    r = rng.random()
    if r < 0.5:
        return IMAGE_NAMES
    return BAD_IMAGE_NAMES if r < 0.78 else R.damaged_names('image')


ORIENTATIONS = ['from-image', 'none', (0, False), (90, False), (0, True), (180, True), (270, False)]
REDIRECTS = [None, None, None, 'file:///tmp/c20-named/a.png', 'http://cdn.test/r.png', 'file:///tmp/c20-named/b%20c.jpg',
             'file:', 'FILE:///tmp/c20-named/upper.png', 'file://host/share/x.png?q=1#f']


def orient_sx(o):
    return o if isinstance(o, str) else [o[0], o[1]]


# (optimize_images, jpeg_quality, dpi): the options that get_image_from_uri / RasterImage read
OPTION_SETS = [(False, None, None)] * 5 + [(True, None, None), (False, 60, None), (True, 60, None), (False, None, 96),
                                          (False, 85, 300), (True, None, 300)]


def opts_sx(opts):
    return [opts[0], opts[1], opts[2]]


def real_options(opts):
    from weasyprint import DEFAULT_OPTIONS
    return dict(DEFAULT_OPTIONS, optimize_images=opts[0], jpeg_quality=opts[1], dpi=opts[2])


def cache_key(url, orient, opts):
    """The cache key the property speaks of: one entry per (URL, orientation, image options)."""
    return f'{url} {orient} {opts[0]} {opts[1]} {opts[2]}'


def show_img(image, spec, saves_before, saves_after, original):
    """Canonical form of what `get_image_from_uri` returned (same text as Drive/Resources `showImg`)."""
    from weasyprint.images import LazyImage, LazyLocalImage, RasterImage, SVGImage
    if image is None:
        return 'none'
    cid = spec.content.id
    if isinstance(image, SVGImage):
        return f'svg:{cid}'
    assert isinstance(image, RasterImage)
    return f'raster:{image.format}:{show_src(image, saves_after > saves_before, original)}:{cid}'


def show_src(image, saved, original):
    from weasyprint.images import LazyImage, LazyLocalImage
    data = image.image_data
    if isinstance(data, LazyLocalImage):
        return 'local=' + enc(data._filename)
    assert isinstance(data, LazyImage)
    if saved:
        return 'reenc'
    assert data.data == original, 'LazyImage holds bytes that are neither re-encoded nor the original'
    return 'mem'


def outcome_class(fn):
    try:
        return fn()
    except Exception as exc:  # noqa: BLE001
        return f'err:{type(exc).__name__}'


class FontStub:
    """Records `add_font_face` calls of the stylesheet pipeline."""

    def __init__(self, acts):
        self.acts = acts

    def add_font_face(self, rule_descriptors, url_fetcher):
        self.acts.append(('font', rule_descriptors['font_family']))


# ------------------------------------------------------------------------------------------------
# stylesheets: abstract items -> css text + fetch table + wire form

class CssGen:
    def __init__(self, rng, device='print'):
        self.rng = rng
        self.device = device
        self.table = {}
        self.counter = itertools.count(1)
        self.face_keys = itertools.count(1)
        self.nontrivial = set()

    def url(self, ext='css'):
        n = next(self.counter)
        return self.rng.choice(['http://css.test/', 'https://cdn.test/a/', 'file:///tmp/c20-named/']) + f's{n}.{ext}'

    def media(self):
        """(css text, wire, ok)"""
        r = self.rng.random()
        if r < 0.5:
            return '', ['\'all'], True
        if r < 0.7:
            return ' print', ["'print"], True
        if r < 0.8:
            return ' screen', ["'screen"], False
        if r < 0.9:
            return ' screen, PRINT', ["'screen", "'print"], True
        return ' 5px', 'none', False

    def items(self, depth, base=None):
        """-> (css text, wire list); `base`: the URL relative references of this stylesheet resolve against."""
        texts, wires = [], []
        for _ in range(self.rng.choice([0, 1, 1, 2, 3, 4])):
            r = self.rng.random()
            if r < 0.35 or depth <= 0 and r < 0.6:
                n = self.rng.randrange(1, 400)
                texts.append(f'.r{n}{{color:red}}')
                wires.append(['rule', n])
            elif r < 0.42:
                texts.append('@page{margin:1px}')
                wires.append('other')
            elif r < 0.75 and depth > 0:
                mtext, mwire, _ = self.media()
                form = self.rng.random()
                if form < 0.08:
                    texts.append(f'@import 5{mtext};')
                    wires.append(['import', 'none', mwire, ['sheet', 'notdict', []]])
                    continue
                url = self.url()
                written = url
                if form > 0.8:          # a relative reference: resolved against the stylesheet's own (redirected) URL
                    written = f'rel/s{next(self.counter)}.css'
                    if not base:        # no base URL: "Relative URI reference without a base URI", rule skipped
                        texts.append(f'@import "{written}"{mtext};')
                        wires.append(['import', 'none', mwire, ['sheet', 'notdict', []]])
                        self.nontrivial.add('import-unresolvable')
                        continue
                    url = urljoin(base, written)
                sheet_wire = self.sheet(url, depth - 1, check_mime=False)
                texts.append(f'@import url({written}){mtext};' if form < 0.55 else f'@import "{written}"{mtext};')
                wires.append(['import', enc(url), mwire, sheet_wire])
                self.nontrivial.add('import')
            elif r < 0.85 and depth > 0:
                mtext, mwire, _ = self.media()
                inner_text, inner_wire = self.items(depth - 1, base)
                texts.append(f'@media{mtext or " all"}{{{inner_text}}}')
                wires.append(['media', mwire if mtext else ["'all"], inner_wire])
            else:
                key = next(self.face_keys)
                complete = self.rng.random() < 0.8
                url = self.url('otf')
                if complete:
                    texts.append(f'@font-face{{font-family:f{key};src:url({url})}}')
                else:
                    texts.append(f'@font-face{{font-family:f{key}}}')
                wires.append(['fontface', complete, [key, [['ext', enc(url)]]]])
                self.nontrivial.add('fontface')
        return ''.join(texts), wires

    def sheet(self, url, depth, check_mime):
        """Register what the fetcher serves for `url`; -> wire of the model's Sheet."""
        spec = R.random_spec(self.rng, ['css'], mimes=['text/css'] * 6 + ['text/html', None, 'TEXT/CSS'],
                             redirects=[None] * 5 + [f'http://moved.test/d{next(self.counter)}/s.css'])
        # CSS.__init__: base_url = result.get('redirected_url', url)
        own = spec.redirected if (spec.kind == 'resp' and spec.redirected) else url
        text, wires = self.items(depth, own)
        data = text.encode()
        content = R.Content(1000 + next(self.counter), 'css', data)
        content.xml_ok, content.pil, content.woff, content.woff_ok, content.font_ok = False, None, False, True, False
        if spec.kind == 'resp':
            spec.content = content
            if spec.mime != 'text/css' or not spec.has_mime:
                self.nontrivial.add('mime')
        else:
            self.nontrivial.add(spec.kind)
        self.table[url] = spec
        return ['sheet', spec.sx(), wires]


def matcher_rules(css):
    """Ids of the `.rN` rules of a CSS object's matcher, in insertion order."""
    entries = []
    for name, selectors in css.matcher.class_selectors.items():
        for entry in selectors:
            entries.append((entry[2], int(name[1:])))
    return [n for _, n in sorted(entries)]


class C20(PropCheck):
    id = 'C20'
    extractors = (fetch_sites.generate, url_tables.generate)
    modules = ('WpModel.Props.C20', 'WpModel.Props.C20Url', 'WpModel.Props.C20Trace', 'WpModel.Props.C20Absent', 'WpModel.Props.C20Bg',
               'WpModel.Props.C20Svg', 'WpModel.Props.C20Paint', 'WpModel.Props.C20Tables', 'WpModel.Props.C20Once', 'WpModel.Props.C20Source', 'WpModel.Props.C20Catalog', 'WpModel.Props.C20Fonts',
               'WpModel.Witness.C20')
    trusted_base = (
        'modelled, not verified: urls.fetch, images.get_image_from_uri / RasterImage.__init__ (data source), '
        'html.handle_img/embed/object/svg, css find_stylesheets + @import/@media/@font-face branches of preprocess_stylesheet, '
        'fonts.add_font_face src loop, pdf.anchors.write_pdf_attachment / add_annotations (Model/Resources.lean), '
        'layout.background.layout_box_backgrounds (image list and per-layer zip), document.DiskCache under get_image_from_uri '
        '(Model/ResourcesBg.lean), images.SVGImage.draw with its _drawing flag + svg.images.image at any depth '
        '(Model/ResourcesSvg.lean), weasyprint._select_source with urls.ensure_url, all branches (Model/ResourcesSource.lean; '
        'path2url of a name and the outcome of open() are parameters of the model)',
        'verdicts of third-party parsers on a byte string (ElementTree, Pillow open / PNG save, fontTools, fontconfig) are '
        'parameters of the model, obtained by the harness from those libraries directly',
        'which files / sockets the process opens is runtime behaviour: observed with sys.addaudithook on generated documents, '
        'not proved; the AST scan of open()/read_bytes()/urlopen() call sites and of the except clauses of the loaders '
        '(Gen/FetchSites) is syntactic',
    )
    assumptions = (
        'URLs are ASCII; percent escapes below %80 only (iri_to_uri is then the identity, url2pathname = unquote)',
        'stylesheet responses carry no redirected_url (the base of a relative @import is then the stylesheet URL, resolved '
        'by urllib.urljoin, which is an oracle of the harness)',
        'fetches made while an SVG image (referenced by URL, or an inline <svg> element) is drawn are followed to any depth and '
        'through any cycle (ResourcesSvg.drawObject, used by ResourcesDoc.run); an SVG image used as a CSS image (background, '
        'list-style, content) is generated without references of its own; an external <use> is a direct call whose result is unused',
        'RasterImage.__init__ raises on data Pillow can open only in pillow_image.save(format=PNG) (unwritable mode): the '
        'verdict of that call is a parameter (Pil.pngWritable); JPEG re-encoding does not raise',
        'LazyImage byte entries of the cache (keys md5-source-dpi) never collide with image keys and are not modelled',
        'the fetcher returns None or a dict; file objects implement read() and close()',
    )

    # ------------------------------------------------------------------------------------ sections
    def correspondence(self, run):
        docs.quiet()
        R.bank()
        R.RECORDERS.clear()
        store = self.capture_lines(run)
        self.sec_fetch(run)
        self.sec_urls(run)
        self.sec_url_resolution(run)
        self.sec_raster(run)
        self.sec_images(run)
        c20_bg.disk_section(run, self)
        self.sec_handle(run)
        self.sec_css(run)
        self.sec_fonts(run)
        self.sec_attachments(run)
        c20_bg.section(run)
        c20_svg.section(run)
        c20_paint.section(run)
        c20_source.section(run)
        c20_doc.section(run)
        self.sec_traces(run)
        self.branch_histogram(run, store)

    # model branches taken by the generated cases -------------------------------------------------
    TAG_CAP = 4000
    MODEL_BRANCHES = (
        [f'fetch:{a}/{b}' for a in ('fetcher-raises', 'not-a-dict', 'string', 'string+file-obj', 'no-string-no-file', 'read-error',
                                     'file-obj-close-fails', 'file-obj') for b in ('body-returns', 'body-raises')] +
        ['img:cache-hit-image', 'img:cache-hit-failure', 'img:fetcher-raises', 'img:not-a-dict-escapes',
         'img:read-error-escapes', 'img:no-string-no-file-escapes', 'img:svg-by-mime', 'img:error-svg-mime',
         'img:svg-last-chance', 'img:error-undecodable', 'img:error-reencoding-fails', 'img:raster-JPEG-original-bytes', 'img:raster-JPEG-reencoded',
         'img:raster-JPEG-lazy-local', 'img:raster-PNG-original-bytes', 'img:raster-PNG-reencoded', 'img:raster-PNG-lazy-local'] +
        ['font:exhausted-warning', 'font:broken-url', 'font:internal', 'font:local-name-mismatch', 'font:url-fetch-fails',
         'font:local-fetch-fails', 'font:woff-decode-fails', 'font:url-fetch-installed', 'font:local-fetch-installed',
         'font:fontconfig-rejects', 'font:already-loaded'] +
        ['css:rule', 'css:other-at-rule', 'css:import-too-late', 'css:import-no-url', 'css:import-invalid-media',
         'css:import-media-mismatch', 'css:import-escapes', 'css:import-fetch-error-logged', 'css:import-loaded',
         'css:media-invalid', 'css:media-mismatch', 'css:media-entered', 'css:font-face', 'css:font-face-incomplete',
         'sheet:fetcher-raises', 'sheet:not-a-dict', 'sheet:string', 'sheet:string+file-obj', 'sheet:no-string-no-file',
         'sheet:read-error', 'sheet:file-obj-close-fails', 'sheet:file-obj', 'sheet:wrong-mime-empty',
         'el:type-not-css', 'el:media-mismatch', 'el:style', 'el:link-no-href', 'el:link-rel-skipped',
         'el:link-unresolvable', 'el:link-fetched'] +
        [f'attachment:{a}' for a in ('fetcher-raises', 'not-a-dict', 'string', 'string+file-obj', 'no-string-no-file',
                                     'read-error', 'file-obj-close-fails', 'file-obj')] +
        ['join:no-base', 'join:empty-reference', 'join:other-scheme', 'join:non-hierarchical-scheme', 'join:has-authority',
         'join:fragment-only', 'join:query-only', 'join:absolute-path', 'join:merge-with-dotdot', 'join:merge'] +
        ['doc:render-completes', 'doc:render-escapes', 'doc:write-completes', 'doc:write-local-file-missing',
         'doc:write-escapes', 'doc:local-file-read', 'svg:external-use-direct-call', 'svg:image-loaded', 'svg:image-none',
         'svg:image-escapes-swallowed', 'svg:image-no-href-skipped'])
    # font:local-no-match cannot be produced: FcFontMatch always returns the closest font (the harness passes found=true)
    # img:read-error-caught-class: a read() raising URLFetchingError / ImageLoadingError itself (generated rarely)

    @staticmethod
    def capture_lines(run):
        """Keep (up to a cap) the protocol lines of every section, to ask the driver afterwards which model branches they took."""
        store = {}
        original = run.section

        def section(name, rule):
            sec = original(name, rule)
            add = sec.add
            kept = store.setdefault(name, [])

            def recording_add(line, *args, **kwargs):
                if len(kept) < C20.TAG_CAP:
                    kept.append(line)
                return add(line, *args, **kwargs)
            sec.add = recording_add
            return sec
        run.section = section
        return store

    def branch_histogram(self, run, store):
        """`tags <line>` through the driver: the branch of the *model* each case takes; histogram per section in the
        evidence (`model:` tags) and the list of model branches no case of this run reached."""
        import collections
        from vlib import lean
        hit = collections.Counter()
        commands = ('fetch', 'images', 'fonts', 'css', 'sheet', 'attach', 'urljoin', 'doc')      # (bg / imagesdisk: no tags)
        by_name = {sec.name: sec for sec in run.sections}
        for name, lines in store.items():
            wanted = [line for line in lines if line.split(' ', 1)[0] in commands]
            if not wanted:
                continue
            outs = lean.run_driver(self.driver, ['tags ' + line for line in wanted])
            for out in outs:
                for tag in out.split():
                    hit[tag] += 1
                    by_name[name].tags['model:' + tag] += 1
        run.extra['model_branches_hit'] = dict(hit.most_common())
        run.extra['model_branches_never_hit'] = sorted(set(self.MODEL_BRANCHES) - set(hit))
        run.extra['model_branches_unlisted'] = sorted(set(hit) - set(self.MODEL_BRANCHES) - {'bad-op'})

    # the verified trace checker on every recorded log --------------------------------------------
    def sec_traces(self, run):
        sec = run.section('trace-checker', 'every log recorded by a recording fetcher in this run (all sections, both variants of '
                          'each document) through the Lean checkers traceOk / obsOk (each fetch is call [body [close]]; the file '
                          'object is closed exactly once before the next call) and callsWithin (document runs: every URL handed '
                          'to the fetcher is named by the document); the checkers are proved to accept every model trace '
                          '(Props/C20Trace.lean); non-trivial = at least two events')
        for recorder in R.RECORDERS:
            events = recorder.whole_log()
            if not events:
                continue
            wire = [['call', e[5:]] if e.startswith('call=') else e for e in events]
            named = 'any'
            if recorder.check_named:
                named = [enc(u) for u in list(recorder.table) + recorder.extra_named]
            mode = 'full' if 'body' in events else 'obs'
            sec.add(sx.line('trace', mode, wire, named), 'shape=true within=true',
                    meta={'events': events, 'named': None if named == 'any' else list(recorder.table)},
                    nontrivial=len(events) > 1, tags=[mode, 'named' if recorder.check_named else 'shape-only'])
        R.RECORDERS.clear()

    # urls.fetch ------------------------------------------------------------------------------
    def sec_fetch(self, run):
        from weasyprint.urls import fetch
        sec = run.section('fetch', 'urls.fetch with every fetcher outcome x body outcome; events (call, body, close), '
                          'escaping exception with message, defaults; non-trivial = fetcher raises, or a file object is present')
        contents = R.bank()
        specs = [Spec('notdict')]
        for make in R.EXCEPTIONS + [R.url_fetching_error, lambda: R.url_fetching_error('')]:
            specs.append(Spec('raises', exc=make()))
        for string, fo, has_mime, mime, red in itertools.product(
                (True, False), (None, (None, False), (None, True), (OSError('r'), False)), (True, False),
                (None, 'text/css'), (None, 'http://r.test/x')):
            specs.append(Spec('resp', content=contents['png'], string=string, file_obj=fo, mime=mime,
                              has_mime=has_mime, redirected=red))
        bodies = [None, ValueError('in body'), R.url_fetching_error('from body'), KeyError('file_obj')]
        urls = ['http://a.test/x.png', 'file:///tmp/c20-named/f.css', 'data:text/plain,hi', 'relative/path']
        for spec in specs:
            for body_exc in bodies:
                url = run.rng.choice(urls)
                line = sx.line('fetch', spec.sx(), enc(url), 'ok' if body_exc is None else R.exc_sx(body_exc))
                sec.add(line, self.real_fetch(fetch, spec, url, body_exc),
                        meta={'spec': spec.json(), 'url': url, 'body': None if body_exc is None else R.exc_sx(body_exc),
                              'body_json': None if body_exc is None else [type(body_exc).__name__, str(body_exc)]},
                        nontrivial=spec.kind == 'raises' or (spec.kind == 'resp' and spec.file_obj is not None),
                        tags=[spec.kind, 'body-raises' if body_exc else 'body-ok'])

    @staticmethod
    def real_fetch(fetch, spec, url, body_exc):
        recorder = R.Recorder({url: spec})
        seen = {}
        try:
            with fetch(recorder, url) as result:
                recorder.events.append('body')
                seen = {'red': result['redirected_url'], 'mime': result['mime_type']}
                if body_exc is not None:
                    raise body_exc
            out = f'ok red={enc(seen["red"])} mime={enc(seen["mime"])}'
        except Exception as exc:  # noqa: BLE001
            out = f'err:{type(exc).__name__}:{enc(str(exc))}'
        return recorder.log() + ' ' + out

    # URL helpers ----------------------------------------------------------------------------
    def sec_urls(self, run):
        from weasyprint.urls import url_is_absolute
        sec = run.section('url-parts', 'urlparse(url).scheme / url2pathname(urlparse(url).path) / url_is_absolute on generated '
                          'ASCII URLs; non-trivial = contains a colon')
        alphabet = ['a', 'b', 'Z', '1', '+', '-', '.', ':', ':', '/', '/', '?', '#', 'file', 'http', 'FILE', '_', '@', '%', '%2',
                    '%20', '%7e', '%4A', '%g1', '%C3%A9', '%E6%97%A5', '%F0%9F%98%80']
        fixed = ['file:///tmp/x.png', 'file:/tmp/x.png', 'file:tmp/x.png', 'file://host/x?y#z', 'http://a/b#c?d',
                 'a:b', 'a1:b', '1a:b', ':x', 'x', '', 'file:', 'file://', 'data:image/png;base64,AAAA', 'f-i.l+e:/x',
                 'file:///a/b?c', 'file:///a#b', 'FiLe:///A/B', 'fi_le:///x', 'a://b', 'ab://b/c/d.e']
        cases = fixed + [''.join(run.rng.choice(alphabet) for _ in range(run.rng.randrange(1, 9)))
                         for _ in range(run.n(600, 8000))]
        import re
        for url in cases:
            if re.search('%[89a-fA-F][0-9a-fA-F]', url.replace('%C3%A9', '').replace('%E6%97%A5', '').replace('%F0%9F%98%80', '')):
                continue    # ill-formed UTF-8 escapes: Python's errors='replace' grouping is outside the model (assumption)
            parsed = urlparse(url)
            sec.add(sx.line('url', 'scheme', enc(url)), enc(parsed.scheme), meta={'url': url}, nontrivial=':' in url)
            sec.add(sx.line('url', 'path', enc(url)), enc(url2pathname(parsed.path)), meta={'url': url},
                    nontrivial=':' in url)
            sec.add(sx.line('url', 'abs', enc(url)), str(url_is_absolute(url)).lower(), meta={'url': url},
                    nontrivial=':' in url)

    # urljoin / iri_to_uri / url_join / get_url_attribute / _find_base_url ------------------------
    @staticmethod
    def gen_url(rng, relative_bias=0.5):
        """A URL or relative reference from a small grammar (no `[` `]`: IPv6 literals are outside the model)."""
        seg = lambda: rng.choice(['a', 'b', 'dir', '.', '..', '', 'x.png', 'a b', 'c;p=1', 'é', '%41', 'q~', "it's", '日本', '😀'])  # noqa: E731
        path = '/'.join(seg() for _ in range(rng.randrange(0, 5)))
        query = rng.choice(['', '', '', '?', '?k=v', '?a=1&b=2', '?q;x'])
        fragment = rng.choice(['', '', '', '#', '#frag', '#a/b'])
        r = rng.random()
        if r < relative_bias:
            lead = rng.choice(['', '', '', '/', '//other.test/', './', '../', '../../', ';p', '?only', '#only'])
            url = lead + path + query + fragment
        else:
            scheme = rng.choice(['http', 'https', 'file', 'HTTP', 'ftp', 'data', 'mailto', 'x-foo', 'svn+ssh', 'h', 'ws'])
            netloc = rng.choice(['//a.test', '//a.test:80', '//u@a.test', '//', '', '/', '//A.TEST'])
            url = f'{scheme}:{netloc}{"/" if path and netloc and rng.random() < 0.8 else ""}{path}{query}{fragment}'
        if rng.random() < 0.06:
            url = rng.choice([' ', '\t', '\x01', '\n']) + url
        if rng.random() < 0.04:
            i = rng.randrange(len(url) + 1)
            url = url[:i] + rng.choice(['\t', '\n', '\r', ' ']) + url[i:]
        return url

    def sec_url_resolution(self, run):
        from urllib.parse import urljoin as real_urljoin
        from weasyprint import _find_base_url
        from weasyprint.urls import get_url_attribute, iri_to_uri
        sec = run.section('url-resolution', 'urllib.parse.urljoin / urlparse, iri_to_uri, get_url_attribute (url_join) and '
                          '_find_base_url on generated base / reference pairs (schemes, authorities, dot segments, params, '
                          'queries, fragments, control characters, non-ASCII); non-trivial = the reference is relative')
        fixed = [('http://a/b/c/d;p?q', r) for r in (
            'g:h', 'g', './g', 'g/', '/g', '//g', '?y', 'g?y', '#s', 'g#s', 'g?y#s', ';x', 'g;x', 'g;x?y#s', '', '.', './',
            '..', '../', '../g', '../..', '../../', '../../g', '../../../g', '../../../../g', '/./g', '/../g', 'g.', '.g',
            'g..', '..g', './../g', './g/.', 'g/./h', 'g/../h', 'g;x=1/./y', 'g;x=1/../y', 'g?y/./x', 'g#s/./x', 'http:g')]
        pairs = fixed + [('', self.gen_url(run.rng)) for _ in range(30)] + [(self.gen_url(run.rng, 0.1), '') for _ in range(30)]
        pairs += [(self.gen_url(run.rng, 0.15), self.gen_url(run.rng, 0.7)) for _ in range(run.n(1500, 20000))]
        for base, ref in pairs:
            relative = ':' not in ref.split('/')[0]
            sec.add(sx.line('urljoin', enc(base), enc(ref)), enc(outcome_class(lambda: real_urljoin(base, ref))),
                    meta={'base': base, 'ref': ref}, nontrivial=relative, tags=['join-relative' if relative else 'join-absolute'])
            parsed = urlparse(ref)
            sec.add(sx.line('urlparse', enc(ref)), ' '.join(enc(x) for x in parsed), meta={'ref': ref}, nontrivial=relative,
                    tags=['parse'])
            sec.add(sx.line('iri', enc(ref)), enc(outcome_class(lambda: iri_to_uri(ref))), meta={'ref': ref},
                    nontrivial=any(ord(c) > 127 or c in ' "<>' for c in ref), tags=['iri'])
            attr = run.rng.choice([ref, ref, f' {ref} ', f'\n{ref}\t', None, '', '   '])
            doc_base = run.rng.choice([base, base, None, ''])
            allow = run.rng.random() < 0.5
            element = ElementTreeElement('a', {} if attr is None else {'href': attr})
            sec.add(sx.line('urlattr', enc(attr), enc(doc_base), allow),
                    enc(outcome_class(lambda: get_url_attribute(element, 'href', doc_base, allow))),
                    meta={'attr': attr, 'base': doc_base, 'allow': allow}, nontrivial=relative,
                    tags=['attr-allow-relative' if allow else 'attr-strict'])
            html = ElementTreeElement('html', {})
            href = run.rng.choice([ref, f' {ref}', None, '', ' '])
            if run.rng.random() < 0.8:
                from xml.etree import ElementTree
                ElementTree.SubElement(html, 'base', {} if href is None else {'href': href})
                shown = href
            else:
                shown = None
            sec.add(sx.line('findbase', enc(shown), enc(doc_base)),
                    enc(outcome_class(lambda: _find_base_url(html, doc_base))),
                    meta={'href': shown, 'base': doc_base}, nontrivial=shown is not None, tags=['find-base'])

    # RasterImage.__init__ -------------------------------------------------------------------
    def sec_raster(self, run):
        from PIL import Image
        from weasyprint import DEFAULT_OPTIONS
        from weasyprint.images import RasterImage
        sec = run.section('raster-source', 'RasterImage.__init__ on real Pillow images: format and data source (original bytes '
                          'in memory / re-encoded / LazyLocalImage path) or the exception of Pillow\'s save; non-trivial = a filename is given, or '
                          'Pillow cannot write the mode as PNG')
        contents = [c for c in R.bank().values() if c.pil is not None]
        filenames = [None, '', '/tmp/c20-named/a.png']
        combos = list(itertools.product(contents, ORIENTATIONS, filenames, (False, True), (None, 60)))
        if not run.thorough:
            unwritable = [combo for combo in combos if not combo[0].pil[4]]
            combos = run.rng.sample(combos, 470) + run.rng.sample(unwritable, min(30, len(unwritable)))
        for content, orient, filename, optimize, quality in combos:
            options = dict(DEFAULT_OPTIONS, optimize_images=optimize, jpeg_quality=quality)

            def real():
                pillow = Image.open(io.BytesIO(content.data))
                with R.counting_saves() as saves:
                    image = RasterImage(pillow, 'id', content.data, filename, {}, orient, options)
                return f'{image.format} {show_src(image, saves["n"] > 0, content.data)}'
            sec.add(sx.line('raster', R.pil_sx(content.pil), orient_sx(orient), enc(filename), opts_sx((optimize, quality, None))),
                    outcome_class(real), meta={'content': content.name, 'orient': orient, 'filename': filename,
                                               'optimize': optimize, 'quality': quality},
                    nontrivial=bool(filename) or not content.pil[4],
                    tags=[content.pil[0], 'file' if filename else 'nofile'] + ([] if content.pil[4] else ['png-unwritable']))

    # get_image_from_uri ----------------------------------------------------------------------
    def sec_images(self, run):
        sec = run.section('image-sequences', 'get_image_from_uri: 1..12 requests over a shared cache, recording memory fetcher, '
                          'every failure mode (raise, not a dict, read() raises, empty, truncated, wrong MIME, HTML / XHTML '
                          'instead of image); result kind, data source, fetch events, cache; non-trivial = some fetch fails')
        for _ in range(run.n(700, 15000)):
            case = self.gen_image_case(run.rng)
            line, out, nontrivial, tags = self.run_image_case(case)
            sec.add(line, out, meta={'case': self.case_meta(case)}, nontrivial=nontrivial, tags=tags)

    @staticmethod
    def gen_image_case(rng):
        n_urls = rng.randrange(1, 7)
        pool = []
        for i in range(n_urls):
            scheme = rng.choice(['http://img.test/', 'file:///tmp/c20-named/', 'https://cdn.test/x/', 'data:image/png;base64,QUJD'])
            pool.append(scheme + f'i{i}.' + rng.choice(['png', 'jpg', 'svg', 'bin']))
        table = {}
        for url in pool:
            table[url] = R.random_spec(rng, image_names(rng), redirects=REDIRECTS)
        reqs = []
        # one cache shared by calls with the same options (one render), or with two or three option sets (renders sharing a cache)
        option_pool = [rng.choice(OPTION_SETS)] if rng.random() < 0.6 else [rng.choice(OPTION_SETS) for _ in range(rng.choice([2, 3]))]
        for _ in range(rng.randrange(1, 13)):
            url = rng.choice(pool) if rng.random() < 0.95 else 'http://img.test/unknown.png'
            reqs.append((url, rng.choice(ORIENTATIONS[:4] if rng.random() < 0.8 else ORIENTATIONS),
                         rng.choice([None, None, None, '', 'image/*', 'image/svg+xml', 'image/png']), rng.choice(option_pool)))
        return {'table': table, 'reqs': reqs}

    @staticmethod
    def case_meta(case):
        return {'table': {u: s.json() for u, s in case['table'].items()},
                'reqs': [[u, o, m, list(opts)] for u, o, m, opts in case['reqs']]}

    @staticmethod
    def case_from_meta(meta):
        return {'table': {u: Spec.from_json(j) for u, j in meta['table'].items()},
                'reqs': [(u, o if isinstance(o, str) else tuple(o), m, tuple(opts)) for u, o, m, opts in meta['reqs']]}

    @staticmethod
    def run_image_case(case):
        from weasyprint.images import get_image_from_uri
        recorder = R.Recorder(case['table'])
        cache = {}
        outs, shown = [], {}
        tags = set()
        failing = False
        if len({opts for _, _, _, opts in case['reqs']}) > 1:
            tags.add('several-option-sets')
        for url, orient, forced, opts in case['reqs']:
            spec = case['table'].get(url)
            key = cache_key(url, orient, opts)
            try:
                with R.counting_saves() as saves:
                    image = get_image_from_uri(cache, recorder, real_options(opts), url, forced, None, orient)
            except Exception as exc:  # noqa: BLE001
                text = f'err:{type(exc).__name__}'
            else:
                if key not in shown:
                    try:
                        shown[key] = show_img(image, spec, 0, saves['n'], spec.content.data if image is not None else None)
                    except AssertionError:
                        shown[key] = 'raster:foreign-bytes'     # neither the fetcher's bytes nor re-encoded in this call
                text = shown[key]
            tags.add(text.split(':')[0] if not text.startswith('err') else 'escapes')
            failing = failing or text == 'none' or text.startswith('err')
            outs.append(recorder.take() + text)
        cache_text = ','.join(f'{enc(k)}={shown[k]}' for k in cache if k in shown)
        line = sx.line('images', recorder.sx(),
                       [[enc(u), orient_sx(o), enc(m), opts_sx(opts)] for u, o, m, opts in case['reqs']])
        return line, ';'.join(outs) + f' cache=[{cache_text}]', failing, sorted(tags)

    # handle_img / handle_embed / handle_object -------------------------------------------------
    def sec_handle(self, run):
        from weasyprint import DEFAULT_OPTIONS
        from weasyprint.css import computed_from_cascaded
        from weasyprint.formatting_structure import boxes
        from weasyprint.html import handle_embed, handle_img, handle_object
        from weasyprint.images import get_image_from_uri
        sec = run.section('html-handlers', 'handle_img / handle_embed / handle_object with the real get_image_from_uri: '
                          'generated boxes (replaced / alt text / fallback / nothing); non-trivial = the image fails to load')
        contents = R.bank()
        srcs = [None, '', '  ', 'http://img.test/a.png', ' http://img.test/a.png ', 'a.png', 'sub/a.png', '#frag', 'x:']
        alts = [None, '', 'ALT', 'two words']
        bases = [None, 'http://base.test/dir/']
        handlers = {'img': (handle_img, 'src'), 'embed': (handle_embed, 'src'), 'object': (handle_object, 'data')}
        for which, src, alt, base, good in itertools.product(handlers, srcs, alts, bases, (True, False)):
            function, attr = handlers[which]
            element = ElementTreeElement(which, {k: v for k, v in ((attr, src), ('alt', alt)) if v is not None})
            box = boxes.InlineBox(which, computed_from_cascaded(None, {}, None), element, [])
            box.string_set, box.bookmark_label = [], None
            content = contents['png' if good else 'html']
            recorder = R.Recorder({})
            recorder.table = AnyUrl(Spec('resp', content=content, string=True, mime=None))
            getter = functools.partial(get_image_from_uri, cache={}, url_fetcher=recorder, options=DEFAULT_OPTIONS)

            def real():
                result = function(element, box, getter, base)
                parts = []
                for item in result:
                    if isinstance(item, boxes.ReplacedBox):
                        parts.append('replaced')
                    elif item is box and item.children and isinstance(item.children[0], boxes.TextBox):
                        parts.append('alt=' + enc(item.children[0].text))
                    elif item is box:
                        parts.append('fallback')
                    else:
                        parts.append('other')
                return '[' + ','.join(parts) + ']'
            joined = urljoin(base, src.strip()) if (base and src is not None) else None
            sec.add(sx.line('handle', which, enc(src), enc(joined), enc(alt), good), outcome_class(real),
                    meta={'which': which, 'src': src, 'alt': alt, 'base': base, 'good': good},
                    nontrivial=not good, tags=[which])

    # find_stylesheets / CSS(url=...) ------------------------------------------------------------
    def sec_css(self, run):
        sec = run.section('stylesheets', 'find_stylesheets on parsed HTML with <style>/<link> elements, nested @import / @media / '
                          '@font-face, recording fetcher with failure modes: selectors added in order, add_font_face calls, '
                          'fetch events, escaping exception; non-trivial = an @import, a failing fetch or a wrong MIME type')
        for _ in range(run.n(500, 10000)):
            line, out, gen = self.css_case(run.rng)
            sec.add(line, out, meta={'line': line}, nontrivial=bool(gen.nontrivial), tags=sorted(gen.nontrivial))
        sec2 = run.section('css-url', 'CSS(url=…, _check_mime_type=…) directly: same observables; non-trivial = fetch fails')
        for _ in range(run.n(300, 5000)):
            gen = CssGen(run.rng)
            url = gen.url()
            check = run.rng.random() < 0.5
            wire = gen.sheet(url, 2, check)
            line = sx.line('sheet', enc('print'), check, enc(url), wire)
            sec2.add(line, self.real_sheet(gen, url, check), meta={'line': line}, nontrivial=bool(gen.nontrivial),
                     tags=sorted(gen.nontrivial))

    @staticmethod
    def real_sheet(gen, url, check):
        from weasyprint import CSS
        recorder = R.Recorder(gen.table)
        acts = []
        err = 'ok'
        rules = []
        try:
            css = CSS(url=url, url_fetcher=recorder, _check_mime_type=check, media_type='print',
                      font_config=FontStub(acts), counter_style={}, page_rules=[])
            rules = matcher_rules(css)
        except Exception as exc:  # noqa: BLE001
            err = f'err:{type(exc).__name__}'
            rules = None
        fonts = ','.join(f[1][1:] for f in acts)
        if rules is None:
            return f'rules=* fonts=[{fonts}] log={recorder.log()} {err}'
        return f'rules=[{",".join(map(str, rules))}] fonts=[{fonts}] log={recorder.log()} {err}'

    @staticmethod
    def css_case(rng):
        import tinyhtml5
        import cssselect2
        from weasyprint.css import find_stylesheets
        gen = CssGen(rng)
        base = rng.choice([None, 'http://base.test/dir/'])
        head, els = [], []
        for _ in range(rng.randrange(1, 6)):
            type_attr = rng.choice([None] * 5 + ['text/css', ' text/css ; charset=x', 'text/plain', 'TEXT/CSS', ''])
            media_attr = rng.choice([None] * 5 + ['print', ' screen , print ', 'screen', 'all', '  ', 'Print'])
            attrs = ''
            if type_attr is not None:
                attrs += f' type="{type_attr}"'
            if media_attr is not None:
                attrs += f' media="{media_attr}"'
            if rng.random() < 0.4:
                text, wires = gen.items(2, base)
                head.append(f'<style{attrs}>{text}</style>')
                els.append(['el', False, enc(type_attr), enc(media_attr), 'none', 'none', 'none', wires,
                            ['sheet', 'notdict', []]])
            else:
                rel = rng.choice(['stylesheet'] * 6 + ['STYLESHEET', 'alternate stylesheet', ' stylesheet\tfoo ', 'icon',
                                                       None, ''])
                absolute = rng.random() < 0.7
                url = gen.url()
                href = url if absolute else url.rsplit('/', 1)[1]
                if not absolute and base:
                    url = urljoin(base, href)
                href_attr = rng.choice([href] * 8 + [f' {href} ', '', None])
                wire = gen.sheet(url, 2, True)
                if href_attr is not None:
                    attrs += f' href="{href_attr}"'
                if rel is not None:
                    attrs += f' rel="{rel}"'
                head.append(f'<link{attrs}>')
                joined = urljoin(base, href_attr.strip()) if (base and href_attr is not None) else None
                els.append(['el', True, enc(type_attr), enc(media_attr), enc(rel), enc(href_attr), enc(joined), [], wire])
        html = '<html><head>' + ''.join(head) + '</head><body></body></html>'
        tree = tinyhtml5.parse(html, namespace_html_elements=False)
        wrapper = cssselect2.ElementWrapper.from_html_root(tree, content_language=None)
        recorder = R.Recorder(gen.table)
        acts, rules, err = [], [], 'ok'
        try:
            for css in find_stylesheets(wrapper, 'print', recorder, base, FontStub(acts), {}, []):
                rules.extend(matcher_rules(css))
        except Exception as exc:  # noqa: BLE001
            err = f'err:{type(exc).__name__}'
            rules = None
        fonts = ','.join(f[1][1:] for f in acts)
        rules_text = '*' if rules is None else '[' + ','.join(map(str, rules)) + ']'
        out = f'rules={rules_text} fonts=[{fonts}] log={recorder.log()} {err}'
        return sx.line('css', enc('print'), els), out, gen

    # add_font_face ---------------------------------------------------------------------------------
    def sec_fonts(self, run):
        from weasyprint.text.fonts import FontConfiguration
        sec = run.section('font-face', 'FontConfiguration.add_font_face: src lists (url / local / internal / broken) x fetch '
                          'failure modes x font data (valid otf/woff/woff2, garbage, wrong type, and real fonts truncated at many offsets / '
                          'with an inverted byte / with a wrong magic number); fetch events, '
                          'installed font, bytes written, warning, escaping exception; non-trivial = some entry fails')
        config = FontConfiguration()
        R.cleanup_at_exit(config)
        local_name, local_uri = system_font()
        key_counter = itertools.count(1)
        contents = R.bank()
        # fixed family, run first: two rules for one font-family (same descriptors but `src`): the first one is served
        # unusable data (delivered, so written to the face's file before fontconfig refuses it), the second a valid font
        fixed = []
        for bad in ('html', 'empty', 'otf_cut', 'garbage', 'woff_bad', 'png'):
            first, second = next(key_counter), next(key_counter)
            urls = [f'http://fonts.test/k{first}-0.otf', f'http://fonts.test/k{second}-0.otf']
            fixed.append(({urls[0]: Spec('resp', content=contents[bad], string=True, mime='font/otf'),
                           urls[1]: Spec('resp', content=contents['otf'], string=True, mime='font/otf')},
                          [(first, [('external', urls[0])]), (second, [('external', urls[1])])],
                          {first: f'c20fam{first}', second: f'c20fam{first}'}))
        for index in range(len(fixed) + run.n(300, 5000)):
            rng = run.rng
            table, faces, families = {}, [], {}
            if index < len(fixed):
                table, faces, families = fixed[index]
            for _ in range(rng.randrange(1, 4) if index >= len(fixed) else 0):
                reuse = faces and rng.random() < 0.2
                if reuse:
                    faces.append(rng.choice(faces))
                    continue
                key = next(key_counter)
                # several rules of one family (other descriptors equal): each has its own file, its own fetches
                families[key] = families[faces[0][0]] if (faces and rng.random() < 0.4) else f'c20fam{key}'
                srcs = []
                for j in range(rng.randrange(1, 5)):
                    r = rng.random()
                    if r < 0.65:
                        url = f'http://fonts.test/k{key}-{j}.' + rng.choice(['otf', 'woff', 'woff2'])
                        table[url] = R.random_spec(rng, font_names(rng), mimes=[None, 'font/otf', 'font/woff2', 'text/html'])
                        srcs.append(('external', url))
                    elif r < 0.72:
                        srcs.append(('external', None))
                    elif r < 0.78:
                        srcs.append(('internal', 'x'))
                    elif r < 0.9 and local_name:
                        table[local_uri] = R.random_spec(rng, font_names(rng))
                        srcs.append(('local', local_name))
                    else:
                        srcs.append(('local', 'No Such Font C20'))
                # a rule identical to an earlier one (same family, same src list) is the same rule for add_font_face
                # (its file name hashes family, descriptors and src): it is the model's "rule written before"
                twin = next(((k2, s2) for k2, s2 in faces if families.get(k2) == families[key] and s2 == srcs), None)
                if twin is not None:
                    del families[key]
                    faces.append(twin)
                else:
                    faces.append((key, srcs))
            recorder = R.Recorder(table)
            outs, failing = self.run_font_case(config, recorder, faces, families)
            faces_wire = [[key, [font_src_sx(s, local_name, local_uri) for s in srcs]] for key, srcs in faces]
            line = sx.line('fonts', recorder.sx(), faces_wire)
            damaged = any(spec.kind == 'resp' and '@' in spec.content.name for spec in table.values())
            sec.add(line, ' | '.join(outs),
                    meta={'table': {u: spec.json() for u, spec in table.items()},
                          'faces': [[key, [list(src) for src in srcs]] for key, srcs in faces],
                          'families': {str(k): v for k, v in families.items()}},
                    nontrivial=failing, tags=['fails' if failing else 'loads'] + (['damaged-font-data'] if damaged else []) +
                    (['rules-sharing-a-family'] if len(set(families.values())) < len(families) else []))

    @staticmethod
    def run_font_case(config, recorder, faces, families=None):
        """The real add_font_face on each face in turn -> (one observable line per face, some entry failed)."""
        from weasyprint.text.ffi import ffi, fontconfig

        def app_fonts():
            fonts = fontconfig.FcConfigGetFonts(config._config, fontconfig.FcSetApplication)
            return 0 if fonts == ffi.NULL else fonts.nfont
        outs, failing = [], False
        for key, srcs in faces:
            family = (families or {}).get(key) or (families or {}).get(str(key)) or f'c20fam{key}'
            descriptors = {'font_family': family, 'src': [tuple(src) for src in srcs]}
            before = app_fonts()
            written = []
            with R.captured_log() as log, recording_writes(written, recorder):
                try:
                    config.add_font_face(descriptors, recorder)
                    err = 'ok'
                except Exception as exc:  # noqa: BLE001
                    err = f'err:{type(exc).__name__}'
            warned = any('cannot be loaded' in r.getMessage() for r in log.records if r.levelname == 'WARNING')
            installed = 'none'
            if app_fonts() > before:
                installed = str(written[-1])
            failing = failing or warned or err != 'ok' or len(written) > 1
            outs.append(f'log={recorder.take()} installed={installed} written=[{",".join(map(str, written))}] '
                        f'warned={str(warned).lower()} {err}')
        return outs, failing

    # attachments -------------------------------------------------------------------------------------
    def sec_attachments(self, run):
        import pydyf
        from weasyprint import Attachment
        from weasyprint.matrix import Matrix
        from weasyprint.pdf.anchors import add_annotations, write_pdf_attachment
        sec = run.section('attachments', 'write_pdf_attachment and add_annotations with failing fetchers: embedded bytes or '
                          'None, one fetch per distinct target; non-trivial = a fetch fails')
        names = ['png', 'css', 'empty', 'html', 'otf', 'garbage']
        by_md5 = md5_index()
        for _ in range(run.n(300, 5000)):
            rng = run.rng
            url = rng.choice(['http://files.test/', 'file:///tmp/c20-named/']) + f'a{rng.randrange(50)}.bin'
            spec = R.random_spec(rng, names, fail=0.5)
            recorder = R.Recorder({url: spec})

            def real():
                pdf = pydyf.PDF()
                result = write_pdf_attachment(pdf, Attachment(url=url, url_fetcher=recorder), False)
                return 'none' if result is None else attachment_id(pdf, result, by_md5)
            out = outcome_class(real)
            sec.add(sx.line('attach', recorder.sx(), enc(url)), recorder.log() + ' ' + out, meta={'url': url, 'spec': spec.json()},
                    nontrivial=not spec.delivers, tags=[spec.kind if spec.kind != 'resp' else ('delivers' if spec.delivers else 'read-fails')])
        # the same Attachment object written twice (two write_pdf of one document): fetched again, same outcome (a0bb005)
        for _ in range(run.n(80, 1000)):
            rng = run.rng
            url = f'http://files.test/t{rng.randrange(50)}.bin'
            spec = R.random_spec(rng, names, fail=0.5)
            recorder = R.Recorder({url: spec})
            attachment = Attachment(url=url, url_fetcher=recorder)

            def once():
                pdf = pydyf.PDF()
                result = write_pdf_attachment(pdf, attachment, False)
                return 'none' if result is None else attachment_id(pdf, result, by_md5)
            outs = [outcome_class(once), outcome_class(once)]
            sec.add(sx.line('attach2', recorder.sx(), enc(url)), recorder.log() + ' ' + ' '.join(outs),
                    meta={'url': url, 'spec': spec.json(), 'twice': True}, nontrivial=not spec.delivers, tags=['written-twice'])
        for _ in range(run.n(200, 3000)):
            rng = run.rng
            pool = [f'http://files.test/l{i}.bin' for i in range(rng.randrange(1, 5))]
            table = {u: R.random_spec(rng, names, fail=0.4) for u in pool}
            targets = [rng.choice(pool) for _ in range(rng.randrange(1, 9))]
            recorder = R.Recorder(table)

            def real():
                pdf = pydyf.PDF()
                page = pydyf.Dictionary({})
                annot_files = {}
                links = [('attachment', t, (0, 0, 10, 10), None) for t in targets]
                links.insert(0, ('external', 'http://not-an-attachment.test/', (0, 0, 1, 1), None))
                document = type('D', (), {'url_fetcher': recorder})()
                add_annotations(links, Matrix(), document, pdf, page, annot_files, False)
                shown = []
                for t in targets:
                    spec_file = annot_files[t]
                    shown.append('none' if spec_file is None else attachment_id(pdf, spec_file, by_md5))
                n_annots = len(page.get('Annots', []))
                assert n_annots == sum(1 for s in shown if s != 'none'), (n_annots, shown)
                return '[' + ','.join(shown) + ']'
            out = outcome_class(real)
            sec.add(sx.line('annots', recorder.sx(), [enc(t) for t in targets]), recorder.log() + ' ' + out,
                    meta={'targets': targets}, nontrivial=any(not table[t].delivers for t in targets),
                    tags=[f'targets{min(len(set(targets)), 4)}'])

    # ------------------------------------------------------------------------- judge / search / replay
    def judge(self, d):
        """Does the implementation's output on this input violate a clause of C20 itself?"""
        sec, impl, meta = d['section'], d['impl'], d.get('meta') or {}
        if sec not in ('fetch', 'url-resolution', 'url-parts', 'trace-checker'):
            # "… by calling the url_fetcher with the absolute URL": whatever the section, a relative URL handed to the fetcher
            import re
            from weasyprint.urls import url_is_absolute
            for match in re.finditer(r"call=('[^,\]\s]*)", impl):
                called = c20_doc.decode(match.group(1))
                if called != 'None' and not url_is_absolute(called):
                    return f'the fetcher was called with {called!r}, which is not an absolute URL'
        if sec == 'fetch':
            spec = meta['spec']
            events, _, outcome = impl.partition(' ')
            if spec['kind'] == 'raises':
                if not outcome.startswith('err:URLFetchingError:'):
                    return (f'the fetcher raised {spec["exc"][0]} and fetch() let {outcome.split(":")[1] if outcome.startswith("err:") else outcome!r} '
                            f'out instead of URLFetchingError')
                if 'body' in events:
                    return 'the with-body was entered although the fetcher raised'
            if spec['kind'] == 'resp':
                closes = events.count('close')     # close + closewarn
                if spec['file_obj'] is not None and closes != 1:
                    return f'the file object returned by the fetcher was closed {closes} times (must be exactly once): {events}'
                if spec['file_obj'] is None and closes:
                    return 'close event without file object'
                if meta['body'] is None and outcome.startswith('err:'):
                    return f'fetch() raised {outcome} for a well-formed result and a body that returns'
                if meta['body'] is None and spec['redirected'] is None and f'red={enc(meta["url"])}' not in outcome:
                    return f'redirected_url does not default to the requested URL: {outcome}'
            return None
        if sec in ('image-sequences', 'image-sequences-disk-cache'):
            return self.judge_images(self.case_from_meta(meta['case']), impl)
        if sec == 'background-layers':
            return c20_bg.judge(meta)
        if sec == 'svg-nesting':
            return c20_svg.judge(d)
        if sec == 'box-paint':
            return c20_paint.judge(meta)
        if sec == 'select-source':
            return c20_source.judge(d)
        if sec == 'html-handlers':
            expected_failed = {'img': [f'[alt={enc(meta["alt"])}]' if meta['alt'] else '[]'], 'embed': ['[]'],
                               'object': ['[fallback]']}[meta['which']]
            if not meta['good'] and impl not in expected_failed:
                return (f'<{meta["which"]}> whose image fails to load gives {impl}; without the reference it gives '
                        f'{expected_failed[0]}')
            return None
        if sec in ('stylesheets', 'css-url'):
            escaping = any(marker in d['line'] for marker in ('notdict', "(fo ('", '(resp false none'))
            if impl.split(' ')[-1].startswith('err:') and not escaping and not (sec == 'css-url' and
                                                                               impl.endswith('err:URLFetchingError')):
                return f'stylesheet loading raised {impl.split(" ")[-1]} although every fetch failure is a plain failure mode'
            return None
        if sec == 'font-face':
            for part in impl.split(' | '):
                if 'err:' in part:
                    return f'add_font_face raised {part.split(" ")[-1]} (a src entry that fails must be skipped)'
            for real, model in zip(impl.split(' | '), d['model'].split(' | ')):
                if 'installed=none' in real and 'installed=none' not in model:
                    return ('a correctly served font of the src list was not installed: after a failing entry the following '
                            f'entries must be tried (implementation: {real}; expected: {model})')
                if 'installed=none' not in real and 'installed=none' in model and ' ok' in real:
                    return f'a font was installed although no src entry delivers a usable font ({real})'
            return None
        if sec == 'attachments' and 'spec' in meta and meta.get('twice'):
            first, second = impl.split(' ')[-2:]
            for outcome in (first, second):
                what = self.judge({**d, 'impl': 'x ' + outcome, 'meta': {k: v for k, v in meta.items() if k != 'twice'}})
                if what:
                    return what
            if first != second:
                return f'the same attachment written twice gives {first} then {second}'
            return None
        if sec == 'attachments' and 'spec' in meta:
            spec = meta['spec']
            outcome = impl.split(' ')[-1]
            if spec['kind'] == 'raises' and outcome != 'none':
                return f'write_pdf_attachment gives {outcome} for a fetch that raises (must be None)'
            delivers = spec['kind'] == 'resp' and (spec['string'] or (spec['file_obj'] and spec['file_obj'][0] is None))
            if delivers and outcome == '0':
                return 'write_pdf_attachment embeds bytes that are not the bytes returned by the fetcher'
            if delivers and (outcome == 'none' or outcome.startswith('err:')):
                return f'write_pdf_attachment gives {outcome} for a resource served correctly'
            return None
        if sec == 'raster-source':
            if not meta['filename'] and 'local=' in impl:
                return 'RasterImage reads from a local file although no file name was given'
            if (meta['optimize'] or meta['orient'] not in ('none', 'from-image', [0, False], (0, False))) and 'local=' in impl:
                return ('RasterImage re-encodes the image (optimize_images / rotation) but keeps a LazyLocalImage: the bytes '
                        'embedded are re-read from the local path, not those computed from the fetched data')
            return None
        if sec in ('documents', 'kind-x-failure-matrix'):
            return self.judge_document(meta, impl)
        if sec == 'trace-checker':
            if 'shape=false' in d['model']:
                return ('the recorded fetch trace is not a sequence of `call [close]` fetches (a file object closed twice, '
                        f'never opened, or closed after the next call): {meta["events"][:12]}')
            if 'within=false' in d['model']:
                return ('the fetcher was called with a URL that the document does not name (not the absolute URL of a '
                        f'reference): {[e for e in meta["events"] if e.startswith("call=")][:8]}')
        return None

    @staticmethod
    def judge_images(case, impl):
        outs = impl.rsplit(' cache=', 1)[0].split(';')
        fetched = {}
        for (url, orient, forced, opts), out in zip(case['reqs'], outs):
            events, _, result = out.partition(']')
            spec = case['table'].get(url)
            escaping = spec is not None and spec.escaping
            key = cache_key(url, orient, opts)
            if result.startswith('err:') and not escaping:
                return (f'get_image_from_uri raised {result[4:]} for {url!r} whose fetch '
                        f'{"raises" if spec is None or spec.kind == "raises" else "returns bytes"} (must return an image or None)')
            if result == 'raster:foreign-bytes':
                return (f'{url!r}: the image returned holds bytes that are neither the bytes the fetcher returned for it nor '
                        f're-encoded from them in this call (options {opts}): an entry cached under other image options')
            if 'call=' in events and fetched.get(key):
                return f'{url!r} fetched again although (URL, orientation, image options) was already loaded or failed'
            if not result.startswith('err:'):
                fetched[key] = True
            location = (spec.redirected if (spec is not None and spec.kind == 'resp' and spec.redirected) else url)
            if ':local=' in result and urlparse(location).scheme != 'file':
                return (f'{url!r}: the location reported by the fetcher ({location!r}) is not a file: URL, yet the image data is '
                        f're-read from a local path ({result})')
            if spec is None or spec.kind == 'raises' or (spec.delivers and not spec.content.image_loads):
                if result != 'none' and not result.startswith('err:'):
                    return f'{url!r} cannot be loaded but get_image_from_uri returned {result}'
            elif spec.delivers and spec.content.image_loads and result == 'none':
                return f'{url!r} was served correctly but get_image_from_uri returned None'
        return None

    @staticmethod
    def judge_document(meta, impl):
        if 'HarnessTimeout' in impl:
            return (f'render / write_pdf did not finish within {c20_doc.CASE_SECONDS} s on a document of a few elements '
                    f'({impl.split("render=")[1].split(" ")[0]})')
        if 'STRAY-FETCH' in impl:
            return 'a resource was fetched outside the stage of its kind: ' + impl.split('STRAY-FETCH=')[1][:200]
        if 'NETWORK' in impl:
            return 'network access behind the fetcher: ' + impl.split('NETWORK=')[1][:200]
        if 'absent=DIFF' in impl:
            return 'the result differs from the result of the document without the failed references'
        if 'absent=PAINT-DIFF' in impl:
            return c20_doc.PAINT_DIFF
        if 'absent=CATALOG-DIFF' in impl:
            return c20_doc.CATALOG_DIFF + ': ' + impl.split('absent=CATALOG-DIFF:')[1].split(' ')[0]
        if meta.get('svg_only_escapes') and ' render=ok' in impl and ' write=err:' in impl and 'FileNotFoundError' not in impl:
            return ('write_pdf raised ' + impl.split(' write=err:')[1].split(' ')[0] + ' because a resource referenced from '
                    'inside an SVG image could not be read: drawing an SVG must absorb the failures of its references')
        if meta.get('plain'):
            for stage in ('render', 'write'):
                marker = f' {stage}=err:'
                if marker in impl:
                    return (f'{stage} raised {impl.split(marker)[1].split(" ")[0]} although every fetch failure is a plain '
                            f'failure mode')
            if "opens=['" in impl:
                return 'a file named by the document was opened behind the fetcher: ' + impl.split('opens=')[1].split(' ')[0]
            replay_input = meta.get('replay')
            if replay_input:
                return c20_doc.replay({'input': replay_input})
        return None

    def rejudge(self, inp):
        """Replay of a judged function-level disagreement: re-run the real function where the case is recorded."""
        sec, meta = inp.get('section'), inp.get('meta') or {}
        docs.quiet()
        R.bank()
        if sec == 'image-sequences':
            case = self.case_from_meta(meta['case'])
            _, out, _, _ = self.run_image_case(case)
            return self.judge_images(case, out)
        if sec == 'image-sequences-disk-cache':
            case = self.case_from_meta(meta['case'])
            _, out, _, _ = c20_bg.run_disk_case(self, case)
            return self.judge_images(case, out)
        if sec == 'background-layers':
            return c20_bg.judge(meta)
        if sec == 'svg-nesting':
            return c20_svg.rejudge(meta)
        if sec == 'box-paint':
            return c20_paint.judge(meta)
        if sec == 'fetch':
            from weasyprint.urls import fetch
            body = meta.get('body_json')
            body_exc = None if body is None else Spec.from_json({'kind': 'raises', 'exc': body}).exc
            out = self.real_fetch(fetch, Spec.from_json(meta['spec']), meta['url'], body_exc)
            return self.judge({**inp, 'impl': out})
        if sec in ('documents', 'kind-x-failure-matrix') and meta.get('replay'):
            return c20_doc.replay({'input': meta['replay']})
        if sec in ('documents', 'kind-x-failure-matrix') and meta.get('absent'):
            return c20_doc.absent_check(meta['absent'])
        if sec == 'font-face' and 'table' in meta:
            from weasyprint.text.fonts import FontConfiguration
            config = FontConfiguration()
            R.cleanup_at_exit(config)
            recorder = R.Recorder({u: Spec.from_json(j) for u, j in meta['table'].items()})
            outs, _ = self.run_font_case(config, recorder, meta['faces'], meta.get('families'))
            return self.judge({**inp, 'impl': ' | '.join(outs)})
        return self.judge(inp)

    def search(self, run, failures):
        return c20_doc.search(run, failures)

    def finding_replays(self):
        return c20_doc.finding_replays()

    def replay(self, data):
        return c20_doc.replay(data)


# ----------------------------------------------------------------------------------------------------
# small helpers

def ElementTreeElement(tag, attrib):
    from xml.etree import ElementTree
    return ElementTree.Element(tag, attrib)


class AnyUrl(dict):
    """A fetch table serving the same response for every URL."""

    def __init__(self, spec):
        super().__init__()
        self.spec = spec

    def get(self, url, default=None):
        return self.spec

    def items(self):
        return []


@functools.lru_cache(maxsize=1)
def system_font():
    """(fullname, file URI) of a font that fontconfig finds by its full name, or (None, None)."""
    import subprocess
    try:
        out = subprocess.run(['fc-match', '-f', '%{fullname}|%{file}', 'DejaVu Sans'], capture_output=True, text=True,
                             timeout=20).stdout
        name, path = out.split('|', 1)
        name = name.split(',')[0]
        if name and Path(path).exists():
            return name, Path(path).as_uri()
    except Exception:  # noqa: BLE001
        pass
    return None, None


def font_src_sx(src, local_name, local_uri):
    kind, value = src
    if kind == 'internal':
        return 'internal'
    if kind == 'external':
        return ['ext', enc(value)]
    found = True     # FcFontMatch always returns the closest font
    return ['local', enc(value), found, value == local_name, enc(local_uri if value == local_name else 'file:///none')]


class recording_writes:
    """Record `Path.write_bytes` calls as the id of the content most recently served by the fetcher."""

    def __init__(self, written, recorder):
        self.written, self.recorder = written, recorder

    def __enter__(self):
        self.original = Path.write_bytes
        written, recorder, original = self.written, self.recorder, self.original

        def write_bytes(path, data):
            written.append(recorder.last_content.id if recorder.last_content is not None else 0)
            return original(path, data)
        Path.write_bytes = write_bytes

    def __exit__(self, *exc):
        Path.write_bytes = self.original


@functools.lru_cache(maxsize=1)
def md5_index():
    from hashlib import md5
    return {md5(c.data, usedforsecurity=False).hexdigest(): c.id for c in R.bank().values()}


def attachment_id(pdf, filespec, by_md5):
    """Content id of the embedded file a /Filespec points to (through its CheckSum and its bytes)."""
    from hashlib import md5
    reference = filespec['EF']['F']
    number = int(reference.split()[0])
    stream = pdf.objects[number]
    data = b''.join(stream.stream)
    digest = md5(data, usedforsecurity=False).hexdigest()
    assert stream.extra['Params']['CheckSum'] == f'<{digest}>'
    assert stream.extra['Params']['Size'] == len(data)
    return str(by_md5.get(digest, 0))


PROP = C20()

MANIFEST = {
    'design_ref': 'DESIGN.md §4 C20',
    'technique': 'Lean 4 theorems over a control-flow model of the fetch funnel, of URL resolution (urljoin, iri_to_uri, url_join, '
                 'get_url_attribute, <base>), of every loader (images, stylesheets, @import, @font-face, attachments, SVG <image> / '
                 '<use>) and of their composition in render / write_pdf; a verified trace checker (proved to accept every model '
                 'trace) run on every log recorded from the real code; executable correspondence with the real functions under a '
                 'recording memory fetcher with every failure mode, including a complete resource-kind x failure-kind matrix of '
                 'documents; a whitelist fact over the open()/read_bytes()/urlopen()/fetch() call sites regenerated from the source '
                 'by an AST scan; document-level runs under sys.addaudithook compared with the model and with the reference-free '
                 'document',
    'text': 'Proved for all inputs on the model: any fetcher exception becomes URLFetchingError, the fetcher is called once and '
            'a file object is closed exactly once on every path; every trace of every loader and of the whole document is a '
            'sequence of call [body [close]] fetches and only asks for URLs the document names; the URL handed to the fetcher is '
            'absolute and ASCII (iri_to_uri idempotent, urljoin of a relative reference against a hierarchical base keeps the '
            'base scheme); get_image_from_uri returns an image or None for every fetch outcome that fails at the fetcher or '
            'delivers bytes (any bytes), caches failures, fetches each (URL, orientation) at most once; find_stylesheets / @import '
            '/ write_pdf_attachment never raise under the same hypothesis, add_font_face and SVG drawing under none; a failing '
            '<img>, <embed>, <object>, CSS image, <link>, @import, font src entry or attachment leaves exactly what the document '
            'without it leaves — for images through the shared cache, for every later reference; the whole pipeline completes and '
            'opens no local file on every document whose fetches are absorbed; the bytes embedded at write time are the '
            'fetcher\'s unless the reported location is a file: URL; every layer of a multi-layer background keeps its own '
            'size / position / repeat / origin / clip / attachment and a url() layer that fails gives the layers of the same '
            'declaration with none in its place; drawing SVG images that include SVG images terminates for every graph of '
            'references (the _drawing flag bounds the depth by the number of image keys), its trace has the fetch shape and asks '
            'only for hrefs of the SVGs involved; get_image_from_uri on a DiskCache (cache option as a folder) does what it does '
            'on a dict, a failed load stays a cached None. Call sites that open files, URLs or sockets, call sites of the '
            'fetcher, and the except clauses of every loader are regenerated from the source each run and checked against '
            'whitelists.',
    'note': 'Partial: which files and sockets the process opens is runtime behaviour, observed by an audit hook on generated '
            'documents only. Theorems named _partial carry the hypothesis that excludes known findings, each with a Lean witness '
            'replayed on the implementation every run: LazyLocalImage re-reads file: URLs at write time (F19); a file object whose '
            'read() raises escapes from image / stylesheet / attachment loading; well-formed non-SVG XML is accepted as an image; '
            'an external SVG <use> bypasses fetch() and never closes the file object; an @import cycle ends in '
            'RecursionError. Repaired and kept as regression inputs: SVG <image> without href (799e002), self-referencing SVG '
            '(9598d29), image Pillow cannot re-encode (d7dc388), font data then local() (829d022). Third-party parsers (Pillow, ElementTree, fontTools, fontconfig, tinycss2) are parameters of the model; '
            'urllib.parse.urljoin is modelled (ASCII authority without brackets).',
}
